(* C18 — Interest and savings accrual is non-negative, monotone and zero over zero time; the
   rate model is monotone in utilisation, starts at the base rate, is continuous at the kink,
   and the lend rate never exceeds the borrow rate.
   Property theorems only; each is closed by a lemma proved in Proofs/.  Dec values are their
   10^18-scaled integers ("ulp" = 10^-18); floats are integers in units of 2^-1074.          *)
From Comdex Require Import Lib.Base Lib.DecArith Lib.F64 Model.Accrual Model.AccrualFast Model.Pow Model.Rates Model.AccrualSites
  Proofs.AccrualProofs Proofs.AccrualFastProofs Proofs.PowProofs Proofs.CmpSubaddProofs Proofs.RatesProofs Proofs.AccrualSitesProofs
  Model.AccrualPair Proofs.AccrualPairProofs.

(* ============ (i) index accrual: CalculateLendReward / CalculateBorrowInterest ============ *)
(* how the three lend functions reach the common step: negative elapsed time is an error, a
   position that never accrued (stored time 0) accrues over zero time *)
Theorem c18_idx_wrappers : forall now last amt rate rrate gi rgi,
  (lend_secs now last < 0 -> lend_reward now last amt rate gi = Err 1 /\
                             borrow_interest now last amt rate rrate gi rgi = Err 1 /\
                             stable_interest now last amt rate = Err 1) /\
  lend_secs now 0 = 0 /\
  (forall new igc, lend_reward now last amt rate gi = Ok (new, igc) ->
     0 <= lend_secs now last /\ index_accrual amt rate gi (lend_secs now last) = Some (new, igc)) /\
  (forall r1 r2, borrow_interest now last amt rate rrate gi rgi = Ok (r1, r2) ->
     0 <= lend_secs now last /\ index_accrual amt rate gi (lend_secs now last) = Some r1 /\
     index_accrual amt rrate rgi (lend_secs now last) = Some r2).
Proof.
  intros. unfold lend_reward, borrow_interest, stable_interest. split; [|split; [|split]].
  - intros H. destruct (Z.ltb_spec (lend_secs now last) 0); [auto|lia].
  - unfold lend_secs. cbn. lia.
  - intros new igc. destruct (Z.ltb_spec (lend_secs now last) 0); [discriminate|].
    destruct (index_accrual _ _ _ _) as [r|]; [|discriminate]. intros E. injection E as ->. auto.
  - intros r1 r2. destruct (Z.ltb_spec (lend_secs now last) 0); [discriminate|].
    destruct (index_accrual amt rate gi _) as [a|]; [|discriminate].
    destruct (index_accrual amt rrate rgi _) as [b|]; [|discriminate]. intros E. injection E as -> ->. auto.
Qed.
Print Assumptions c18_idx_wrappers.

(* never negative, and the stored index never decreases *)
Theorem c18_idx_nonneg : forall amt rate gi secs new igc,
  0 <= amt -> 0 <= rate -> 0 < gi -> 0 <= secs ->
  index_accrual amt rate gi secs = Some (new, igc) -> 0 <= new /\ gi <= igc.
Proof.
  intros amt rate gi secs new igc Ha Hr Hg Hs E. apply index_accrual_spec in E as (_ & -> & ->).
  split; [apply idx_nonneg; assumption|apply index_next_ge; assumption].
Qed.
Print Assumptions c18_idx_nonneg.

(* zero over zero time, and the index is unchanged *)
Theorem c18_idx_zero_time : forall amt rate gi new igc, 0 < gi ->
  index_accrual amt rate gi 0 = Some (new, igc) -> new = 0 /\ igc = gi.
Proof.
  intros amt rate gi new igc Hg E. apply index_accrual_spec in E as (_ & -> & ->).
  split; [apply idx_zero_time; assumption|].
  unfold index_next. rewrite years_zero, DecFacts.dmul_zero_r, Z.add_0_r. apply DecFacts.dmul_one.
Qed.
Print Assumptions c18_idx_zero_time.

(* never decreases when the elapsed time, the principal or the rate increases *)
Theorem c18_idx_monotone : forall amt amt' rate rate' gi secs secs' new igc new' igc',
  0 <= amt -> amt <= amt' -> 0 <= rate -> rate <= rate' -> 0 < gi -> 0 <= secs -> secs <= secs' ->
  index_accrual amt rate gi secs = Some (new, igc) ->
  index_accrual amt' rate' gi secs' = Some (new', igc') -> new <= new'.
Proof.
  intros until igc'. intros Ha Haa Hr Hrr Hg Hs Hss E E'.
  apply index_accrual_spec in E as (_ & -> & _). apply index_accrual_spec in E' as (_ & -> & _).
  apply idx_monotone; assumption.
Qed.
Print Assumptions c18_idx_monotone.

(* two consecutive accruals on the same principal (whatever positive index each of them starts
   from — in the code the second starts from the index stored by the first) never total more
   than ONE accrual over the combined interval plus
        amt * (4 + H/gi1 + H/gi2 + H/gi12)  ulps,   H = 5*10^17 ("/" = integer division).
   The slack is proportional to the principal because the index factor (18 decimals) carries the
   rounding and is then multiplied by the principal; for indices >= 1 it is 4*amt ulps.  It is
   NOT bounded by one ulp of the result: see c18_idx_excess_witness. *)
Theorem c18_idx_subadditive : forall amt rate gi1 gi2 gi12 t1 t2 n1 i1 n2 i2 n12 i12,
  0 <= amt -> 0 <= rate -> 0 < gi1 -> 0 < gi2 -> 0 < gi12 -> 0 <= t1 -> 0 <= t2 ->
  index_accrual amt rate gi1 t1 = Some (n1, i1) ->
  index_accrual amt rate gi2 t2 = Some (n2, i2) ->
  index_accrual amt rate gi12 (t1 + t2) = Some (n12, i12) ->
  n1 + n2 <= n12 + idx_slack amt gi1 gi2 gi12 /\
  (P18 <= gi1 -> P18 <= gi2 -> P18 <= gi12 -> n1 + n2 <= n12 + 4 * amt).
Proof.
  intros until i12. intros Ha Hr H1 H2 H12 Ht1 Ht2 E1 E2 E12.
  apply index_accrual_spec in E1 as (_ & -> & _). apply index_accrual_spec in E2 as (_ & -> & _).
  apply index_accrual_spec in E12 as (_ & -> & _).
  pose proof (idx_subadditive amt rate gi1 gi2 gi12 t1 t2 Ha Hr H1 H2 H12 Ht1 Ht2) as S.
  split; [exact S|]. intros G1 G2 G12. unfold idx_slack in S.
  pose proof DecFacts.P18_half. pose proof DecFacts.HALF18_pos.
  rewrite (Z.div_small HALF18 gi1), (Z.div_small HALF18 gi2), (Z.div_small HALF18 gi12) in S by lia. lia.
Qed.
Print Assumptions c18_idx_subadditive.

(* the excess is real: rate 13 %, index 1.0, 1 s then 53 828 s on principal 10^12 — the two
   accruals total 10^12 ulps (= 1 ulp of the index factor times the principal) more than the
   single accrual; and with an index that starts at 0.02 (the code initialises a position's
   index with the current APR: lend/keeper/keeper.go:226-231, 645) the excess is 63 * amt ulps *)
Theorem c18_idx_excess_witness :
  (let a := 1000000000000 in let r := 130000000000000000 in
   let i1 := 1000000004119451416 in
   let n1 := 4119451416000000000000 in let n2 := 221741830810962000000000000 in
   let n12 := 221745950262377000000000000 in
     index_accrual a r P18 1 = Some (n1, i1) /\
     index_accrual a r i1 53828 = Some (n2, 1000221745951175833) /\
     index_accrual a r P18 53829 = Some (n12, 1000221745950262377) /\
     n1 + n2 = n12 + a) /\
  (let a := 1000000000000 in let r := 10000000000000000000 in
   let g := 20000000000000000 in let i1 := 20533228128881791 in
   let n1 := 26661406444089550000000000000 in let n2 := 316880878163000000000000 in
   let n12 := 26661723324967650000000000000 in
     index_accrual a r g 84137 = Some (n1, i1) /\
     index_accrual a r i1 1 = Some (n2, 20533234635469152) /\
     index_accrual a r g 84138 = Some (n12, 20533234466499353) /\
     n1 + n2 = n12 + 63 * a).
Proof. vm_compute. repeat split. Qed.
Print Assumptions c18_idx_excess_witness.

(* ============ stable-rate interest: CalculateStableInterest ============ *)
Theorem c18_stable : forall amt perc secs r, 0 <= amt -> 0 <= perc -> 0 <= secs ->
  stable_interest secs 0 amt perc = Ok r \/ True ->
  0 <= stable_new amt perc secs /\ stable_new amt perc 0 = 0 /\
  (forall amt' perc' secs', amt <= amt' -> perc <= perc' -> secs <= secs' ->
     stable_new amt perc secs <= stable_new amt' perc' secs') /\
  (forall t2, 0 <= t2 -> stable_new amt perc secs + stable_new amt perc t2 <= stable_new amt perc (secs + t2) + 1).
Proof.
  intros amt perc secs r Ha Hp Hs _. split; [apply stable_nonneg; assumption|].
  split; [apply stable_zero_time|]. split.
  - intros. apply stable_monotone; assumption.
  - intros. apply stable_subadditive; assumption.
Qed.
Print Assumptions c18_stable.

Theorem c18_stable_spec : forall now last amt perc r,
  stable_interest now last amt perc = Ok r ->
  0 <= lend_secs now last /\ r = stable_new amt perc (lend_secs now last).
Proof. exact stable_interest_spec. Qed.
Print Assumptions c18_stable_spec.

(* ============ tracker carry: whole units are paid, the fraction is kept ============ *)
Theorem c18_carry : forall acc0 xs paid acc, 0 <= acc0 < P18 -> Forall (fun x => 0 <= x) xs ->
  carry_run acc0 xs = (paid, acc) ->
  paid * P18 + acc = acc0 + zsum xs /\ 0 <= acc < P18 /\ paid = (acc0 + zsum xs) / P18.
Proof.
  intros acc0 xs paid acc Ha Hx E. pose proof (carry_run_spec acc0 xs Ha Hx) as S. rewrite E in S. exact S.
Qed.
Print Assumptions c18_carry.

(* ============ (ii) rate model ============ *)
(* The parameters are those that AssetRatesParams.Validate accepts ([rates_valid]); the keeper
   functions behind both governance handlers store nothing else ([c18_rate_params_stored_valid]).
   Since the repair of C18-F1 validity includes UOptimal < 1, so no hypothesis on UOptimal
   remains below.  [stable] selects the curve as the IsStableBorrow flag of
   GetBorrowAPRByAssetID does. *)
Theorem c18_util_range : forall m b u, 0 <= m -> 0 <= b -> utilisation m b = Some u -> 0 <= u <= P18.
Proof. exact utilisation_range. Qed.
Print Assumptions c18_util_range.

Theorem c18_rate_params_stored_valid : forall p q,
  (add_rates_params p = Ok q -> q = p /\ rates_valid q = true) /\
  (forall n d e, add_rates_pool_pairs p n d e = Ok q -> q = p /\ rates_valid q = true) /\
  (P18 <= rp_uopt p -> add_rates_params p = Err 1 /\ forall n d e, add_rates_pool_pairs p n d e = Err 1).
Proof.
  intros p q. split; [|split].
  - intros E. apply add_rates_params_spec in E as [-> V]. auto.
  - intros n d e E. apply add_rates_pool_pairs_spec in E as [-> V]. auto.
  - intros H. apply rates_valid_uopt_lt_one in H. unfold add_rates_params, add_rates_pool_pairs, pool_pairs_valid.
    rewrite H. auto.
Qed.
Print Assumptions c18_rate_params_stored_valid.

(* with validated parameters of sane magnitude (each rate below 2^128 ulps) the borrow rate of
   both kinds and the lend rate are DEFINED at every utilisation in [0,1]: no division by zero,
   no overflow panic *)
Theorem c18_rate_defined : forall p stable u, rates_valid p = true -> rates_bounded p = true ->
  0 <= u <= P18 ->
  (exists r, borrow_apr p stable u = Some r /\ 0 <= r) /\ exists l, lend_apr_p p u = Some l.
Proof.
  intros p stable u V B Hu. apply rates_valid_spec in V as (_ & Uo & Hb & H1 & H2 & Hsb & Hs1 & Hs2 & _ & _ & _ & _ & Hrf & _).
  apply rates_bounded_spec in B as (B1 & B2 & B3 & B4 & B5 & B6 & B7).
  pose proof (kink_defined u (rp_uopt p) (rp_base p) (rp_s1 p) (rp_s2 p) ltac:(lia) ltac:(lia) ltac:(lia) ltac:(lia) ltac:(lia) Hu) as [Ev Rv].
  split.
  - rewrite borrow_apr_curve. destruct stable.
    + pose proof (kink_defined u (rp_uopt p) (rp_sbase p) (rp_ss1 p) (rp_ss2 p) ltac:(lia) ltac:(lia) ltac:(lia) ltac:(lia) ltac:(lia) Hu) as [Es Rs].
      eexists. split; [exact Es|lia].
    + eexists. split; [exact Ev|lia].
  - unfold lend_apr_p, borrow_apr, obindr. rewrite Ev.
    pose proof (lend_defined (kink_val u (rp_uopt p) (rp_base p) (rp_s1 p) (rp_s2 p)) u (rp_rf p) ltac:(lia) Hu ltac:(lia)) as [El _].
    eexists. exact El.
Qed.
Print Assumptions c18_rate_defined.

Theorem c18_rate_base : forall p stable r, rates_valid p = true ->
  borrow_apr p stable 0 = Some r -> r = if stable then rp_sbase p else rp_base p.
Proof.
  intros p stable r V E. apply rates_valid_spec in V as (_ & Uo & _). rewrite borrow_apr_curve in E.
  apply kink_apr_spec in E. rewrite E. apply kink_base; lia.
Qed.
Print Assumptions c18_rate_base.

(* both branches and across the kink *)
Theorem c18_rate_monotone : forall p stable u1 u2 r1 r2, rates_valid p = true ->
  0 <= u1 -> u1 <= u2 ->
  borrow_apr p stable u1 = Some r1 -> borrow_apr p stable u2 = Some r2 -> r1 <= r2.
Proof.
  intros p stable u1 u2 r1 r2 V A B E1 E2.
  apply rates_valid_spec in V as (_ & Uo & Hb & H1 & H2 & Hsb & Hs1 & Hs2 & _).
  rewrite borrow_apr_curve in E1, E2. apply kink_apr_spec in E1. apply kink_apr_spec in E2. subst.
  apply kink_monotone; try lia; destruct stable; lia.
Qed.
Print Assumptions c18_rate_monotone.

(* continuity at the kink: the value at u_opt is base + slope1 and exceeds the value one ulp
   below by at most (2*slope1/u_opt + 1) ulps *)
Theorem c18_rate_kink : forall p stable r_at r_below, rates_valid p = true ->
  borrow_apr p stable (rp_uopt p) = Some r_at -> borrow_apr p stable (rp_uopt p - 1) = Some r_below ->
  let base := if stable then rp_sbase p else rp_base p in
  let s1 := if stable then rp_ss1 p else rp_s1 p in
  r_at = base + s1 /\ 0 <= r_at - r_below /\ (r_at - r_below) * rp_uopt p <= 2 * s1 + rp_uopt p.
Proof.
  intros p stable r_at r_below V E1 E2.
  apply rates_valid_spec in V as (_ & Uo & Hb & H1 & H2 & Hsb & Hs1 & Hs2 & _).
  rewrite borrow_apr_curve in E1, E2. apply kink_apr_spec in E1. apply kink_apr_spec in E2. subst. cbv zeta.
  split; [apply kink_at|].
  apply kink_jump_all; try lia; destruct stable; lia.
Qed.
Print Assumptions c18_rate_kink.

(* the lend rate never exceeds the (variable) borrow rate; it is non-negative when the reserve
   factor is at most 1, which Validate does not enforce (a reserve factor above 1 makes the lend
   rate negative: still below the borrow rate) *)
Theorem c18_lend_le_borrow : forall p u b l, rates_valid p = true -> 0 <= u <= P18 ->
  borrow_apr p false u = Some b -> lend_apr_p p u = Some l ->
  l <= b /\ (rp_rf p <= P18 -> 0 <= l).
Proof.
  intros p u b l V Hu Eb El. unfold lend_apr_p, obindr in El. rewrite Eb in El.
  apply rates_valid_spec in V as (_ & Uo & Hb & H1 & H2 & _ & _ & _ & _ & _ & _ & _ & Hrf & _).
  rewrite borrow_apr_curve in Eb. apply kink_apr_spec in Eb. apply lend_apr_spec in El. subst.
  set (b := kink_val u (rp_uopt p) (rp_base p) (rp_s1 p) (rp_s2 p)).
  assert (B0 : rp_base p <= b).
  { unfold b. rewrite <- (kink_base (rp_uopt p) (rp_base p) (rp_s1 p) (rp_s2 p)) at 1 by lia.
    apply kink_monotone; lia. }
  split.
  - destruct (Z.le_gt_cases (rp_rf p) P18).
    + apply lend_le_borrow; lia.
    + unfold lend_val. pose proof (DecFacts.dmul_nonneg b u ltac:(lia) ltac:(lia)).
      pose proof (dmul_nonneg_nonpos (DecArith.dmul b u) (P18 - rp_rf p) ltac:(lia) ltac:(lia)). lia.
  - intros. apply lend_le_borrow; lia.
Qed.
Print Assumptions c18_lend_le_borrow.

(* regression case of the repaired finding C18-F1: UOptimal = 1 with otherwise mainnet-like values
   is rejected by Validate and by both keeper functions; unvalidated, the curve of maths.go
   would still divide by zero at full utilisation, and any UOptimal < 1 that passes is defined *)
Definition c18_f1_witness : rate_params :=
  mkRP 1 P18 2000000000000000 80000000000000000 1500000000000000000 0 0 0
       700000000000000000 75000000000000000 75000000000000000 650000000000000000 200000000000000000 8.
Example c18_rate_uopt_one_rejected :
  rates_valid c18_f1_witness = false /\ add_rates_params c18_f1_witness = Err 1 /\
  add_rates_pool_pairs c18_f1_witness 14 true false = Err 1 /\
  borrow_apr c18_f1_witness false P18 = None /\
  (let q := mkRP 1 (P18 - 1) 2000000000000000 80000000000000000 1500000000000000000 0 0 0
       700000000000000000 75000000000000000 75000000000000000 650000000000000000 200000000000000000 8 in
   add_rates_params q = Ok q /\ borrow_apr q false P18 = Some 1582000000000000000 /\
   lend_apr_p q P18 = Some 1265600000000000000).
Proof. vm_compute. repeat split. Qed.

(* ============ (iii) compound accrual through float64: CalculationOfRewards ============ *)
(* math.Pow is [go_pow core]: its two leading special cases (y == 0 || x == 1 -> 1, y == 1 -> x,
   src/math/pow.go) are modelled exactly, the rest is the arbitrary function [core].
   What is ASSUMED about math.Pow, as an explicit premise, is only [PowMonoBox]: monotone in each
   argument on the operand box x in [1, 11], y in [0, 100] (rates in [0, 10], at most 100
   years).  It is an assumption about Go's math.Pow on amd64, TESTED by the harness on
   neighbouring observations (a failure is reported as a broken correspondence), not proved.
   "pow x y >= 1" and "pow x 0 = 1" are no longer assumed: the first is derived, the second is
   the modelled special case.  Everything downstream (Dec->float conversion, f-1, *amount,
   'f'-18 formatting) is the exact round-to-nearest-even model of Lib/F64.v and is proved. *)
Theorem c18_cmp_spec : forall pow now btime amt lsr r,
  calculation_of_rewards pow now btime amt lsr = Ok r ->
  0 <= now - btime /\ r = cmp_new pow amt lsr (now - btime).
Proof. exact calc_spec. Qed.
Print Assumptions c18_cmp_spec.

(* the function the correspondence run executes (float steps by shifts, Lib/F64Fast.v) IS the
   model: equal on every argument, for every pow *)
Theorem c18_cmp_fast_model : forall pow now btime amt lsr secs,
  calculation_of_rewards_fast pow now btime amt lsr = calculation_of_rewards pow now btime amt lsr /\
  cmp_xf lsr = cmp_x lsr /\ cmp_yf secs = cmp_y secs.
Proof. intros. split; [apply calculation_of_rewards_fast_eq|]. split; [apply cmp_xf_eq|apply cmp_yf_eq]. Qed.
Print Assumptions c18_cmp_fast_model.

Theorem c18_pow_special_cases : forall core x y,
  go_pow core x 0 = F_ONE /\ go_pow core F_ONE y = F_ONE /\ go_pow core x F_ONE = x.
Proof. intros. split; [apply go_pow_zero|]. split; [apply go_pow_one_base|apply go_pow_one_exp]. Qed.
Print Assumptions c18_pow_special_cases.

(* zero over zero time: no hypothesis on math.Pow *)
Theorem c18_cmp_zero_time : forall core amt lsr, cmp_new (go_pow core) amt lsr 0 = 0.
Proof. exact cmp_zero_time_go. Qed.
Print Assumptions c18_cmp_zero_time.

(* zero at rate zero, whatever the elapsed time: no hypothesis on math.Pow *)
Theorem c18_cmp_zero_rate : forall core amt secs, cmp_new (go_pow core) amt 0 secs = 0.
Proof. exact cmp_zero_rate_go. Qed.
Print Assumptions c18_cmp_zero_rate.

Theorem c18_cmp_nonneg : forall core, PowMonoBox (go_pow core) -> forall amt lsr secs,
  0 <= amt -> 0 <= lsr -> lsr <= LSR_MAX -> 0 <= secs -> secs <= SECS_MAX ->
  0 <= cmp_new (go_pow core) amt lsr secs.
Proof. exact cmp_nonneg_box. Qed.
Print Assumptions c18_cmp_nonneg.

Theorem c18_cmp_monotone : forall core, PowMonoBox (go_pow core) ->
  forall amt amt' lsr lsr' secs secs',
  0 <= amt -> amt <= amt' -> 0 <= lsr -> lsr <= lsr' -> lsr' <= LSR_MAX ->
  0 <= secs -> secs <= secs' -> secs' <= SECS_MAX ->
  cmp_new (go_pow core) amt lsr secs <= cmp_new (go_pow core) amt' lsr' secs'.
Proof. exact cmp_monotone_box. Qed.
Print Assumptions c18_cmp_monotone.

(* in the principal alone: for ANY pow whose value at the one operand point is >= 1 (on the box
   that follows from PowMonoBox: PowProofs.pow_ge_one_box) *)
Theorem c18_cmp_monotone_principal : forall pow amt amt' lsr secs,
  F_ONE <= pow (cmp_x lsr) (cmp_y secs) -> 0 <= amt -> amt <= amt' ->
  cmp_new pow amt lsr secs <= cmp_new pow amt' lsr secs.
Proof. exact cmp_monotone_principal. Qed.
Print Assumptions c18_cmp_monotone_principal.

(* Two consecutive accruals on the same principal against one accrual over the combined
   interval, on the RETURNED Dec amounts, through both float roundings (f - 1, * amount) and the
   three 18-decimal formattings.  The premise on math.Pow is H4 alone (quasi-multiplicativity
   over consecutive intervals, pow x y1 * pow x y2 <= (1 + en/2^53) * pow x y12, tested on every
   interval triple: observed en <= 22) together with pow >= 1 at the three points:
       n1 + n2 <= n12 + amount * pow x y12 * (en + 5) * 2^-53 + 2 ulp.
   The slack is proportional to principal * growth factor (relative size (en + 5) * 2^-53, i.e.
   3 * 10^-15 for en = 22) plus two units of the last stored decimal place: as for the index
   accrual, "beyond rounding in the last stored decimal place" holds in that amount-relative
   sense only (one binary64 rounding of an amount of 10^18 ulps is already 10^2 ulps). *)
Theorem c18_cmp_subadditive : forall pow en amt lsr t1 t2,
  let x := cmp_x lsr in
  let f1 := pow x (cmp_y t1) in let f2 := pow x (cmp_y t2) in let f12 := pow x (cmp_y (t1 + t2)) in
  F_ONE <= f1 -> F_ONE <= f2 -> F_ONE <= f12 -> 0 <= amt < 2 ^ 63 -> 0 <= en <= EN_MAX -> h4_ok en f1 f2 f12 = true ->
  holds_C18_cmp_subadditive en (cmp_amtf amt) f12 (cmp_new pow amt lsr t1) (cmp_new pow amt lsr t2) (cmp_new pow amt lsr (t1 + t2)) = true /\
  (cmp_new pow amt lsr t1 + cmp_new pow amt lsr t2 - cmp_new pow amt lsr (t1 + t2) - 2) * F_ONE * F_ONE * F_P53
    <= P18f * cmp_amtf amt * f12 * (en + 5).
Proof.
  intros pow en amt lsr t1 t2. cbv zeta. intros H1 H2 H12 Ha Hen H4.
  pose proof (cmp_subadditive pow en amt lsr t1 t2 H1 H2 H12 Ha Hen H4) as B. cbv zeta in B.
  split; [exact B|]. unfold holds_C18_cmp_subadditive in B. apply Z.leb_le in B. exact B.
Qed.
Print Assumptions c18_cmp_subadditive.

(* ============ (iv) the accrual sites ============ *)
(* The keeper functions that select principal, rate and time base from the stored records, call
   the accrual function, carry the fraction in a tracker and add the whole units to the record
   (Model/AccrualSites.v).  "record" is Vault.InterestAccumulated / Locker.NetBalance /
   LendAsset.AvailableToBorrow; Dec records are BorrowAsset.InterestAccumulated and the reserve
   share BorrowInterestTracker.ReservePoolInterest. *)

(* what the correspondence run executes for the float sites IS the model *)
Theorem c18_sites_fast_model : forall pow now,
  (forall v, vault_interest_with (calculation_of_rewards_fast pow) now v = vault_interest pow now v) /\
  (forall lsr cbt vbh vbt amt tr ia, vault_iterate_one_with (calculation_of_rewards_fast pow) now lsr cbt vbh vbt amt tr ia
                                     = vault_iterate_one pow now lsr cbt vbh vbt amt tr ia) /\
  (forall l, locker_rewards_with (calculation_of_rewards_fast pow) now l = locker_rewards pow now l).
Proof.
  intros. split; [intros; apply vault_interest_fast_eq|]. split; [intros; apply vault_iterate_one_fast_eq|intros; apply locker_rewards_fast_eq].
Qed.
Print Assumptions c18_sites_fast_model.

(* stability fee on a vault: which operands the site uses, and that one step neither creates nor
   loses anything: InterestAccumulated' + tracker' = InterestAccumulated + tracker + accrued, the
   record never decreases, the tracker stays a fraction *)
Theorem c18_site_vault : forall pow now v x p t' r',
  vault_interest pow now v = Ok (Updated x p t' r') ->
  let bt := if (vs_bh v =? 0) || (vs_bt v <? vs_pair_bt v) then vs_pair_bt v else vs_bt v in
  0 <= now - bt /\ x = cmp_new pow (vs_debt v) (vs_fee v) (now - bt) /\
  (0 <= tracker_val (vs_tracker v) < P18 -> 0 <= x ->
     holds_C18_site_step (tracker_val (vs_tracker v)) (vs_intacc v) x p t' r' = true /\
     r' * P18 + t' = vs_intacc v * P18 + tracker_val (vs_tracker v) + x /\ vs_intacc v <= r' /\ 0 <= t' < P18).
Proof.
  intros pow now v x p t' r' E. apply vault_interest_spec in E as (_ & _ & _ & _ & A & B & C & D).
  unfold vault_bt in *. cbv zeta. split; [exact A|]. split; [exact B|]. intros Ht Hx. subst r'.
  pose proof (site_carry_spec _ _ _ _ Ht Hx C) as (S1 & S2 & S3 & _).
  split; [apply site_step_holds; assumption|]. split; [lia|]. split; lia.
Qed.
Print Assumptions c18_site_vault.

(* zero elapsed time at the vault site changes neither the record nor the tracker: NO hypothesis
   on math.Pow (its y == 0 case is modelled exactly) *)
Theorem c18_site_vault_zero_time : forall core now v x p t' r',
  vault_interest (go_pow core) now v = Ok (Updated x p t' r') ->
  now = (if (vs_bh v =? 0) || (vs_bt v <? vs_pair_bt v) then vs_pair_bt v else vs_bt v) -> 0 <= tracker_val (vs_tracker v) < P18 ->
  x = 0 /\ p = 0 /\ t' = tracker_val (vs_tracker v) /\ r' = vs_intacc v.
Proof.
  intros core now v x p t' r' E Hn Ht. apply vault_interest_spec in E as (_ & _ & _ & _ & A & B & C & D).
  unfold vault_bt in *. rewrite <- Hn in B. rewrite Z.sub_diag in B. rewrite cmp_zero_time_go in B. subst x.
  apply site_carry_zero in C; [|assumption]. lia.
Qed.
Print Assumptions c18_site_vault_zero_time.

(* savings on a locker: operands, conservation, and what is paid leaves the collector's net fees *)
Theorem c18_site_locker : forall pow now l x p t' net ret nf,
  locker_rewards pow now l = Ok (LUpdated x p t' net ret nf) ->
  let bt := if ls_bh l =? 0 then ls_coll_bt l else ls_bt l in
  0 <= now - bt /\ x = cmp_new pow (ls_balance l) (ls_lsr l) (now - bt) /\
  net = ls_net l + p /\ ret = ls_returns l + p /\ nf = tracker_val (ls_netfee l) - p /\ (0 < p -> 0 <= nf) /\
  (0 <= tracker_val (ls_tracker l) < P18 -> 0 <= x ->
     holds_C18_site_step (tracker_val (ls_tracker l)) (ls_net l) x p t' net = true /\
     net * P18 + t' = ls_net l * P18 + tracker_val (ls_tracker l) + x /\ ls_net l <= net /\ 0 <= t' < P18).
Proof.
  intros pow now l x p t' net ret nf E. apply locker_rewards_spec in E as (A & B & C & D & F & G & H).
  unfold locker_bt in *. cbv zeta. repeat (split; [assumption|]). intros Ht Hx. subst net.
  pose proof (site_carry_spec _ _ _ _ Ht Hx C) as (S1 & S2 & S3 & _).
  split; [apply site_step_holds; assumption|]. split; [lia|]. split; lia.
Qed.
Print Assumptions c18_site_locker.

Theorem c18_site_locker_zero_time : forall core now l x p t' net ret nf,
  locker_rewards (go_pow core) now l = Ok (LUpdated x p t' net ret nf) ->
  now = (if ls_bh l =? 0 then ls_coll_bt l else ls_bt l) -> 0 <= tracker_val (ls_tracker l) < P18 ->
  x = 0 /\ p = 0 /\ t' = tracker_val (ls_tracker l) /\ net = ls_net l /\ ret = ls_returns l.
Proof.
  intros core now l x p t' net ret nf E Hn Ht. apply locker_rewards_spec in E as (A & B & C & D & F & G & H).
  unfold locker_bt in *. rewrite <- Hn in B. rewrite Z.sub_diag in B. rewrite cmp_zero_time_go in B. subst x.
  apply site_carry_zero in C; [|assumption]. lia.
Qed.
Print Assumptions c18_site_locker_zero_time.

(* a whole history of accruals of one float-site position at times now_1 <= now_2 <= ... (each
   call starts at the time the previous one stored; the principal of a call is c + record):
   record_n + tracker_n = record_0 + tracker_0 + (sum of the accruals), the record never
   decreases, the tracker stays a fraction.  Premise on math.Pow: PowMonoBox only. *)
Theorem c18_site_history : forall core, PowMonoBox (go_pow core) ->
  forall c rate nows bt tracker record, 0 <= rate -> rate <= LSR_MAX ->
  0 <= tracker < P18 -> 0 <= c + record -> ascending bt nows -> last_or bt nows - bt <= SECS_MAX ->
  let '(bt', tr', rec', sum) := site_run (go_pow core) c rate bt tracker record nows in
  rec' * P18 + tr' = record * P18 + tracker + sum /\ 0 <= tr' < P18 /\ record <= rec' /\ 0 <= sum /\ bt' = last_or bt nows.
Proof.
  intros core M c rate nows bt tracker record Hr0 Hr1. apply site_run_spec.
  intros amt secs Ha Hs Hs'. apply cmp_nonneg_box; assumption.
Qed.
Print Assumptions c18_site_history.

(* triggering the accrual more often on the same principal (the case in which the first call paid
   no whole unit) can make the position owe at most the accrual excess x1 + x2 - x12 more, rounded
   up to the next whole unit: conservation turns the sub-additivity of the accrual function
   (c18_cmp_subadditive_partial, c18_idx_subadditive) into a bound on the RECORD *)
Theorem c18_site_more_often : forall tracker record x1 x2 x12 p1 t1 p2 t2 p12 t12,
  0 <= tracker < P18 -> 0 <= x1 -> 0 <= x2 -> 0 <= x12 ->
  site_carry (Some tracker) x1 = (p1, t1) -> site_carry (Some t1) x2 = (p2, t2) -> site_carry (Some tracker) x12 = (p12, t12) ->
  ((record + p1 + p2) - (record + p12)) * P18 < (x1 + x2 - x12) + P18 /\
  (x1 + x2 <= x12 -> record + p1 + p2 <= record + p12).
Proof.
  intros tracker record x1 x2 x12 p1 t1 p2 t2 p12 t12 Ht H1 H2 H12 E1 E2 E12.
  pose proof (site_carry_spec (Some tracker) x1 p1 t1 Ht H1 E1) as (A1 & A2 & A3 & _). cbn [tracker_val] in *.
  pose proof (site_carry_spec (Some t1) x2 p2 t2 A3 H2 E2) as (B1 & B2 & B3 & _). cbn [tracker_val] in *.
  pose proof (site_carry_spec (Some tracker) x12 p12 t12 Ht H12 E12) as (C1 & C2 & C3 & C4). cbn [tracker_val] in *.
  pose proof DecFacts.P18_pos. split; [nia|]. intros Hle. nia.
Qed.
Print Assumptions c18_site_more_often.

(* lend reward site *)
Theorem c18_site_lend : forall now last amt apr gi tr x p t' igc,
  0 <= amt -> 0 <= apr -> 0 < gi -> 0 <= tracker_val tr < P18 ->
  lend_site now last amt apr gi tr = Ok (x, p, t', igc) ->
  0 <= x /\ p * P18 + t' = tracker_val tr + x /\ 0 <= p /\ 0 <= t' < P18 /\
  (lend_secs now last = 0 -> x = 0 /\ p = 0 /\ t' = tracker_val tr).
Proof. exact lend_site_spec. Qed.
Print Assumptions c18_site_lend.

(* borrow interest site, variable and stable-rate, and the reserve share: never decrease, unchanged
   over zero time, the stored indices never decrease *)
Theorem c18_site_borrow : forall now b s ia' res' igc rigc,
  0 <= bs_amt b -> 0 <= bs_apr b -> 0 <= bs_rrate b -> 0 <= bs_stable_rate b -> 0 < bs_gi b -> 0 < bs_rgi b ->
  borrow_site_step now b = Ok (s, ia', res', igc, rigc) ->
  0 <= s /\ ia' = bs_intacc b + s /\ tracker_val (bs_reserve b) <= res' /\ bs_gi b <= igc /\ bs_rgi b <= rigc /\
  (lend_secs now (bs_last b) = 0 -> s = 0 /\ res' = tracker_val (bs_reserve b) /\ igc = bs_gi b /\ rigc = bs_rgi b).
Proof. exact borrow_site_spec. Qed.
Print Assumptions c18_site_borrow.

(* reserve factor: the reserve rate is the part of the average borrow rate not passed on to the
   lenders, between 0 and that average; the average lies between the two borrow rates *)
Theorem c18_reserve_rate : forall avg u rf r bapr sapr bo sb,
  (0 <= avg -> 0 <= u <= P18 -> 0 <= rf <= P18 -> reserve_rate avg u rf = Some r -> 0 <= r <= avg) /\
  (0 <= bapr -> 0 <= sapr -> 0 <= bo -> 0 <= sb -> average_borrow_rate bapr sapr bo sb = Ok avg ->
     Z.min bapr sapr <= avg <= Z.max bapr sapr).
Proof. intros. split; [apply reserve_rate_range|apply average_borrow_rate_range]. Qed.
Print Assumptions c18_reserve_rate.

(* ============ non-vacuity ============ *)
Example c18_idx_nonvacuous :
  lend_reward 1700086400 1700000000 1000000000 50000000000000000 P18
    = Ok (136892539356605000000000, 1000136892539356605).
Proof. vm_compute. reflexivity. Qed.

Example c18_rate_nonvacuous :
  let p := mkRP 1 800000000000000000 20000000000000000 70000000000000000 1000000000000000000
                10000000000000000 50000000000000000 2000000000000000000
                P18 P18 P18 P18 100000000000000000 2 in
  rates_valid p = true /\ rates_bounded p = true /\
  borrow_apr p false 300000000000000000 = Some 46250000000000000 /\
  borrow_apr p false 800000000000000000 = Some 90000000000000000 /\
  borrow_apr p false 900000000000000000 = Some 590000000000000000 /\
  borrow_apr p true 900000000000000000 = Some 1060000000000000000 /\
  lend_apr_p p 900000000000000000 = Some 477900000000000000.
Proof. vm_compute. repeat split. Qed.

Example c18_carry_nonvacuous :
  carry_run 0 [600000000000000000; 700000000000000000; 2900000000000000000] = (4, 200000000000000000).
Proof. vm_compute. reflexivity. Qed.

(* a function satisfying the premise exists and gives a non-zero accrual (so the premise is
   satisfiable; whether math.Pow satisfies it is what the harness tests) *)
Example c18_cmp_nonvacuous :
  let core := fun x y : Z => x in
  PowMonoBox (go_pow core) /\ LSR_MAX = 10 * P18 /\ SECS_MAX = 3155760000 /\
  cmp_new (go_pow core) 1000000 100000000000000000 31557600 = 100000000000000087311491.
Proof.
  cbv zeta. split; [|split; [|split]].
  - intros x x' y y' Hx Hxx _ Hy Hyy _. unfold go_pow. pose proof F_ONE_pos.
    destruct (Z.eqb_spec y 0); destruct (Z.eqb_spec y' 0); destruct (Z.eqb_spec x F_ONE); destruct (Z.eqb_spec x' F_ONE);
      destruct (Z.eqb_spec y F_ONE); destruct (Z.eqb_spec y' F_ONE); cbn [orb]; lia.
  - reflexivity.
  - reflexivity.
  - vm_compute. reflexivity.
Qed.

(* an instance of the sub-additivity theorem: pow = the binary64 values of 1.1^(1/2) and 1.1;
   10 % on 10^12, half a year twice against one year.  H4 holds with en = 1 (not with en = 0: the
   rounded square root squared exceeds 1.1), the premises are met and the bound holds *)
Example c18_cmp_subadditive_nonvacuous :
  let pw := fun x y : Z => if y =? F_ONE then x else 4723415137801974 * 2 ^ 1022 in
  let x := cmp_x 100000000000000000 in
  let n1 := cmp_new pw 1000000000000 100000000000000000 15778800 in
  let n12 := cmp_new pw 1000000000000 100000000000000000 31557600 in
  EN_MAX = 2 ^ 40 /\ cmp_y 15778800 * 2 = F_ONE /\ F_ONE <= pw x (cmp_y 15778800) /\ F_ONE <= pw x (cmp_y 31557600) /\
  h4_ok 0 (pw x (cmp_y 15778800)) (pw x (cmp_y 15778800)) (pw x (cmp_y 31557600)) = false /\
  h4_ok 1 (pw x (cmp_y 15778800)) (pw x (cmp_y 15778800)) (pw x (cmp_y 31557600)) = true /\
  holds_C18_cmp_subadditive 1 (cmp_amtf 1000000000000) (pw x (cmp_y 31557600)) n1 n1 n12 = true /\
  (n1, n12) = (48808848170151634216308593750, 100000000000000091552734375000).
Proof. vm_compute. repeat split; discriminate. Qed.

Example c18_sites_nonvacuous :
  let core := fun x y : Z => x in
  (* a vault with debt 10^9 at 10 %, accrued one year after its block time, tracker 0.6 *)
  vault_interest (go_pow core) 1731557600 (mkVS true true 100000000000000000 false 0 77 1700000000 1000000000 (Some 600000000000000000) 5)
    = Ok (Updated 100000000000000089406967163 100000000 600000089406967163 100000005) /\
  (* one second of 5 % on 1000 lent at index 1: below one unit, carried *)
  lend_site 1700000001 1700000000 1000 50000000000000000 P18 None = Ok (1584404391000, 0, 1584404391000, 1000000001584404391) /\
  (* stable-rate borrow: the stable interest is what is added *)
  borrow_site_step 1731557600 (mkBS true 50000000000000000 10000000000000000 200000000000000000 1000 1700000000 P18 P18 0 None)
    = Ok (200000000000000000000, 200000000000000000000, 10000000000000000000, 1050000000000000000, 1010000000000000000) /\
  reserve_rate 100000000000000000 500000000000000000 200000000000000000 = Some 60000000000000000.
Proof. vm_compute. repeat split. Qed.

(* ============ the stability fee of an extended pair over time (Model/AccrualPair.v) ============ *)
(* Over EVERY history of {later block, MsgCreate, MsgVaultInterestCalc, vault message, WasmUpdatePairsVault}
   from the creation of the pair (any whitelisting / stable-mint flag, any initial fee), every accrual
   that any step books on any vault - in the messages' CalculateVaultInterest and in the sweeps of the
   fee update - is the value of CalculationOfRewards at the fee IN FORCE before the step, over a period
   that starts no earlier than that fee came into force and no earlier than the vault was settled last
   (so no second of a fee-less period is ever charged at a non-zero rate, and no period twice), on a
   principal within the vault's debt.  No class is excluded: with the repaired start-of-period rule
   (finding C18-F2: the pair's stamp when it is later than the vault's own, in CalculateVaultInterest and
   in the sweep) a vault stamped by an owner message during a fee-less period accrues from the switch-on.
   [calc] is arbitrary.  Premise ps_intr = false: no sweep of the history was cut short by an error of
   CalculationOfRewards (then the remaining vaults keep their stamps while the pair is re-stamped;
   with calc = the real function that needs a non-finite float result). *)
Theorem c18_pair_charges_legit : forall calc ops now h wl stable fee,
  1 <= h -> 0 <= fee -> Forall pop_wf ops ->
  ps_intr (fst (prun calc (pinit now h wl stable fee) ops)) = false ->
  Forall (fun e => Forall (fun c => charge_legit calc (fst e) c) (snd e))
         (snd (prun calc (pinit now h wl stable fee) ops)).
Proof. intros. apply prun_legit; auto. apply pinit_inv; assumption. Qed.
Print Assumptions c18_pair_charges_legit.

(* a legitimate accrual while the fee in force is zero is the accrual at rate zero: nothing *)
Theorem c18_pair_zero_fee : forall calc, (forall now bt p x, calc now bt p 0 = Ok x -> x = 0) ->
  forall s c, charge_legit calc s c -> ps_fee s = 0 -> ch_amt c = 0.
Proof. exact legit_zero_fee. Qed.
Print Assumptions c18_pair_zero_fee.

(* zero over zero time: no time since the vault was settled, or since the fee in force came into force
   (the block in which the fee comes back): nothing *)
Theorem c18_pair_zero_time : forall calc, (forall t p r x, calc t t p r = Ok x -> x = 0) ->
  forall s c, charge_legit calc s c -> ps_fee s <> 0 ->
  ps_now s <= Z.max (pv_cov (ch_pre c)) (ps_tchg s) -> ch_amt c = 0.
Proof. exact legit_zero_time. Qed.
Print Assumptions c18_pair_zero_time.

(* the executable bound the correspondence run judges on the implementation's observations follows from
   legitimacy under the laws of the accrual function (zero over zero time, zero at rate zero,
   non-negative, monotone in the period and the principal: c18_cmp_zero_time / _zero_rate / _nonneg /
   _monotone for the real one) *)
Theorem c18_pair_bound : forall calc,
  (forall t p r x, calc t t p r = Ok x -> x = 0) ->
  (forall now bt p x, calc now bt p 0 = Ok x -> x = 0) ->
  (forall now bt p r x, calc now bt p r = Ok x -> 0 <= x) ->
  (forall now bt bt' p p' r x b, bt' <= bt -> bt <= now -> p <= p' ->
     calc now bt p r = Ok x -> calc now bt' p' r = Ok b -> x <= b) ->
  forall s c, charge_legit calc s c -> 0 <= pv_intacc (ch_pre c) ->
  holds_C18_pair_charge calc (ps_now s) (ps_fee s) (ps_tchg s) (pv_cov (ch_pre c))
    (pv_debt (ch_pre c) + pv_intacc (ch_pre c)) (ch_amt c) = true.
Proof. exact legit_holds. Qed.
Print Assumptions c18_pair_bound.

(* a stand-in accrual function for the examples: simple interest, error on negative elapsed time *)
Definition c18_wcalc (now bt p r : Z) : outcome Z :=
  if now <? bt then Err 1 else Ok (Z.max 0 p * Z.max 0 r * (now - bt)).
Definition c18_f2_init := pinit 1000 20 true false 20000000000000000.
(* the former witness of C18-F2 (harness case 0): a vault at 2 %, the fee switched off after a day, a deposit
   100 days later, the fee switched on again 265 days after that, MsgVaultInterestCalc in the same block *)
Definition c18_f2_history : list pop :=
  [OCreate 200000000; OAdvance 86400 10; OSetFee 0; OAdvance 8640000 1000; OTouch 0 0;
   OAdvance 22896000 1000; OSetFee 20000000000000000; OCalc 0].
Definition c18_f2_log := Eval vm_compute in snd (prun c18_wcalc c18_f2_init c18_f2_history).
Definition c18_f2_state := Eval vm_compute in fst (last c18_f2_log (c18_f2_init, [])).
Definition c18_f2_charge := Eval vm_compute in
  hd (mkCh 0 (mkPV 0 0 None 0 0 0) 0 0 0 0) (snd (last c18_f2_log (c18_f2_init, []))).

(* the former counterexample of C18-F2, now a regression: in the very block in which the fee comes back
   (now = the start of the fee in force) the interest calculation of the vault that was stamped by a
   deposit in the fee-less period accrues from the switch-on: over zero time, nothing *)
Theorem c18_pair_witness_fixed :
  Forall pop_wf c18_f2_history /\ ps_intr (fst (prun c18_wcalc c18_f2_init c18_f2_history)) = false /\
  nth_error (snd (prun c18_wcalc c18_f2_init c18_f2_history)) 7 = Some (c18_f2_state, [c18_f2_charge]) /\
  charge_legit c18_wcalc c18_f2_state c18_f2_charge /\
  ps_now c18_f2_state = ps_tchg c18_f2_state /\ ps_fee c18_f2_state <> 0 /\
  (* the vault still carries the stamp of the deposit *)
  pv_bh (ch_pre c18_f2_charge) <> 0 /\ pv_bt (ch_pre c18_f2_charge) < ps_tchg c18_f2_state /\
  ch_from c18_f2_charge = ps_tchg c18_f2_state /\ ch_amt c18_f2_charge = 0.
Proof.
  split; [repeat constructor; cbn; lia|]. split; [vm_compute; reflexivity|]. split; [vm_compute; reflexivity|].
  split.
  - unfold charge_legit. vm_compute. split; [reflexivity|]. split; [right; split; discriminate|]. split; [right; reflexivity|reflexivity].
  - vm_compute. repeat split; discriminate.
Qed.
Print Assumptions c18_pair_witness_fixed.

(* non-vacuity: on a history with a switch-off, a switch-on and a change between two non-zero fees (vault 0
   never touched, vault 1 created while the fee is zero) no sweep is interrupted and the steps book non-zero accruals: the sweep of the switch-off, the calculation a day after
   the fee came back (from the switch-on, not from the switch-off), the sweep of the fee change *)
Example c18_pair_nonvacuous :
  let ops := [OCreate 200000000; OAdvance 86400 10; OSetFee 0; OAdvance 8640000 1000; OCreate 5000;
              OCalc 0; OAdvance 100 1; OSetFee 20000000000000000; OCalc 0; OCalc 1; OAdvance 86400 10; OCalc 0;
              OAdvance 50 1; OSetFee 50000000000000000] in
  let r := prun c18_wcalc c18_f2_init ops in
  Forall pop_wf ops /\ ps_intr (fst r) = false /\
  map (fun e => map (fun c => (ch_v c, ch_from c, ps_now (fst e) - ch_from c, ch_rate c, ch_amt c)) (snd e)) (snd r) =
  [[]; []; [(0, 1000, 86400, 20000000000000000, 345600000000000000000000000000)]; []; []; []; []; [];
   [(0, 8727500, 0, 20000000000000000, 0)]; [(1, 8727500, 0, 20000000000000000, 0)]; [];
   (* principal = debt + the interest booked so far *)
   [(0, 8727500, 86400, 20000000000000000, 597542400000000000000000000000000)]; [];
   [(0, 8813900, 50, 20000000000000000, 200000000000000000000000000); (1, 8727500, 86450, 20000000000000000, 8645000000000000000000000)]].
Proof. split; [repeat constructor; cbn; lia|]. vm_compute. repeat split. Qed.

(* the premises of c18_pair_zero_fee / _zero_time / _bound are met by the stand-in *)
Example c18_pair_laws_nonvacuous :
  (forall t p r x, c18_wcalc t t p r = Ok x -> x = 0) /\
  (forall now bt p x, c18_wcalc now bt p 0 = Ok x -> x = 0) /\
  (forall now bt p r x, c18_wcalc now bt p r = Ok x -> 0 <= x) /\
  (forall now bt bt' p p' r x b, bt' <= bt -> bt <= now -> p <= p' ->
     c18_wcalc now bt p r = Ok x -> c18_wcalc now bt' p' r = Ok b -> x <= b).
Proof.
  unfold c18_wcalc. repeat split.
  - intros t p r x. rewrite Z.ltb_irrefl, Z.sub_diag. intros E; inversion E; lia.
  - intros now bt p x. destruct (now <? bt); [discriminate|]. intros E; inversion E. cbn. lia.
  - intros now bt p r x. destruct (Z.ltb_spec now bt); [discriminate|]. intros E; inversion E.
    apply Z.mul_nonneg_nonneg; [apply Z.mul_nonneg_nonneg|]; lia.
  - intros now bt bt' p p' r x b H1 H2 H3. destruct (Z.ltb_spec now bt); [discriminate|].
    destruct (Z.ltb_spec now bt'); [discriminate|]. intros E1 E2; inversion E1; inversion E2.
    assert (0 <= Z.max 0 p * Z.max 0 r) by (apply Z.mul_nonneg_nonneg; lia).
    assert (Z.max 0 p * Z.max 0 r <= Z.max 0 p' * Z.max 0 r) by (apply Z.mul_le_mono_nonneg_r; lia).
    apply Z.mul_le_mono_nonneg; lia.
Qed.
