(* C18 — Interest and savings accrual is non-negative, monotone and zero over zero time; the
   rate model is monotone in utilisation, starts at the base rate, is continuous at the kink,
   and the lend rate never exceeds the borrow rate.
   Property theorems only; each is closed by a lemma proved in Proofs/.  Dec values are their
   10^18-scaled integers ("ulp" = 10^-18); floats are integers in units of 2^-1074.          *)
From Comdex Require Import Lib.Base Lib.DecArith Lib.F64 Model.Accrual Model.Rates
  Proofs.AccrualProofs Proofs.RatesProofs.

(* ============ (i) index accrual: CalculateLendReward / CalculateBorrowInterest ============ *)
(* how the three lend functions reach the common step: negative elapsed time is an error, a
   position that never accrued (stored time 0) accrues over zero time *)
Theorem c18_idx_wrappers : forall now last amt rate rrate gi rgi,
  (lend_secs now last < 0 -> lend_reward now last amt rate gi = Err 1 /\
                             borrow_interest now last amt rate rrate gi rgi = Err 1 /\
                             stable_interest now last amt rate = Err 1) /\
  lend_secs now 0 = 0 /\
  (forall new igc, lend_reward now last amt rate gi = Ok (new, igc) ->
     0 <= lend_secs now last /\ index_accrual amt rate gi (lend_secs now last) = Some (new, igc)) /\
  (forall r1 r2, borrow_interest now last amt rate rrate gi rgi = Ok (r1, r2) ->
     0 <= lend_secs now last /\ index_accrual amt rate gi (lend_secs now last) = Some r1 /\
     index_accrual amt rrate rgi (lend_secs now last) = Some r2).
Proof.
  intros. unfold lend_reward, borrow_interest, stable_interest. split; [|split; [|split]].
  - intros H. destruct (Z.ltb_spec (lend_secs now last) 0); [auto|lia].
  - unfold lend_secs. cbn. lia.
  - intros new igc. destruct (Z.ltb_spec (lend_secs now last) 0); [discriminate|].
    destruct (index_accrual _ _ _ _) as [r|]; [|discriminate]. intros E. injection E as ->. auto.
  - intros r1 r2. destruct (Z.ltb_spec (lend_secs now last) 0); [discriminate|].
    destruct (index_accrual amt rate gi _) as [a|]; [|discriminate].
    destruct (index_accrual amt rrate rgi _) as [b|]; [|discriminate]. intros E. injection E as -> ->. auto.
Qed.
Print Assumptions c18_idx_wrappers.

(* never negative, and the stored index never decreases *)
Theorem c18_idx_nonneg : forall amt rate gi secs new igc,
  0 <= amt -> 0 <= rate -> 0 < gi -> 0 <= secs ->
  index_accrual amt rate gi secs = Some (new, igc) -> 0 <= new /\ gi <= igc.
Proof.
  intros amt rate gi secs new igc Ha Hr Hg Hs E. apply index_accrual_spec in E as (_ & -> & ->).
  split; [apply idx_nonneg; assumption|apply index_next_ge; assumption].
Qed.
Print Assumptions c18_idx_nonneg.

(* zero over zero time, and the index is unchanged *)
Theorem c18_idx_zero_time : forall amt rate gi new igc, 0 < gi ->
  index_accrual amt rate gi 0 = Some (new, igc) -> new = 0 /\ igc = gi.
Proof.
  intros amt rate gi new igc Hg E. apply index_accrual_spec in E as (_ & -> & ->).
  split; [apply idx_zero_time; assumption|].
  unfold index_next. rewrite years_zero, DecFacts.dmul_zero_r, Z.add_0_r. apply DecFacts.dmul_one.
Qed.
Print Assumptions c18_idx_zero_time.

(* never decreases when the elapsed time, the principal or the rate increases *)
Theorem c18_idx_monotone : forall amt amt' rate rate' gi secs secs' new igc new' igc',
  0 <= amt -> amt <= amt' -> 0 <= rate -> rate <= rate' -> 0 < gi -> 0 <= secs -> secs <= secs' ->
  index_accrual amt rate gi secs = Some (new, igc) ->
  index_accrual amt' rate' gi secs' = Some (new', igc') -> new <= new'.
Proof.
  intros until igc'. intros Ha Haa Hr Hrr Hg Hs Hss E E'.
  apply index_accrual_spec in E as (_ & -> & _). apply index_accrual_spec in E' as (_ & -> & _).
  apply idx_monotone; assumption.
Qed.
Print Assumptions c18_idx_monotone.

(* two consecutive accruals on the same principal (whatever positive index each of them starts
   from — in the code the second starts from the index stored by the first) never total more
   than ONE accrual over the combined interval plus
        amt * (4 + H/gi1 + H/gi2 + H/gi12)  ulps,   H = 5*10^17 ("/" = integer division).
   The slack is proportional to the principal because the index factor (18 decimals) carries the
   rounding and is then multiplied by the principal; for indices >= 1 it is 4*amt ulps.  It is
   NOT bounded by one ulp of the result: see c18_idx_excess_witness. *)
Theorem c18_idx_subadditive : forall amt rate gi1 gi2 gi12 t1 t2 n1 i1 n2 i2 n12 i12,
  0 <= amt -> 0 <= rate -> 0 < gi1 -> 0 < gi2 -> 0 < gi12 -> 0 <= t1 -> 0 <= t2 ->
  index_accrual amt rate gi1 t1 = Some (n1, i1) ->
  index_accrual amt rate gi2 t2 = Some (n2, i2) ->
  index_accrual amt rate gi12 (t1 + t2) = Some (n12, i12) ->
  n1 + n2 <= n12 + idx_slack amt gi1 gi2 gi12 /\
  (P18 <= gi1 -> P18 <= gi2 -> P18 <= gi12 -> n1 + n2 <= n12 + 4 * amt).
Proof.
  intros until i12. intros Ha Hr H1 H2 H12 Ht1 Ht2 E1 E2 E12.
  apply index_accrual_spec in E1 as (_ & -> & _). apply index_accrual_spec in E2 as (_ & -> & _).
  apply index_accrual_spec in E12 as (_ & -> & _).
  pose proof (idx_subadditive amt rate gi1 gi2 gi12 t1 t2 Ha Hr H1 H2 H12 Ht1 Ht2) as S.
  split; [exact S|]. intros G1 G2 G12. unfold idx_slack in S.
  pose proof DecFacts.P18_half. pose proof DecFacts.HALF18_pos.
  rewrite (Z.div_small HALF18 gi1), (Z.div_small HALF18 gi2), (Z.div_small HALF18 gi12) in S by lia. lia.
Qed.
Print Assumptions c18_idx_subadditive.

(* the excess is real: rate 13 %, index 1.0, 1 s then 53 828 s on principal 10^12 — the two
   accruals total 10^12 ulps (= 1 ulp of the index factor times the principal) more than the
   single accrual; and with an index that starts at 0.02 (the code initialises a position's
   index with the current APR: lend/keeper/keeper.go:226-231, 645) the excess is 63 * amt ulps *)
Theorem c18_idx_excess_witness :
  (let a := 1000000000000 in let r := 130000000000000000 in
   let i1 := 1000000004119451416 in
   let n1 := 4119451416000000000000 in let n2 := 221741830810962000000000000 in
   let n12 := 221745950262377000000000000 in
     index_accrual a r P18 1 = Some (n1, i1) /\
     index_accrual a r i1 53828 = Some (n2, 1000221745951175833) /\
     index_accrual a r P18 53829 = Some (n12, 1000221745950262377) /\
     n1 + n2 = n12 + a) /\
  (let a := 1000000000000 in let r := 10000000000000000000 in
   let g := 20000000000000000 in let i1 := 20533228128881791 in
   let n1 := 26661406444089550000000000000 in let n2 := 316880878163000000000000 in
   let n12 := 26661723324967650000000000000 in
     index_accrual a r g 84137 = Some (n1, i1) /\
     index_accrual a r i1 1 = Some (n2, 20533234635469152) /\
     index_accrual a r g 84138 = Some (n12, 20533234466499353) /\
     n1 + n2 = n12 + 63 * a).
Proof. vm_compute. repeat split. Qed.
Print Assumptions c18_idx_excess_witness.

(* ============ stable-rate interest: CalculateStableInterest ============ *)
Theorem c18_stable : forall amt perc secs r, 0 <= amt -> 0 <= perc -> 0 <= secs ->
  stable_interest secs 0 amt perc = Ok r \/ True ->
  0 <= stable_new amt perc secs /\ stable_new amt perc 0 = 0 /\
  (forall amt' perc' secs', amt <= amt' -> perc <= perc' -> secs <= secs' ->
     stable_new amt perc secs <= stable_new amt' perc' secs') /\
  (forall t2, 0 <= t2 -> stable_new amt perc secs + stable_new amt perc t2 <= stable_new amt perc (secs + t2) + 1).
Proof.
  intros amt perc secs r Ha Hp Hs _. split; [apply stable_nonneg; assumption|].
  split; [apply stable_zero_time|]. split.
  - intros. apply stable_monotone; assumption.
  - intros. apply stable_subadditive; assumption.
Qed.
Print Assumptions c18_stable.

Theorem c18_stable_spec : forall now last amt perc r,
  stable_interest now last amt perc = Ok r ->
  0 <= lend_secs now last /\ r = stable_new amt perc (lend_secs now last).
Proof. exact stable_interest_spec. Qed.
Print Assumptions c18_stable_spec.

(* ============ tracker carry: whole units are paid, the fraction is kept ============ *)
Theorem c18_carry : forall acc0 xs paid acc, 0 <= acc0 < P18 -> Forall (fun x => 0 <= x) xs ->
  carry_run acc0 xs = (paid, acc) ->
  paid * P18 + acc = acc0 + zsum xs /\ 0 <= acc < P18 /\ paid = (acc0 + zsum xs) / P18.
Proof.
  intros acc0 xs paid acc Ha Hx E. pose proof (carry_run_spec acc0 xs Ha Hx) as S. rewrite E in S. exact S.
Qed.
Print Assumptions c18_carry.

(* ============ (ii) rate model ============ *)
Theorem c18_util_range : forall m b u, 0 <= m -> 0 <= b -> utilisation m b = Some u -> 0 <= u <= P18.
Proof. exact utilisation_range. Qed.
Print Assumptions c18_util_range.

Theorem c18_rate_base : forall uopt base s1 s2 r, 0 < uopt ->
  kink_apr 0 uopt base s1 s2 = Some r -> r = base.
Proof. intros uopt base s1 s2 r H E. apply kink_apr_spec in E. rewrite E. apply kink_base; assumption. Qed.
Print Assumptions c18_rate_base.

(* both branches and across the kink *)
Theorem c18_rate_monotone : forall u1 u2 uopt base s1 s2 r1 r2,
  0 < uopt -> uopt < P18 -> 0 <= s1 -> 0 <= s2 -> 0 <= u1 -> u1 <= u2 ->
  kink_apr u1 uopt base s1 s2 = Some r1 -> kink_apr u2 uopt base s1 s2 = Some r2 -> r1 <= r2.
Proof.
  intros until r2. intros A B C D E F E1 E2. apply kink_apr_spec in E1. apply kink_apr_spec in E2.
  subst. apply kink_monotone; assumption.
Qed.
Print Assumptions c18_rate_monotone.

(* continuity at the kink: the value at u_opt is base + slope1 and exceeds the value one ulp
   below by at most (2*slope1/u_opt + 1) ulps *)
Theorem c18_rate_kink : forall uopt base s1 s2 r_at r_below,
  1 < uopt -> uopt < P18 -> 0 <= s1 -> 0 <= s2 ->
  kink_apr uopt uopt base s1 s2 = Some r_at -> kink_apr (uopt - 1) uopt base s1 s2 = Some r_below ->
  r_at = base + s1 /\ 0 <= r_at - r_below /\ (r_at - r_below) * uopt <= 2 * s1 + uopt.
Proof.
  intros until r_below. intros A B C D E1 E2. apply kink_apr_spec in E1. apply kink_apr_spec in E2. subst.
  pose proof (kink_jump uopt base s1 s2 A B C D) as J. cbv zeta in J.
  split; [apply kink_at|]. tauto.
Qed.
Print Assumptions c18_rate_kink.

Theorem c18_lend_le_borrow : forall b u rf r, 0 <= b -> 0 <= u <= P18 -> 0 <= rf <= P18 ->
  lend_apr b u rf = Some r -> 0 <= r <= b.
Proof. intros b u rf r A B C E. apply lend_apr_spec in E. subst. apply lend_le_borrow; assumption. Qed.
Print Assumptions c18_lend_le_borrow.

(* known finding C18-F1: UOptimal = 1 passes AssetRatesParams.Validate; at full utilisation the
   rate computation panics (Quo by 1 - UOptimal = 0) *)
Theorem c18_rate_uopt_one_refuted : forall base s1 s2,
  kf_C18_1 P18 = true /\ kink_apr P18 P18 base s1 s2 = None.
Proof. intros. split; [reflexivity|apply kink_uopt_one_panics]. Qed.
Print Assumptions c18_rate_uopt_one_refuted.

(* ============ (iii) compound accrual through float64: CalculationOfRewards ============ *)
(* math.Pow is the variable [pow]; H1-H3 are explicit premises.  They are assumptions about Go's
   math.Pow on amd64, TESTED by the harness on every evaluated point and on neighbouring pairs,
   not proved.  Everything downstream (Dec->float conversion, f-1, *amount, 'f'-18 formatting) is
   the exact round-to-nearest-even model of Lib/F64.v and is proved. *)
Definition PowH1 (pow : Z -> Z -> Z) := forall x y, F_ONE <= x -> 0 <= y -> F_ONE <= pow x y.
Definition PowH2 (pow : Z -> Z -> Z) := forall x, pow x 0 = F_ONE.
Definition PowH3 (pow : Z -> Z -> Z) :=
  forall x x' y y', F_ONE <= x -> x <= x' -> 0 <= y -> y <= y' -> pow x y <= pow x' y'.

Theorem c18_cmp_spec : forall pow now btime amt lsr r,
  calculation_of_rewards pow now btime amt lsr = Ok r ->
  0 <= now - btime /\ r = cmp_new pow amt lsr (now - btime).
Proof. exact calc_spec. Qed.
Print Assumptions c18_cmp_spec.

Theorem c18_cmp_nonneg : forall pow, PowH1 pow -> forall amt lsr secs,
  0 <= amt -> 0 <= lsr -> 0 <= secs -> 0 <= cmp_new pow amt lsr secs.
Proof. intros pow H1. exact (cmp_nonneg pow H1). Qed.
Print Assumptions c18_cmp_nonneg.

Theorem c18_cmp_zero_time : forall pow, PowH2 pow -> forall amt lsr, cmp_new pow amt lsr 0 = 0.
Proof. intros pow H2. exact (cmp_zero_time pow H2). Qed.
Print Assumptions c18_cmp_zero_time.

Theorem c18_cmp_monotone : forall pow, PowH1 pow -> PowH3 pow ->
  forall amt amt' lsr lsr' secs secs',
  0 <= amt -> amt <= amt' -> 0 <= lsr -> lsr <= lsr' -> 0 <= secs -> secs <= secs' ->
  cmp_new pow amt lsr secs <= cmp_new pow amt' lsr' secs'.
Proof. intros pow H1 H3. exact (cmp_monotone pow H1 H3). Qed.
Print Assumptions c18_cmp_monotone.

(* PARTIAL: the exact core only.  With H4 in the tested form  pow x y1 * pow x y2 <=
   (1 + en/2^53) * pow x y12  the accrual factors satisfy (f1-1) + (f2-1) <= (f12-1) + en/2^53*f12.
   Missing: carrying this through the two float roundings (f-1, *amount: relative error 2^-53
   each, Lib/F64.v rnd64_nn_err) and the 18-decimal formatting (half an ulp each) to a bound on
   the returned Dec amounts, expected  amount * (4*2^-53*(f12-1) + eps*f12) + 1.5 ulp.  The
   harness evaluates that bound on the implementation's results (predicate only). *)
Theorem c18_cmp_subadditive_partial : forall en f1 f2 f12, F_ONE <= f1 -> F_ONE <= f2 ->
  h4_ok en f1 f2 f12 = true ->
  ((f1 - F_ONE) + (f2 - F_ONE)) * F_P53 <= (f12 - F_ONE) * F_P53 + en * f12.
Proof. exact cmp_core_subadd. Qed.
Print Assumptions c18_cmp_subadditive_partial.

(* ============ non-vacuity ============ *)
Example c18_idx_nonvacuous :
  lend_reward 1700086400 1700000000 1000000000 50000000000000000 P18
    = Ok (136892539356605000000000, 1000136892539356605).
Proof. vm_compute. reflexivity. Qed.

Example c18_rate_nonvacuous :
  let k u := kink_apr u 800000000000000000 20000000000000000 70000000000000000 1000000000000000000 in
  k 300000000000000000 = Some 46250000000000000 /\ k 800000000000000000 = Some 90000000000000000 /\
  k 900000000000000000 = Some 590000000000000000 /\
  lend_apr 590000000000000000 900000000000000000 100000000000000000 = Some 477900000000000000.
Proof. vm_compute. repeat split. Qed.

Example c18_carry_nonvacuous :
  carry_run 0 [600000000000000000; 700000000000000000; 2900000000000000000] = (4, 200000000000000000).
Proof. vm_compute. reflexivity. Qed.

(* a function satisfying H1-H3 exists and gives a non-zero accrual (so the premises are
   satisfiable; whether math.Pow satisfies them is what the harness tests) *)
Example c18_cmp_nonvacuous :
  let pw := fun x y : Z => if y =? 0 then F_ONE else x in
  PowH1 pw /\ PowH2 pw /\ PowH3 pw /\ cmp_new pw 1000000 100000000000000000 31557600 = 100000000000000087311491.
Proof.
  cbv zeta. split; [|split; [|split]].
  - intros x y Hx Hy. destruct (y =? 0); lia.
  - intros x. reflexivity.
  - intros x x' y y' Hx Hxx Hy Hyy. destruct (Z.eqb_spec y 0); destruct (Z.eqb_spec y' 0); lia.
  - vm_compute. reflexivity.
Qed.
