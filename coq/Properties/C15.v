(* C15 - block hooks never halt the chain and never leave half-applied steps.
   Property theorems only.  The hook shapes (Gen/HookTable.v) are regenerated from the Go source
   on every check; the semantics of the hook language is Model/Hooks.v over Lib/Atomic.v. *)
From Coq Require Import String.
From Comdex Require Import Lib.Base Lib.Atomic Model.HookLang Gen.HookTable Gen.HookLoopExits Model.Hooks Model.Sweep
     Model.Market Proofs.HooksProofs Proofs.MarketProofs.
From Comdex Require Model.Liquidation.
Local Open Scope Z_scope.

(* ---- all-or-nothing, for EVERY body of an ApplyFuncIfNoError, every behaviour of the calls in
   it, every state: the store after the wrapped unit is the store before it (and the unit
   failed) or the store after the unit's complete run ---- *)
Theorem c15_all_or_nothing :
  forall (store : Type) call_sem risk_sem loop_len (body : hook) idx (s : store),
  exists s', exec call_sem risk_sem loop_len (Wrapped body) idx s = RunOk s' /\
    ((succeeded (exec call_sem risk_sem loop_len body idx) s = false /\ s' = s) \/
     exec call_sem risk_sem loop_len body idx s = RunOk s').
Proof. intros. apply exec_wrapped_all_or_nothing. Qed.
Print Assumptions c15_all_or_nothing.

(* crash-point form: the unit as a list of store accesses; whatever access k fails (k = |pre|,
   for every split of the list), none of the earlier writes is visible; with no failure all are *)
Theorem c15_crash_point :
  forall (store : Type) (pre post : list (access store)) (a : access store) (s s1 : store),
  run_accesses pre s = RunOk s1 -> a s1 = None -> apply (run_accesses (pre ++ a :: post)) s = s.
Proof. intros store pre post a s s1. apply crash_at_k. Qed.
Print Assumptions c15_crash_point.

Theorem c15_no_crash_complete :
  forall (store : Type) (acc : list (access store)) (s s' : store),
  run_accesses acc s = RunOk s' -> apply (run_accesses acc) s = s'.
Proof. intros store acc s s'. apply no_crash_full. Qed.
Print Assumptions c15_no_crash_complete.

(* the remaining units are still processed: a loop whose body is the wrapped unit (the shape
   "ForEach items (Seq [Wrapped w])" found in every per-item sweep) runs the unit for EVERY index
   0..n-1; item j starts from the state left by the earlier items, each of which contributed
   everything or nothing *)
Theorem c15_remaining_units_processed :
  forall (store : Type) call_sem risk_sem loop_len items (w : hook) idx (s : store),
  exec call_sem risk_sem loop_len (ForEach items (Seq [Wrapped w])) idx s =
    RunOk (fold_left (fun acc j => apply (exec call_sem risk_sem loop_len w (j :: idx)) acc)
                     (seq 0 (loop_len items idx s)) s).
Proof.
  intros. rewrite (exec_foreach_processes_all store call_sem risk_sem loop_len items (Seq [Wrapped w]) idx s eq_refl).
  reflexivity.
Qed.
Print Assumptions c15_remaining_units_processed.

(* ... and that reading of a loop is the code's: the table of loop exits regenerated from the source
   (Gen/HookLoopExits.v: every `return` / `break` / labelled branch in the body of a loop that runs a
   wrapped unit, outside the unit's own closure) is EMPTY - no sweep can be left before its last
   item, neither before nor after a unit has run (`if err := ApplyFuncIfNoError(..); err != nil
   { return err }` would be a row) *)
Theorem c15_unit_loops_have_no_exit : hook_loop_exits = nil.
Proof. reflexivity. Qed.
Print Assumptions c15_unit_loops_have_no_exit.

(* a hook halts the chain only through a leaf that stands outside every wrap *)
Theorem c15_hook_no_halt :
  forall (store : Type) call_sem risk_sem loop_len (h : hook) (s : store),
  Forall (leaf_safe store call_sem risk_sem) (unwrapped h) ->
  run_hook call_sem risk_sem loop_len h s <> Halt.
Proof.
  intros store cs rs ll h s Hs. unfold run_hook.
  pose proof (exec_no_panic store cs rs ll h Hs [] s) as H.
  destruct (exec cs rs ll h [] s); cbn in H; [discriminate|discriminate|contradiction].
Qed.
Print Assumptions c15_hook_no_halt.

(* ---- the table: EVERY unit the property names is wrapped per item (no exempted class) ---- *)
Theorem c15_units_wrapped :
  forall u, In u hook_units -> unit_is_wrapped hook_table u = true.
Proof.
  intros u Hin. pose proof units_wrapped_table as H. rewrite forallb_forall in H. exact (H u Hin).
Qed.
Print Assumptions c15_units_wrapped.

(* ================= the error-return half: "... or REPORTS FAILURE at any point" ================= *)

(* ---- types/utils.go ApplyFuncIfNoError, read statement by statement by the translator
   (apply_func_shape: defer-recover, CacheContext, f on the cache context, write-back only under
   err == nil, return err), interpreted by Hooks.run_apply, IS Lib/Atomic.apply - for every unit of
   work and every store: the cache is written exactly when f returns normally; an error or a panic
   of f leaves the caller's store as it was, and the panic does not leave the function ---- *)
Theorem c15_apply_func_is_atomic :
  forall (store : Type) (f : unit_of_work store) (s : store),
  run_apply apply_func_shape f s = AppReturned (apply f s).
Proof. intros. apply apply_func_shape_atomic. Qed.
Print Assumptions c15_apply_func_is_atomic.

(* the check is load-bearing: three one-line variants of ApplyFuncIfNoError, each read into the same
   little language, are NOT atomic - writing the cache back before looking at the error, running f on
   the caller's context, and leaving out the deferred recover *)
Theorem c15_apply_variants_refuted :
  (exists (f : unit_of_work Z) s, run_apply [ADeferRecover; ACacheCtx; ARunOnCache; AWrite; AIfErrNil [] [ALog]; AReturnErr] f s
                                  <> AppReturned (apply f s)) /\
  (exists (f : unit_of_work Z) s, run_apply [ADeferRecover; ARunOnParent; AIfErrNil [] [ALog]; AReturnErr] f s <> AppReturned (apply f s)) /\
  (exists (f : unit_of_work Z) s, run_apply [ACacheCtx; ARunOnCache; AIfErrNil [AWrite] [ALog]; AReturnErr] f s <> AppReturned (apply f s)).
Proof.
  split; [|split].
  - exists (fun s => RunErr (s + 100) 1), 0. rewrite apply_write_before_check_commits. discriminate.
  - exists (fun s => RunErr (s + 100) 1), 0. rewrite apply_on_parent_commits. discriminate.
  - exists (fun s => RunPanic (s + 100)), 0. rewrite apply_without_recover_halts. discriminate.
Qed.
Print Assumptions c15_apply_variants_refuted.

(* ---- a closure that hands the call's error on: the statements before the call run and write
   ([pre], any list of hooks), the call itself writes [p] and then reports failure: after the
   ApplyFuncIfNoError the store is the one before it - for every position of the call in the closure,
   every behaviour of the other calls, every partial store ---- *)
Theorem c15_error_after_writes_noop :
  forall (store : Type) call_sem risk_sem loop_len (pre post : list hook) (c : hook) idx (s s1 p : store) code,
  exec call_sem risk_sem loop_len (Seq pre) idx s = RunOk s1 ->
  exec call_sem risk_sem loop_len c idx s1 = RunErr p code ->
  exec call_sem risk_sem loop_len (Wrapped (Seq (pre ++ OnErr ReturnsCallErr c :: post))) idx s = RunOk s.
Proof.
  intros store cs rs ll pre post c idx s s1 p code H1 H2.
  apply (returns_call_err_noop store cs rs ll pre post c idx s s1 p code); [|exact H2].
  rewrite <- exec_Seq. exact H1.
Qed.
Print Assumptions c15_error_after_writes_noop.

(* ---- in general, for EVERY closure body all of whose [OnErr] hand the error on (nested loops,
   sequences, inner wraps, any number of calls): a store on which some call has reported failure is
   never committed.  [failed] is any observation of the store that normal returns of calls leave
   alone (a ghost "a failure was reported" flag); failing calls may leave any partial store ---- *)
Theorem c15_no_failure_committed :
  forall (store : Type) call_sem risk_sem loop_len (failed : store -> bool),
  (forall n idx s s', call_sem n idx s = RunOk s' -> failed s' = failed s) ->
  forall (body : hook) idx (s : store), hands_on_errors body = true -> failed s = false ->
  exists s', exec call_sem risk_sem loop_len (Wrapped body) idx s = RunOk s' /\ failed s' = false.
Proof. intros store cs rs ll failed Hk body idx s Hb Hs. exact (no_failure_committed store cs rs ll failed Hk body idx s Hb Hs). Qed.
Print Assumptions c15_no_failure_committed.

(* ---- the check is load-bearing: the SAME closure with the error dropped (OnErr SwallowsErr: `_ =`,
   log only, `return nil`, `continue`) commits everything - the writes before the call, the call's
   partial writes and whatever the rest of the closure does on top; and one such closure suffices
   to commit a store on which a failure was reported ---- *)
Theorem c15_swallowed_error_commits_refuted :
  (forall (store : Type) call_sem risk_sem loop_len (pre post : list hook) (c : hook) idx (s s1 p s2 : store) code,
     exec call_sem risk_sem loop_len (Seq pre) idx s = RunOk s1 ->
     exec call_sem risk_sem loop_len c idx s1 = RunErr p code ->
     exec call_sem risk_sem loop_len (Seq post) idx p = RunOk s2 ->
     exec call_sem risk_sem loop_len (Wrapped (Seq (pre ++ OnErr SwallowsErr c :: post))) idx s = RunOk s2) /\
  (exists (call_sem : string -> list nat -> unit_of_work (Z * bool)) body,
     (forall n idx s s', call_sem n idx s = RunOk s' -> snd s' = snd s) /\
     hands_on_errors body = false /\
     exec call_sem (fun _ _ _ _ => false) (fun _ _ _ => 0%nat) (Wrapped body) [] (0, false) = RunOk (100, true)).
Proof.
  split.
  - intros store cs rs ll pre post c idx s s1 p s2 code H1 H2 H3.
    apply (swallows_err_commits store cs rs ll pre post c idx s s1 p code s2); [|exact H2|].
    + rewrite <- exec_Seq. exact H1.
    + rewrite <- exec_Seq. exact H3.
  - exists (fun _ _ s => RunErr (fst s + 100, true) 1),
           (Seq [OnErr SwallowsErr (Call "liquidationsV2.LiquidateIndividualVault" Writes)]).
    split; [intros; discriminate|]. split; reflexivity.
Qed.
Print Assumptions c15_swallowed_error_commits_refuted.

(* ---- the table: in EVERY unit the property names, every call of the unit hands its error on to
   the result of the ApplyFuncIfNoError closure it stands in ---- *)
Theorem c15_units_propagate_errors :
  forall u, In u hook_units -> unit_propagates_error hook_table u = true.
Proof.
  intros u Hin. pose proof units_propagate_table as H. rewrite forallb_forall in H. exact (H u Hin).
Qed.
Print Assumptions c15_units_propagate_errors.

(* ... and not only the calls the units name: in EVERY hook, every leaf under an ApplyFuncIfNoError
   that is not a plain read hands its error on to the nearest wrap above it (no closure anywhere in
   the 13 hooks drops the error of a state-changing call) *)
Theorem c15_wrapped_writes_propagate :
  forall l, In l (all_root_leaves hook_table) -> under_wrap (lf_path l) = true -> is_read_leaf l = false ->
  err_reaches_wrap (lf_path l) = true.
Proof.
  intros l Hl Hw Hr. pose proof wrapped_leaves_propagate_table as H. rewrite forallb_forall in H.
  specialize (H l Hl). unfold wrapped_leaf_propagates in H. rewrite Hw, Hr in H. exact H.
Qed.
Print Assumptions c15_wrapped_writes_propagate.

(* the V2 borrow unit (one LiquidateIndividualBorrow) used to be the class kf_C15_1: the loop of
   LiquidateBorrows called it WITHOUT a wrap and returned at the first error.  Repaired by fix
   C09-F3 / C15-F1 (each borrow inside ApplyFuncIfNoError): on the regenerated table the unit is
   wrapped per item (the former witness of c15_v2_borrow_unwrapped_refuted, kept as a regression) *)
Theorem c15_v2_borrow_wrapped_fixed :
  exists u, In u hook_units /\ u_id u = "v2.borrow"%string /\ unit_is_wrapped hook_table u = true.
Proof. exists (nth 3 hook_units (mkUnit "" "" "" [])). vm_compute. repeat split. right. right. right. left. reflexivity. Qed.
Print Assumptions c15_v2_borrow_wrapped_fixed.

(* the V2 surplus / debt trigger (one CheckStatsForSurplusAndDebt per (app, asset)) used to be the
   class kf_C15_3: the loop of LiquidateForSurplusAndDebt (liquidate.go:452-466) called it WITHOUT a
   wrap and returned at the first error.  Reproduced on the real code (a trigger failing after
   GetAmountFromCollector kept the coin movement and the net-fee decrease; a panic inside it left
   liquidationsV2.BeginBlocker), repaired by fix C15-F3 (each trigger inside ApplyFuncIfNoError):
   on the regenerated table the unit is wrapped per item (the former witness of
   c15_v2_surplusdebt_unwrapped_refuted, kept as a regression) *)
Theorem c15_v2_surplusdebt_wrapped_fixed :
  exists u, In u hook_units /\ u_id u = "v2.surplusdebt"%string /\ unit_is_wrapped hook_table u = true.
Proof. exists (nth 10 hook_units (mkUnit "" "" "" [])). vm_compute. repeat split. do 10 right. left. reflexivity. Qed.
Print Assumptions c15_v2_surplusdebt_wrapped_fixed.

(* the table is closed: every BeginBlocker / EndBlocker found in x/ is one of the hooks
   considered here, every expansion resolves, and no shape was left unrecognised *)
Theorem c15_table_closed :
  roots_covered hook_table = true /\ forall l, In l (all_root_leaves hook_table) -> no_unrecognised l = true.
Proof.
  pose proof table_closed as H. apply andb_true_iff in H. destruct H as [H1 H2].
  split; [exact H1|]. intros l Hl. rewrite forallb_forall in H2. exact (H2 l Hl).
Qed.
Print Assumptions c15_table_closed.

(* ---- what stands outside every wrap is accounted for ----
   (a) every unwrapped leaf of every hook is a read or is registered with a justification;
   (b) the lemmas behind the justifications:
       - the sweep's slice expression  total[start:end]  is in range for EVERY stored offset and EVERY
         stored batch size (any uint64: the caller's int() conversion is modelled, values >= 2^63
         become negative ints and take the helper's batchSize < 0 branch; a wrapping
         offset + batchSize  is caught by the repaired helper, fix C15-F2), under the REACHABILITY
         hypothesis  counter <= cap : the length the code passes as sliceLen does not exceed the
         capacity of the sliced list.  For the borrow sweeps sliceLen is len(borrowIDs) itself; for
         the vault sweeps it is the stored LengthOfVault counter, and counter = number of open vaults
         = len(GetVaults()) <= cap is C01's invariant (every wired path that adds or removes a vault
         moves the counter with it; the only double increment, auction/keeper/dutch.go
         RestartDutchAuctions, is reachable only from the first-generation auction BeginBlocker,
         which is not wired on this tree - Example c15_wiring).  A state with counter > cap is
         outside the property's quantifier ("for every reachable state");
       - a range index is in range; x[:0] is valid; the market hook's UpdatePriceList does not panic
         for window size >= 1 (after fix b0fc61e) (C17).
   partial: JStoreWrite / JBand leaves and reads are modelled as total (protobuf decoding of stored
   records, ibc send). *)
Theorem c15_unwrapped_total_partial :
  (forall l, In l (all_root_leaves hook_table) -> unwrapped_leaf_ok l = true) /\
  (forall (A : Type) (zero : A) (l : list A) cap counter_u off_u batch_u,
      0 <= counter_u <= cap -> cap <= int_max -> zlen l <= cap ->
      exists items e, sweep_slice_stored zero l cap counter_u off_u batch_u = Some (items, e) /\ 0 <= e <= counter_u) /\
  (forall (A : Type) (l : list A) i, (i < length l)%nat -> exists x, nth_z l i = Some x) /\
  (forall cap, 0 <= cap -> go_slice_ok cap 0 0 = true) /\
  (forall n gap ops, 1 <= n -> exists t', mrun n gap None ops = Ok t').
Proof.
  split; [|split; [|split; [|split]]].
  - intros l Hl. pose proof unwrapped_leaves_table as H. rewrite forallb_forall in H. exact (H l Hl).
  - intros A zero l cap counter off batch. apply sweep_slice_stored_no_panic.
  - intros A l i. apply range_index_ok.
  - exact slice_zero_ok.
  - intros n gap ops Hn. destruct (mrun_inv n gap ops ghost0 None Hn (inv_init n)) as (t' & Hr & _). exists t'. exact Hr.
Qed.
Print Assumptions c15_unwrapped_total_partial.

(* the same on ints, for EVERY offset and EVERY batch size in Z (no domain restriction at all):
   the window handed to the slice expression is 0 <= start <= end <= counter *)
Theorem c15_sweep_slice_total :
  forall (A : Type) (zero : A) (l : list A) cap counter off batch,
  0 <= counter <= cap -> zlen l <= cap ->
  exists items e, sweep_slice zero l cap counter off batch = Some (items, e) /\ 0 <= e <= counter.
Proof. intros A zero l cap counter off batch. apply sweep_slice_no_panic. Qed.
Print Assumptions c15_sweep_slice_total.

(* after fix C15-F2 the window computed in int64 arithmetic is, on every int input, the window computed
   over unbounded integers - the one C09's model (Model/Liquidation.v) reasons about: the wrap-around
   of  offset + batchSize  no longer shows (before the fix this failed for off >= 1, off + batch > 2^63-1) *)
Theorem c15_window_is_unbounded_window :
  forall len off batch, len <= int_max -> off <= int_max -> batch <= int_max ->
  sweep_window len off batch = Comdex.Model.Liquidation.sweep_window len off batch.
Proof. exact sweep_window_unbounded. Qed.
Print Assumptions c15_window_is_unbounded_window.

(* the int() conversion of the stored uint64 values, as the model uses it *)
Theorem c15_int_of_uint64 :
  forall u, (0 <= u <= int_max -> int_of_uint64 u = u) /\
            (int_max < u <= uint64_max -> int_of_uint64 u = u - 18446744073709551616 /\ int_of_uint64 u < 0).
Proof. intro u. split; [apply int_of_uint64_small|apply int_of_uint64_big]. Qed.
Print Assumptions c15_int_of_uint64.

(* exactly when the slice expression panics (the predictor [slice_panics] the runner uses to VALIDATE
   the model of the slice expression on the fabricated-counter cases of the harness):
   (1) the predictor is the modelled slice expression returning None;
   (2) it is true exactly when the end of the window lies beyond the capacity;
   (3) hence only if counter > cap - never in a reachable state;
   (4) with a batch size that covers the whole list (counter <= batch, e.g. the default 200 against
       a few vaults) it is true exactly when counter > cap. *)
Theorem c15_slice_panics_iff :
  forall (A : Type) (zero : A) (l : list A) cap counter off batch, zlen l <= cap -> 0 <= counter ->
  (slice_panics cap counter off batch = false <-> exists r, sweep_slice zero l cap counter off batch = Some r) /\
  (slice_panics cap counter off batch = true <-> cap < snd (sweep_window counter off batch)) /\
  (slice_panics cap counter off batch = true -> cap < counter) /\
  (counter <= batch <= int_max -> (slice_panics cap counter off batch = true <-> cap < counter)).
Proof.
  intros A zero l cap counter off batch Hl Hc. split; [|split; [|split]].
  - apply slice_panics_spec. exact Hl.
  - apply slice_panics_iff. exact Hc.
  - apply slice_panics_only_if. exact Hc.
  - intros [H1 H2]. apply slice_panics_full_batch; [split; assumption|exact H2].
Qed.
Print Assumptions c15_slice_panics_iff.

(* the market hook (unwrapped) used to panic for window size 1 - C17's finding seen from C15;
   repaired by fix commit b0fc61e: the same history now runs (witness kept as a regression) *)
Theorem c15_market_n1_fixed : exists t', mrun 1 10 None [Sample 20 5; Sample 40 6] = Ok t'.
Proof. eexists. vm_compute. reflexivity. Qed.
Print Assumptions c15_market_n1_fixed.

(* ---- non-vacuity ---- *)
(* the semantics on a real table row: the rewards hook has no leaf outside its wrap, so it
   returns for every behaviour of its calls - here with calls that all panic *)
Example c15_rewards_hook_returns :
  unwrapped (resolved hook_table "rewards.BeginBlocker") = [] /\
  run_hook (fun _ _ (s : Z) => RunPanic (s + 1)) (fun _ _ _ _ => true) (fun _ _ _ => 3%nat)
           (resolved hook_table "rewards.BeginBlocker") 7 = Returned 7.
Proof. vm_compute. split; reflexivity. Qed.

(* a wrapped per-item loop on a real row: item 1 of 3 fails after writing, items 0 and 2 are
   applied completely (store = sum of the items processed) *)
Example c15_loop_continues :
  exec (fun n idx (s : Z) => match idx with [1%nat] => RunErr (s + 100) 1 | [j] => RunOk (s + Z.of_nat j + 1) | _ => RunOk s end)
       (fun _ _ _ _ => false) (fun _ _ _ => 3%nat)
       (ForEach "newVaults" (Seq [Wrapped (Seq [Call "liquidationsV2.LiquidateIndividualVault" Writes])])) [] 0
  = RunOk 4.
Proof. vm_compute. reflexivity. Qed.

(* the same loop WITHOUT the wrap (the shape of the V2 borrow loop before fix C09-F3 / C15-F1 and of
   the V2 surplus / debt loop before fix C15-F3): the failing item's partial write stays and the
   remaining items are not processed *)
Example c15_unwrapped_loop_stops :
  run_hook (fun n idx (s : Z) => match idx with [1%nat] => RunErr (s + 100) 1 | [j] => RunOk (s + Z.of_nat j + 1) | _ => RunOk s end)
       (fun _ _ _ _ => false) (fun _ _ _ => 3%nat)
       (ForEach "newBorrowIDs" (Seq [Call "liquidationsV2.LiquidateIndividualBorrow" Writes])) 0
  = Returned 101.
Proof. vm_compute. reflexivity. Qed.

(* regression of C15-F1 on the REAL regenerated row of liquidationsV2.LiquidateBorrows: borrow 1
   of 3 panics after a partial write (an active oracle price of 0: division by zero): the hook
   returns, the partial write is dropped and borrows 0 and 2 are processed completely *)
Example c15_v2_borrow_loop_continues :
  run_hook (fun n idx (s : Z) =>
              if String.eqb n "liquidationsV2.LiquidateIndividualBorrow"
              then match idx with [1%nat] => RunPanic (s + 100) | [j] => RunOk (s + Z.of_nat j + 1) | _ => RunOk s end
              else RunOk s)
           (fun _ _ _ _ => false) (fun _ _ _ => 3%nat)
           (resolved hook_table "liquidationsV2.LiquidateBorrows") 0
  = Returned 4.
Proof. vm_compute. reflexivity. Qed.

(* hypotheses of the sweep lemma are met by a concrete state: 5 vaults, counter 5, offset 2, batch 2 *)
Example c15_sweep_example : sweep_slice 0 [1; 2; 3; 4; 5] 8 5 2 2 = Some ([3; 4], 4).
Proof. vm_compute. reflexivity. Qed.

(* regression of C15-F2 (the witness of the former c15_slice_overflow_refuted): counter = length = 3,
   stored offset 1, batch 2^63-1 (a value the parameter validation accepts).  offset + batchSize
   wraps negative; the repaired helper returns the window (1, 3) where the old one returned
   (1, -9223372036854775808) and the slice expression panicked *)
Example c15_slice_overflow_fixed :
  sweep_slice 0 [1; 2; 3] 3 3 1 int_max = Some ([2; 3], 3) /\ slice_panics 3 3 1 int_max = false.
Proof. vm_compute. split; reflexivity. Qed.

(* the input the harness reproduces on the real code (fault batch-huge on state p2: two vaults
   liquidated by a complete sweep leave the stored offset 2; four vaults are created; the batch size
   becomes 2^63-1 by a parameter change), and the stored batch sizes 2^63 and 2^64-1, which int()
   turns negative: the window is empty and the stored offset becomes the counter *)
Example c15_stored_batch_sizes :
  sweep_slice_stored 0 [1; 2; 3; 4] 4 4 2 int_max = Some ([3; 4], 4) /\
  sweep_slice_stored 0 [1; 2; 3; 4] 4 4 2 (int_max + 1) = Some ([], 4) /\
  sweep_slice_stored 0 [1; 2; 3; 4] 4 4 2 uint64_max = Some ([], 4) /\
  int_of_uint64 (int_max + 1) = -9223372036854775808 /\ int_of_uint64 uint64_max = -1.
Proof. vm_compute. repeat split; reflexivity. Qed.

(* the predictor on a FABRICATED state (the harness sets the counter directly through the keeper:
   3 vaults, capacity 4 after append growth, counter 10, batch 200): the slice expression panics.
   Model validation only - counter > cap is unreachable (formerly listed as c15_slice_refuted) *)
Example c15_slice_panics_fabricated :
  slice_panics 4 10 0 200 = true /\ sweep_slice 0 [1; 2; 3] 4 10 0 200 = None /\ slice_panics 4 4 0 200 = false.
Proof. vm_compute. repeat split; reflexivity. Qed.

(* the V1 auction and liquidation hooks are not wired into their AppModule.BeginBlock on this tree *)
(* regression of C15-F3 on the REAL regenerated row of liquidationsV2.LiquidateForSurplusAndDebt:
   the trigger of mapping 0 of 2 reports failure after a partial write (the coin movement of
   GetAmountFromCollector): the write is dropped and mapping 1 is still processed *)
Example c15_v2_surplusdebt_loop_continues :
  run_hook (fun n idx (s : Z) =>
              if String.eqb n "liquidationsV2.CheckStatsForSurplusAndDebt"
              then match idx with [0%nat] => RunErr (s + 100) 1 | [j] => RunOk (s + Z.of_nat j + 1) | _ => RunOk s end
              else RunOk s)
           (fun _ _ _ _ => false) (fun _ _ _ => 2%nat)
           (resolved hook_table "liquidationsV2.LiquidateForSurplusAndDebt") 0
  = Returned 2.
Proof. vm_compute. reflexivity. Qed.

(* the unit projection judged by the runner (values observed on the real code): a trigger that
   reported failure with the lot gone from the collector is a partial write (class 2), which
   holds_C15 rejects - also when the failure is not reported; nothing visible and the complete
   surplus auction are accepted *)
Example c15_trigger_obs :
  trigger_obs_diff true (-5000) (-5000) 0 0 0 = 2 /\ holds_C15 true (trigger_obs_diff true (-5000) (-5000) 0 0 0) true = false /\
  holds_C15 true (trigger_obs_diff false (-5000) (-5000) 0 0 0) true = false /\
  holds_C15 true (trigger_obs_diff true 0 0 0 0 0) true = true /\
  holds_C15 true (trigger_obs_diff false (-5000) (-5000) 1 1 1) true = true.
Proof. vm_compute. repeat split; reflexivity. Qed.

Example c15_wiring :
  map fst hook_wiring = ["asset.AppModule.BeginBlock"; "auctionsV2.AppModule.BeginBlock"; "bandoracle.AppModule.BeginBlock";
    "esm.AppModule.BeginBlock"; "lend.AppModule.BeginBlock"; "liquidationsV2.AppModule.BeginBlock";
    "liquidity.AppModule.BeginBlock"; "liquidity.AppModule.EndBlock"; "market.AppModule.BeginBlock";
    "rewards.AppModule.BeginBlock"; "rewards.AppModule.EndBlock"]%string.
Proof. vm_compute. reflexivity. Qed.

(* ---- the error-return half on REAL regenerated rows ---- *)
(* one vault of three reports failure after it has written (the fixed-price vault whose debt asset
   has no price: collateral sent, locked vault stored, then the auction cannot start): the closure of
   LiquidateVaults hands the error on, the writes are dropped, vaults 0 and 2 are liquidated *)
Example c15_v2_vault_error_dropped :
  run_hook (fun n idx (s : Z) =>
              if String.eqb n "liquidationsV2.LiquidateIndividualVault"
              then match idx with [1%nat] => RunErr (s + 100) 1 | [j] => RunOk (s + Z.of_nat j + 1) | _ => RunOk s end
              else RunOk s)
           (fun _ _ _ _ => false) (fun _ _ _ => 3%nat)
           (resolved hook_table "liquidationsV2.LiquidateVaults") 0
  = Returned 4.
Proof. vm_compute. reflexivity. Qed.

(* the same loop with the closure of seeded change C15-1 (the error is logged, the closure returns
   nil): the failing vault's partial writes are committed *)
Example c15_v2_vault_error_swallowed_commits :
  run_hook (fun n idx (s : Z) => match idx with [1%nat] => RunErr (s + 100) 1 | [j] => RunOk (s + Z.of_nat j + 1) | _ => RunOk s end)
           (fun _ _ _ _ => false) (fun _ _ _ => 3%nat)
           (ForEach "newVaults" (Seq [Wrapped (Seq [OnErr SwallowsErr (Call "liquidationsV2.LiquidateIndividualVault" Writes)])])) 0
  = Returned 104 /\
  unit_propagates_error
    [("liquidationsV2.BeginBlocker",
      ForEach "newVaults" (Seq [Wrapped (Seq [OnErr SwallowsErr (Call "liquidationsV2.LiquidateIndividualVault" Writes)])]))]
    (mkUnit "v2.vault" "liquidationsV2.BeginBlocker" "newVaults" ["liquidationsV2.LiquidateIndividualVault"]) = false.
Proof. vm_compute. split; reflexivity. Qed.

(* regression of C15-F4 on the REAL regenerated row of rewards.BeginBlocker: the locker distribution
   reports failure after it has paid out (+100); it is rolled back as a whole and the epoch update
   (+1) and the four other distributions (+2 +4 +8 +16) are kept.  Before the fix the row was one
   closure with OnErr SwallowsErr around every distribution and the result 131. *)
Example c15_rewards_step_fails_late :
  run_hook (fun n idx (s : Z) =>
              if String.eqb n "rewards.TriggerAndUpdateEpochInfos" then RunOk (s + 1)
              else if String.eqb n "rewards.DistributeExtRewardLocker" then RunErr (s + 100) 1
              else if String.eqb n "rewards.DistributeExtRewardVault" then RunOk (s + 2)
              else if String.eqb n "rewards.DistributeExtRewardLend" then RunOk (s + 4)
              else if String.eqb n "rewards.CombinePSMUserPositions" then RunOk (s + 8)
              else if String.eqb n "rewards.DistributeExtRewardStableVault" then RunOk (s + 16)
              else RunOk s)
           (fun _ _ _ _ => false) (fun _ _ _ => 0%nat)
           (resolved hook_table "rewards.BeginBlocker") 0
  = Returned 31.
Proof. vm_compute. reflexivity. Qed.

(* regression of C15-F5 on the REAL regenerated row of esm.BeginBlocker, two apps: the vault
   redemption step of app 0 reports failure after it has moved the first vaults (+100): it is rolled
   back as a whole, the other steps of app 0 (+1 +4 +8 +16) and all steps of app 1 (+31) are kept.
   Before the fix: one closure, OnErr SwallowsErr around every step, result 160. *)
Example c15_esm_step_fails_late :
  run_hook (fun n idx (s : Z) =>
              if String.eqb n "esm.SnapshotOfPrices" then RunOk (s + 1)
              else if String.eqb n "esm.SetUpCollateralRedemptionForVault"
                   then match idx with [0%nat] => RunErr (s + 100) 1 | _ => RunOk (s + 2) end
              else if String.eqb n "esm.SetUpCollateralRedemptionForStableVault" then RunOk (s + 4)
              else if String.eqb n "esm.SetUpDebtRedemptionForCollector" then RunOk (s + 8)
              else if String.eqb n "esm.SetUpShareCalculation" then RunOk (s + 16)
              else RunOk s)
           (fun _ _ _ _ => false) (fun _ _ _ => 2%nat)
           (resolved hook_table "esm.BeginBlocker") 0
  = Returned 60.
Proof. vm_compute. reflexivity. Qed.

(* every closure body of the regenerated table hands on every error it reads (no SwallowsErr /
   UnrecognisedErr frame anywhere under a wrap of the V2 sweeps): the general theorem
   c15_no_failure_committed applies to the real rows *)
Example c15_real_rows_hand_on_errors :
  hands_on_errors (resolved hook_table "liquidationsV2.LiquidateVaults") = true /\
  hands_on_errors (resolved hook_table "liquidationsV2.LiquidateBorrows") = true /\
  hands_on_errors (resolved hook_table "liquidationsV2.LiquidateForSurplusAndDebt") = true /\
  hands_on_errors (resolved hook_table "auctionsV2.AuctionIterator") = true /\
  hands_on_errors (resolved hook_table "auctionsV2.LimitOrderBid") = true /\
  hands_on_errors (resolved hook_table "rewards.BeginBlocker") = true /\
  hands_on_errors (resolved hook_table "esm.BeginBlocker") = true /\
  hands_on_errors (resolved hook_table "lend.BeginBlocker") = true /\
  hands_on_errors (resolved hook_table "liquidity.EndBlocker") = true.
Proof. vm_compute. repeat split; reflexivity. Qed.

(* ApplyFuncIfNoError as read from the source, run on concrete units of work *)
Example c15_apply_shape_runs :
  run_apply apply_func_shape (fun s : Z => RunErr (s + 100) 1) 7 = AppReturned 7 /\
  run_apply apply_func_shape (fun s : Z => RunPanic (s + 100)) 7 = AppReturned 7 /\
  run_apply apply_func_shape (fun s : Z => RunOk (s + 100)) 7 = AppReturned 107 /\
  table_says_apply_atomic = true.
Proof. vm_compute. repeat split; reflexivity. Qed.
