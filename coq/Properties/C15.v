(* C15 - block hooks never halt the chain and never leave half-applied steps.
   Property theorems only.  The hook shapes (Gen/HookTable.v) are regenerated from the Go source
   on every check; the semantics of the hook language is Model/Hooks.v over Lib/Atomic.v. *)
From Coq Require Import String.
From Comdex Require Import Lib.Base Lib.Atomic Model.HookLang Gen.HookTable Model.Hooks Model.Sweep
     Model.Market Proofs.HooksProofs Proofs.MarketProofs.
Local Open Scope Z_scope.

(* ---- all-or-nothing, for EVERY body of an ApplyFuncIfNoError, every behaviour of the calls in
   it, every state: the store after the wrapped unit is the store before it (and the unit
   failed) or the store after the unit's complete run ---- *)
Theorem c15_all_or_nothing :
  forall (store : Type) call_sem risk_sem loop_len (body : hook) idx (s : store),
  exists s', exec call_sem risk_sem loop_len (Wrapped body) idx s = RunOk s' /\
    ((succeeded (exec call_sem risk_sem loop_len body idx) s = false /\ s' = s) \/
     exec call_sem risk_sem loop_len body idx s = RunOk s').
Proof. intros. apply exec_wrapped_all_or_nothing. Qed.
Print Assumptions c15_all_or_nothing.

(* crash-point form: the unit as a list of store accesses; whatever access k fails (k = |pre|,
   for every split of the list), none of the earlier writes is visible; with no failure all are *)
Theorem c15_crash_point :
  forall (store : Type) (pre post : list (access store)) (a : access store) (s s1 : store),
  run_accesses pre s = RunOk s1 -> a s1 = None -> apply (run_accesses (pre ++ a :: post)) s = s.
Proof. intros store pre post a s s1. apply crash_at_k. Qed.
Print Assumptions c15_crash_point.

Theorem c15_no_crash_complete :
  forall (store : Type) (acc : list (access store)) (s s' : store),
  run_accesses acc s = RunOk s' -> apply (run_accesses acc) s = s'.
Proof. intros store acc s s'. apply no_crash_full. Qed.
Print Assumptions c15_no_crash_complete.

(* the remaining units are still processed: a loop whose body is the wrapped unit (the shape
   "ForEach items (Seq [Wrapped w])" found in every per-item sweep) runs the unit for EVERY index
   0..n-1; item j starts from the state left by the earlier items, each of which contributed
   everything or nothing *)
Theorem c15_remaining_units_processed :
  forall (store : Type) call_sem risk_sem loop_len items (w : hook) idx (s : store),
  exec call_sem risk_sem loop_len (ForEach items (Seq [Wrapped w])) idx s =
    RunOk (fold_left (fun acc j => apply (exec call_sem risk_sem loop_len w (j :: idx)) acc)
                     (seq 0 (loop_len items idx s)) s).
Proof.
  intros. rewrite (exec_foreach_processes_all store call_sem risk_sem loop_len items (Seq [Wrapped w]) idx s eq_refl).
  reflexivity.
Qed.
Print Assumptions c15_remaining_units_processed.

(* a hook halts the chain only through a leaf that stands outside every wrap *)
Theorem c15_hook_no_halt :
  forall (store : Type) call_sem risk_sem loop_len (h : hook) (s : store),
  Forall (leaf_safe store call_sem risk_sem) (unwrapped h) ->
  run_hook call_sem risk_sem loop_len h s <> Halt.
Proof.
  intros store cs rs ll h s Hs. unfold run_hook.
  pose proof (exec_no_panic store cs rs ll h Hs [] s) as H.
  destruct (exec cs rs ll h [] s); cbn in H; [discriminate|discriminate|contradiction].
Qed.
Print Assumptions c15_hook_no_halt.

(* ---- the table: every unit the property names is wrapped per item, except the listed classes ---- *)
Theorem c15_units_wrapped_partial :
  forall u, In u hook_units -> unit_known_unwrapped u = false -> unit_is_wrapped hook_table u = true.
Proof.
  intros u Hin Hk. pose proof units_wrapped_table as H. rewrite forallb_forall in H.
  specialize (H u Hin). rewrite Hk in H. exact H.
Qed.
Print Assumptions c15_units_wrapped_partial.

(* the V2 borrow unit (one LiquidateIndividualBorrow) used to be the class kf_C15_1: the loop of
   LiquidateBorrows called it WITHOUT a wrap and returned at the first error.  Repaired by fix
   C09-F3 / C15-F1 (each borrow inside ApplyFuncIfNoError): on the regenerated table the unit is
   wrapped per item (the former witness of c15_v2_borrow_unwrapped_refuted, kept as a regression) *)
Theorem c15_v2_borrow_wrapped_fixed :
  exists u, In u hook_units /\ u_id u = "v2.borrow"%string /\ unit_known_unwrapped u = false /\
            unit_is_wrapped hook_table u = true.
Proof. exists (nth 3 hook_units (mkUnit "" "" "" [])). vm_compute. repeat split. right. right. right. left. reflexivity. Qed.
Print Assumptions c15_v2_borrow_wrapped_fixed.

(* partial because: the V2 surplus / debt trigger loop (liquidate.go:452-466) calls
   CheckStatsForSurplusAndDebt for each (app, asset) WITHOUT a wrap and returns at the first error *)

Theorem c15_v2_surplusdebt_unwrapped_refuted :
  exists u, In u hook_units /\ kf_C15_3 (u_id u) = true /\ unit_is_wrapped hook_table u = false.
Proof. exists (nth 10 hook_units (mkUnit "" "" "" [])). vm_compute. repeat split. do 10 right. left. reflexivity. Qed.
Print Assumptions c15_v2_surplusdebt_unwrapped_refuted.

(* the table is closed: every BeginBlocker / EndBlocker found in x/ is one of the hooks
   considered here, every expansion resolves, and no shape was left unrecognised *)
Theorem c15_table_closed :
  roots_covered hook_table = true /\ forall l, In l (all_root_leaves hook_table) -> no_unrecognised l = true.
Proof.
  pose proof table_closed as H. apply andb_true_iff in H. destruct H as [H1 H2].
  split; [exact H1|]. intros l Hl. rewrite forallb_forall in H2. exact (H2 l Hl).
Qed.
Print Assumptions c15_table_closed.

(* ---- what stands outside every wrap is accounted for ----
   (a) every unwrapped leaf of every hook is a read or is registered with a justification;
   (b) the lemmas behind the justifications: the sweep's slice expression is in range when the
       length the code uses does not exceed the capacity of the list (Inv: counter = list length)
       and offset + batch does not overflow int; a range index is in range; x[:0] is valid; the
       market hook's UpdatePriceList does not panic for window size >= 1 (after fix b0fc61e) (C17).
   partial: JStoreWrite / JBand leaves and reads are modelled as total (protobuf decoding of stored
   records, ibc send), the JKnownFinding leaf is the class kf_C15_3. *)
Theorem c15_unwrapped_total_partial :
  (forall l, In l (all_root_leaves hook_table) -> unwrapped_leaf_ok l = true) /\
  (forall (A : Type) (zero : A) (l : list A) cap counter off batch,
      0 <= counter <= cap -> zlen l <= cap -> 0 <= batch <= int_max -> off + batch <= int_max ->
      exists items e, sweep_slice zero l cap counter off batch = Some (items, e) /\ 0 <= e <= counter) /\
  (forall (A : Type) (l : list A) i, (i < length l)%nat -> exists x, nth_z l i = Some x) /\
  (forall cap, 0 <= cap -> go_slice_ok cap 0 0 = true) /\
  (forall n gap ops, 1 <= n -> exists t', mrun n gap None ops = Ok t').
Proof.
  split; [|split; [|split; [|split]]].
  - intros l Hl. pose proof unwrapped_leaves_table as H. rewrite forallb_forall in H. exact (H l Hl).
  - intros A zero l cap counter off batch. apply sweep_slice_no_panic.
  - intros A l i. apply range_index_ok.
  - exact slice_zero_ok.
  - intros n gap ops Hn. destruct (mrun_inv n gap ops ghost0 None Hn (inv_init n)) as (t' & Hr & _). exists t'. exact Hr.
Qed.
Print Assumptions c15_unwrapped_total_partial.

(* outside the class kf_C15_2 the slice expression does not panic, and the class is exactly the
   inputs on which it does *)
Theorem c15_slice_class :
  forall (A : Type) (zero : A) (l : list A) cap counter off batch, zlen l <= cap ->
  (kf_C15_2 cap counter off batch = false <-> exists r, sweep_slice zero l cap counter off batch = Some r).
Proof.
  intros A zero l cap counter off batch Hl. unfold kf_C15_2, sweep_slice, go_slice.
  destruct (sweep_window counter off batch) as [s e].
  replace (zlen l <=? cap) with true by (symmetry; apply Z.leb_le; exact Hl).
  destruct (go_slice_ok cap s e); cbn; split; intro H; try reflexivity; try discriminate.
  - eexists; reflexivity.
  - destruct H as [r H]. discriminate.
Qed.
Print Assumptions c15_slice_class.

(* ---- refutations (known findings) ---- *)
(* a counter larger than the capacity of the list makes  totalVaults[start:end]  panic, in a part
   of the sweep that nothing wraps: 3 vaults (capacity 4 after append growth), counter 10 *)
Theorem c15_slice_refuted :
  exists cap counter off batch, cap < counter /\ 0 <= batch <= int_max /\ off + batch <= int_max /\
    sweep_slice 0 [1; 2; 3] cap counter off batch = None /\ kf_C15_2 cap counter off batch = true.
Proof. exists 4, 10, 0, 200. vm_compute. repeat split; intro; discriminate. Qed.
Print Assumptions c15_slice_refuted.

(* offset + batchSize overflows int: counter = length = 3, stored offset 1, batch 2^63-1 (a value
   the parameter validation accepts): end wraps negative and the slice expression panics *)
Theorem c15_slice_overflow_refuted :
  exists off batch, 0 <= off /\ 0 < batch <= int_max /\
    sweep_slice 0 [1; 2; 3] 3 3 off batch = None /\ kf_C15_2 3 3 off batch = true.
Proof. exists 1, int_max. vm_compute. repeat split; intro; discriminate. Qed.
Print Assumptions c15_slice_overflow_refuted.

(* the market hook (unwrapped) used to panic for window size 1 - C17's finding seen from C15;
   repaired by fix commit b0fc61e: the same history now runs (witness kept as a regression) *)
Theorem c15_market_n1_fixed : exists t', mrun 1 10 None [Sample 20 5; Sample 40 6] = Ok t'.
Proof. eexists. vm_compute. reflexivity. Qed.
Print Assumptions c15_market_n1_fixed.

(* ---- non-vacuity ---- *)
(* the semantics on a real table row: the rewards hook has no leaf outside its wrap, so it
   returns for every behaviour of its calls - here with calls that all panic *)
Example c15_rewards_hook_returns :
  unwrapped (resolved hook_table "rewards.BeginBlocker") = [] /\
  run_hook (fun _ _ (s : Z) => RunPanic (s + 1)) (fun _ _ _ _ => true) (fun _ _ _ => 3%nat)
           (resolved hook_table "rewards.BeginBlocker") 7 = Returned 7.
Proof. vm_compute. split; reflexivity. Qed.

(* a wrapped per-item loop on a real row: item 1 of 3 fails after writing, items 0 and 2 are
   applied completely (store = sum of the items processed) *)
Example c15_loop_continues :
  exec (fun n idx (s : Z) => match idx with [1%nat] => RunErr (s + 100) 1 | [j] => RunOk (s + Z.of_nat j + 1) | _ => RunOk s end)
       (fun _ _ _ _ => false) (fun _ _ _ => 3%nat)
       (ForEach "newVaults" (Seq [Wrapped (Seq [Call "liquidationsV2.LiquidateIndividualVault" Writes])])) [] 0
  = RunOk 4.
Proof. vm_compute. reflexivity. Qed.

(* the same loop WITHOUT the wrap (the shape of the V2 borrow loop before fix C09-F3 / C15-F1, and
   still the shape of the V2 surplus / debt loop): the failing item's partial write stays and the
   remaining items are not processed *)
Example c15_unwrapped_loop_stops :
  run_hook (fun n idx (s : Z) => match idx with [1%nat] => RunErr (s + 100) 1 | [j] => RunOk (s + Z.of_nat j + 1) | _ => RunOk s end)
       (fun _ _ _ _ => false) (fun _ _ _ => 3%nat)
       (ForEach "newBorrowIDs" (Seq [Call "liquidationsV2.LiquidateIndividualBorrow" Writes])) 0
  = Returned 101.
Proof. vm_compute. reflexivity. Qed.

(* regression of C15-F1 on the REAL regenerated row of liquidationsV2.LiquidateBorrows: borrow 1
   of 3 panics after a partial write (an active oracle price of 0: division by zero): the hook
   returns, the partial write is dropped and borrows 0 and 2 are processed completely *)
Example c15_v2_borrow_loop_continues :
  run_hook (fun n idx (s : Z) =>
              if String.eqb n "liquidationsV2.LiquidateIndividualBorrow"
              then match idx with [1%nat] => RunPanic (s + 100) | [j] => RunOk (s + Z.of_nat j + 1) | _ => RunOk s end
              else RunOk s)
           (fun _ _ _ _ => false) (fun _ _ _ => 3%nat)
           (resolved hook_table "liquidationsV2.LiquidateBorrows") 0
  = Returned 4.
Proof. vm_compute. reflexivity. Qed.

(* hypotheses of the sweep lemma are met by a concrete state: 5 vaults, counter 5, offset 2, batch 2 *)
Example c15_sweep_example : sweep_slice 0 [1; 2; 3; 4; 5] 8 5 2 2 = Some ([3; 4], 4).
Proof. vm_compute. reflexivity. Qed.

(* the V1 auction and liquidation hooks are not wired into their AppModule.BeginBlock on this tree *)
Example c15_wiring :
  map fst hook_wiring = ["asset.AppModule.BeginBlock"; "auctionsV2.AppModule.BeginBlock"; "bandoracle.AppModule.BeginBlock";
    "esm.AppModule.BeginBlock"; "lend.AppModule.BeginBlock"; "liquidationsV2.AppModule.BeginBlock";
    "liquidity.AppModule.BeginBlock"; "liquidity.AppModule.EndBlock"; "market.AppModule.BeginBlock";
    "rewards.AppModule.BeginBlock"; "rewards.AppModule.EndBlock"]%string.
Proof. vm_compute. reflexivity. Qed.
