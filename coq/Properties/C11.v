(* C11 - Bidders' funds are safe: standing bid held, losers refunded, own deposit only.
   Property theorems only; each is closed by lemmas proved in Proofs/EnglishProofs.v and
   Proofs/LimitBidProofs.v.  English auctions: the five coded variants (generation 1 surplus and
   debt, generation 2 surplus / generic / inverted debt) share one model; [ops] is ANY finite
   history of bids (any bidder account >= 0, any amount and denom, any time) and block hooks (any
   time).  Failed messages / hooks leave the state unchanged (baseapp, ApplyFuncIfNoError). *)
From Comdex Require Import Lib.Base Lib.DecArith Lib.DecFacts Lib.FLedger.
From Comdex Require Model.English Model.LimitBid Proofs.EnglishProofs Proofs.LimitBidProofs.

Module E.
Import English EnglishProofs.

(* the auction custody attributable to the auction = the standing bid, in every reachable state *)
Theorem c11_custody : forall v bd ld lot b0 now fac d bs l0 ops,
  bd <> ld -> 0 <= b0 -> Forall valid_op ops ->
  let s := run (init v bd ld lot b0 now fac d bs, l0) ops in
  snd s MOD (bid_denom (fst s)) - l0 MOD (bid_denom (fst s)) = held (fst s).
Proof.
  intros v bd ld lot b0 now fac d bs l0 ops Hd Hb Hv s.
  exact (inv_custody l0 s (run_inv l0 ops _ (inv_init v bd ld lot b0 now fac d bs l0 Hd Hb) Hv)).
Qed.
Print Assumptions c11_custody.

(* each accepted bid over a standing one improves on it by at least ceil(factor * standing)
   (forward auctions upwards, the two debt variants downwards) *)
Theorem c11_improves : forall v bd ld lot b0 now0 fac d bs l0 ops who denom amt now xd xa s' p,
  bd <> ld -> 0 <= b0 -> Forall valid_op ops -> 0 <= who ->
  let s := run (init v bd ld lot b0 now0 fac d bs, l0) ops in
  step s (Bid who denom amt now xd xa) = Ok s' -> bidder (fst s) = Some p ->
  exists c, change (factor (fst s)) (if reverse (var (fst s)) then sell (fst s) else buy (fst s)) = Some c /\
            (if reverse (var (fst s)) then amt <= sell (fst s) - c else buy (fst s) + c <= amt).
Proof.
  intros v bd ld lot b0 now0 fac d bs l0 ops who denom amt now xd xa [a' l'] p Hd Hb Hv Hw s Hs Hp.
  destruct (run_inv l0 ops _ (inv_init v bd ld lot b0 now0 fac d bs l0 Hd Hb) Hv) as [Hdd HI].
  fold s in Hdd, HI. destruct s as [a l]. cbn [step fst snd] in *.
  destruct (bid_facts l0 a l who denom amt now xd xa a' l' Hdd HI Hw Hs) as (Himp & _).
  exact (improves_spelled a amt p Himp Hp).
Qed.
Print Assumptions c11_improves.

(* with a positive factor a forward bid over a positive standing bid is strictly higher *)
Theorem c11_improves_strict : forall f x c, change f x = Some c -> 0 < f -> 0 < x -> x + 1 <= x + c.
Proof. intros f x c H Hf Hx. pose proof (change_pos f x c H Hf Hx). lia. Qed.
Print Assumptions c11_improves_strict.

(* the outbid bidder is refunded in full in the same step: its balance rises by the standing
   payment and is back at what it was when the auction started *)
Theorem c11_refund : forall v bd ld lot b0 now0 fac d bs l0 ops who denom amt now xd xa s' p,
  bd <> ld -> 0 <= b0 -> Forall valid_op ops -> 0 <= who ->
  let s := run (init v bd ld lot b0 now0 fac d bs, l0) ops in
  step s (Bid who denom amt now xd xa) = Ok s' -> bidder (fst s) = Some p -> p <> who ->
  snd s' p (bid_denom (fst s)) = snd s p (bid_denom (fst s)) + buy (fst s) /\
  snd s' p (bid_denom (fst s)) = l0 p (bid_denom (fst s)).
Proof.
  intros v bd ld lot b0 now0 fac d bs l0 ops who denom amt now xd xa [a' l'] p Hd Hb Hv Hw s Hs Hp Hne.
  destruct (run_inv l0 ops _ (inv_init v bd ld lot b0 now0 fac d bs l0 Hd Hb) Hv) as [Hdd HI].
  fold s in Hdd, HI. destruct s as [a l]. cbn [step fst snd] in *.
  destruct (bid_facts l0 a l who denom amt now xd xa a' l' Hdd HI Hw Hs) as (_ & Href & _).
  exact (Href p Hp Hne).
Qed.
Print Assumptions c11_refund.

(* after the close exactly the last accepted bidder has the lot and has paid the standing
   payment; every other bidder's net change over the whole auction is 0, in every denom *)
Theorem c11_winner_only : forall v bd ld lot b0 now fac d bs l0 ops,
  bd <> ld -> 0 <= b0 -> Forall valid_op ops ->
  let s := run (init v bd ld lot b0 now fac d bs, l0) ops in
  status (fst s) = 2 ->
  exists w amt rest, bidder (fst s) = Some w /\ bids (fst s) = (w, amt) :: rest /\
    forall acct dn, 0 <= acct ->
      snd s acct dn = l0 acct dn
        + (if (acct =? w) && (dn =? lot_denom (fst s)) then Z.max 0 (sell (fst s)) else 0)
        - (if (acct =? w) && (dn =? bid_denom (fst s)) then buy (fst s) else 0).
Proof.
  intros v bd ld lot b0 now fac d bs l0 ops Hd Hb Hv s Hst.
  destruct (run_inv l0 ops _ (inv_init v bd ld lot b0 now fac d bs l0 Hd Hb) Hv) as [_ [HO|HC]]; fold s in HO || fold s in HC.
  - destruct HO as ([H|H] & _); lia.
  - destruct HC as (_ & w & amt & rest & Hw & Hbs & _ & _ & Hl). exists w, amt, rest. auto.
Qed.
Print Assumptions c11_winner_only.

(* while the auction is open nobody but the standing bidder is out of pocket, and the standing
   bidder is out of exactly the standing payment *)
Theorem c11_open_others_whole : forall v bd ld lot b0 now fac d bs l0 ops,
  bd <> ld -> 0 <= b0 -> Forall valid_op ops ->
  let s := run (init v bd ld lot b0 now fac d bs, l0) ops in
  status (fst s) <> 2 ->
  forall acct dn, 0 <= acct ->
    snd s acct dn = l0 acct dn
      - (match bidder (fst s) with
         | Some w => if (acct =? w) && (dn =? bid_denom (fst s)) then buy (fst s) else 0
         | None => 0 end).
Proof.
  intros v bd ld lot b0 now fac d bs l0 ops Hd Hb Hv s Hst acct dn Ha.
  destruct (run_inv l0 ops _ (inv_init v bd ld lot b0 now fac d bs l0 Hd Hb) Hv) as [_ [HO|HC]]; fold s in HO || fold s in HC.
  - destruct HO as (_ & _ & _ & _ & Hl). rewrite Hl. unfold MOD.
    destruct (Z.eqb_spec acct (-1)); [lia|]. cbn [andb]. lia.
  - destruct HC as (Hc & _). contradiction.
Qed.
Print Assumptions c11_open_others_whole.

(* non-vacuity: a generation-2 surplus auction with three bidders: barely improving bid accepted,
   equal bid rejected, close after the end time; bidder 1 wins, bidder 0 and 2 are whole *)
Definition ex_l0 : ledger := fun a d => if (a =? COLL) then 5000 else if (0 <=? a) && (d =? 0) then 1000000 else 0.
Definition ex_ops : list op :=
  [Bid 0 0 200000 10 0 0; Bid 2 0 200000 11 0 0; Bid 1 0 220000 12 0 0; Bid 2 0 219999 13 0 0; Tick 3700 true].
Example c11_nonvacuous :
  Forall valid_op ex_ops /\
  let s := run (init V2S 0 1 1000 0 0 100000000000000000 3600 300, ex_l0) ex_ops in
  status (fst s) = 2 /\ bidder (fst s) = Some 1 /\ List.length (bids (fst s)) = 2%nat /\
  snd s 1 0 = 780000 /\ snd s 1 1 = 1000 /\ snd s 0 0 = 1000000 /\ snd s 2 0 = 1000000 /\ snd s MOD 0 = 0.
Proof. split; [repeat constructor; cbn; lia|]. vm_compute. repeat split. Qed.
End E.

Module L.
Import LimitBid LimitBidProofs.

(* recorded total = sum of the individual deposits, the deposits are fully held in custody, no
   record is negative -- for every history outside the two known-finding classes.
   PARTIAL: carried only under [clean_run] (no withdraw above the own record / in a foreign denom
   = kf_C11_1; no automatic fill that meets a record equal to the auction debt = kf_C11_2; the
   Dutch settlement of an automatic fill disburses at most what the record is charged) *)
Theorem c11_limit_total_partial : forall c l0 ops,
  fee_wf c -> clean_run c (lempty l0) ops ->
  let s := lrun c (lempty l0) ops in
  (forall m, tot m s = sum_market m s) /\
  (forall d, sum_denom d s <= led s MOD d - l0 MOD d) /\
  Forall nonneg (recs s).
Proof.
  intros c l0 ops Hf Hc s.
  destruct (lrun_inv c l0 ops _ Hf (linv_empty l0) Hc) as (H1 & H2 & H3). auto.
Qed.
Print Assumptions c11_limit_total_partial.

(* a withdraw outside kf_C11_1 pays the depositor, and nobody else, amount - fee <= own deposit,
   in the deposited denom; record total drops by the amount.
   PARTIAL: under kf_C11_1 = false, in a state that satisfies the invariant above *)
Theorem c11_limit_own_partial : forall c l0 s who coll debt prem denom amt s',
  fee_wf c -> LInv l0 s -> 0 <= who ->
  kf_C11_1 s (Withdraw who coll debt prem denom amt) = false ->
  lstep c s (Withdraw who coll debt prem denom amt) = Ok s' ->
  exists r x fee, aget keq (mkK debt coll prem who) (recs s) = Some r /\
    0 <= x <= r_amt r /\ 0 <= fee <= x /\ x = amt /\
    (forall acct d, acct <> MOD ->
       led s' acct d = led s acct d + (if (acct =? who) && (d =? r_denom r) then x - fee else 0)) /\
    tot (debt, coll) s' = tot (debt, coll) s - x.
Proof. exact withdraw_own. Qed.
Print Assumptions c11_limit_own_partial.

(* a cancel pays the depositor its own deposit minus the closing fee, in the deposited denom,
   and nobody else anything (holds on the real code; needs only the invariant of the state) *)
Theorem c11_limit_cancel_own : forall c l0 s who coll debt prem s',
  fee_wf c -> LInv l0 s -> 0 <= who ->
  lstep c s (Cancel who coll debt prem) = Ok s' ->
  exists r fee, aget keq (mkK debt coll prem who) (recs s) = Some r /\ 0 <= fee <= r_amt r /\
    (forall acct d, acct <> MOD ->
       led s' acct d = led s acct d + (if (acct =? who) && (d =? r_denom r) then r_amt r - fee else 0)) /\
    tot (debt, coll) s' = tot (debt, coll) s - r_amt r.
Proof.
  intros c l0 s who coll debt prem s' Hf HI Hw. cbn [lstep].
  destruct ((coll =? 0) || (debt =? 0)); [discriminate|].
  intros C. exact (proj2 (cancel_spec c l0 s who coll debt prem s' Hf HI Hw C)).
Qed.
Print Assumptions c11_limit_cancel_own.

(* ---- refutations inside the known-finding classes (witnesses by computation) ---- *)
Definition cfg0 : cfg := mkCfg [(2, 0); (1, 1); (3, 2)] 0 0.
Definition rich : ledger := fun a d => if 0 <=? a then 10000000 else 0.

(* kf_C11_1, amount: a depositor of 1 000 000 withdraws 2 900 000; the record and what is left of
   the total go to -1 900 000 / 1 100 000 and the other depositor's 3 000 000 is no longer held *)
Theorem c11_limit_own_refuted : exists c l0 ops who k k2,
  let s := lrun c (lempty l0) ops in
  led s who 0 - l0 who 0 = 1900000 /\                (* net gain over own money *)
  dep k s = -1900000 /\ tot (market k) s = 1100000 /\
  dep k2 s = 3000000 /\ led s MOD 0 = 1100000 /\
  kf_C11_1 (lrun c (lempty l0) (firstn 2 ops)) (nth 2 ops (Cancel 0 0 0 0)) = true.
Proof.
  exists cfg0, rich, [Deposit 0 1 2 5 0 1000000; Deposit 1 1 2 5 0 3000000; Withdraw 0 1 2 5 0 2900000],
    0, (mkK 2 1 5 0), (mkK 2 1 5 1).
  vm_compute. repeat split.
Qed.
Print Assumptions c11_limit_own_refuted.

(* kf_C11_1, denom: a depositor of asset 2 (denom 0) withdraws 500 000 of denom 1, which the
   module holds for another depositor; that depositor's 3 000 000 is then backed by 2 500 000 *)
Theorem c11_limit_denom_refuted : exists c l0 ops,
  let s := lrun c (lempty l0) ops in
  led s 0 1 - l0 0 1 = 500000 /\ sum_denom 1 s = 3000000 /\ led s MOD 1 - l0 MOD 1 = 2500000 /\
  kf_C11_1 (lrun c (lempty l0) (firstn 2 ops)) (nth 2 ops (Cancel 0 0 0 0)) = true.
Proof.
  exists cfg0, rich, [Deposit 0 1 2 5 0 1000000; Deposit 1 3 1 5 1 3000000; Withdraw 0 1 2 5 1 500000].
  vm_compute. repeat split.
Qed.
Print Assumptions c11_limit_denom_refuted.

(* kf_C11_2 (as the code reads; not reproduced through the harness, hence not listed as a known
   finding): the automatic fill of a record equal to the auction debt deletes the record and
   returns before BidValue is reduced: total 1 000 000, sum of deposits 0 *)
Theorem c11_limit_total_refuted : exists c l0 ops m,
  let s := lrun c (lempty l0) ops in
  tot m s = 1000000 /\ sum_market m s = 0 /\
  kf_C11_2 (lrun c (lempty l0) (firstn 1 ops)) (nth 1 ops (Cancel 0 0 0 0)) = true.
Proof.
  exists cfg0, rich, [Deposit 0 1 2 5 0 1000000; AutoFill (mkK 2 1 5 0) 1000000 1000000 true], (2, 1).
  vm_compute. repeat split.
Qed.
Print Assumptions c11_limit_total_refuted.

(* non-vacuity: a clean history with two depositors, a fee-bearing partial withdraw, a cancel
   and a partial automatic fill; the hypotheses of the partial theorems are met *)
Definition cfg1 : cfg := mkCfg [(2, 0); (1, 1); (3, 2)] 5000000000000000 10000000000000000.
Definition ex_ops : list lop :=
  [Deposit 0 1 2 5 0 1000000; Deposit 1 1 2 5 0 3000000; Withdraw 0 1 2 5 0 400000;
   AutoFill (mkK 2 1 5 1) 1000000 1000000 true; Cancel 0 1 2 5].
Example c11_limit_nonvacuous :
  fee_wf cfg1 /\ clean_run cfg1 (lempty rich) ex_ops /\
  let s := lrun cfg1 (lempty rich) ex_ops in
  tot (2, 1) s = 2000000 /\ dep (mkK 2 1 5 1) s = 2000000 /\ dep (mkK 2 1 5 0) s = 0 /\
  led s 0 0 = 10000000 - 1000000 + 396000 + 597000 /\ led s MOD 0 = 2007000.
Proof.
  split; [unfold fee_wf, cfg1; cbn; pose proof P18_pos; split; split; try lia;
          change P18 with 1000000000000000000; lia|].
  split; [vm_compute; repeat split; try discriminate; intros H; discriminate H|].
  vm_compute. repeat split.
Qed.
End L.
