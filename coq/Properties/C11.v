(* C11 - Bidders' funds are safe: standing bid held, losers refunded, own deposit only.
   Property theorems only; each is closed by lemmas proved in Proofs/EnglishProofs.v and
   Proofs/LimitBidProofs.v.  English auctions: the five coded variants (generation 1 surplus and
   debt, generation 2 surplus / generic / inverted debt) share one model; [ops] is ANY finite
   history of bids (any bidder account >= 0, any amount and denom, any time) and block hooks (any
   time), the latter with the app's emergency shutdown off (Tick) or on (TickEsm: a generation-1
   auction is wound up at once, the generation-2 english hook does not read the ESM status).
   Failed messages / hooks leave the state unchanged (baseapp, ApplyFuncIfNoError). *)
From Comdex Require Import Lib.Base Lib.DecArith Lib.DecFacts Lib.FLedger.
From Comdex Require Model.English Model.LimitBid Proofs.EnglishProofs Proofs.LimitBidProofs.

Module E.
Import English EnglishProofs.

(* the auction custody attributable to the auction = the standing bid, in every reachable state *)
Theorem c11_custody : forall v bd ld lot b0 now fac d bs l0 ops,
  bd <> ld -> 0 <= b0 -> Forall valid_op ops ->
  let s := run (init v bd ld lot b0 now fac d bs, l0) ops in
  snd s MOD (bid_denom (fst s)) - l0 MOD (bid_denom (fst s)) = held (fst s).
Proof.
  intros v bd ld lot b0 now fac d bs l0 ops Hd Hb Hv s.
  exact (inv_custody l0 s (run_inv l0 ops _ (inv_init v bd ld lot b0 now fac d bs l0 Hd Hb) Hv)).
Qed.
Print Assumptions c11_custody.

(* each accepted bid over a standing one improves on it by at least ceil(factor * standing)
   (forward auctions upwards, the two debt variants downwards) *)
Theorem c11_improves : forall v bd ld lot b0 now0 fac d bs l0 ops who denom amt now xd xa s' p,
  bd <> ld -> 0 <= b0 -> Forall valid_op ops -> 0 <= who ->
  let s := run (init v bd ld lot b0 now0 fac d bs, l0) ops in
  step s (Bid who denom amt now xd xa) = Ok s' -> bidder (fst s) = Some p ->
  exists c, change (factor (fst s)) (if reverse (var (fst s)) then sell (fst s) else buy (fst s)) = Some c /\
            (if reverse (var (fst s)) then amt <= sell (fst s) - c else buy (fst s) + c <= amt).
Proof.
  intros v bd ld lot b0 now0 fac d bs l0 ops who denom amt now xd xa [a' l'] p Hd Hb Hv Hw s Hs Hp.
  destruct (run_inv l0 ops _ (inv_init v bd ld lot b0 now0 fac d bs l0 Hd Hb) Hv) as [Hdd HI].
  fold s in Hdd, HI. destruct s as [a l]. cbn [step fst snd] in *.
  destruct (bid_facts l0 a l who denom amt now xd xa a' l' Hdd HI Hw Hs) as (Himp & _).
  exact (improves_spelled a amt p Himp Hp).
Qed.
Print Assumptions c11_improves.

(* with a positive factor a forward bid over a positive standing bid is strictly higher *)
Theorem c11_improves_strict : forall f x c, change f x = Some c -> 0 < f -> 0 < x -> x + 1 <= x + c.
Proof. intros f x c H Hf Hx. pose proof (change_pos f x c H Hf Hx). lia. Qed.
Print Assumptions c11_improves_strict.

(* the outbid bidder is refunded in full in the same step: its balance rises by the standing
   payment and is back at what it was when the auction started *)
Theorem c11_refund : forall v bd ld lot b0 now0 fac d bs l0 ops who denom amt now xd xa s' p,
  bd <> ld -> 0 <= b0 -> Forall valid_op ops -> 0 <= who ->
  let s := run (init v bd ld lot b0 now0 fac d bs, l0) ops in
  step s (Bid who denom amt now xd xa) = Ok s' -> bidder (fst s) = Some p -> p <> who ->
  snd s' p (bid_denom (fst s)) = snd s p (bid_denom (fst s)) + buy (fst s) /\
  snd s' p (bid_denom (fst s)) = l0 p (bid_denom (fst s)).
Proof.
  intros v bd ld lot b0 now0 fac d bs l0 ops who denom amt now xd xa [a' l'] p Hd Hb Hv Hw s Hs Hp Hne.
  destruct (run_inv l0 ops _ (inv_init v bd ld lot b0 now0 fac d bs l0 Hd Hb) Hv) as [Hdd HI].
  fold s in Hdd, HI. destruct s as [a l]. cbn [step fst snd] in *.
  destruct (bid_facts l0 a l who denom amt now xd xa a' l' Hdd HI Hw Hs) as (_ & Href & _).
  exact (Href p Hp Hne).
Qed.
Print Assumptions c11_refund.

(* after the close exactly the last accepted bidder has the lot and has paid the standing
   payment; every other bidder's net change over the whole auction is 0, in every denom.  The
   generation-2 surplus close (as repaired by 67f334a) takes the lot out of the generation-1 auction
   module account, where the start put it: that account is out of exactly the lot and of nothing
   else, and the collector - which the original code debited a second time - is where it was *)
Theorem c11_winner_only : forall v bd ld lot b0 now fac d bs l0 ops,
  bd <> ld -> 0 <= b0 -> Forall valid_op ops ->
  let s := run (init v bd ld lot b0 now fac d bs, l0) ops in
  status (fst s) = 2 ->
  exists w amt rest, bidder (fst s) = Some w /\ bids (fst s) = (w, amt) :: rest /\
    (forall acct dn, 0 <= acct ->
      snd s acct dn = l0 acct dn
        + (if (acct =? w) && (dn =? lot_denom (fst s)) then Z.max 0 (sell (fst s)) else 0)
        - (if (acct =? w) && (dn =? bid_denom (fst s)) then buy (fst s) else 0)) /\
    (var (fst s) = V2S ->
       (forall dn, snd s AUC1 dn = l0 AUC1 dn - (if dn =? lot_denom (fst s) then sell (fst s) else 0)) /\
       (forall dn, snd s COLL dn = l0 COLL dn)).
Proof.
  intros v bd ld lot b0 now fac d bs l0 ops Hd Hb Hv s Hst.
  destruct (run_inv l0 ops _ (inv_init v bd ld lot b0 now fac d bs l0 Hd Hb) Hv) as [_ [HO|HC]]; fold s in HO || fold s in HC.
  - destruct HO as ([H|H] & _); lia.
  - destruct HC as [HC|(H & _)]; [|lia].
    destruct HC as (_ & w & amt & rest & Hw & Hbs & _ & _ & Hl & Hsrc). exists w, amt, rest. auto.
Qed.
Print Assumptions c11_winner_only.

(* while the auction is open (neither closed, 2, nor wound up by the emergency shutdown, 3) nobody
   but the standing bidder is out of pocket, and the standing bidder is out of exactly the standing
   payment *)
Theorem c11_open_others_whole : forall v bd ld lot b0 now fac d bs l0 ops,
  bd <> ld -> 0 <= b0 -> Forall valid_op ops ->
  let s := run (init v bd ld lot b0 now fac d bs, l0) ops in
  status (fst s) <> 2 -> status (fst s) <> 3 ->
  forall acct dn, 0 <= acct ->
    snd s acct dn = l0 acct dn
      - (match bidder (fst s) with
         | Some w => if (acct =? w) && (dn =? bid_denom (fst s)) then buy (fst s) else 0
         | None => 0 end).
Proof.
  intros v bd ld lot b0 now fac d bs l0 ops Hd Hb Hv s Hst Hst3 acct dn Ha.
  destruct (run_inv l0 ops _ (inv_init v bd ld lot b0 now fac d bs l0 Hd Hb) Hv) as [_ [HO|HC]]; fold s in HO || fold s in HC.
  - destruct HO as (_ & _ & _ & _ & Hl). rewrite Hl. unfold MOD.
    destruct (Z.eqb_spec acct (-1)); [lia|]. cbn [andb]. lia.
  - destruct HC as [(Hc & _)|(Hc & _)]; contradiction.
Qed.
Print Assumptions c11_open_others_whole.

(* ---- the emergency shutdown (generation 1: auction.BeginBlocker with the app's ESM status on) ---- *)

(* the end under the emergency shutdown: NO bidder receives the lot and NO ONE has lost anything:
   every bidder account - the standing bidder included - is exactly where it was when the auction
   started, in every denom; the auction custody keeps nothing of the bid denom; the lot of a surplus
   auction is back in the collector and on its net-fee record (NF), a debt auction mints nothing *)
Theorem c11_esm_no_winner_all_whole : forall v bd ld lot b0 now fac d bs l0 ops,
  bd <> ld -> 0 <= b0 -> Forall valid_op ops ->
  let s := run (init v bd ld lot b0 now fac d bs, l0) ops in
  status (fst s) = 3 ->
  is_v1 (var (fst s)) = true /\
  (forall acct dn, 0 <= acct -> snd s acct dn = l0 acct dn) /\
  snd s MOD (bid_denom (fst s)) = l0 MOD (bid_denom (fst s)) /\
  (forall dn, snd s MOD dn = l0 MOD dn - lot_back (fst s) dn) /\
  (forall dn, snd s COLL dn = l0 COLL dn + lot_back (fst s) dn) /\
  (forall dn, snd s NF dn = l0 NF dn + lot_back (fst s) dn).
Proof.
  intros v bd ld lot b0 now fac d bs l0 ops Hd Hb Hv s Hst.
  pose proof (run_inv l0 ops _ (inv_init v bd ld lot b0 now fac d bs l0 Hd Hb) Hv) as HI. fold s in HI.
  pose proof (inv_custody l0 s HI) as Hc.
  destruct (inv_esm_end l0 s HI Hst) as (_ & Hv1 & _ & Hl & HM & HC & HN).
  repeat (split; [assumption|]). split; [|auto].
  rewrite Z.sub_move_r in Hc. rewrite Hc. unfold held, ended. rewrite Hst. cbn. lia.
Qed.
Print Assumptions c11_esm_no_winner_all_whole.

(* the block hook under the emergency shutdown, in ANY reachable state in which a generation-1
   auction is still there: it is wound up in that step (no restart, whatever the time), and the
   standing bidder, if there is one, has the whole standing payment back in the same step and is
   back at what it had when the auction started *)
Theorem c11_esm_refund : forall v bd ld lot b0 now0 fac d bs l0 ops now tm s',
  bd <> ld -> 0 <= b0 -> Forall valid_op ops ->
  let s := run (init v bd ld lot b0 now0 fac d bs, l0) ops in
  is_v1 (var (fst s)) = true -> ended (fst s) = false ->
  step s (TickEsm now tm) = Ok s' ->
  status (fst s') = 3 /\ bidder (fst s') = bidder (fst s) /\
  forall p, bidder (fst s) = Some p ->
    snd s' p (bid_denom (fst s)) = snd s p (bid_denom (fst s)) + buy (fst s) /\
    snd s' p (bid_denom (fst s)) = l0 p (bid_denom (fst s)).
Proof.
  intros v bd ld lot b0 now0 fac d bs l0 ops now tm [a' l'] Hd Hb Hv s Hv1 En Hs.
  destruct (run_inv l0 ops _ (inv_init v bd ld lot b0 now0 fac d bs l0 Hd Hb) Hv) as [Hdd HI].
  fold s in Hdd, HI. destruct s as [a l]. cbn [step fst snd] in *.
  destruct (tick_esm_facts l0 a l now tm a' l' Hdd HI En Hv1 Hs) as (H3 & _ & Hbd & Hp).
  split; [exact H3|]. split; [exact Hbd|]. intros p E. destruct (Hp p E) as (_ & H1 & H2). auto.
Qed.
Print Assumptions c11_esm_refund.

(* ... and that hook cannot fail: in ANY reachable state with an open generation-1 auction whose
   module account was not overdrawn in the bid denom when the auction started and (surplus) holds the
   lot, the hook under the emergency shutdown succeeds - so with c11_esm_refund the standing bidder
   IS refunded in the first block after the shutdown *)
Theorem c11_esm_hook_succeeds : forall v bd ld lot b0 now0 fac d bs l0 ops now tm,
  bd <> ld -> 0 <= b0 -> Forall valid_op ops ->
  let s := run (init v bd ld lot b0 now0 fac d bs, l0) ops in
  is_v1 (var (fst s)) = true -> ended (fst s) = false ->
  0 <= l0 MOD (bid_denom (fst s)) ->
  (var (fst s) = V1S -> 0 <= sell (fst s) <= l0 MOD (lot_denom (fst s))) ->
  exists s', step s (TickEsm now tm) = Ok s' /\ status (fst s') = 3.
Proof.
  intros v bd ld lot b0 now0 fac d bs l0 ops now tm Hd Hb Hv s Hv1 En Hm Hlot.
  destruct (run_inv l0 ops _ (inv_init v bd ld lot b0 now0 fac d bs l0 Hd Hb) Hv) as [Hdd HI].
  fold s in Hdd, HI. destruct s as [a l]. cbn [step fst snd] in *.
  destruct (tick_esm_progress l0 a l now tm Hdd (inv3_not_ended l0 a l HI En) Hv1 Hm Hlot) as [[a' l'] T].
  exists (a', l'). split; [exact T|].
  exact (proj1 (tick_esm_facts l0 a l now tm a' l' Hdd HI En Hv1 T)).
Qed.
Print Assumptions c11_esm_hook_succeeds.

(* the executable predicates that the runner evaluates on the implementation's observations after an
   emergency-shutdown close are consequences of the invariant *)
Theorem c11_esm_predicates : forall v bd ld lot b0 now fac d bs l0 ops,
  bd <> ld -> 0 <= b0 -> Forall valid_op ops ->
  let s := run (init v bd ld lot b0 now fac d bs, l0) ops in
  status (fst s) = 3 ->
  (forall acct, 0 <= acct ->
     holds_C11_esm (fst s) acct (l0 acct (bid_denom (fst s))) (l0 acct (lot_denom (fst s)))
                   (snd s acct (bid_denom (fst s))) (snd s acct (lot_denom (fst s))) = true) /\
  holds_C11_esm_lot (fst s) (l0 MOD (lot_denom (fst s))) (l0 COLL (lot_denom (fst s))) (l0 NF (lot_denom (fst s)))
                    (snd s MOD (lot_denom (fst s))) (snd s COLL (lot_denom (fst s))) (snd s NF (lot_denom (fst s))) = true /\
  holds_C11_custody (fst s) (l0 MOD (bid_denom (fst s))) (snd s MOD (bid_denom (fst s))) = true /\
  held (fst s) = 0.
Proof.
  intros v bd ld lot b0 now fac d bs l0 ops Hd Hb Hv s Hst.
  pose proof (run_inv l0 ops _ (inv_init v bd ld lot b0 now fac d bs l0 Hd Hb) Hv) as HI. fold s in HI.
  split; [exact (inv_holds_esm l0 s HI Hst)|]. split; [exact (inv_holds_esm_lot l0 s HI Hst)|].
  split; [exact (inv_holds_custody l0 s HI)|]. unfold held, ended. rewrite Hst. reflexivity.
Qed.
Print Assumptions c11_esm_predicates.

(* non-vacuity: a generation-1 surplus auction (lot 1000 of denom 1 in the module account), bidder 0
   is outbid by bidder 1 (standing 220000), then the emergency shutdown: the hook - long before any
   deadline - winds the auction up: nobody has the lot, bidder 1 has its 220000 back, the module holds
   nothing of the bid denom, the lot is back in the collector (5000 -> 6000) and on the net-fee record
   (1000 -> 2000); later hooks and bids change nothing *)
Definition esm_l0 : ledger := fun a d =>
  if (a =? COLL) then 5000 else if (a =? NF) then (if d =? 1 then 1000 else 0)
  else if (a =? MOD) then (if d =? 1 then 1000 else 0) else if (0 <=? a) && (d =? 0) then 1000000 else 0.
Definition esm_ops : list op :=
  [Bid 0 0 200000 10 0 0; Bid 1 0 220000 12 0 0; TickEsm 20 true; Bid 2 0 300000 21 0 0; Tick 3700 true; TickEsm 3800 true].
Example c11_esm_nonvacuous :
  Forall valid_op esm_ops /\
  let s1 := run (init V1S 0 1 1000 0 0 100000000000000000 3600 300, esm_l0) (firstn 2 esm_ops) in
  is_v1 (var (fst s1)) = true /\ ended (fst s1) = false /\ bidder (fst s1) = Some 1 /\ snd s1 1 0 = 780000 /\ snd s1 MOD 0 = 220000 /\
  (exists s', step s1 (TickEsm 20 true) = Ok s') /\
  let s := run (init V1S 0 1 1000 0 0 100000000000000000 3600 300, esm_l0) esm_ops in
  status (fst s) = 3 /\ bidder (fst s) = Some 1 /\ lot_back (fst s) 1 = 1000 /\
  snd s 1 0 = 1000000 /\ snd s 1 1 = 0 /\ snd s 0 0 = 1000000 /\ snd s 2 0 = 1000000 /\ snd s MOD 0 = 0 /\
  snd s MOD 1 = 0 /\ snd s COLL 1 = 6000 /\ snd s NF 1 = 2000 /\ active_biddings (fst s) = 2.
Proof.
  split; [repeat constructor; cbn; lia|]. vm_compute. repeat split. eexists. reflexivity.
Qed.

(* ... and a generation-1 debt auction (bidders pay 1000 of denom 1 for a falling lot of denom 0): the
   standing bidder 1 gets its 1000 back, nothing is minted, collector and net fees are where they
   were; without any bid the hook just removes the auction *)
(* the hypotheses of c11_esm_hook_succeeds are met by the state before the shutdown above *)
Example c11_esm_hook_succeeds_nonvacuous :
  let s1 := run (init V1S 0 1 1000 0 0 100000000000000000 3600 300, esm_l0) (firstn 2 esm_ops) in
  is_v1 (var (fst s1)) = true /\ ended (fst s1) = false /\ 0 <= esm_l0 MOD (bid_denom (fst s1)) /\
  (var (fst s1) = V1S -> 0 <= sell (fst s1) <= esm_l0 MOD (lot_denom (fst s1))) /\ sell (fst s1) = 1000.
Proof. vm_compute. repeat split; intros; discriminate. Qed.

Example c11_esm_debt_nonvacuous :
  let l0 : ledger := fun a d => if (0 <=? a) && (d =? 1) then 50000 else 0 in
  let s := run (init V1D 1 0 777 1000 0 100000000000000000 3600 300, l0)
               [Bid 0 0 700 10 1 1000; Bid 1 0 630 12 1 1000; TickEsm 13 true] in
  status (fst s) = 3 /\ bidder (fst s) = Some 1 /\ snd s 1 1 = 50000 /\ snd s 0 1 = 50000 /\ snd s 1 0 = 0 /\
  snd s MOD 1 = 0 /\ snd s COLL 1 = 0 /\ snd s NF 1 = 0 /\
  let s0 := run (init V1D 1 0 777 1000 0 100000000000000000 3600 300, l0) [TickEsm 1 true] in
  status (fst s0) = 3 /\ bidder (fst s0) = None /\ snd s0 MOD 1 = 0.
Proof. vm_compute. repeat split. Qed.

(* non-vacuity: a generation-2 surplus auction with three bidders: barely improving bid accepted,
   equal bid rejected, close after the end time; bidder 1 wins, bidder 0 and 2 are whole; the lot
   (1000) came out of the generation-1 auction module account (1007 -> 7), the collector keeps its
   5000 *)
Definition ex_l0 : ledger := fun a d =>
  if (a =? COLL) then 5000 else if (a =? AUC1) && (d =? 1) then 1007 else if (0 <=? a) && (d =? 0) then 1000000 else 0.
Definition ex_ops : list op :=
  [Bid 0 0 200000 10 0 0; Bid 2 0 200000 11 0 0; Bid 1 0 220000 12 0 0; Bid 2 0 219999 13 0 0; Tick 3700 true].
Example c11_nonvacuous :
  Forall valid_op ex_ops /\
  let s := run (init V2S 0 1 1000 0 0 100000000000000000 3600 300, ex_l0) ex_ops in
  status (fst s) = 2 /\ var (fst s) = V2S /\ bidder (fst s) = Some 1 /\ List.length (bids (fst s)) = 2%nat /\
  snd s 1 0 = 780000 /\ snd s 1 1 = 1000 /\ snd s 0 0 = 1000000 /\ snd s 2 0 = 1000000 /\ snd s MOD 0 = 0 /\
  snd s AUC1 1 = 7 /\ snd s COLL 1 = 5000 /\ snd s MOD 1 = 0.
Proof. split; [repeat constructor; cbn; lia|]. vm_compute. repeat split. Qed.

(* the lot source not funded (the generation-1 auction module account is one coin short; the
   collector is rich): the close fails at its first statement, the auction stays open with the
   standing bid in custody, nobody is paid, and the hook retries at every block *)
Definition ex_l0_short : ledger := fun a d =>
  if (a =? COLL) then 5000 else if (a =? AUC1) && (d =? 1) then 999 else if (0 <=? a) && (d =? 0) then 1000000 else 0.
Example c11_lot_source_short :
  let s0 := run (init V2S 0 1 1000 0 0 100000000000000000 3600 300, ex_l0_short) (firstn 4 ex_ops) in
  step s0 (Tick 3700 true) = Err 14 /\
  let s := run (init V2S 0 1 1000 0 0 100000000000000000 3600 300, ex_l0_short) ex_ops in
  status (fst s) = 1 /\ bidder (fst s) = Some 1 /\ snd s MOD 0 = 220000 /\ snd s 1 1 = 0 /\ snd s 1 0 = 780000 /\
  snd s AUC1 1 = 999 /\ snd s COLL 1 = 5000.
Proof. vm_compute. repeat split. Qed.
End E.

Module L.
Import LimitBid LimitBidProofs.

(* Limit bids, on the repaired code (fixes C11-F1: withdraw checks amount <= own deposit and the
   denom; C11-F2: the equal-amount automatic fill reduces BidValue).  [ops] is ANY finite history
   of deposit / cancel / withdraw messages (any sender, any amount, any denom, any asset ids,
   any premium) and automatic fills (any auction debt, any listing of records, any settlement
   outcome: committed or rolled back, any net out- or inflow of the module's debt coins),
   started from the empty book over any ledger. *)

(* the recorded total of every market equals the sum of the individual deposits, no deposit is
   negative, every deposit is in the denom of its market's debt asset -- no hypothesis at all *)
Theorem c11_limit_total : forall c l0 ops,
  let s := lrun c (lempty l0) ops in
  (forall m, tot m s = sum_market m s) /\ Forall nonneg (recs s) /\ Forall (denom_ok c) (recs s).
Proof.
  intros c l0 ops s.
  destruct (lrun_invB c ops _ (proj1 (linv_empty c l0))) as (H1 & H2 & H3). auto.
Qed.
Print Assumptions c11_limit_total.

(* the deposits are fully held in custody: in every denom the module account holds, on top of
   what it held when the history started, at least the sum of the deposits.  Hypotheses = the
   environment only: fees are fractions in [0,1]; messages are sent by bidder accounts (ids >= 0,
   not the module account itself); the Dutch settlement run by an automatic fill disburses no
   more of the module's debt coins than the filled records are charged (C10's concern) *)
Theorem c11_limit_custody : forall c l0 ops,
  fee_wf c -> env_run c (lempty l0) ops ->
  let s := lrun c (lempty l0) ops in
  forall d, sum_denom d s <= led s MOD d - l0 MOD d.
Proof.
  intros c l0 ops Hf He s. exact (proj2 (lrun_inv c l0 ops _ Hf (linv_empty c l0) He)).
Qed.
Print Assumptions c11_limit_custody.

(* ... in particular for every history of messages alone *)
Theorem c11_limit_custody_msgs : forall c l0 ops,
  fee_wf c -> Forall is_msg ops ->
  let s := lrun c (lempty l0) ops in
  forall d, sum_denom d s <= led s MOD d - l0 MOD d.
Proof.
  intros c l0 ops Hf Hm. exact (c11_limit_custody c l0 ops Hf (env_run_msgs c ops _ Hm)).
Qed.
Print Assumptions c11_limit_custody_msgs.
Example c11_limit_msgs_nonvacuous :
  Forall is_msg [Deposit 0 1 2 5 0 1000000; Withdraw 0 1 2 5 0 2900000; Cancel 1 1 2 5; Withdraw 0 1 2 5 1 7] /\
  ~ is_msg (AutoFill 2 1 5 [(0, 1000000)] 0 true) /\ ~ is_msg (Cancel MOD 1 2 5).
Proof. split; [repeat constructor; cbn; lia|]. split; cbn; unfold MOD; [tauto|lia]. Qed.

(* the executable predicates that the runner evaluates on the implementation's observations are
   consequences of the two theorems above *)
Theorem c11_limit_predicates : forall c l0 ops,
  fee_wf c -> env_run c (lempty l0) ops ->
  let s := lrun c (lempty l0) ops in
  (forall m, holds_C11_limit_total s m = true) /\
  (forall d, holds_C11_limit_custody s d (l0 MOD d) = true).
Proof.
  intros c l0 ops Hf He s. exact (linv_holds c l0 _ (lrun_inv c l0 ops _ Hf (linv_empty c l0) He)).
Qed.
Print Assumptions c11_limit_predicates.

(* own deposit only: in ANY reachable state an accepted withdraw is in the deposited denom, of at
   most the sender's own outstanding deposit; it pays the sender amount - fee with
   0 <= fee <= amount, pays nobody else anything, and the market total drops by the amount *)
Theorem c11_limit_own : forall c l0 ops who coll debt prem denom amt s',
  fee_wf c ->
  let s := lrun c (lempty l0) ops in
  lstep c s (Withdraw who coll debt prem denom amt) = Ok s' ->
  exists r fee, aget keq (mkK debt coll prem who) (recs s) = Some r /\
    denom = r_denom r /\ 0 < amt <= r_amt r /\ 0 <= fee <= amt /\
    (forall acct d, acct <> MOD ->
       led s' acct d = led s acct d + (if (acct =? who) && (d =? r_denom r) then amt - fee else 0)) /\
    tot (debt, coll) s' = tot (debt, coll) s - amt.
Proof.
  intros c l0 ops who coll debt prem denom amt s' Hf s.
  exact (withdraw_own c s who coll debt prem denom amt s' Hf (lrun_invB c ops _ (proj1 (linv_empty c l0)))).
Qed.
Print Assumptions c11_limit_own.

(* a cancel pays the sender its own deposit minus the closing fee, in the deposited denom, and
   nobody else anything; the market total drops by the deposit *)
Theorem c11_limit_cancel_own : forall c l0 ops who coll debt prem s',
  fee_wf c ->
  let s := lrun c (lempty l0) ops in
  lstep c s (Cancel who coll debt prem) = Ok s' ->
  exists r fee, aget keq (mkK debt coll prem who) (recs s) = Some r /\ 0 <= fee <= r_amt r /\
    (forall acct d, acct <> MOD ->
       led s' acct d = led s acct d + (if (acct =? who) && (d =? r_denom r) then r_amt r - fee else 0)) /\
    tot (debt, coll) s' = tot (debt, coll) s - r_amt r.
Proof.
  intros c l0 ops who coll debt prem s' Hf s. cbn [lstep].
  destruct ((coll =? 0) || (debt =? 0)); [discriminate|]. intros C.
  destruct (cancel_spec c s who coll debt prem s' Hf (lrun_invB c ops _ (proj1 (linv_empty c l0))) C)
    as (r & fee & Hg & Hfee & Hl & _ & _ & Ht).
  exists r, fee. repeat split; try lia; auto.
  intros acct d Ha. rewrite Hl. destruct (Z.eqb_spec acct MOD); [contradiction|]. cbn [andb]. lia.
Qed.
Print Assumptions c11_limit_cancel_own.

(* ---- regression cases: the witnesses of the two repaired defects now pass ---- *)
Definition cfg0 : cfg := mkCfg [(2, 0); (1, 1); (3, 2)] 0 0.
Definition rich : ledger := fun a d => if 0 <=? a then 10000000 else 0.

(* C11-F1, amount: a depositor of 1 000 000 asks for 2 900 000 of the module's 4 000 000: refused;
   nothing moves (on the original code: record -1 900 000, the other depositor's 3 000 000 backed
   by 1 100 000) *)
Example c11_limit_own_regression :
  let ops := [Deposit 0 1 2 5 0 1000000; Deposit 1 1 2 5 0 3000000; Withdraw 0 1 2 5 0 2900000] in
  let s := lrun cfg0 (lempty rich) ops in
  lstep cfg0 (lrun cfg0 (lempty rich) (firstn 2 ops)) (nth 2 ops (Cancel 0 0 0 0)) = Err 7 /\
  led s 0 0 = 9000000 /\ dep (mkK 2 1 5 0) s = 1000000 /\ dep (mkK 2 1 5 1) s = 3000000 /\
  tot (2, 1) s = 4000000 /\ led s MOD 0 = 4000000.
Proof. vm_compute. repeat split. Qed.

(* C11-F1, denom: a depositor of asset 2 (denom 0) asks for 500 000 of denom 1, which the module
   holds for another market: refused (on the original code: paid out) *)
Example c11_limit_denom_regression :
  let ops := [Deposit 0 1 2 5 0 1000000; Deposit 1 3 1 5 1 3000000; Withdraw 0 1 2 5 1 500000] in
  let s := lrun cfg0 (lempty rich) ops in
  lstep cfg0 (lrun cfg0 (lempty rich) (firstn 2 ops)) (nth 2 ops (Cancel 0 0 0 0)) = Err 5 /\
  led s 0 1 = 10000000 /\ sum_denom 1 s = 3000000 /\ led s MOD 1 = 3000000 /\ dep (mkK 2 1 5 0) s = 1000000.
Proof. vm_compute. repeat split. Qed.

(* C11-F2: the automatic fill of a record equal to the auction debt deletes the record AND
   reduces the total (on the original code: total 1 000 000, sum of deposits 0) *)
Example c11_limit_total_regression :
  let ops := [Deposit 0 1 2 5 0 1000000; AutoFill 2 1 5 [(0, 1000000)] 1000000 true] in
  let s := lrun cfg0 (lempty rich) ops in
  tot (2, 1) s = 0 /\ sum_market (2, 1) s = 0 /\ recs s = [] /\ led s MOD 0 = 0 /\
  env_run cfg0 (lempty rich) ops.
Proof. vm_compute. repeat split; try lia; discriminate. Qed.

(* the thorough-tier history (corpus case 3): a record of 1 250 000 is filled against the debt
   3 120 000; a new deposit of 1 000 000 then meets the remaining 1 870 000 when the collateral has
   run short: PlaceDutchAuctionBid cuts the bid down to 104 800, the app reserve pays the rest INTO
   the module, and (fixes/C10-F5) the limit bid is charged the 104 800 that were bid: 895 200 stay on
   the record, backed (the original code charged the record in full).  Measured without setting the
   booked penalty aside the settlement is a net INFLOW (the sign the model once turned into a panic):
   both are steps of the model, both meet the environment hypothesis of the custody theorem *)
Example c11_limit_fill_cut_down_regression :
  let ops := [Deposit 0 1 2 9 0 1250000; AutoFill 2 1 9 [(0, 1250000)] 1250000 true;
              Deposit 0 1 2 9 0 1000000; AutoFill 2 1 9 [(0, 104800)] 104800 true] in
  let s := lrun cfg0 (lempty rich) ops in
  dep (mkK 2 1 9 0) s = 895200 /\ tot (2, 1) s = 895200 /\ led s MOD 0 = 895200 /\ led s 0 0 = 7750000 /\
  env_run cfg0 (lempty rich) ops /\
  (exists s', lstep cfg0 (lrun cfg0 (lempty rich) (firstn 3 ops)) (AutoFill 2 1 9 [(0, 104800)] (-15200) true) = Ok s' /\
              dep (mkK 2 1 9 0) s' = 895200 /\ tot (2, 1) s' = 895200 /\ led s' MOD 0 = 1015200) /\
  env_ok (lrun cfg0 (lempty rich) (firstn 3 ops)) (AutoFill 2 1 9 [(0, 104800)] (-15200) true).
Proof.
  vm_compute. repeat split; try lia; try discriminate.
  eexists. split; [reflexivity|]. repeat split.
Qed.

(* corpus case 4 (C10-F5, fixed): a record of 3 000 000 above the debt 1 120 000 of an auction whose
   collateral is worth 906 000: the bid placed is 906 000 and that is what the record is charged (the
   original code charged the whole debt; the difference stayed in the module, owned by no record);
   a bid above what the record holds is not a closure of the code (ErrorMaxBidAmount) *)
Example c11_limit_fill_charge_regression :
  let ops := [Deposit 0 1 2 9 0 3000000; AutoFill 2 1 9 [(0, 906000)] 906000 true] in
  let s := lrun cfg0 (lempty rich) ops in
  dep (mkK 2 1 9 0) s = 2094000 /\ tot (2, 1) s = 2094000 /\ led s MOD 0 = 2094000 /\
  env_run cfg0 (lempty rich) ops /\
  lstep cfg0 (lrun cfg0 (lempty rich) (firstn 1 ops)) (AutoFill 2 1 9 [(0, 3000001)] 0 true) = Err 32.
Proof. vm_compute. repeat split; try lia; discriminate. Qed.

(* non-vacuity: two depositors, a fee-bearing partial withdraw, an automatic fill over both
   records of the premium (the first is used up by a partial bid, the second closes the auction with
   a part of its amount), a refused over-withdraw, a fee-bearing withdraw; the environment
   hypotheses of the custody theorem are met and the state is not trivial *)
Definition cfg1 : cfg := mkCfg [(2, 0); (1, 1); (3, 2)] 5000000000000000 10000000000000000.
Definition ex_ops : list lop :=
  [Deposit 0 1 2 5 0 1000000; Deposit 1 1 2 5 0 3000000; Withdraw 0 1 2 5 0 400000;
   AutoFill 2 1 5 [(0, 600000); (1, 100000)] 700000 true; Withdraw 1 1 2 5 0 2900001; Withdraw 1 1 2 5 0 400000].
Example c11_limit_nonvacuous :
  fee_wf cfg1 /\ env_run cfg1 (lempty rich) ex_ops /\
  let s := lrun cfg1 (lempty rich) ex_ops in
  tot (2, 1) s = 2500000 /\ dep (mkK 2 1 5 1) s = 2500000 /\ dep (mkK 2 1 5 0) s = 0 /\
  led s 0 0 = 10000000 - 1000000 + 396000 /\ led s 1 0 = 10000000 - 3000000 + 396000 /\ led s MOD 0 = 2508000.
Proof.
  split; [unfold fee_wf, cfg1; cbn; pose proof P18_pos; split; split; try lia;
          change P18 with 1000000000000000000; lia|].
  split; [vm_compute; repeat split; try lia; discriminate|].
  vm_compute. repeat split.
Qed.
End L.
