(* C09 — Liquidation is safe and live.
   Property theorems only; each is closed by [exact] of a lemma proved in Proofs/LiquidationProofs.v. *)
From Comdex Require Import Lib.Base Lib.DecArith Model.Liquidation Proofs.LiquidationProofs.

(* ---------------------------------------------------------------------------------------- *)
(* the slice: 0 <= start <= end <= len, for every length, offset and batch size (also the
   re-computed window after the "start == end" reset) *)
Theorem slice_bounds_ok : forall len off batch, 0 <= len ->
  0 <= fst (slice_bounds len off batch) <= snd (slice_bounds len off batch) /\
  snd (slice_bounds len off batch) <= len.
Proof. exact slice_bounds_ok_lem. Qed.
Print Assumptions slice_bounds_ok.

Theorem sweep_window_ok : forall len off batch, 0 <= len ->
  0 <= fst (sweep_window len off batch) <= snd (sweep_window len off batch) /\
  snd (sweep_window len off batch) <= len.
Proof. exact sweep_window_ok_lem. Qed.
Print Assumptions sweep_window_ok.

Example slice_bounds_nonvacuous :
  slice_bounds 10 7 5 = (7, 10) /\ slice_bounds 10 10 5 = (10, 10) /\ sweep_window 10 10 5 = (0, 5).
Proof. vm_compute. repeat split. Qed.

(* ---------------------------------------------------------------------------------------- *)
(* safety, vaults.  Whatever the population [vs], the list capacity, the stored counter, the
   offset and the batch size: a vault id that a sweep of either generation seizes belongs to a
   vault of the list whose ratio calc_cr(amt_in, amt_out + interest + closing_fee) at the env
   prices is computable and strictly below the liquidation ratio (and, V1, whose app is the
   app being swept). *)
Theorem c09_safe_vault : forall g app vs cap counter off batch r id,
  sweep_one g app (map (pos_of_vault g) vs) cap counter off batch = Ok r ->
  In id (r_seized r) ->
  exists v cr, In v vs /\ v_id v = id /\
    calc_cr v (v_amt_in v) (v_amt_out v + v_interest v + v_closing v) = Ok cr /\ cr < v_min_cr v.
Proof. intros. exact (proj1 (safe_vault_sweep _ _ _ _ _ _ _ _ _ H H0)). Qed.
Print Assumptions c09_safe_vault.

(* the whole V1 block (one sweep per whitelisted app, each with its own offset, the list
   re-read after every app) *)
Theorem c09_safe_vault_v1_block : forall capf batch apps vs counter offs ids st' id,
  sweep_v1 capf batch apps (mkV1 (map (pos_of_vault GV1) vs) counter offs) [] = Ok (ids, st') ->
  In id ids ->
  exists v cr, In v vs /\ v_id v = id /\
    calc_cr v (v_amt_in v) (v_amt_out v + v_interest v + v_closing v) = Ok cr /\ cr < v_min_cr v.
Proof. exact safe_vault_v1. Qed.
Print Assumptions c09_safe_vault_v1_block.

(* anyone's liquidate message (MsgLiquidateInternalKeeper, liq type 0): the same rule *)
Theorem c09_safe_vault_msg : forall vs id0 ids l' id,
  msg_liquidate GV2 (map (pos_of_vault GV2) vs) id0 = Ok (ids, l') -> In id ids ->
  exists v cr, In v vs /\ v_id v = id /\
    calc_cr v (v_amt_in v) (v_amt_out v + v_interest v + v_closing v) = Ok cr /\ cr < v_min_cr v.
Proof. exact safe_vault_msg. Qed.
Print Assumptions c09_safe_vault_msg.

(* the contrapositive, as the property states it: at or above the liquidation ratio -> never
   seized by the sweep (ids are unique in the list) *)
Theorem c09_safe_vault_never : forall g app vs cap counter off batch r v cr,
  NoDup (map v_id vs) -> In v vs ->
  calc_cr v (v_amt_in v) (v_amt_out v + v_interest v + v_closing v) = Ok cr -> v_min_cr v <= cr ->
  sweep_one g app (map (pos_of_vault g) vs) cap counter off batch = Ok r ->
  ~ In (v_id v) (r_seized r).
Proof. exact safe_vault_never. Qed.
Print Assumptions c09_safe_vault_never.

(* the boolean the runner evaluates on the implementation's seizures is this statement *)
Theorem c09_safe_predicate : forall v, vault_unsafe v = true ->
  exists cr, calc_cr v (v_amt_in v) (v_amt_out v + v_interest v + v_closing v) = Ok cr /\ cr < v_min_cr v.
Proof. exact vault_unsafe_spec. Qed.
Print Assumptions c09_safe_predicate.

(* safety, borrows: a seized borrow has debt/collateral strictly above the threshold applicable to
   it (plain, or the product with the first / second transit asset's threshold) *)
Theorem c09_safe_borrow : forall g bs cap off batch r id,
  sweep_one g 0 (map (pos_of_borrow g) bs) cap (zlen bs) off batch = Ok r -> g <> GV1 ->
  In id (r_seized r) ->
  exists b cr th, In b bs /\ b_id b = id /\ lend_cr b = Ok cr /\ borrow_threshold b = Ok th /\ cr > th.
Proof. exact safe_borrow_sweep. Qed.
Print Assumptions c09_safe_borrow.

(* exact handover, as far as the seizure effects are modelled: any sequence of seizures moves
   exactly the recorded collateral from vault custody to auction custody and opens exactly one
   locked record and one auction per seizure (the same predicate judges the implementation) *)
Theorem c09_exact_handover : forall amts c,
  holds_C09_handover c (fold_left seize_effect amts c) amts = true.
Proof. exact handover_fold. Qed.
Print Assumptions c09_exact_handover.
