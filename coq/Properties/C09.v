(* C09 — Liquidation is safe and live.
   Property theorems only; each is closed by [exact] of a lemma proved in Proofs/LiquidationProofs.v. *)
From Comdex Require Import Lib.Base Lib.DecArith Model.Liquidation Proofs.LiquidationProofs.

(* ---------------------------------------------------------------------------------------- *)
(* the slice: 0 <= start <= end <= len, for every length, offset and batch size (also the
   re-computed window after the "start == end" reset) *)
Theorem slice_bounds_ok : forall len off batch, 0 <= len ->
  0 <= fst (slice_bounds len off batch) <= snd (slice_bounds len off batch) /\
  snd (slice_bounds len off batch) <= len.
Proof. exact slice_bounds_ok_lem. Qed.
Print Assumptions slice_bounds_ok.

Theorem sweep_window_ok : forall len off batch, 0 <= len ->
  0 <= fst (sweep_window len off batch) <= snd (sweep_window len off batch) /\
  snd (sweep_window len off batch) <= len.
Proof. exact sweep_window_ok_lem. Qed.
Print Assumptions sweep_window_ok.

Example slice_bounds_nonvacuous :
  slice_bounds 10 7 5 = (7, 10) /\ slice_bounds 10 10 5 = (10, 10) /\ sweep_window 10 10 5 = (0, 5).
Proof. vm_compute. repeat split. Qed.

(* ---------------------------------------------------------------------------------------- *)
(* safety, vaults.  Whatever the population [vs], the list capacity, the stored counter, the
   offset and the batch size: a vault id that a sweep of either generation seizes belongs to a
   vault of the list whose ratio calc_cr(amt_in, amt_out + interest + closing_fee) at the env
   prices is computable and strictly below the liquidation ratio (and, V1, whose app is the
   app being swept). *)
Theorem c09_safe_vault : forall g app vs cap counter off batch r id,
  sweep_one g app (map (pos_of_vault g) vs) cap counter off batch = Ok r ->
  In id (r_seized r) ->
  exists v cr, In v vs /\ v_id v = id /\
    calc_cr v (v_amt_in v) (v_amt_out v + v_interest v + v_closing v) = Ok cr /\ cr < v_min_cr v.
Proof. intros. exact (proj1 (safe_vault_sweep _ _ _ _ _ _ _ _ _ H H0)). Qed.
Print Assumptions c09_safe_vault.

(* the whole V1 block (one sweep per whitelisted app, each with its own offset, the list
   re-read after every app) *)
Theorem c09_safe_vault_v1_block : forall capf batch apps vs counter offs ids st' id,
  sweep_v1 capf batch apps (mkV1 (map (pos_of_vault GV1) vs) counter offs) [] = Ok (ids, st') ->
  In id ids ->
  exists v cr, In v vs /\ v_id v = id /\
    calc_cr v (v_amt_in v) (v_amt_out v + v_interest v + v_closing v) = Ok cr /\ cr < v_min_cr v.
Proof. exact safe_vault_v1. Qed.
Print Assumptions c09_safe_vault_v1_block.

(* anyone's liquidate message (MsgLiquidateInternalKeeper, liq type 0): the same rule *)
Theorem c09_safe_vault_msg : forall vs id0 ids l' id,
  msg_liquidate GV2 (map (pos_of_vault GV2) vs) id0 = Ok (ids, l') -> In id ids ->
  exists v cr, In v vs /\ v_id v = id /\
    calc_cr v (v_amt_in v) (v_amt_out v + v_interest v + v_closing v) = Ok cr /\ cr < v_min_cr v.
Proof. exact safe_vault_msg. Qed.
Print Assumptions c09_safe_vault_msg.

(* the contrapositive, as the property states it: at or above the liquidation ratio -> never
   seized by the sweep (ids are unique in the list) *)
Theorem c09_safe_vault_never : forall g app vs cap counter off batch r v cr,
  NoDup (map v_id vs) -> In v vs ->
  calc_cr v (v_amt_in v) (v_amt_out v + v_interest v + v_closing v) = Ok cr -> v_min_cr v <= cr ->
  sweep_one g app (map (pos_of_vault g) vs) cap counter off batch = Ok r ->
  ~ In (v_id v) (r_seized r).
Proof. exact safe_vault_never. Qed.
Print Assumptions c09_safe_vault_never.

(* the boolean the runner evaluates on the implementation's seizures is this statement *)
Theorem c09_safe_predicate : forall v, vault_unsafe v = true ->
  exists cr, calc_cr v (v_amt_in v) (v_amt_out v + v_interest v + v_closing v) = Ok cr /\ cr < v_min_cr v.
Proof. exact vault_unsafe_spec. Qed.
Print Assumptions c09_safe_predicate.

(* safety, borrows: a seized borrow has debt/collateral strictly above the threshold applicable to
   it (plain, or the product with the first / second transit asset's threshold) *)
Theorem c09_safe_borrow : forall g bs cap off batch r id,
  sweep_one g 0 (map (pos_of_borrow g) bs) cap (zlen bs) off batch = Ok r -> g <> GV1 ->
  In id (r_seized r) ->
  exists b cr th, In b bs /\ b_id b = id /\ lend_cr b = Ok cr /\ borrow_threshold b = Ok th /\ cr > th.
Proof. exact safe_borrow_sweep. Qed.
Print Assumptions c09_safe_borrow.

(* exact handover, as far as the seizure effects are modelled: any sequence of seizures moves
   exactly the recorded collateral from vault custody to auction custody and opens exactly one
   locked record and one auction per seizure (the same predicate judges the implementation) *)
Theorem c09_exact_handover : forall amts c,
  holds_C09_handover c (fold_left seize_effect amts c) amts = true.
Proof. exact handover_fold. Qed.
Print Assumptions c09_exact_handover.

(* ---------------------------------------------------------------------------------------- *)
(* liveness.  The schedule ([event]): EBlock u = one block of the sweep in which the positions
   with u id = true are on the unsafe side (any verdicts for the other positions in every block
   = every oracle price path); EClose id = a user closes, or anything else removes, another
   position; ECreate id = a user opens a position (appended: larger id).  State = (id list,
   stored offset); single offset, counter = list length (theorem [c09_block_is_sweep] ties the
   block to the keepers' sweep_one of V1 (one app) and V2 LiquidateVaults).

   BOUND (named honestly): this is NOT the property's "two full sweeps" = 2*ceil(n/batch) blocks,
   which is refuted below.  What is proved is
       live_bound m c b = m * ((m-1)/b + 2) + 2c     blocks,   m = n + c,
   n = list length when the position became unsafe, c = creations during the wait, b = batch:
   O(n^2/batch) blocks.  The falling-market witness (n(n-1)/2 + 1 blocks for batch 1) shows the
   quadratic order is attained by the sweep, so no linear bound exists for every price path.
   For CONSTANT verdicts the exhaustive evaluation (Example c09_static_worst_table, a test not
   a proof) gives worst = 2*ceil(n/b)+2 blocks for n <= 10 (22 at n=10, b=1). *)

Theorem c09_live_quiet : forall b x ids off us,
  1 <= b -> 0 <= off -> NoDup ids -> In x ids ->
  Forall (fun u => u x = true) us ->
  live_bound (zlen ids) 0 b <= zlen us ->
  ~ In x (fst (fold_left (ev_step b) (blocks_of us) (ids, off))).
Proof. exact live_quiet. Qed.
Print Assumptions c09_live_quiet.

Theorem c09_live_interleaved : forall b x ids off evs c,
  1 <= b -> 0 <= off -> NoDup ids -> In x ids ->
  run_ok b x (ids, off) evs -> n_creates evs <= c ->
  live_bound (zlen ids + c) c b <= n_blocks evs ->
  ~ In x (fst (fold_left (ev_step b) evs (ids, off))).
Proof. exact live_interleaved. Qed.
Print Assumptions c09_live_interleaved.

(* the block of the schedule is the keepers' sweep with counter = capacity = length *)
Theorem c09_block_is_sweep : forall g ids off b u, (g = GV1 \/ g = GV2) -> zlen ids < two63 ->
  exists r, sweep_one g 0 (map (lpos u) ids) (zlen ids) (zlen ids) off b = Ok r /\
            block_ids ids off b u = (r_seized r, map p_id (r_list r), r_off r) /\
            r_aborted r = false.
Proof. exact block_is_sweep_one. Qed.
Print Assumptions c09_block_is_sweep.

(* non-vacuity: a concrete interleaved schedule meeting every hypothesis, long enough for the bound *)
Example c09_live_nonvacuous :
  let evs := [EBlock (pattern 8); ECreate 7; EBlock (pattern 8); EClose 0] ++ blocks_of (repeat (pattern 8) 20) in
  run_ok 2 3 ([0;1;2;3], 2) evs /\ n_creates evs <= 1 /\
  live_bound (zlen [0;1;2;3] + 1) 1 2 <= n_blocks evs /\
  fold_left (ev_step 2) evs ([0;1;2;3], 2) = ([1; 2; 7], 2).
Proof. vm_compute. repeat split; intros; try discriminate; try (intuition discriminate). Qed.

(* exhaustive evaluation on small sizes (a TEST of the bound's order, not a proof): every
   safe/unsafe pattern of n positions, every start offset, every unsafe position, constant verdicts *)
Example c09_static_worst_table :
  map (fun nb => worst_blocks (fst nb) (snd nb)) [(4,1);(5,1);(6,1);(7,1);(6,2);(7,2);(6,3);(7,3)]
  = [6; 8; 10; 13; 6; 7; 5; 5]
  /\ map (fun nb => two_sweeps (fst nb) (snd nb)) [(4,1);(5,1);(6,1);(7,1);(6,2);(7,2);(6,3);(7,3)]
  = [8; 10; 12; 14; 6; 8; 4; 6].
Proof. vm_compute. split; reflexivity. Qed.

(* ---- refuted: the literal "at most two full sweeps of the position list" ---- *)
(* constant verdicts (one price drop, then a quiet chain): 9 positions, batch 1, positions 5..8
   unsafe: position 8 is open after 18 = 2*9 blocks and is seized in block 19 (third pass) *)
Theorem c09_two_sweeps_refuted :
  let ids := [0;1;2;3;4;5;6;7;8] in
  let u := pattern 480 in
  u 8 = true /\ two_sweeps 9 1 = 18 /\
  In 8 (fst (fold_left (ev_step 1) (blocks_of (repeat u 18)) (ids, 0))) /\
  ~ In 8 (fst (fold_left (ev_step 1) (blocks_of (repeat u 19)) (ids, 0))).
Proof. exact two_sweeps_refuted_static. Qed.
Print Assumptions c09_two_sweeps_refuted.

(* falling market: 6 positions, batch 1: position 5, unsafe in every block, is open after 15 > 12
   blocks (seized in block 16 = 6*5/2 + 1) *)
Theorem c09_two_sweeps_falling_refuted :
  Forall (fun u => u 5 = true) falling_schedule /\ two_sweeps 6 1 = 12 /\
  In 5 (fst (fold_left (ev_step 1) (blocks_of (firstn 15 falling_schedule)) ([0;1;2;3;4;5], 0))) /\
  ~ In 5 (fst (fold_left (ev_step 1) (blocks_of falling_schedule) ([0;1;2;3;4;5], 0))).
Proof. exact two_sweeps_refuted_falling. Qed.
Print Assumptions c09_two_sweeps_falling_refuted.

(* ---- refuted: liveness of liquidationsV2 as deployed ---- *)
(* the V2 hook = vault sweep, then borrow sweep that stores ITS offset under the vault sweep's key:
   2 vaults, batch 1, the second unsafe, all hypotheses met, no borrows: the state is a fixed
   point of the hook, so the unsafe vault is never seized, whatever the number of blocks *)
Theorem c09_live_v2_refuted : forall k, run_v2 (fun n => n) 1 k v2_starved = Ok v2_starved.
Proof. exact live_v2_refuted. Qed.
Print Assumptions c09_live_v2_refuted.

(* V2 borrows: the loop is not wrapped per item; an erroring borrow in front of an unsafe one
   aborts the sweep before it in every block (the V1-style wrapped loop serves the same list) *)
Theorem c09_live_borrow_refuted : forall k, run_v2 (fun n => n) 5 k v2_borrow_starved = Ok v2_borrow_starved.
Proof. exact live_borrow_refuted. Qed.
Print Assumptions c09_live_borrow_refuted.

Example c09_borrow_wrapped_would_serve :
  exists r, sweep_one GB1 0 [mkPos 1 0 VErr; mkPos 2 0 VSeize] 2 2 0 5 = Ok r /\ r_seized r = [2].
Proof. exact live_borrow_wrapped_ok. Qed.
