(* C09 — Liquidation is safe and live.
   Property theorems only; each is closed by [exact] of a lemma proved in Proofs/LiquidationProofs.v. *)
From Comdex Require Import Lib.Base Lib.DecArith Model.Liquidation Proofs.LiquidationProofs.

(* ---------------------------------------------------------------------------------------- *)
(* the slice: 0 <= start <= end <= len, for every length, offset and batch size (also the
   re-computed window after the "start == end" reset) *)
Theorem slice_bounds_ok : forall len off batch, 0 <= len ->
  0 <= fst (slice_bounds len off batch) <= snd (slice_bounds len off batch) /\
  snd (slice_bounds len off batch) <= len.
Proof. exact slice_bounds_ok_lem. Qed.
Print Assumptions slice_bounds_ok.

Theorem sweep_window_ok : forall len off batch, 0 <= len ->
  0 <= fst (sweep_window len off batch) <= snd (sweep_window len off batch) /\
  snd (sweep_window len off batch) <= len.
Proof. exact sweep_window_ok_lem. Qed.
Print Assumptions sweep_window_ok.

Example slice_bounds_nonvacuous :
  slice_bounds 10 7 5 = (7, 10) /\ slice_bounds 10 10 5 = (10, 10) /\ sweep_window 10 10 5 = (0, 5).
Proof. vm_compute. repeat split. Qed.

(* ---------------------------------------------------------------------------------------- *)
(* safety, vaults.  Whatever the population [vs], the list capacity, the stored counter, the
   offset and the batch size: a vault id that a sweep of either generation seizes belongs to a
   vault of the list whose ratio calc_cr(amt_in, amt_out + interest + closing_fee) at the env
   prices is computable and strictly below the liquidation ratio (and, V1, whose app is the
   app being swept). *)
Theorem c09_safe_vault : forall g app vs cap counter off batch r id,
  sweep_one g app (map (pos_of_vault g) vs) cap counter off batch = Ok r ->
  In id (r_seized r) ->
  exists v cr, In v vs /\ v_id v = id /\
    calc_cr v (v_amt_in v) (v_amt_out v + v_interest v + v_closing v) = Ok cr /\ cr < v_min_cr v.
Proof. intros. exact (proj1 (safe_vault_sweep _ _ _ _ _ _ _ _ _ H H0)). Qed.
Print Assumptions c09_safe_vault.

(* the whole V1 block (one sweep per whitelisted app, each with its own offset, the list
   re-read after every app) *)
Theorem c09_safe_vault_v1_block : forall capf batch apps vs counter offs ids st' id,
  sweep_v1 capf batch apps (mkV1 (map (pos_of_vault GV1) vs) counter offs) [] = Ok (ids, st') ->
  In id ids ->
  exists v cr, In v vs /\ v_id v = id /\
    calc_cr v (v_amt_in v) (v_amt_out v + v_interest v + v_closing v) = Ok cr /\ cr < v_min_cr v.
Proof. exact safe_vault_v1. Qed.
Print Assumptions c09_safe_vault_v1_block.

(* anyone's liquidate message (MsgLiquidateInternalKeeper, liq type 0): the same rule *)
Theorem c09_safe_vault_msg : forall vs id0 ids l' id,
  msg_liquidate GV2 (map (pos_of_vault GV2) vs) id0 = Ok (ids, l') -> In id ids ->
  exists v cr, In v vs /\ v_id v = id /\
    calc_cr v (v_amt_in v) (v_amt_out v + v_interest v + v_closing v) = Ok cr /\ cr < v_min_cr v.
Proof. exact safe_vault_msg. Qed.
Print Assumptions c09_safe_vault_msg.

(* the contrapositive, as the property states it: at or above the liquidation ratio -> never
   seized by the sweep (ids are unique in the list) *)
Theorem c09_safe_vault_never : forall g app vs cap counter off batch r v cr,
  NoDup (map v_id vs) -> In v vs ->
  calc_cr v (v_amt_in v) (v_amt_out v + v_interest v + v_closing v) = Ok cr -> v_min_cr v <= cr ->
  sweep_one g app (map (pos_of_vault g) vs) cap counter off batch = Ok r ->
  ~ In (v_id v) (r_seized r).
Proof. exact safe_vault_never. Qed.
Print Assumptions c09_safe_vault_never.

(* the boolean the runner evaluates on the implementation's seizures is this statement *)
Theorem c09_safe_predicate : forall v, vault_unsafe v = true ->
  exists cr, calc_cr v (v_amt_in v) (v_amt_out v + v_interest v + v_closing v) = Ok cr /\ cr < v_min_cr v.
Proof. exact vault_unsafe_spec. Qed.
Print Assumptions c09_safe_predicate.

(* safety, borrows.  The threshold APPLICABLE to a borrow, as LiquidateIndividualBorrow computes it
   (liquidationsV2 liquidate.go:295-349), is Model.Liquidation.applicable_threshold:
     base   = ELiquidationThreshold of the collateral asset for an e-mode pair, else its LiquidationThreshold
     same pool        (BridgedAssetAmount = 0)                               base
     first transit    (bridged denom = denom of the pool's first transit asset)   base.Mul(LiquidationThreshold(first))
     second transit   (otherwise)                                             base.Mul(LiquidationThreshold(second))
   with sdk.Dec.Mul (round half even at 18 places); the ratio is lend_cr = value(AmountOut +
   trunc(InterestAccumulated)) / value(AmountIn) in sdk.Dec (Quo), compared with GT. *)
Theorem c09_applicable_threshold : forall b,
  (b_bridged_amt b = 0 -> applicable_threshold b = Ok (base_threshold b)) /\
  (b_bridged_amt b <> 0 -> b_bridged_denom b = b_first_denom b ->
     applicable_threshold b = oz (dmul_c (base_threshold b) (b_thr_one b))) /\
  (b_bridged_amt b <> 0 -> b_bridged_denom b <> b_first_denom b ->
     applicable_threshold b = oz (dmul_c (base_threshold b) (b_thr_two b))) /\
  (b_emode b = true -> base_threshold b = b_eliq_thr b) /\
  (b_emode b = false -> base_threshold b = b_liq_thr b).
Proof. exact applicable_threshold_cases. Qed.
Print Assumptions c09_applicable_threshold.

(* a borrow seized by a sweep (either generation) has debt/collateral strictly above the threshold
   applicable to it, whatever the population, the offset, the batch size and the other borrows *)
Theorem c09_safe_borrow : forall g bs cap off batch r id,
  sweep_one g 0 (map (pos_of_borrow g) bs) cap (zlen bs) off batch = Ok r -> g <> GV1 ->
  In id (r_seized r) ->
  exists b cr th, In b bs /\ b_id b = id /\ lend_cr b = Ok cr /\ applicable_threshold b = Ok th /\ cr > th.
Proof. exact safe_borrow_sweep. Qed.
Print Assumptions c09_safe_borrow.

(* anyone's liquidate message (MsgLiquidateInternalKeeper, liq type 1): the same rule *)
Theorem c09_safe_borrow_msg : forall bs id0 ids l' id,
  msg_liquidate GB2 (map (pos_of_borrow GB2) bs) id0 = Ok (ids, l') -> In id ids ->
  exists b cr th, In b bs /\ b_id b = id /\ lend_cr b = Ok cr /\ applicable_threshold b = Ok th /\ cr > th.
Proof. exact safe_borrow_msg. Qed.
Print Assumptions c09_safe_borrow_msg.

(* the property's wording: a borrow whose ratio is AT OR BELOW the applicable threshold is never
   seized, neither by the per-block sweep ... *)
Theorem c09_safe_borrow_never : forall g bs cap off batch r b cr th,
  g <> GV1 -> NoDup (map b_id bs) -> In b bs ->
  lend_cr b = Ok cr -> applicable_threshold b = Ok th -> cr <= th ->
  sweep_one g 0 (map (pos_of_borrow g) bs) cap (zlen bs) off batch = Ok r ->
  ~ In (b_id b) (r_seized r).
Proof. exact safe_borrow_never. Qed.
Print Assumptions c09_safe_borrow_never.

(* ... nor by anyone's liquidate message *)
Theorem c09_safe_borrow_never_msg : forall bs id0 ids l' b cr th,
  NoDup (map b_id bs) -> In b bs ->
  lend_cr b = Ok cr -> applicable_threshold b = Ok th -> cr <= th ->
  msg_liquidate GB2 (map (pos_of_borrow GB2) bs) id0 = Ok (ids, l') ->
  ~ In (b_id b) ids.
Proof. exact safe_borrow_never_msg. Qed.
Print Assumptions c09_safe_borrow_never_msg.

(* the boolean the runner evaluates on the implementation's borrow seizures is this statement *)
Theorem c09_safe_borrow_predicate : forall b, borrow_unsafe b = true ->
  exists cr th, lend_cr b = Ok cr /\ applicable_threshold b = Ok th /\ cr > th.
Proof. exact borrow_unsafe_spec. Qed.
Print Assumptions c09_safe_borrow_predicate.

(* the one-pass evaluation the runner extracts (ratio computed once) is exactly the rule, the ratio,
   the applicable threshold and the safety predicate *)
Theorem c09_borrow_eval : forall g b,
  e_v (borrow_eval g b) = seize_rule_borrow g b /\ e_cr (borrow_eval g b) = lend_cr b /\
  e_th (borrow_eval g b) = applicable_threshold b /\ e_unsafe (borrow_eval g b) = borrow_unsafe b.
Proof. exact borrow_eval_spec. Qed.
Print Assumptions c09_borrow_eval.

(* non-vacuity: collateral 100 (price 1.6, 10^6 decimals), debt 40 (price 2.0): ratio 0.5.
   Collateral threshold 0.55 (e-mode 0.95), first transit 0.85, second transit 0.75:
     same pool 0.55 -> kept; first transit 0.4675 -> seized; second transit 0.4125 -> seized;
     e-mode first transit 0.8075 -> kept; exactly at the threshold (0.5 vs 0.5) -> kept, one
     unit in the last place above -> seized; the pool short of the collateral -> error *)
Definition c09_ex_borrow (bridged denom : Z) (emode : bool) (thr : Z) (pool_bal : Z) : borrow_in :=
  mkBorrowIn 7 true false true false true false 100000000 40000000 0 (Some 1600000) 1000000 (Some 2000000) 1000000
             thr 950000000000000000 emode bridged denom 3 850000000000000000 750000000000000000
             true true false pool_bal 100000000 false.
Example c09_safe_borrow_nonvacuous :
  lend_cr (c09_ex_borrow 0 0 false 550000000000000000 100000000) = Ok 500000000000000000 /\
  map (fun b => (applicable_threshold b, seize_rule_borrow GB2 b))
      [c09_ex_borrow 0 0 false 550000000000000000 100000000;
       c09_ex_borrow 5 3 false 550000000000000000 100000000;
       c09_ex_borrow 5 1 false 550000000000000000 100000000;
       c09_ex_borrow 5 3 true 550000000000000000 100000000;
       c09_ex_borrow 0 0 false 500000000000000000 100000000;
       c09_ex_borrow 0 0 false 499999999999999999 100000000;
       c09_ex_borrow 5 3 false 550000000000000000 99999999] =
    [(Ok 550000000000000000, VKeep); (Ok 467500000000000000, VSeize); (Ok 412500000000000000, VSeize);
     (Ok 807500000000000000, VKeep); (Ok 500000000000000000, VKeep); (Ok 499999999999999999, VSeize);
     (Ok 467500000000000000, VErr)].
Proof. vm_compute. split; reflexivity. Qed.

(* exact handover, as far as the seizure effects are modelled: any sequence of seizures moves
   exactly the recorded collateral from vault custody to auction custody and opens exactly one
   locked record and one auction per seizure (the same predicate judges the implementation) *)
Theorem c09_exact_handover : forall amts c,
  holds_C09_handover c (fold_left seize_effect amts c) amts = true.
Proof. exact handover_fold. Qed.
Print Assumptions c09_exact_handover.

(* exact hand-over of a BORROW seizure (UpdateLockedBorrows), for every world and every borrow:
   exactly the recorded collateral AmountIn leaves the module account of the lend position's pool
   for the auctionsV2 module account, the same amount of its cToken is burnt there, no other balance
   moves; TotalLend of (pool, asset) of the lend position and TotalBorrowed / TotalStableBorrowed of
   (AssetOutPoolID, AssetOut) shrink by exactly AmountIn resp. AmountOut, no other statistic
   moves; no other lend position changes; IsLiquidated is set; exactly one locked vault and one
   auction are opened, for exactly the recorded collateral *)
Theorem c09_exact_handover_borrow : forall w z,
  z_pool_acc z <> auction_acc -> z_denom_in z <> z_cdenom z ->
  let w' := seize_borrow_world w z in
  kget (w_bal w') (z_pool_acc z, z_denom_in z) = kget (w_bal w) (z_pool_acc z, z_denom_in z) - z_amt_in z /\
  kget (w_bal w') (auction_acc, z_denom_in z) = kget (w_bal w) (auction_acc, z_denom_in z) + z_amt_in z /\
  kget (w_bal w') (z_pool_acc z, z_cdenom z) = kget (w_bal w) (z_pool_acc z, z_cdenom z) - z_amt_in z /\
  (forall k, k <> (z_pool_acc z, z_denom_in z) -> k <> (auction_acc, z_denom_in z) -> k <> (z_pool_acc z, z_cdenom z) ->
     kget (w_bal w') k = kget (w_bal w) k) /\
  kget (w_supply w') (0, z_cdenom z) = kget (w_supply w) (0, z_cdenom z) - z_amt_in z /\
  (forall k, k <> (0, z_cdenom z) -> kget (w_supply w') k = kget (w_supply w) k) /\
  kget (w_tlend w') (z_pool_in z, z_asset_in z) = kget (w_tlend w) (z_pool_in z, z_asset_in z) - z_amt_in z /\
  (forall k, k <> (z_pool_in z, z_asset_in z) -> kget (w_tlend w') k = kget (w_tlend w) k) /\
  kget (w_tborrow w') (z_pool_out z, z_asset_out z) + kget (w_tstable w') (z_pool_out z, z_asset_out z) =
    kget (w_tborrow w) (z_pool_out z, z_asset_out z) + kget (w_tstable w) (z_pool_out z, z_asset_out z) - z_amt_out z /\
  (forall k, k <> (z_pool_out z, z_asset_out z) ->
     kget (w_tborrow w') k = kget (w_tborrow w) k /\ kget (w_tstable w') k = kget (w_tstable w) k) /\
  (forall id, id <> z_lend z -> lend_get (w_lend w') id = lend_get (w_lend w) id) /\
  w_liq w' = w_liq w ++ [z_id z] /\
  w_locked w' = w_locked w ++ [(z_id z, z_amt_in z)] /\
  w_auction w' = w_auction w ++ [(z_id z, z_amt_in z)].
Proof. exact handover_borrow_one. Qed.
Print Assumptions c09_exact_handover_borrow.

(* the lend position of the seized borrow keeps exactly AmountIn - collateral, or is deleted when
   nothing positive is left *)
Theorem c09_exact_handover_borrow_lend : forall w z v, NoDup (map fst (w_lend w)) ->
  lend_get (w_lend w) (z_lend z) = Some v ->
  lend_get (w_lend (seize_borrow_world w z)) (z_lend z) = if v - z_amt_in z >? 0 then Some (v - z_amt_in z) else None.
Proof. intros w z v Hnd H. exact (lend_get_sub_spec (w_lend w) (z_lend z) (z_amt_in z) v Hnd H). Qed.
Print Assumptions c09_exact_handover_borrow_lend.

(* any sequence of borrow seizures (one block of the sweep, or a message): exactly one locked vault
   and one auction per seized borrow, in order, each for exactly the recorded collateral ... *)
Theorem c09_exact_handover_borrow_records : forall zs w,
  w_locked (fold_left seize_borrow_world zs w) = w_locked w ++ map (fun z => (z_id z, z_amt_in z)) zs /\
  w_auction (fold_left seize_borrow_world zs w) = w_auction w ++ map (fun z => (z_id z, z_amt_in z)) zs /\
  w_liq (fold_left seize_borrow_world zs w) = w_liq w ++ seized_ids zs.
Proof. exact handover_borrow_records. Qed.
Print Assumptions c09_exact_handover_borrow_records.

(* ... and auction custody of every denomination grows by exactly the recorded collateral of the
   seized borrows with that collateral *)
Theorem c09_exact_handover_borrow_custody : forall zs w d,
  Forall (fun z => z_pool_acc z <> auction_acc /\ z_denom_in z <> z_cdenom z) zs ->
  kget (w_bal (fold_left seize_borrow_world zs w)) (auction_acc, d) =
  kget (w_bal w) (auction_acc, d) + zsum (map (coll_in d) zs).
Proof. exact handover_borrow_custody. Qed.
Print Assumptions c09_exact_handover_borrow_custody.

(* the predicate the runner evaluates on the IMPLEMENTATION's worlds before / after a step holds
   exactly when the world after the step is the world before it with this book-keeping applied
   for the borrows the implementation seized - and nothing else changed *)
Theorem c09_handover_borrow_predicate : forall zs w w',
  holds_C09_handover_borrow w w' zs = true <-> w' = fold_left seize_borrow_world zs w.
Proof.
  intros zs w w'. split; [apply handover_borrow_spec|intros ->; apply handover_borrow_holds].
Qed.
Print Assumptions c09_handover_borrow_predicate.

(* anyone's EXTERNAL liquidate message: exactly the offered collateral enters auction custody, exactly
   one locked vault and one auction are opened for it, no borrow, lend position or statistic changes *)
Theorem c09_exact_handover_external : forall w denom amt,
  let w' := ext_world w denom amt in
  kget (w_bal w') (auction_acc, denom) = kget (w_bal w) (auction_acc, denom) + amt /\
  (forall k, k <> (auction_acc, denom) -> kget (w_bal w') k = kget (w_bal w) k) /\
  w_locked w' = w_locked w ++ [(0, amt)] /\ w_auction w' = w_auction w ++ [(0, amt)] /\
  w_liq w' = w_liq w /\ w_lend w' = w_lend w /\ w_tlend w' = w_tlend w /\ w_tborrow w' = w_tborrow w /\
  w_tstable w' = w_tstable w /\ w_supply w' = w_supply w.
Proof. exact handover_external_one. Qed.
Print Assumptions c09_exact_handover_external.

(* non-vacuity: two seizures (one variable-rate same-pool, one stable cross-pool) on a world with
   balances, statistics and lend positions; the second lend position is used up and deleted *)
Example c09_handover_borrow_nonvacuous :
  let w := mkLW [((0, 1), 5); ((101, 1), 1000); ((101, 5), 900); ((102, 4), 700)] [((0, 5), 900)]
                [((1, 1), 800)] [((1, 2), 300); ((2, 4), 50)] [((2, 4), 140)] [(1, 600); (2, 400)] [] [] [] in
  let z1 := mkBS 11 100 70 false 101 1 5 1 1 1 2 1 in
  let z2 := mkBS 12 400 140 true 101 1 5 1 1 2 4 2 in
  fold_left seize_borrow_world [z1; z2] w =
    mkLW [((0, 1), 505); ((101, 1), 500); ((101, 5), 400); ((102, 4), 700)] [((0, 5), 400)]
         [((1, 1), 300)] [((1, 2), 230); ((2, 4), 50)] [((2, 4), 0)] [(1, 500)] [11; 12]
         [(11, 100); (12, 400)] [(11, 100); (12, 400)] /\
  holds_C09_handover_borrow w (fold_left seize_borrow_world [z1; z2] w) [z1; z2] = true /\
  holds_C09_handover_borrow w (fold_left seize_borrow_world [z1] w) [z1; z2] = false.
Proof. vm_compute. repeat split. Qed.

(* ---------------------------------------------------------------------------------------- *)
(* liveness.  The schedule ([event]): EBlock u = one block of the sweep in which the positions
   with u id = true are on the unsafe side (any verdicts for the other positions in every block
   = every oracle price path); EClose id = a user closes, or anything else removes, another
   position; ECreate id = a user opens a position (appended: larger id).  State = (id list,
   stored offset); single offset, counter = list length (theorem [c09_block_is_sweep] ties the
   block to the keepers' sweep_one of V1 (one app) and V2 LiquidateVaults; theorem
   [c09_v2_hook_vault_block] ties it to the whole liquidationsV2 hook, whose borrow sweep keeps its
   own offset since fix C09-F2).

   BOUND (named honestly): this is NOT the property's "two full sweeps" = 2*ceil(n/batch) blocks,
   which is refuted below.  What is proved is
       live_bound m c b = m * ((m-1)/b + 2) + 2c     blocks,   m = n + c,
   n = list length when the position became unsafe, c = creations during the wait, b = batch:
   O(n^2/batch) blocks.  The falling-market witness (n(n-1)/2 + 1 blocks for batch 1) shows the
   quadratic order is attained by the sweep, so no linear bound exists for every price path.
   For CONSTANT verdicts the exhaustive evaluation (Example c09_static_worst_table, a test not
   a proof) gives worst = 2*ceil(n/b)+2 blocks for n <= 10 (22 at n=10, b=1). *)

Theorem c09_live_quiet : forall b x ids off us,
  1 <= b -> 0 <= off -> NoDup ids -> In x ids ->
  Forall (fun u => u x = true) us ->
  live_bound (zlen ids) 0 b <= zlen us ->
  ~ In x (fst (fold_left (ev_step b) (blocks_of us) (ids, off))).
Proof. exact live_quiet. Qed.
Print Assumptions c09_live_quiet.

Theorem c09_live_interleaved : forall b x ids off evs c,
  1 <= b -> 0 <= off -> NoDup ids -> In x ids ->
  run_ok b x (ids, off) evs -> n_creates evs <= c ->
  live_bound (zlen ids + c) c b <= n_blocks evs ->
  ~ In x (fst (fold_left (ev_step b) evs (ids, off))).
Proof. exact live_interleaved. Qed.
Print Assumptions c09_live_interleaved.

(* the block of the schedule is the keepers' sweep with counter = capacity = length *)
Theorem c09_block_is_sweep : forall g ids off b u, (g = GV1 \/ g = GV2) -> zlen ids < two63 ->
  exists r, sweep_one g 0 (map (lpos u) ids) (zlen ids) (zlen ids) off b = Ok r /\
            block_ids ids off b u = (r_seized r, map p_id (r_list r), r_off r).
Proof. exact block_is_sweep_one. Qed.
Print Assumptions c09_block_is_sweep.

(* liquidationsV2.Liquidate = vault sweep (offset key 0), then borrow sweep (offset key 1): the
   vault half of the hook is the block of the schedule WHATEVER the borrow list, the borrows'
   verdicts (errors and panics included) and the borrow offset are - so c09_live_quiet /
   c09_live_interleaved hold for the deployed V2 hook without a further hypothesis.
   (Before fix C09-F2 the borrow sweep stored its offset under key 0 and this was refuted:
   regression Example c09_v2_starved_served below.) *)
Theorem c09_v2_hook_vault_block : forall ids off0 b u bl off1, zlen ids < two63 -> zlen bl < two63 ->
  exists sb st', sweep_v2 (fun n => n) b (mkV2 (map (lpos u) ids) (zlen ids) off0 bl off1) =
                   Ok (fst (fst (block_ids ids off0 b u)), sb, st') /\
    map p_id (t_list st') = snd (fst (block_ids ids off0 b u)) /\
    t_off0 st' = snd (block_ids ids off0 b u) /\
    map p_id (t_borrows st') = map p_id bl /\ t_off1 st' = snd (sweep_window (zlen bl) off1 b).
Proof. exact v2_hook_vault_block. Qed.
Print Assumptions c09_v2_hook_vault_block.

(* non-vacuity: a concrete interleaved schedule meeting every hypothesis, long enough for the bound *)
Example c09_live_nonvacuous :
  let evs := [EBlock (pattern 8); ECreate 7; EBlock (pattern 8); EClose 0] ++ blocks_of (repeat (pattern 8) 20) in
  run_ok 2 3 ([0;1;2;3], 2) evs /\ n_creates evs <= 1 /\
  live_bound (zlen [0;1;2;3] + 1) 1 2 <= n_blocks evs /\
  fold_left (ev_step 2) evs ([0;1;2;3], 2) = ([1; 2; 7], 2).
Proof. vm_compute. repeat split; intros; try discriminate; try (intuition discriminate). Qed.

(* exhaustive evaluation on small sizes (a TEST of the bound's order, not a proof): every
   safe/unsafe pattern of n positions, every start offset, every unsafe position, constant verdicts *)
Example c09_static_worst_table :
  map (fun nb => worst_blocks (fst nb) (snd nb)) [(4,1);(5,1);(6,1);(7,1);(6,2);(7,2);(6,3);(7,3)]
  = [6; 8; 10; 13; 6; 7; 5; 5]
  /\ map (fun nb => two_sweeps (fst nb) (snd nb)) [(4,1);(5,1);(6,1);(7,1);(6,2);(7,2);(6,3);(7,3)]
  = [8; 10; 12; 14; 6; 8; 4; 6].
Proof. vm_compute. split; reflexivity. Qed.

(* ---- refuted: the literal "at most two full sweeps of the position list" ---- *)
(* constant verdicts (one price drop, then a quiet chain): 9 positions, batch 1, positions 5..8
   unsafe: position 8 is open after 18 = 2*9 blocks and is seized in block 19 (third pass) *)
Theorem c09_two_sweeps_refuted :
  let ids := [0;1;2;3;4;5;6;7;8] in
  let u := pattern 480 in
  u 8 = true /\ two_sweeps 9 1 = 18 /\
  In 8 (fst (fold_left (ev_step 1) (blocks_of (repeat u 18)) (ids, 0))) /\
  ~ In 8 (fst (fold_left (ev_step 1) (blocks_of (repeat u 19)) (ids, 0))).
Proof. exact two_sweeps_refuted_static. Qed.
Print Assumptions c09_two_sweeps_refuted.

(* falling market: 6 positions, batch 1: position 5, unsafe in every block, is open after 15 > 12
   blocks (seized in block 16 = 6*5/2 + 1) *)
Theorem c09_two_sweeps_falling_refuted :
  Forall (fun u => u 5 = true) falling_schedule /\ two_sweeps 6 1 = 12 /\
  In 5 (fst (fold_left (ev_step 1) (blocks_of (firstn 15 falling_schedule)) ([0;1;2;3;4;5], 0))) /\
  ~ In 5 (fst (fold_left (ev_step 1) (blocks_of falling_schedule) ([0;1;2;3;4;5], 0))).
Proof. exact two_sweeps_refuted_falling. Qed.
Print Assumptions c09_two_sweeps_falling_refuted.

(* ---------------------------------------------------------------------------------------- *)
(* liveness of the liquidationsV2 borrow sweep (every item inside ApplyFuncIfNoError since fix
   C09-F3, own offset key since fix C09-F2).  The schedule ([bevent]): BBlock vf = one block in
   which borrow id reaches the verdict vf id - ANY verdict for every other borrow in every block:
   safe, unsafe, an error (kill switch, inactive price, missing lend position ...) or a panic;
   BClose id = another borrow is repaid / deleted (leaves the list); BCreate id = a new borrow
   (appended).  State = (ids, stored offset, ids liquidated so far): a liquidated borrow STAYS in
   the list with IsLiquidated set, so seizures do not shift positions.  x is "seized" = x enters
   the liquidated set. *)

(* the block of the borrow schedule is the keepers' V2 borrow sweep (list sliced by its length) *)
Theorem c09_borrow_block_is_sweep : forall ids liq off b vf, zlen ids < two63 ->
  exists r, sweep_one GB2 0 (map (bpos vf liq) ids) (zlen ids) (zlen ids) off b = Ok r /\
            bblock_ids ids liq off b vf = (r_seized r, r_off r) /\
            r_list r = map (bpos vf (liq ++ r_seized r)) ids.
Proof. exact bblock_is_sweep_one. Qed.
Print Assumptions c09_borrow_block_is_sweep.

(* ... and the borrow half of the whole V2 hook, whatever the vault sweep seizes *)
Theorem c09_v2_hook_borrow_block : forall capf vl counter off0 b r1 ids liq off1 vf, zlen ids < two63 ->
  sweep_one GV2 0 vl (capf (zlen vl)) counter off0 b = Ok r1 ->
  exists st', sweep_v2 capf b (mkV2 vl counter off0 (map (bpos vf liq) ids) off1) =
                Ok (r_seized r1, fst (bblock_ids ids liq off1 b vf), st') /\
    t_borrows st' = map (bpos vf (liq ++ fst (bblock_ids ids liq off1 b vf))) ids /\
    t_off1 st' = snd (bblock_ids ids liq off1 b vf) /\
    t_list st' = r_list r1 /\ t_off0 st' = r_off r1.
Proof. exact v2_hook_borrow_block. Qed.
Print Assumptions c09_v2_hook_borrow_block.

(* the hypothesis "vf x = VSeize" of the borrow liveness theorems below, in the property's terms:
   OUTSIDE the known-finding classes C09-F5 / C09-F6 the visit of a borrow seizes it as soon as the property's
   hypotheses hold (the borrow is open, kill switch off, liquidation whitelisted for the app with
   an auction type activated, prices active = ratio computable) and it is above its threshold *)
Theorem c09_live_borrow_verdict : forall b,
  live_hyp_borrow b = true -> borrow_unsafe b = true -> kf_C09_5 b = false -> kf_C09_6 b = false ->
  seize_rule_borrow GB2 b = VSeize.
Proof. exact live_borrow_verdict. Qed.
Print Assumptions c09_live_borrow_verdict.

(* ---- refuted inside the class (finding C09-F5): every hypothesis of the property holds and the
   borrow is above its threshold, but the collateral's pool holds one unit less of the collateral asset
   than the borrow recorded (lent out to other borrowers): the visit fails, and NO sweep ever seizes
   the borrow - whatever the list, the offset, the batch size - while the pool stays short ---- *)
Theorem c09_live_borrow_pool_short_refuted :
  let b := c09_ex_borrow 5 3 false 550000000000000000 99999999 in
  live_hyp_borrow b = true /\ borrow_unsafe b = true /\ kf_C09_5 b = true /\
  seize_rule_borrow GB2 b = VErr /\
  (forall bs cap off batch r, NoDup (map b_id bs) -> In b bs ->
     sweep_one GB2 0 (map (pos_of_borrow GB2) bs) cap (zlen bs) off batch = Ok r -> ~ In (b_id b) (r_seized r)).
Proof.
  cbn zeta.
  split; [vm_compute; reflexivity|]. split; [vm_compute; reflexivity|].
  split; [vm_compute; reflexivity|]. split; [vm_compute; reflexivity|].
  intros bs cap off batch r Hnd Hb H.
  apply (not_seize_never GB2 bs cap off batch r _ ltac:(discriminate) Hnd Hb); [|exact H].
  vm_compute. discriminate.
Qed.
Print Assumptions c09_live_borrow_pool_short_refuted.

(* ---- refuted inside the class C09-F6: every hypothesis of the property holds and the borrow is
   above its threshold, but its interest update panics (ReserveGlobalIndex 0): the visit panics (the
   sweep's wrapper rolls it back), NO sweep ever seizes the borrow and the liquidate message panics ---- *)
Definition c09_ex_borrow_f6 : borrow_in :=
  mkBorrowIn 7 true false true false false true 100000000 40000000 0 (Some 1600000) 1000000 (Some 2000000) 1000000
             550000000000000000 950000000000000000 false 5 3 3 850000000000000000 750000000000000000
             true true false 100000000 100000000 false.
Theorem c09_live_borrow_interest_refuted :
  let b := c09_ex_borrow_f6 in
  live_hyp_borrow b = true /\ borrow_unsafe b = true /\ kf_C09_6 b = true /\
  seize_rule_borrow GB2 b = VPanic /\
  msg_liquidate GB2 [pos_of_borrow GB2 b] (b_id b) = Panic /\
  (forall bs cap off batch r, NoDup (map b_id bs) -> In b bs ->
     sweep_one GB2 0 (map (pos_of_borrow GB2) bs) cap (zlen bs) off batch = Ok r -> ~ In (b_id b) (r_seized r)).
Proof.
  cbn zeta.
  split; [vm_compute; reflexivity|]. split; [vm_compute; reflexivity|].
  split; [vm_compute; reflexivity|]. split; [vm_compute; reflexivity|].
  split; [vm_compute; reflexivity|].
  intros bs cap off batch r Hnd Hb H.
  apply (not_seize_never GB2 bs cap off batch r _ ltac:(discriminate) Hnd Hb); [|exact H].
  vm_compute. discriminate.
Qed.
Print Assumptions c09_live_borrow_interest_refuted.

(* quiet chain: a borrow that is above its threshold (verdict VSeize: liquidation enabled, prices
   active, controls off) in every block is liquidated within (n-1)/batch + 2 blocks, whatever the
   other borrows do in those blocks (erroring and panicking borrows in front of it included) ... *)
Theorem c09_live_borrow_quiet : forall b x ids off liq vfs,
  1 <= b -> 0 <= off -> In x ids ->
  Forall (fun vf => vf x = VSeize) vfs ->
  live_R (zlen ids) b <= zlen vfs ->
  In x (bs_liq (fold_left (bev_step b) (bblocks_of vfs) (mkB ids off liq))).
Proof. exact blive_quiet. Qed.
Print Assumptions c09_live_borrow_quiet.

(* ... which is within the property's literal "two full sweeps of the position list" *)
Theorem c09_live_borrow_two_sweeps : forall b x ids off liq vfs,
  1 <= b -> 0 <= off -> In x ids ->
  Forall (fun vf => vf x = VSeize) vfs ->
  two_sweeps (zlen ids) b <= zlen vfs ->
  In x (bs_liq (fold_left (bev_step b) (bblocks_of vfs) (mkB ids off liq))).
Proof. exact blive_quiet_two_sweeps. Qed.
Print Assumptions c09_live_borrow_two_sweeps.

(* interleaved with repayments / deletions of other borrows and with new borrows.  A new borrow is
   NOT appended to the swept list: lend.GetBorrows concatenates the BorrowIds of the pool-asset
   statistics in store order, the new id joins the group of its (AssetOutPoolID, AssetOut), i.e. it
   is inserted at ANY position k (BCreate k id).  An insertion in front of x can cost one block
   more than an appended position: the bound is blive_bound (n + c) c b = live_bound (n + c) c b + c *)
Theorem c09_live_borrow_interleaved : forall b x ids off liq evs c,
  1 <= b -> 0 <= off -> NoDup ids -> In x ids ->
  brun_ok b x (mkB ids off liq) evs -> n_bcreates evs <= c ->
  blive_bound (zlen ids + c) c b <= n_bblocks evs ->
  In x (bs_liq (fold_left (bev_step b) evs (mkB ids off liq))).
Proof. exact blive_interleaved. Qed.
Print Assumptions c09_live_borrow_interleaved.

(* non-vacuity: 5 borrows, batch 2, offset 4; borrow 3 is unsafe in every block while borrow 0
   errors, borrow 1 panics and borrow 2 is safe; a repayment and a new borrow in between *)
Example c09_live_borrow_nonvacuous :
  let vf := fun id => if id =? 0 then VErr else if id =? 1 then VPanic else if id =? 3 then VSeize else VKeep in
  let evs := [BBlock vf; BCreate 1 9; BClose 2; BBlock vf] ++ bblocks_of (repeat vf 26) in
  brun_ok 2 3 (mkB [0;1;2;3;4] 4 []) evs /\ n_bcreates evs <= 1 /\
  blive_bound (zlen [0;1;2;3;4] + 1) 1 2 <= n_bblocks evs /\
  bs_ids (fold_left (bev_step 2) [BBlock vf; BCreate 1 9; BClose 2] (mkB [0;1;2;3;4] 4 [])) = [0;9;1;3;4] /\
  bs_liq (fold_left (bev_step 2) evs (mkB [0;1;2;3;4] 4 [])) = [3] /\
  (* quiet: seized in the 3rd block = live_R 5 2 - 1 <= two_sweeps 5 2 = 6 *)
  bs_liq (fold_left (bev_step 2) (bblocks_of (repeat vf 2)) (mkB [0;1;2;3;4] 4 [])) = [] /\
  bs_liq (fold_left (bev_step 2) (bblocks_of (repeat vf 3)) (mkB [0;1;2;3;4] 4 [])) = [3] /\
  live_R 5 2 = 4 /\ two_sweeps 5 2 = 6.
Proof. vm_compute. repeat split; intros; try discriminate; try (intuition discriminate). Qed.

(* the batch size.  Every batch size the parameter validation admits (since fix C09-F4: 1 <= b < 2^63)
   meets the hypothesis 1 <= b of the liveness theorems, and the sweeps' int(...) conversion of it is the
   identity ... *)
Theorem c09_valid_batch : forall b, valid_batch b = true -> 1 <= b /\ int_of_u64 b = b /\ u64 b = b.
Proof. exact valid_batch_spec. Qed.
Print Assumptions c09_valid_batch.

(* ... while a stored size of 2^63 .. 2^64-1 (accepted before the fix: "v <= 0" is the only test on a
   uint64) converts to a negative int: the window is empty in EVERY block, for every list and offset -
   no position is ever swept (regression witness: harness TestC09Borrow directed cases gov-batch) *)
Theorem c09_invalid_batch_sweeps_nothing : forall b len off, two63 <= b < two64 -> 0 <= len ->
  sweep_window len off (int_of_u64 b) = (len, len).
Proof. exact invalid_batch_sweeps_nothing. Qed.
Print Assumptions c09_invalid_batch_sweeps_nothing.

Example c09_batch_nonvacuous :
  valid_batch 1 = true /\ valid_batch 9223372036854775807 = true /\ valid_batch 0 = false /\
  valid_batch 9223372036854775808 = false /\ valid_batch 18446744073709551615 = false /\
  sweep_window 5 2 (int_of_u64 9223372036854775808) = (5, 5) /\ sweep_window 5 2 9223372036854775807 = (2, 5).
Proof. vm_compute. repeat split. Qed.

(* ---- regressions: the witnesses of the repaired findings now pass ---- *)
(* C09-F2 (was c09_live_v2_refuted: "forall k, run_v2 k v2_starved = v2_starved"): 2 vaults,
   batch 1, the second unsafe, no borrows: the vault offset advances, the second block seizes it *)
Example c09_v2_starved_served :
  run_v2 (fun n => n) 1 2 v2_starved = Ok (mkV2 [mkPos 1 0 VKeep] 1 2 [] 0).
Proof. exact v2_starved_served. Qed.

(* C09-F3 (was c09_live_borrow_refuted): an erroring - or panicking - borrow in front of an unsafe
   one: the wrapped loop goes on and liquidates borrow 2 in the first block *)
Example c09_borrow_starved_served :
  sweep_v2 (fun n => n) 5 v2_borrow_starved =
    Ok ([], [2], mkV2 [] 0 0 [mkPos 1 0 VErr; mkPos 2 0 VKeep] 2) /\
  sweep_v2 (fun n => n) 5 (mkV2 [] 0 0 [mkPos 1 0 VPanic; mkPos 2 0 VSeize] 0) =
    Ok ([], [2], mkV2 [] 0 0 [mkPos 1 0 VPanic; mkPos 2 0 VKeep] 2).
Proof. exact v2_borrow_starved_served. Qed.
