(* C02 — CDP vault custody and published totals always match the open vaults.
   Property theorems only; each is closed by [exact] of a lemma proved in Proofs/. *)
From Comdex Require Import Lib.Base Lib.Atomic Model.Vault Proofs.VaultProofs.

(* a message that returns an error or panics leaves every book, balance and counter unchanged *)
Theorem c02_rejected_noop : forall c s o, is_ok (run c s o) = false -> step c s o = s.
Proof. exact step_rejected. Qed.
Print Assumptions c02_rejected_noop.
