(* C02 — No unbacked stablecoin: minted supply is covered by recorded vault principal.
   Property theorems only; each is closed by [exact] of a lemma proved in Proofs/.

   [Inv02 c ext s]: for EVERY denom d, bank supply of d minus the external supply [ext d] (what
   existed before the first vault message: genesis, funding) = sum of AmountOut over open vaults
   and stable-mint vaults whose debt asset is d.  [Inv01] is the C01 invariant (needed because the
   handlers read the books).  [cfg_ok], [user_op]: see Properties/C01.v.

   FULL LIFE CYCLE (Model/VaultLife.v): the histories quantified over by the theorems c02_life_* /
   c02_backing_history / c02_exact_history also contain seizures (keeper message and sweep), dutch-auction
   bids with arbitrary environment amounts, auction block ticks and the esm vault redemption.
   [Inv02L c ext l]: for EVERY denom d
       supply d - ext d = recorded d - over d   and   0 <= over d
   where recorded d = AmountOut of open vaults and stable-mint vaults with debt asset d + the principal of the
   locked vaults (vaults awaiting auction) + the debt registered in the esm AssetToAmount records, and [over]
   is what settlements burnt beyond the principal they retired: a closing bid burns the seized vault's whole
   debt (principal + accrued interest + closing fee), i.e. interest and closing fees of a liquidated vault are
   destroyed, never minted.  Hence supply <= recorded always, and = in histories without liquidations.
   The hypothesis [hist_ok] (Proofs/VaultLifeHist.v) is inherited from the books invariant [InvL] of C01 (the
   handlers read the books): signers / liquidators / bidders are not the custody account and the environment
   amounts of a bid respect the bounds of Properties/C10.v c10_bid_amounts.  ESM auction returns (TriggerEsm:
   what was collected beyond the penalty is burnt, the auction's remaining target debt is re-recorded as the
   returned vault's principal) are inside the histories quantified over.
   The theorems named ..._messages_... are the earlier statements over histories of vault messages only.

   EMERGENCY SHUTDOWN (Model/EsmLife.v): the histories of the theorems c02_esm_* also contain MsgDepositESM /
   MsgExecuteESM, the esm BeginBlocker and its set-up steps, and MsgCollateralRedemption.  The "debt registered for
   emergency redemption" is read from the AssetToAmount RECORDS ([esm_debt]: the records on the debt side); the
   stable-mint set-up step moves a stable-mint vault's principal from the vault record to the register, the
   collector step burns the collector's net fees and retires as much registered debt, a redemption burns exactly
   the debt it retires.  [InvE02 c ext e]: for EVERY denom
       supply - ext = recorded - over - gburn,   0 <= over, 0 <= gburn
   where [gburn] is what MsgDepositESM burnt of an app's governance token (zero for every other denom).
   Per-redemption law [holds_C02_redeem]: supply of the debt denom, the sender's balance and the debt record all
   fall by exactly the amount; every collateral record pays q >= 0 out of the esm account to the sender and falls
   by q; q respects the pro-rata bound (c02_payout_prorata).  Total paid out <= pooled: Properties/C01.v
   c01_esm_identities.  Hypotheses: see Properties/C01.v ([eop_ok], [roles_ok]).

   Finding C02-F2 = C01-F5 (the stable-mint set-up step left the vault record behind, so the stable-mint principal
   was recorded twice and supply fell short of the recorded principal in a history without liquidations) is
   repaired by fixes/C01-F5/patch.diff; the model follows the repaired code.

   Finding C02-F1 (MsgCreateStableMint, zero draw-down fee: msg.Amount paid out instead of
   tokenOutAmount) was reproduced on the real keeper; it is repaired by fixes/C02-F1/patch.diff
   and the model follows the repaired code, so no known-finding class remains here. *)
From Comdex Require Import Lib.Base Lib.DecArith Lib.Atomic Model.Vault Model.VaultExample Model.VaultLife Model.VaultLifeExample
  Proofs.VaultProofs Proofs.VaultInv Proofs.VaultSupply Proofs.VaultLifeBase Proofs.VaultLifeInv Proofs.VaultLifeHist Proofs.VaultLifeSupply Proofs.VaultLifeWitness.
From Comdex Require Import Model.EsmLife Model.EsmLifeExample Proofs.EsmLifeInv Proofs.EsmLifeSteps Proofs.EsmLifeHist Proofs.EsmLifeLaws Proofs.EsmLifeWitness.

Theorem c02_backing_init : forall c b sp t pr, Inv02 c sp (init b sp t pr).
Proof. exact inv02_init. Qed.
Print Assumptions c02_backing_init.

(* every successful message moves supply and recorded principal by the same amount *)
Theorem c02_backing_step : forall c ext s o s', cfg_ok c -> user_op o -> Inv01 c s -> Inv02 c ext s ->
  run c s o = Ok s' -> Inv02 c ext s'.
Proof. exact run_inv02. Qed.
Print Assumptions c02_backing_step.

(* supply - external = recorded principal after EVERY finite history of vault messages *)
Theorem c02_messages_exact_history : forall c ext ops s, cfg_ok c -> Forall user_op ops -> Inv01 c s -> Inv02 c ext s ->
  Inv02 c ext (run_all c ops s).
Proof. intros c ext ops s CK U I J. exact (proj2 (history_inv02 c ext ops CK U s I J)). Qed.
Print Assumptions c02_messages_exact_history.

(* the executable state predicate evaluated on the implementation's observations *)
Theorem c02_messages_predicate_holds : forall c ops b sp t pr denoms, cfg_ok c -> Forall user_op ops ->
  (forall d, b VAULT d = 0) -> holds_C02 c sp denoms (run_all c ops (init b sp t pr)) = true.
Proof.
  intros c ops b sp t pr denoms CK U Hb. apply inv02_holds.
  exact (proj2 (history_inv02 c sp ops CK U _ (inv01_init c b sp t pr Hb) (inv02_init c b sp t pr))).
Qed.
Print Assumptions c02_messages_predicate_holds.

(* the per-message laws, as the executable predicate [holds_C02_step] (Model/Vault.v) that the runner
   evaluates on the implementation's observation before and after every successful message:
   - Create / Draw / DepositAndDraw / stable Create / stable Deposit: supply grows by the new
     principal, the sender receives principal - fee, the collector receives fee, where
     fee = TruncateInt(NewDecFromInt(principal) * DrawDownFee)            [mint_law]
   - Repay / Close / stable Withdraw: supply shrinks by exactly the principal retired; the rest of
     what the sender paid (interest, closing fee, draw-down fee) reaches the collector
   - Deposit / Withdraw / InterestCalc: supply unchanged *)
Theorem c02_step_laws : forall c s o s', cfg_ok c -> user_op o -> Inv01 c s -> run c s o = Ok s' ->
  holds_C02_step c s o s' = true.
Proof. exact run_c02_step. Qed.
Print Assumptions c02_step_laws.

Theorem c02_mint_law_meaning : forall ep s s' f x, mint_law ep s s' f x = true ->
  sup s' (ep_out ep) - sup s (ep_out ep) = x /\
  bal s' f (ep_out ep) - bal s f (ep_out ep) = x - ddf_fee ep x /\
  bal s' COLL (ep_out ep) - bal s COLL (ep_out ep) = ddf_fee ep x.
Proof. exact mint_law_meaning. Qed.
Print Assumptions c02_mint_law_meaning.

(* mint delivery spelled out for MsgCreate, with the fee as an integer formula *)
Theorem c02_mint_delivery_create : forall c s f a e ain aout s', cfg_ok c -> f <> VAULT -> f <> COLL -> Inv01 c s ->
  run c s (Create f a e ain aout) = Ok s' ->
  exists ep, get_ep c e = Some ep /\
    let fee := Z.quot (aout * ep_ddf ep) P18 in
    sup s' (ep_out ep) - sup s (ep_out ep) = aout /\
    bal s' f (ep_out ep) - bal s f (ep_out ep) = aout - fee /\
    bal s' COLL (ep_out ep) - bal s COLL (ep_out ep) = fee /\
    find_v (vaults s') (vid s') = Some (mkV (vid s + 1) f a e ain aout 0 (match find_v (vaults s') (vid s') with Some v => v_fee v | None => 0 end)).
Proof. exact create_delivery. Qed.
Print Assumptions c02_mint_delivery_create.

(* exact burn and fees-not-minted spelled out for MsgClose *)
Theorem c02_burn_exact_close : forall c s f a e id ie s', cfg_ok c -> f <> VAULT -> f <> COLL -> Inv01 c s ->
  run c s (Close f a e id ie) = Ok s' ->
  exists v ep, find_v (vaults s) id = Some v /\ get_ep c e = Some ep /\ 0 <= ie /\
    sup s (ep_out ep) - sup s' (ep_out ep) = v_out v /\
    bal s' COLL (ep_out ep) - bal s COLL (ep_out ep) = v_int v + ie + v_fee v /\
    bal s f (ep_out ep) - bal s' f (ep_out ep) = v_out v + (v_int v + ie + v_fee v) /\
    find_v (vaults s') id = None.
Proof. exact close_burn. Qed.
Print Assumptions c02_burn_exact_close.

(* interest first, to the collector, out of existing supply; only the excess retires principal and
   exactly that much is burnt; no other denom's supply moves *)
Theorem c02_fees_not_minted_repay : forall c s f a e id amt ie s', cfg_ok c -> f <> VAULT -> f <> COLL -> Inv01 c s ->
  run c s (Repay f a e id amt ie) = Ok s' ->
  exists v v' ep, find_v (vaults s) id = Some v /\ find_v (vaults s') id = Some v' /\ get_ep c e = Some ep /\ 0 <= ie /\
    let interest := v_int v + ie in
    let burnt := Z.max 0 (amt - interest) in
    sup s (ep_out ep) - sup s' (ep_out ep) = burnt /\
    v_out v' = v_out v - burnt /\ v_int v' = interest - (amt - burnt) /\
    bal s' COLL (ep_out ep) - bal s COLL (ep_out ep) = amt - burnt /\
    bal s f (ep_out ep) - bal s' f (ep_out ep) = amt /\
    (forall x, x <> ep_out ep -> sup s' x = sup s x).
Proof. exact repay_law. Qed.
Print Assumptions c02_fees_not_minted_repay.

(* GetAmountOfOtherToken at rate 1:1 (used by the stable-mint handlers): Quo rounded half-even at
   10^-18, then TruncateInt of the product; both roundings explicit *)
Theorem c02_other_token_spec : forall dec1 amt dec2 t, other_token dec1 amt dec2 = Some t -> 0 < dec1 -> 0 <= amt -> 0 <= dec2 ->
  let q := dquo (amt * P18) (dec1 * P18) in
  t = Z.quot (q * dec2) P18 /\
  t * dec1 * P18 <= (amt * P18 + dec1) * dec2 /\ (amt * P18 - dec1) * dec2 < (t + 1) * dec1 * P18.
Proof. exact other_token_spec. Qed.
Print Assumptions c02_other_token_spec.
Example c02_other_token_examples :
  other_token 1000000 2000000 P18 = Some (2 * P18) /\ other_token P18 (2 * P18 + 999999999999) 1000000 = Some 2000000 /\
  other_token 100000000 123456789 1000000 = Some 1234567.
Proof. vm_compute. repeat split; reflexivity. Qed.

(* non-vacuity: hypotheses met by the example; supply of the stable debt denom 4 equals the
   stable-mint principal; every successful step of the example satisfies the step predicate *)
Example c02_example_hyps : cfg_ok ex_cfg /\ Forall user_op ex_ops /\ Inv01 ex_cfg ex_init /\ Inv02 ex_cfg ex_sup ex_init.
Proof. exact (conj ex_cfg_ok (conj ex_ops_users (conj ex_init_inv (inv02_init ex_cfg ex_bal ex_sup 1000 ex_price)))). Qed.
Example c02_example_run :
  let s := run_all ex_cfg ex_ops ex_init in
  sup s 4 = 2 * P18 /\ debt_sum ex_cfg s 4 = 2 * P18 /\ sup s 2 - ex_sup 2 = 2666666 /\ debt_sum ex_cfg s 2 = 2666666 /\
  holds_C02 ex_cfg ex_sup ex_denoms s = true.
Proof. vm_compute. repeat split; reflexivity. Qed.
(* regression of C02-F1 (now passing): decimals (10^6, 10^18), zero draw-down fee, deposit 2000000:
   2*10^18 are minted and recorded and the depositor receives all of them; nothing stays in custody *)
Example c02_f1_regression :
  let s := run_all ex_cfg (firstn 6 ex_ops) ex_init in
  let o := StableCreate 3 1 2 2000000 in
  let s' := step ex_cfg s o in
  result_class ex_cfg s o = 0 /\ sup s' 4 - sup s 4 = 2 * P18 /\ bal s' 3 4 - bal s 3 4 = 2 * P18 /\ bal s' VAULT 4 = 0 /\
  svaults s' = [mkSV 1 1 2 2000000 (2 * P18)] /\ holds_C02_step ex_cfg s o s' = true.
Proof. vm_compute. repeat split; reflexivity. Qed.
(* the step predicate is not trivially true: it rejects the pre-fix behaviour (user paid 2*10^6) *)
Example c02_step_predicate_discriminates :
  let s := run_all ex_cfg (firstn 6 ex_ops) ex_init in
  let o := StableCreate 3 1 2 2000000 in
  let s' := step ex_cfg s o in
  let bad := set_bal s' (fun a x => if (a =? 3) && (x =? 4) then 2000000 else if (a =? VAULT) && (x =? 4) then 2 * P18 - 2000000 else bal s' a x) in
  holds_C02_step ex_cfg s o bad = false /\ holds_C01 ex_cfg ex_denoms bad = false.
Proof. vm_compute. split; reflexivity. Qed.

(* ====================== the full life cycle ====================== *)

Theorem c02_life_backing_init : forall c b sp t pr, Inv02L c sp (lift (init b sp t pr)).
Proof. exact inv02L_init. Qed.
Print Assumptions c02_life_backing_init.

(* one step of any kind *)
Theorem c02_life_backing_step : forall c ext lc l o l', cfg_ok c -> lop_ok l o -> InvL c l -> Inv02L c ext l ->
  lrun c lc l o = Ok l' -> Inv02L c ext l'.
Proof. exact lrun_inv02. Qed.
Print Assumptions c02_life_backing_step.

(* the circulating supply never exceeds the recorded principal, after EVERY finite history *)
Theorem c02_backing_history : forall c ext lc ops l, cfg_ok c -> hist_ok c lc l ops -> InvL c l -> Inv02L c ext l ->
  forall d, sup (vs (lrun_all c lc ops l)) d - ext d <= recorded_d c (lrun_all c lc ops l) d.
Proof.
  intros c ext lc ops l CK HO I J d. destruct (history_inv02L c ext lc ops CK l HO I J) as [_ J']. destruct (J' d). lia.
Qed.
Print Assumptions c02_backing_history.

(* ... and in histories without liquidations (no keeper seizure, no sweep; nothing seized before) it is
   exactly equal *)
Theorem c02_exact_history : forall c ext lc ops l, cfg_ok c -> Forall (fun o => is_liq o = false) ops ->
  hist_ok c lc l ops -> InvL c l -> Inv02L c ext l -> NoSeized l ->
  forall d, sup (vs (lrun_all c lc ops l)) d - ext d = recorded_d c (lrun_all c lc ops l) d.
Proof. intros c ext lc ops l CK HN HO I J N. exact (history_exact c ext lc ops CK HN l HO I J N). Qed.
Print Assumptions c02_exact_history.

Theorem c02_predicate_holds : forall c lc ops b sp t pr denoms, cfg_ok c -> (forall d, b VAULT d = 0) ->
  hist_ok c lc (lift (init b sp t pr)) ops ->
  holds_C02_life c sp denoms (lrun_all c lc ops (lift (init b sp t pr))) = true.
Proof.
  intros c lc ops b sp t pr denoms CK Hb HO. apply inv02L_holds.
  exact (proj2 (history_inv02L c sp lc ops CK _ HO (invL_init c b sp t pr Hb) (inv02L_init c b sp t pr))).
Qed.
Print Assumptions c02_predicate_holds.

(* a settlement burns exactly the seized vault's debt (TargetDebt - penalty = principal + interest + closing
   fee); a partial bid burns nothing; no other denom's supply and no custody balance moves: the executable
   law [holds_C02_settle] the runner evaluates on the implementation's observation before / after each bid *)
Theorem c02_settlement_burn : forall c lc l aid who paid recv closed exh topup l' denoms, who <> VAULT -> InvL c l ->
  bid lc l aid who paid recv closed exh topup = Ok l' -> holds_C02_settle denoms l aid closed l' = true.
Proof. exact bid_settle_law. Qed.
Print Assumptions c02_settlement_burn.

(* non-vacuity.  History A (seizure, partial bid, restart, closing bid): hypotheses met; while vault 1 awaits
   settlement supply - external = 20000000 = open 10000000 + locked 10000000; after the settlement 10000000.
   History B (closing fee 50000): the settlement burnt 10050000 against 10000000 principal retired, so supply
   is 50000 BELOW the recorded principal (0): over = 50000.  History D (no liquidation; esm redemption moves
   12000000 principal into the esm register): exactly equal *)
Example c02_life_example_hyps : cfg_ok lx_cfg /\ InvL lx_cfg lx_init /\ Inv02L lx_cfg ex_sup lx_init /\ NoSeized lx_init /\
  hist_ok lx_cfg lx_lc lx_init lx_ops_a /\ hist_ok lx_cfg lx_lc lx_init lx_ops_d /\ Forall (fun o => is_liq o = false) lx_ops_d.
Proof.
  refine (conj lx_cfg_ok (conj lx_init_inv (conj lx_init_inv02 (conj lx_init_noseized (conj lx_hist_a (conj lx_hist_d _)))))).
  repeat constructor.
Qed.
Example c02_life_example_run :
  let m := lrun_all lx_cfg lx_lc (firstn 5 lx_ops_a) lx_init in
  let l := lrun_all lx_cfg lx_lc lx_ops_a lx_init in
  let b := lrun_all lx_cfg lx_lc lx_ops_b lx_init in
  let d := lrun_all lx_cfg lx_lc lx_ops_d lx_init in
  sup (vs m) 2 - ex_sup 2 = 20000000 /\ debt_sum lx_cfg (vs m) 2 = 10000000 /\ lock_prin_d lx_cfg m 2 = 10000000 /\
  sup (vs l) 2 - ex_sup 2 = 10000000 /\ recorded_d lx_cfg l 2 = 10000000 /\
  sup (vs b) 2 - ex_sup 2 = -50000 /\ recorded_d lx_cfg b 2 = 0 /\ over b 2 = 50000 /\
  lclasses lx_cfg lx_lc lx_init lx_ops_d = [0; 0; 0; 0; 0; 0; 0] /\ vaults (vs d) = [] /\ edebt d 2 = 12000000 /\
  sup (vs d) 2 - ex_sup 2 = 12000000 /\ c02l_exact lx_cfg ex_sup d 2 = true /\
  holds_C02_life lx_cfg ex_sup lx_denoms l = true /\ holds_C02_life lx_cfg ex_sup lx_denoms b = true.
Proof. vm_compute. repeat split; reflexivity. Qed.
(* the life predicate is not trivially true: it rejects 1 coin of supply above the recorded principal *)
Example c02_life_predicate_discriminates :
  let l := lrun_all lx_cfg lx_lc lx_ops_a lx_init in
  holds_C02_life lx_cfg ex_sup lx_denoms (set_vs l (set_sup (vs l) (fun x => sup (vs l) x + 1))) = false.
Proof. vm_compute. reflexivity. Qed.

(* ====================== emergency shutdown ====================== *)

Theorem c02_esm_backing_init : forall c b sp t pr tm, InvE02 c sp (elift (lift (init b sp t pr)) tm).
Proof. exact invE02_init. Qed.
Print Assumptions c02_esm_backing_init.

(* one step of any kind carries the supply invariant over *)
Theorem c02_esm_backing_step : forall c lc ec ext e o e', cfg_ok c -> roles_ok c -> eop_ok e o -> InvE c e -> InvE02 c ext e ->
  erun c lc ec e o = Ok e' -> InvE02 c ext e'.
Proof. intros c lc ec ext e o e' CK RO Hok I J H. exact (proj2 (erun_pair c lc ec e o e' CK RO Hok I H) ext J). Qed.
Print Assumptions c02_esm_backing_step.

(* through deposit, execution, snapshot, set-up, share calculation and redemption: the circulating supply never
   exceeds the principal recorded on open vaults, stable-mint vaults, vaults awaiting auction and the debt
   registered for emergency redemption *)
Theorem c02_esm_backing_history : forall c lc ec ext ops e, cfg_ok c -> roles_ok c -> ehist_ok c lc ec e ops -> InvE c e -> InvE02 c ext e ->
  forall d, sup (vs (el (erun_all c lc ec ops e))) d - ext d <= recorded_e c (erun_all c lc ec ops e) d.
Proof.
  intros c lc ec ext ops e CK RO HO I J d. destruct (ehistory_pair c lc ec ops CK RO e HO I) as [I' J'].
  destruct (invE02_backing c ext _ I' (J' ext J) d) as (H1 & H2 & H3). lia.
Qed.
Print Assumptions c02_esm_backing_history.

(* ... and it is exactly equal in histories without liquidations, for every denom no governance-token burn touched *)
Theorem c02_esm_exact_history : forall c lc ec ext ops e, cfg_ok c -> roles_ok c -> Forall (fun o => is_eliq o = false) ops ->
  ehist_ok c lc ec e ops -> InvE c e -> InvE02 c ext e -> NoSeized (el e) ->
  forall d, gburn (erun_all c lc ec ops e) d = 0 ->
  sup (vs (el (erun_all c lc ec ops e))) d - ext d = recorded_e c (erun_all c lc ec ops e) d.
Proof. intros c lc ec ext ops e CK RO HN HO I J N. exact (ehistory_exact c lc ec ext ops CK RO HN e HO (conj I J) N). Qed.
Print Assumptions c02_esm_exact_history.

Theorem c02_esm_predicate_holds : forall c lc ec ops b sp t pr tm denoms, cfg_ok c -> roles_ok c ->
  (forall d, b VAULT d = 0) -> (forall d, b ESMA d = 0) -> ehist_ok c lc ec (elift (lift (init b sp t pr)) tm) ops ->
  holds_C02_esm c sp denoms (erun_all c lc ec ops (elift (lift (init b sp t pr)) tm)) = true.
Proof.
  intros c lc ec ops b sp t pr tm denoms CK RO Hb He HO.
  destruct (ehistory_pair c lc ec ops CK RO _ HO (invE_init c b sp t pr tm Hb He)) as [I J].
  exact (invE02_holds c sp _ denoms I (J sp (invE02_init c b sp t pr tm))).
Qed.
Print Assumptions c02_esm_predicate_holds.

(* every successful redemption burns exactly the debt it retires, takes it from the sender, and pays each collateral
   record's share out of the esm account: the executable law the runner evaluates before / after each redemption *)
Theorem c02_redemption_law : forall c lc ec e from app denom amt e' denoms, from <> VAULT -> from <> ESMA -> InvE c e ->
  redeem lc ec e from app denom amt = Ok e' -> holds_C02_redeem lc ec denoms e from app denom amt e' = true.
Proof. exact redeem_law. Qed.
Print Assumptions c02_redemption_law.

(* the same law spelled out: what a successful MsgCollateralRedemption does to supply, balances and records *)
Theorem c02_redemption_burn_exact : forall c lc ec e from app denom amt e', from <> VAULT -> from <> ESMA -> InvE c e ->
  redeem lc ec e from app denom amt = Ok e' ->
  exists r r', find_rec (recs e) app denom = Some r /\ find_rec (recs e') app denom = Some r' /\ ar_coll r = false /\
    0 < amt <= ar_amt r /\ ar_amt r' = ar_amt r - amt /\
    (forall x, sup (vs (el e')) x = sup (vs (el e)) x - (if x =? denom then amt else 0)) /\
    (forall d, bal (vs (el e)) ESMA d - bal (vs (el e')) ESMA d = epaid e' d - epaid e d /\ 0 <= epaid e' d - epaid e d) /\
    (forall d, bal (vs (el e')) from d = bal (vs (el e)) from d - (if d =? denom then amt else 0) + (epaid e' d - epaid e d)) /\
    (forall d, esm_debt e' d = esm_debt e d - (if d =? denom then amt else 0)) /\
    (forall d, esm_coll e' d = esm_coll e d - (epaid e' d - epaid e d)).
Proof.
  intros c lc ec e from app denom amt e' Hfv Hfe I H.
  destruct (redeem_spec lc ec e from app denom amt e' Hfe (ie_nodup _ _ I) (ie_nonneg _ _ I) H) as (r & tw & dec & w & R).
  destruct (re_rec_d _ _ _ _ _ _ _ _ _ _ _ _ R) as (rd & Frd & Ard).
  exists r, rd. split; [exact (re_find _ _ _ _ _ _ _ _ _ _ _ _ R)|]. split; [exact Frd|]. split; [exact (re_side _ _ _ _ _ _ _ _ _ _ _ _ R)|].
  split; [split; [exact (re_pos _ _ _ _ _ _ _ _ _ _ _ _ R)|exact (re_le _ _ _ _ _ _ _ _ _ _ _ _ R)]|]. split; [exact Ard|].
  split; [intros x; rewrite (re_sup _ _ _ _ _ _ _ _ _ _ _ _ R x); reflexivity|].
  split.
  { intros d. rewrite (re_bal_esma _ _ _ _ _ _ _ _ _ _ _ _ R d). split; [lia|]. rewrite (re_paid _ _ _ _ _ _ _ _ _ _ _ _ R d). apply wsum_nonneg. intros x Hx.
    pose proof (re_pay_nonneg _ _ _ _ _ _ _ _ _ _ _ _ R x Hx). destruct (ar_asset x =? d); lia. }
  split; [intros d; rewrite (re_bal_from _ _ _ _ _ _ _ _ _ _ _ _ R d); reflexivity|].
  split; [intros d; exact (re_debt _ _ _ _ _ _ _ _ _ _ _ _ R d)|intros d; exact (re_coll _ _ _ _ _ _ _ _ _ _ _ _ R d)].
Qed.
Print Assumptions c02_redemption_burn_exact.

(* the pro-rata bound of a payout, as pure arithmetic of the four Dec operations of CalculateCollateral *)
Theorem c02_payout_prorata : forall amt tw dec_d w share rate dec_c q, 0 <= amt -> 0 <= tw -> 0 < dec_d -> 0 <= share -> 0 < rate -> 0 <= dec_c ->
  total_value amt tw dec_d = Ok w -> payout w share rate dec_c = Some q ->
  0 <= q /\ q * dec_d * rate * P18 * P18 <= amt * tw * share * dec_c * P18 + dec_d * dec_c * (share + HALF18 + rate * P18).
Proof. exact payout_prorata. Qed.
Print Assumptions c02_payout_prorata.

(* ... at most three base units above the exact share when decimals <= 10^18, share <= 1, rate >= 1 *)
Theorem c02_payout_prorata_3 : forall amt tw dec_d w share rate dec_c q, 0 <= amt -> 0 <= tw -> 0 < dec_d -> 0 <= share <= P18 -> 1 <= rate -> 0 <= dec_c <= P18 ->
  total_value amt tw dec_d = Ok w -> payout w share rate dec_c = Some q ->
  q * dec_d * rate * P18 <= amt * tw * share * dec_c + 3 * dec_d * rate * P18.
Proof. exact payout_prorata_3. Qed.
Print Assumptions c02_payout_prorata_3.

(* the share calculation divides each record's dollar value by the total of its side, within one unit of 10^-18 *)
Theorem c02_share_rounding : forall lc ec s app ct dt r r' v dec rate, share_one lc ec s app (Some (ct, dt)) r = Ok r' ->
  ec_dec ec (ar_asset r) = Some dec -> rate_of lc s app (ar_asset r) = Some rate -> total_value (ar_amt r) rate dec = Ok v ->
  0 <= v -> 0 < (if ar_coll r then ct else dt) ->
  share_ok v (if ar_coll r then ct else dt) (ar_share r') = true /\ ar_amt r' = ar_amt r /\ ar_coll r' = ar_coll r.
Proof. exact share_one_law. Qed.
Print Assumptions c02_share_rounding.

(* non-vacuity: the example history (Model/EsmLifeExample.v) meets every hypothesis and contains no liquidation.  After the
   set-up block supply - external of the debt denom 4 is 168600000 = registered debt (170000000 minted, 1400000 net
   fees burnt with the collector step), nothing is recorded on vaults any more; the first redemption of 10000000 pays
   8896795 of collateral 2 and 1779359 of collateral 3 and burns 10000000; after the last one supply, registered
   debt and recorded principal are all 0; the governance denom 1 lost 1200000 to deposits (gburn), so it is
   1200000 below its external supply and only the inequality holds for it *)
Example c02_esm_example_hyps : cfg_ok ee_cfg /\ roles_ok ee_cfg /\ InvE ee_cfg ee_init /\ InvE02 ee_cfg ee_sup ee_init /\ NoSeized (el ee_init) /\
  ehist_ok ee_cfg ee_lc ee_ec ee_init ee_ops /\ Forall (fun o => is_eliq o = false) ee_ops.
Proof. exact (conj ee_cfg_ok (conj ee_roles_ok (conj ee_init_inv (conj ee_init_inv02 (conj ee_init_noseized (conj ee_hist ee_noliq)))))). Qed.
Example c02_esm_example_run :
  let m := erun_all ee_cfg ee_lc ee_ec (firstn 13 ee_ops) ee_init in
  let s := erun_all ee_cfg ee_lc ee_ec (firstn 15 ee_ops) ee_init in
  let r := erun_all ee_cfg ee_lc ee_ec (firstn 16 ee_ops) ee_init in
  let f := erun_all ee_cfg ee_lc ee_ec ee_ops ee_init in
  sup (vs (el m)) 4 - ee_sup 4 = 168600000 /\ esm_debt m 4 = 168600000 /\ debt_sum ee_cfg (vs (el m)) 4 = 0 /\ recorded_e ee_cfg m 4 = 168600000 /\
  cool m 1 = Some (330000000 * P18, 168600000 * P18) /\
  map (fun x => (ar_asset x, ar_share x)) (recs s) = [(2, 909090909090909091); (3, 90909090909090909); (4, P18)] /\
  holds_C02_shares ee_lc ee_ec s 1 = true /\
  map (fun d => bal (vs (el r)) 2 d - bal (vs (el s)) 2 d) ee_denoms = [8896795; 1779359; -10000000] /\ sup (vs (el r)) 4 = 158600000 /\
  holds_C02_redeem ee_lc ee_ec ee_denoms s 2 1 4 10000000 r = true /\
  sup (vs (el f)) 4 = 0 /\ recorded_e ee_cfg f 4 = 0 /\ forallb (c02e_exact ee_cfg ee_sup f) ee_denoms = true /\
  gburn f 1 = 1200000 /\ sup (vs (el f)) 1 - ee_sup 1 = -1200000 /\ holds_C02_esm ee_cfg ee_sup (1 :: ee_denoms) f = true.
Proof. vm_compute. repeat split; reflexivity. Qed.
(* the predicates are not trivially true: the redemption law rejects a burn of one coin less than the amount retired,
   the pro-rata bound rejects two base units more than the code pays, the backing predicate rejects the unrepaired
   C01-F5 state for exactness (the stable-mint principal recorded twice) *)
Example c02_esm_predicates_discriminate :
  let m := erun_all ee_cfg ee_lc ee_ec (firstn 13 ee_ops) ee_init in
  let s := erun_all ee_cfg ee_lc ee_ec (firstn 15 ee_ops) ee_init in
  let r := erun_all ee_cfg ee_lc ee_ec (firstn 16 ee_ops) ee_init in
  holds_C02_redeem ee_lc ee_ec ee_denoms s 2 1 4 10000000 (set_el r (set_vs (el r) (set_sup (vs (el r)) (fun x => sup (vs (el r)) x + (if x =? 4 then 1 else 0))))) = false /\
  prorata_ok 8896795 10000000 1957295 909090909090909091 2000000 1000000 1000000 = true /\
  prorata_ok 8896797 10000000 1957295 909090909090909091 2000000 1000000 1000000 = false /\
  c02e_exact ee_cfg ee_sup (set_el m (set_vs (el m) (set_svaults (vs (el m)) [mkSV 1 1 2 30000000 30000000]))) 4 = false.
Proof. vm_compute. repeat split; reflexivity. Qed.
