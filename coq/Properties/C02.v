(* C02 — No unbacked stablecoin: minted supply is covered by recorded vault principal.
   Property theorems only; each is closed by [exact] of a lemma proved in Proofs/.

   [Inv02 c ext s]: for EVERY denom d, bank supply of d minus the external supply [ext d] (what
   existed before the first vault message: genesis, funding) = sum of AmountOut over open vaults
   and stable-mint vaults whose debt asset is d.  [Inv01] is the C01 invariant (needed because the
   handlers read the books).  [cfg_ok], [user_op]: see Properties/C01.v.

   FULL LIFE CYCLE (Model/VaultLife.v): the histories quantified over by the theorems c02_life_* /
   c02_backing_history / c02_exact_history also contain seizures (keeper message and sweep), dutch-auction
   bids with arbitrary environment amounts, auction block ticks and the esm vault redemption.
   [Inv02L c ext l]: for EVERY denom d
       supply d - ext d = recorded d - over d   and   0 <= over d
   where recorded d = AmountOut of open vaults and stable-mint vaults with debt asset d + the principal of the
   locked vaults (vaults awaiting auction) + the debt registered in the esm AssetToAmount records, and [over]
   is what settlements burnt beyond the principal they retired: a closing bid burns the seized vault's whole
   debt (principal + accrued interest + closing fee), i.e. interest and closing fees of a liquidated vault are
   destroyed, never minted.  Hence supply <= recorded always, and = in histories without liquidations.
   The hypothesis [hist_ok] (Proofs/VaultLifeHist.v) is inherited from the books invariant [InvL] of C01 (the
   handlers read the books): signers / liquidators / bidders are not the custody account and the environment
   amounts of a bid respect the bounds of Properties/C10.v c10_bid_amounts.  ESM auction returns (TriggerEsm:
   what was collected beyond the penalty is burnt, the auction's remaining target debt is re-recorded as the
   returned vault's principal) are inside the histories quantified over.
   The theorems named ..._messages_... are the earlier statements over histories of vault messages only.

   Finding C02-F1 (MsgCreateStableMint, zero draw-down fee: msg.Amount paid out instead of
   tokenOutAmount) was reproduced on the real keeper; it is repaired by fixes/C02-F1/patch.diff
   and the model follows the repaired code, so no known-finding class remains here. *)
From Comdex Require Import Lib.Base Lib.DecArith Lib.Atomic Model.Vault Model.VaultExample Model.VaultLife Model.VaultLifeExample
  Proofs.VaultProofs Proofs.VaultInv Proofs.VaultSupply Proofs.VaultLifeBase Proofs.VaultLifeInv Proofs.VaultLifeHist Proofs.VaultLifeSupply Proofs.VaultLifeWitness.

Theorem c02_backing_init : forall c b sp t pr, Inv02 c sp (init b sp t pr).
Proof. exact inv02_init. Qed.
Print Assumptions c02_backing_init.

(* every successful message moves supply and recorded principal by the same amount *)
Theorem c02_backing_step : forall c ext s o s', cfg_ok c -> user_op o -> Inv01 c s -> Inv02 c ext s ->
  run c s o = Ok s' -> Inv02 c ext s'.
Proof. exact run_inv02. Qed.
Print Assumptions c02_backing_step.

(* supply - external = recorded principal after EVERY finite history of vault messages *)
Theorem c02_messages_exact_history : forall c ext ops s, cfg_ok c -> Forall user_op ops -> Inv01 c s -> Inv02 c ext s ->
  Inv02 c ext (run_all c ops s).
Proof. intros c ext ops s CK U I J. exact (proj2 (history_inv02 c ext ops CK U s I J)). Qed.
Print Assumptions c02_messages_exact_history.

(* the executable state predicate evaluated on the implementation's observations *)
Theorem c02_messages_predicate_holds : forall c ops b sp t pr denoms, cfg_ok c -> Forall user_op ops ->
  (forall d, b VAULT d = 0) -> holds_C02 c sp denoms (run_all c ops (init b sp t pr)) = true.
Proof.
  intros c ops b sp t pr denoms CK U Hb. apply inv02_holds.
  exact (proj2 (history_inv02 c sp ops CK U _ (inv01_init c b sp t pr Hb) (inv02_init c b sp t pr))).
Qed.
Print Assumptions c02_messages_predicate_holds.

(* the per-message laws, as the executable predicate [holds_C02_step] (Model/Vault.v) that the runner
   evaluates on the implementation's observation before and after every successful message:
   - Create / Draw / DepositAndDraw / stable Create / stable Deposit: supply grows by the new
     principal, the sender receives principal - fee, the collector receives fee, where
     fee = TruncateInt(NewDecFromInt(principal) * DrawDownFee)            [mint_law]
   - Repay / Close / stable Withdraw: supply shrinks by exactly the principal retired; the rest of
     what the sender paid (interest, closing fee, draw-down fee) reaches the collector
   - Deposit / Withdraw / InterestCalc: supply unchanged *)
Theorem c02_step_laws : forall c s o s', cfg_ok c -> user_op o -> Inv01 c s -> run c s o = Ok s' ->
  holds_C02_step c s o s' = true.
Proof. exact run_c02_step. Qed.
Print Assumptions c02_step_laws.

Theorem c02_mint_law_meaning : forall ep s s' f x, mint_law ep s s' f x = true ->
  sup s' (ep_out ep) - sup s (ep_out ep) = x /\
  bal s' f (ep_out ep) - bal s f (ep_out ep) = x - ddf_fee ep x /\
  bal s' COLL (ep_out ep) - bal s COLL (ep_out ep) = ddf_fee ep x.
Proof. exact mint_law_meaning. Qed.
Print Assumptions c02_mint_law_meaning.

(* mint delivery spelled out for MsgCreate, with the fee as an integer formula *)
Theorem c02_mint_delivery_create : forall c s f a e ain aout s', cfg_ok c -> f <> VAULT -> f <> COLL -> Inv01 c s ->
  run c s (Create f a e ain aout) = Ok s' ->
  exists ep, get_ep c e = Some ep /\
    let fee := Z.quot (aout * ep_ddf ep) P18 in
    sup s' (ep_out ep) - sup s (ep_out ep) = aout /\
    bal s' f (ep_out ep) - bal s f (ep_out ep) = aout - fee /\
    bal s' COLL (ep_out ep) - bal s COLL (ep_out ep) = fee /\
    find_v (vaults s') (vid s') = Some (mkV (vid s + 1) f a e ain aout 0 (match find_v (vaults s') (vid s') with Some v => v_fee v | None => 0 end)).
Proof. exact create_delivery. Qed.
Print Assumptions c02_mint_delivery_create.

(* exact burn and fees-not-minted spelled out for MsgClose *)
Theorem c02_burn_exact_close : forall c s f a e id ie s', cfg_ok c -> f <> VAULT -> f <> COLL -> Inv01 c s ->
  run c s (Close f a e id ie) = Ok s' ->
  exists v ep, find_v (vaults s) id = Some v /\ get_ep c e = Some ep /\ 0 <= ie /\
    sup s (ep_out ep) - sup s' (ep_out ep) = v_out v /\
    bal s' COLL (ep_out ep) - bal s COLL (ep_out ep) = v_int v + ie + v_fee v /\
    bal s f (ep_out ep) - bal s' f (ep_out ep) = v_out v + (v_int v + ie + v_fee v) /\
    find_v (vaults s') id = None.
Proof. exact close_burn. Qed.
Print Assumptions c02_burn_exact_close.

(* interest first, to the collector, out of existing supply; only the excess retires principal and
   exactly that much is burnt; no other denom's supply moves *)
Theorem c02_fees_not_minted_repay : forall c s f a e id amt ie s', cfg_ok c -> f <> VAULT -> f <> COLL -> Inv01 c s ->
  run c s (Repay f a e id amt ie) = Ok s' ->
  exists v v' ep, find_v (vaults s) id = Some v /\ find_v (vaults s') id = Some v' /\ get_ep c e = Some ep /\ 0 <= ie /\
    let interest := v_int v + ie in
    let burnt := Z.max 0 (amt - interest) in
    sup s (ep_out ep) - sup s' (ep_out ep) = burnt /\
    v_out v' = v_out v - burnt /\ v_int v' = interest - (amt - burnt) /\
    bal s' COLL (ep_out ep) - bal s COLL (ep_out ep) = amt - burnt /\
    bal s f (ep_out ep) - bal s' f (ep_out ep) = amt /\
    (forall x, x <> ep_out ep -> sup s' x = sup s x).
Proof. exact repay_law. Qed.
Print Assumptions c02_fees_not_minted_repay.

(* GetAmountOfOtherToken at rate 1:1 (used by the stable-mint handlers): Quo rounded half-even at
   10^-18, then TruncateInt of the product; both roundings explicit *)
Theorem c02_other_token_spec : forall dec1 amt dec2 t, other_token dec1 amt dec2 = Some t -> 0 < dec1 -> 0 <= amt -> 0 <= dec2 ->
  let q := dquo (amt * P18) (dec1 * P18) in
  t = Z.quot (q * dec2) P18 /\
  t * dec1 * P18 <= (amt * P18 + dec1) * dec2 /\ (amt * P18 - dec1) * dec2 < (t + 1) * dec1 * P18.
Proof. exact other_token_spec. Qed.
Print Assumptions c02_other_token_spec.
Example c02_other_token_examples :
  other_token 1000000 2000000 P18 = Some (2 * P18) /\ other_token P18 (2 * P18 + 999999999999) 1000000 = Some 2000000 /\
  other_token 100000000 123456789 1000000 = Some 1234567.
Proof. vm_compute. repeat split; reflexivity. Qed.

(* non-vacuity: hypotheses met by the example; supply of the stable debt denom 4 equals the
   stable-mint principal; every successful step of the example satisfies the step predicate *)
Example c02_example_hyps : cfg_ok ex_cfg /\ Forall user_op ex_ops /\ Inv01 ex_cfg ex_init /\ Inv02 ex_cfg ex_sup ex_init.
Proof. exact (conj ex_cfg_ok (conj ex_ops_users (conj ex_init_inv (inv02_init ex_cfg ex_bal ex_sup 1000 ex_price)))). Qed.
Example c02_example_run :
  let s := run_all ex_cfg ex_ops ex_init in
  sup s 4 = 2 * P18 /\ debt_sum ex_cfg s 4 = 2 * P18 /\ sup s 2 - ex_sup 2 = 2666666 /\ debt_sum ex_cfg s 2 = 2666666 /\
  holds_C02 ex_cfg ex_sup ex_denoms s = true.
Proof. vm_compute. repeat split; reflexivity. Qed.
(* regression of C02-F1 (now passing): decimals (10^6, 10^18), zero draw-down fee, deposit 2000000:
   2*10^18 are minted and recorded and the depositor receives all of them; nothing stays in custody *)
Example c02_f1_regression :
  let s := run_all ex_cfg (firstn 6 ex_ops) ex_init in
  let o := StableCreate 3 1 2 2000000 in
  let s' := step ex_cfg s o in
  result_class ex_cfg s o = 0 /\ sup s' 4 - sup s 4 = 2 * P18 /\ bal s' 3 4 - bal s 3 4 = 2 * P18 /\ bal s' VAULT 4 = 0 /\
  svaults s' = [mkSV 1 1 2 2000000 (2 * P18)] /\ holds_C02_step ex_cfg s o s' = true.
Proof. vm_compute. repeat split; reflexivity. Qed.
(* the step predicate is not trivially true: it rejects the pre-fix behaviour (user paid 2*10^6) *)
Example c02_step_predicate_discriminates :
  let s := run_all ex_cfg (firstn 6 ex_ops) ex_init in
  let o := StableCreate 3 1 2 2000000 in
  let s' := step ex_cfg s o in
  let bad := set_bal s' (fun a x => if (a =? 3) && (x =? 4) then 2000000 else if (a =? VAULT) && (x =? 4) then 2 * P18 - 2000000 else bal s' a x) in
  holds_C02_step ex_cfg s o bad = false /\ holds_C01 ex_cfg ex_denoms bad = false.
Proof. vm_compute. split; reflexivity. Qed.

(* ====================== the full life cycle ====================== *)

Theorem c02_life_backing_init : forall c b sp t pr, Inv02L c sp (lift (init b sp t pr)).
Proof. exact inv02L_init. Qed.
Print Assumptions c02_life_backing_init.

(* one step of any kind *)
Theorem c02_life_backing_step : forall c ext lc l o l', cfg_ok c -> lop_ok l o -> InvL c l -> Inv02L c ext l ->
  lrun c lc l o = Ok l' -> Inv02L c ext l'.
Proof. exact lrun_inv02. Qed.
Print Assumptions c02_life_backing_step.

(* the circulating supply never exceeds the recorded principal, after EVERY finite history *)
Theorem c02_backing_history : forall c ext lc ops l, cfg_ok c -> hist_ok c lc l ops -> InvL c l -> Inv02L c ext l ->
  forall d, sup (vs (lrun_all c lc ops l)) d - ext d <= recorded_d c (lrun_all c lc ops l) d.
Proof.
  intros c ext lc ops l CK HO I J d. destruct (history_inv02L c ext lc ops CK l HO I J) as [_ J']. destruct (J' d). lia.
Qed.
Print Assumptions c02_backing_history.

(* ... and in histories without liquidations (no keeper seizure, no sweep; nothing seized before) it is
   exactly equal *)
Theorem c02_exact_history : forall c ext lc ops l, cfg_ok c -> Forall (fun o => is_liq o = false) ops ->
  hist_ok c lc l ops -> InvL c l -> Inv02L c ext l -> NoSeized l ->
  forall d, sup (vs (lrun_all c lc ops l)) d - ext d = recorded_d c (lrun_all c lc ops l) d.
Proof. intros c ext lc ops l CK HN HO I J N. exact (history_exact c ext lc ops CK HN l HO I J N). Qed.
Print Assumptions c02_exact_history.

Theorem c02_predicate_holds : forall c lc ops b sp t pr denoms, cfg_ok c -> (forall d, b VAULT d = 0) ->
  hist_ok c lc (lift (init b sp t pr)) ops ->
  holds_C02_life c sp denoms (lrun_all c lc ops (lift (init b sp t pr))) = true.
Proof.
  intros c lc ops b sp t pr denoms CK Hb HO. apply inv02L_holds.
  exact (proj2 (history_inv02L c sp lc ops CK _ HO (invL_init c b sp t pr Hb) (inv02L_init c b sp t pr))).
Qed.
Print Assumptions c02_predicate_holds.

(* a settlement burns exactly the seized vault's debt (TargetDebt - penalty = principal + interest + closing
   fee); a partial bid burns nothing; no other denom's supply and no custody balance moves: the executable
   law [holds_C02_settle] the runner evaluates on the implementation's observation before / after each bid *)
Theorem c02_settlement_burn : forall c lc l aid who paid recv closed exh topup l' denoms, who <> VAULT -> InvL c l ->
  bid lc l aid who paid recv closed exh topup = Ok l' -> holds_C02_settle denoms l aid closed l' = true.
Proof. exact bid_settle_law. Qed.
Print Assumptions c02_settlement_burn.

(* non-vacuity.  History A (seizure, partial bid, restart, closing bid): hypotheses met; while vault 1 awaits
   settlement supply - external = 20000000 = open 10000000 + locked 10000000; after the settlement 10000000.
   History B (closing fee 50000): the settlement burnt 10050000 against 10000000 principal retired, so supply
   is 50000 BELOW the recorded principal (0): over = 50000.  History D (no liquidation; esm redemption moves
   12000000 principal into the esm register): exactly equal *)
Example c02_life_example_hyps : cfg_ok lx_cfg /\ InvL lx_cfg lx_init /\ Inv02L lx_cfg ex_sup lx_init /\ NoSeized lx_init /\
  hist_ok lx_cfg lx_lc lx_init lx_ops_a /\ hist_ok lx_cfg lx_lc lx_init lx_ops_d /\ Forall (fun o => is_liq o = false) lx_ops_d.
Proof.
  refine (conj lx_cfg_ok (conj lx_init_inv (conj lx_init_inv02 (conj lx_init_noseized (conj lx_hist_a (conj lx_hist_d _)))))).
  repeat constructor.
Qed.
Example c02_life_example_run :
  let m := lrun_all lx_cfg lx_lc (firstn 5 lx_ops_a) lx_init in
  let l := lrun_all lx_cfg lx_lc lx_ops_a lx_init in
  let b := lrun_all lx_cfg lx_lc lx_ops_b lx_init in
  let d := lrun_all lx_cfg lx_lc lx_ops_d lx_init in
  sup (vs m) 2 - ex_sup 2 = 20000000 /\ debt_sum lx_cfg (vs m) 2 = 10000000 /\ lock_prin_d lx_cfg m 2 = 10000000 /\
  sup (vs l) 2 - ex_sup 2 = 10000000 /\ recorded_d lx_cfg l 2 = 10000000 /\
  sup (vs b) 2 - ex_sup 2 = -50000 /\ recorded_d lx_cfg b 2 = 0 /\ over b 2 = 50000 /\
  lclasses lx_cfg lx_lc lx_init lx_ops_d = [0; 0; 0; 0; 0; 0; 0] /\ vaults (vs d) = [] /\ edebt d 2 = 12000000 /\
  sup (vs d) 2 - ex_sup 2 = 12000000 /\ c02l_exact lx_cfg ex_sup d 2 = true /\
  holds_C02_life lx_cfg ex_sup lx_denoms l = true /\ holds_C02_life lx_cfg ex_sup lx_denoms b = true.
Proof. vm_compute. repeat split; reflexivity. Qed.
(* the life predicate is not trivially true: it rejects 1 coin of supply above the recorded principal *)
Example c02_life_predicate_discriminates :
  let l := lrun_all lx_cfg lx_lc lx_ops_a lx_init in
  holds_C02_life lx_cfg ex_sup lx_denoms (set_vs l (set_sup (vs l) (fun x => sup (vs l) x + 1))) = false.
Proof. vm_compute. reflexivity. Qed.
