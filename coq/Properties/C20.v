(* C20 - Genesis export and re-import preserves every live position and counter.
   Property theorems only.  [the_table] is REGENERATED from the Go source on every check
   (Gen/GenesisTable.v); the finite theorems are by computation over it, the lifting lemmas are
   generic (Proofs/GenesisProofs.v).  The property is false for the (module, prefix) pairs listed in
   [known_holes] (classes kf_C20 3..6, 8..11, 14..17, 19); each class has a [_refuted] statement, and
   the positive theorems are stated on the complement.
   fixed: property=C20 f97a387 collector ExportGenesis emitted zero-valued net-fee records (class 1)
   fixed: property=C20 52f646d auctionsV2 InitGenesis reset the exported auction id and user bid id
          counters to 0 (class 2)
   fixed: property=C20 043e2ee auction V1 InitGenesis filled the lend dutch auctions (and their id
          counter) from the DutchAuction field instead of DutchLendAuction (class 7)
   fixed: property=C20 17e806f collector InitGenesis dropped the lookup table, the auction mapping and
          the denoms mapping when the validating lookup setter failed (class 12)
   fixed: property=C20 dfe74db rewards InitGenesis never restored the id counters of the external
          reward programmes for lockers / vaults: the next programme overwrote programme 1 (class 18)
   These classes and their [_refuted] theorems are deleted; their witnesses are the regression
   examples [c20_*_regression] below and forced cases of the behavioural runs (TestC20 cases 0, 1;
   TestC20Liq cases 0-3). *)
From Coq Require Import String.
From Comdex Require Import Lib.Base Lib.GenesisTypes Gen.GenesisTable Model.Genesis Proofs.GenesisProofs
  Model.GenesisValidate Proofs.GenesisValidateProofs.
Open Scope Z_scope.

(* every store access / genesis shape of the 14 DeFi modules was understood by the translator *)
Theorem c20_table_recognised : unrecognised = [].
Proof. exact table_recognised. Qed.
Print Assumptions c20_table_recognised.

(* PARTIAL (known-finding classes excluded): every store prefix some keeper function writes, of
   every DeFi module, is either carried by the genesis (exported with its values and imported from
   the same field, or rebuilt from exported records), or - for an id counter - restored to its
   value; or it is one of the listed known holes.  A new prefix that genesis ignores, or a dropped
   export / import, makes this computation return false. *)
Theorem c20_roundtrip_table_partial :
  forallb (fun p => negb (live p) || survives the_table (p_mod p) p || kf_C20_any (p_mod p) (p_byte p))
          prefixes = true.
Proof. exact table_decided. Qed.
Print Assumptions c20_roundtrip_table_partial.

(* lifted: for every module state s (any content, hence every reachable one) whose derived indexes
   are consistent with their records, InitGenesis (ExportGenesis s) has exactly the entries of s
   under every live non-counter prefix outside the known-finding classes.  [roundtrip] is the
   success path of InitGenesis; prefixes whose import can be cut short by a setter that validates
   against other state are excluded by [survives] unless that validation is harmless
   ([guard_harmless], see c20_esm_guard_harmless); no module has such a prefix today. *)
Theorem c20_roundtrip_partial : forall p dv s,
  In p prefixes -> live p = true -> p_counter p = false ->
  kf_C20_any (p_mod p) (p_byte p) = false ->
  consistent dv the_table (p_mod p) s ->
  get (roundtrip dv the_table (p_mod p) s) (p_byte p) = get s (p_byte p).
Proof.
  intros p dv s Hin Hl Hc Hk Hcons.
  pose proof (survives_cover _ _ _ (table_decided_row p Hin Hl Hk) Hc) as Hs.
  apply roundtrip_generic; [exact (in_pref_rows the_table p Hin)|exact Hs|exact Hcons].
Qed.
Print Assumptions c20_roundtrip_partial.

(* id counters outside the known-finding classes come back with their value (for a counter that
   InitGenesis recomputes as the maximum id of a never-deleted collection: provided the counter
   was that maximum, which is how the keepers allocate), so the next id is the same as on the
   original chain and collides with no live record *)
Theorem c20_counters_partial : forall p orig items,
  In p prefixes -> live p = true -> p_counter p = true ->
  kf_C20_any (p_mod p) (p_byte p) = false ->
  (match counter_restore the_table (p_mod p) (p_byte p) with
   | RMax _ => orig = zmax_list (ids items) | _ => True end) ->
  (forall i, In i (ids items) -> i <= orig) ->
  restored_value (counter_restore the_table (p_mod p) (p_byte p)) orig items = Some orig /\
  ~ In (next_id orig) (ids items).
Proof.
  intros p orig items Hin Hl Hc Hk Hmax Hle.
  pose proof (survives_counter _ _ _ (table_decided_row p Hin Hl Hk) Hc) as Hs.
  split; [exact (counter_ok_exact _ _ _ orig items Hs Hmax)|exact (fresh_id_generic _ _ Hle)].
Qed.
Print Assumptions c20_counters_partial.

(* weaker, for every counter restored exactly or as a maximum (also the class-10 ones): whatever
   was deleted before the export, the next id collides with no imported record *)
Theorem c20_fresh_ids : forall m b orig items v,
  counter_safe the_table m b = true ->
  (forall i, In i (ids items) -> i <= orig) ->
  restored_value (counter_restore the_table m b) orig items = Some v ->
  ~ In (next_id v) (ids items).
Proof. exact (counter_safe_fresh the_table). Qed.
Print Assumptions c20_fresh_ids.

(* ---------------- the validation that InitGenesis / ValidateGenesis runs on the imported state ---------------- *)
(* every statement of every module's types.GenesisState.Validate / types.ValidateGenesis was understood
   by the translator (collections ranged over, item validators, maps built, lookups, rejecting
   conditions): nothing is listed as unread *)
Theorem c20_validation_recognised : validation_unread = [].
Proof. exact validation_recognised. Qed.
Print Assumptions c20_validation_recognised.

(* every map access of every genesis validation is keyed rightly ([xref_ok]); in particular a record
   of ANOTHER kind K is looked up through the field "<K>Id" of a record that is the item being
   validated or was itself fetched by a checked lookup, in a map populated under each K's own Id:
   a deposit request's pair is found through its pool's PairId, never through a pool id.  (liquidity
   InitGenesis runs this validation and panics on its error: a lookup through the wrong id rejects
   the module's own export as soon as pool ids and pair ids drift apart.) *)
Theorem c20_validation_xrefs_keyed : forall x, In x val_xrefs ->
  xref_ok val_xrefs x = true /\
  (String.eqb (vx_kind x) "" = false -> (String.eqb (vx_owner x) (vx_kind x) && from_item x) = false ->
   vx_keys x = [(vx_kind x ++ "Id")%string] /\ (from_item x || from_fetch val_xrefs x) = true /\
   map_keyed_by_id val_xrefs (vx_mod x) (vx_map x) (vx_kind x) = true).
Proof.
  intros x Hin. pose proof (xrefs_keyed_row x Hin) as H. split; [exact H|].
  intros Hk Hs. exact (xref_ok_reference _ _ H Hk Hs).
Qed.
Print Assumptions c20_validation_xrefs_keyed.

(* closed world: every access is on a declared map of the stated kind, every DeFi module has an
   AppModuleBasic.ValidateGenesis entry and no entry ignores the validation error, and every
   collection the validation ranges over is a field ExportGenesis fills *)
Theorem c20_validation_closed :
  forallb (xref_declared val_maps) val_xrefs = true /\ entries_closed modules val_entries = true /\
  forallb (coll_exported exports val_colls) val_colls = true.
Proof. destruct validation_parts as [_ H]. exact H. Qed.
Print Assumptions c20_validation_closed.

(* non-vacuity and sensitivity: the table has the cross references of the liquidity validation (the
   only module whose InitGenesis validates, and panics); the row the lookup `pairMap[req.PoolId]`
   would produce is rejected, so is a map populated under another field *)
Example c20_validation_sensitive :
  validates_at_init val_entries = ["liquidity"%string] /\
  (existsb (fun e => String.eqb (ve_mod e) "liquidity" && String.eqb (ve_entry e) "InitGenesis" &&
                     String.eqb (ve_reaction e) "panic") val_entries) = true /\
  (existsb (fun y => String.eqb (vx_coll y) "AppGenesisState.DepositRequests" && String.eqb (vx_map y) "pairMap" &&
                     String.eqb (vx_owner y) "Pool" && String.eqb (vx_from y) "map:poolMap" &&
                     match vx_keys y with [k] => String.eqb k "PairId" | _ => false end) val_xrefs) = true /\
  (existsb (fun y => String.eqb (vx_coll y) "AppGenesisState.DepositRequests" && String.eqb (vx_map y) "poolMap" &&
                     String.eqb (vx_owner y) "DepositRequest" && from_item y &&
                     match vx_keys y with [k] => String.eqb k "PoolId" | _ => false end) val_xrefs) = true /\
  (xref_ok val_xrefs (mkVX "liquidity" "AppGenesisState.DepositRequests" "pairMap" "Pair" "DepositRequest"
                           "item:AppGenesisState.DepositRequests" ["PoolId"%string] "fetch")) = false /\
  (xref_ok val_xrefs (mkVX "liquidity" "AppGenesisState.DepositRequests" "pairMap" "Pair" "Pool" "root"
                           ["PairId"%string] "fetch")) = false /\
  (let xs := map (fun y => if String.eqb (vx_how y) "populate" && String.eqb (vx_map y) "pairMap"
                           then mkVX (vx_mod y) (vx_coll y) (vx_map y) (vx_kind y) (vx_owner y) (vx_from y)
                                     ["CurrentBatchId"%string] (vx_how y) else y) val_xrefs in
   xrefs_keyed xs = false) /\
  (7 <= Z.of_nat (List.length (filter (fun x => negb (String.eqb (vx_kind x) "") &&
                                                negb (String.eqb (vx_owner x) (vx_kind x))) val_xrefs))).
Proof. vm_compute. repeat split; try reflexivity; intro; discriminate. Qed.

(* ---------------- the known-finding classes: refutations on the unchanged tree ---------------- *)

(* every listed hole is a live prefix of the regenerated table that does NOT survive, and every
   listed id counter is restored in the shape in which the hole was found (maximum / last / count /
   absent: [known_counter_shapes]) - a counter restored as a count where a maximum is listed is in
   no class *)
Theorem c20_known_holes_refuted : forallb hole_is_hole known_holes = true.
Proof. exact holes_are_holes. Qed.
Print Assumptions c20_known_holes_refuted.

(* classes 3, 6, 8, 11, 15, 16, 17, 19 (and the non-counter prefixes of 14): a live prefix that no
   genesis field carries comes back empty *)
Theorem c20_lost_refuted : forall p dv,
  In p prefixes -> classify the_table (p_mod p) (p_byte p) = CovLost ->
  exists s, get (roundtrip dv the_table (p_mod p) s) (p_byte p) <> get s (p_byte p).
Proof. intros p dv Hin Hl. apply lost_refuted; [exact (in_pref_rows the_table p Hin)|exact Hl]. Qed.
Print Assumptions c20_lost_refuted.

(* class 14: auction V1: both auction-id counters are the id of the LAST exported dutch / lend dutch
   auction: after the newest auction was closed the counter goes back *)
Theorem c20_auction_v1_refuted :
  counter_restore the_table "auction" 19 = RLast [17] /\
  counter_restore the_table "auction" 25 = RLast [32] /\
  exists orig items, (forall i, In i (ids items) -> i <= orig) /\
                     restored_value (RLast [17]) orig items <> Some orig.
Proof. repeat split; try (vm_compute; reflexivity). apply last_restore_reissues. Qed.
Print Assumptions c20_auction_v1_refuted.

(* class 4: liquidation V1 restores LockedVaultID as the number of locked vaults: with live ids
   {2,3} the next id is 3 *)
Theorem c20_liquidation_count_refuted :
  counter_restore the_table "liquidation" 1 = RCount [17] /\
  exists items, match restored_value (RCount [17]) 3 items with
                | Some v => In (next_id v) (ids items) | None => False end.
Proof. split; [vm_compute; reflexivity|apply count_restore_collides]. Qed.
Print Assumptions c20_liquidation_count_refuted.

(* classes 5, 9 (and the limit-bid id of class 3): liquidationsV2.LockedVaultID, the locker id
   counter and auctionsV2.LimitAuctionBidID are never written by InitGenesis: they read 0 and the
   next id (1) collides with a live record *)
Theorem c20_absent_counters_refuted :
  counter_restore the_table "liquidationsV2" 3 = RAbsent /\
  counter_restore the_table "locker" 23 = RAbsent /\
  counter_restore the_table "auctionsV2" 3 = RAbsent /\
  exists items, restored_value RAbsent 1 items = None /\ In (next_id 0) (ids items).
Proof. repeat split; try (vm_compute; reflexivity). apply absent_restore_collides. Qed.
Print Assumptions c20_absent_counters_refuted.

(* class 10: the vault id is recomputed as the maximum LIVE vault id while vaults can be deleted:
   after vault 2 was closed the counter comes back as 1 and id 2 is handed out again (no collision
   - c20_fresh_ids - but not the id the original chain assigns) *)
Theorem c20_maxid_refuted :
  counter_restore the_table "vault" 21 = RMax [16] /\ deletable the_table "vault" [16] = true /\
  exists orig items, (forall i, In i (ids items) -> i <= orig) /\
                     restored_value (RMax [16]) orig items <> Some orig.
Proof. repeat split; try (vm_compute; reflexivity). apply max_restore_reissues. Qed.
Print Assumptions c20_maxid_refuted.

(* the shape of a counter hole matters: lend InitGenesis takes the lend id from the LAST imported
   lend (ascending ids: the maximum); were it to COUNT the imported lends instead, with lends {2, 3}
   alive the next lend would get id 3 again - and (lend, 22) would no longer be in any class *)
Example c20_counter_shape_sensitive :
  shape_code (counter_restore the_table "lend" 22) = 2 /\ kf_C20_any "lend" 22 = true /\
  shape_code (counter_restore the_table "liquidation" 1) = 3 /\ kf_C20_class "liquidation" 1 = 4 /\
  (exists items, match restored_value (RCount [21]) 3 items with
                 | Some v => In (next_id v) (ids items) | None => False end) /\
  (forall items : entries, ~ In (next_id (zmax_list (ids items))) (ids items)).
Proof.
  repeat split; try (vm_compute; reflexivity).
  - apply count_restore_collides.
  - apply max_restore_fresh.
Qed.

(* ---------------- decided: not a defect ---------------- *)
(* former class 13: esm InitGenesis imports the kill switches through SetKillSwitchData, which
   returns an error when the app is not registered in the asset module, and returns on it (the user
   deposits and the cool-off data come after it).  The regenerated table says: that setter is the
   only writer of the kill-switch prefix, reads nothing of the esm store, and asks the asset module
   for the app only (asset prefix 21: never deleted, comes back from the round trip through setters
   that cannot fail, and asset is initialised before esm).  So every exported kill switch is accepted
   again: nothing of esm is at risk.  A second writer of the prefix or esm initialised before asset
   would put it at risk again (last two conjuncts: the decision is sensitive to both). *)
Example c20_esm_guard_harmless :
  existsb (fun r => String.eqb (i_mod r) "esm" && (i_guard r =? 1)) imports = true /\
  forallb (guard_harmless the_table) (filter (fun r => (i_guard r =? 1) || (i_guard r =? 2)) imports) = true /\
  at_risk the_table "esm" 4 = false /\ at_risk the_table "esm" 5 = false /\ at_risk the_table "esm" 7 = false /\
  kf_C20_any "esm" 4 = false /\
  at_risk (mkT prefixes exports imports unrecognised
               [mkGD "esm" "SetKillSwitchData" false true [("asset", "GetApp", [21])]] init_order) "esm" 5 = true /\
  at_risk (mkT prefixes exports imports unrecognised guard_deps ["esm"; "asset"]) "esm" 5 = true.
Proof. vm_compute. repeat split. Qed.

(* ---------------- regressions of the repaired findings ---------------- *)
(* C20-F1 (fixed): the net-fee prefix is exported WITH its values and imported from the same field;
   the setter that imports it rejects on a condition over the item alone, so nothing is at risk;
   the witness state of the former c20_netfee_refuted (one net fee) now survives *)
Example c20_netfee_regression :
  classify the_table "collector" 8 = CovDirect /\ at_risk the_table "collector" 8 = false /\
  kf_C20_any "collector" 8 = false /\
  forall dv, get (roundtrip dv the_table "collector" [(8, [(1, 1)])]) 8 = [(1, 1)].
Proof. repeat split; vm_compute; reflexivity. Qed.

(* C20-F2 (fixed): both exported auctionsV2 counters are fed back from their own fields: they come
   back with their value, so the next auction / bid id is the one the original chain assigns *)
Example c20_auctionsV2_counters_regression :
  counter_restore the_table "auctionsV2" 1 = RExact /\ counter_restore the_table "auctionsV2" 5 = RExact /\
  counter_ok the_table "auctionsV2" 1 = true /\ counter_ok the_table "auctionsV2" 5 = true /\
  kf_C20_any "auctionsV2" 1 = false /\ kf_C20_any "auctionsV2" 5 = false /\
  restored_value (counter_restore the_table "auctionsV2" 1) 5 [(1, 0); (2, 0); (5, 0)] = Some 5.
Proof. vm_compute. repeat split. Qed.

(* C20-F7 (fixed): the lend dutch auctions are filled from the field that exports them; a running
   vault dutch auction (prefix 17) no longer shows up under the lend prefix 32 *)
Example c20_lend_auctions_regression :
  classify the_table "auction" 32 = CovDirect /\ kf_C20_any "auction" 32 = false /\
  forall dv, let s := [(17, [(1, 7); (2, 8)]); (32, [])] in
    get (roundtrip dv the_table "auction" s) 32 = [] /\ get (roundtrip dv the_table "auction" s) 17 = [(1, 7); (2, 8)].
Proof. repeat split; vm_compute; reflexivity. Qed.

(* C20-F12 (fixed): no prefix of the collector is at risk any more; lookup table (1), asset
   collector mapping (3), auction mapping (5) and denoms mapping (7) survive, each from its own field *)
Example c20_collector_import_regression :
  forallb (fun b => negb (at_risk the_table "collector" b) && negb (kf_C20_any "collector" b) &&
                    match classify the_table "collector" b with CovDirect => true | _ => false end)
          [1; 3; 5; 7; 8] = true /\
  forall dv,
    let s := [(1, [(11, 5)]); (3, [(12, 6)]); (5, [(13, 7)]); (7, [(14, 8)]); (8, [(15, 404000)])] in
    forallb (fun b => entries_eqb (get (roundtrip dv the_table "collector" s) b) (get s b)) [1; 3; 5; 7; 8] = true.
Proof. split; [vm_compute; reflexivity|intros dv; vm_compute; reflexivity]. Qed.

(* C20-F18 (fixed): rewards.InitGenesis recomputes the id counters of the external reward programmes
   for lockers (prefix 21) and for vaults (22) as the maximum id of the imported programmes (19, 20).
   No keeper function deletes a programme (they are only deactivated), so that maximum is the last id
   handed out: both counters are outside every class and meet c20_counters_partial.  The witness of
   the former c20_ext_reward_ids_refuted (programme 1 alive, counter 1): the counter comes back as 1
   and the next programme gets id 2, which collides with nothing. *)
Theorem c20_ext_reward_ids_restored : forall b items, b = 21 \/ b = 22 ->
  let orig := zmax_list (ids items) in   (* no programme is ever deleted: the counter is the maximum id *)
  restored_value (counter_restore the_table "rewards" b) orig items = Some orig /\
  ~ In (next_id orig) (ids items).
Proof.
  intros b items Hb. cbv zeta. split; [|apply max_restore_fresh].
  destruct Hb as [-> | ->].
  - replace (counter_restore the_table "rewards" 21) with (RMax [19]) by (vm_compute; reflexivity). reflexivity.
  - replace (counter_restore the_table "rewards" 22) with (RMax [20]) by (vm_compute; reflexivity). reflexivity.
Qed.
Print Assumptions c20_ext_reward_ids_restored.

Example c20_ext_reward_ids_regression :
  counter_restore the_table "rewards" 21 = RMax [19] /\ counter_restore the_table "rewards" 22 = RMax [20] /\
  deletable the_table "rewards" [19] = false /\ deletable the_table "rewards" [20] = false /\
  counter_ok the_table "rewards" 21 = true /\ counter_ok the_table "rewards" 22 = true /\
  cover_ok (classify the_table "rewards" 19) = true /\ cover_ok (classify the_table "rewards" 20) = true /\
  kf_C20_any "rewards" 21 = false /\ kf_C20_any "rewards" 22 = false /\
  existsb (fun p => String.eqb (p_mod p) "rewards" && (p_byte p =? 21) && live p && p_counter p) prefixes = true /\
  existsb (fun p => String.eqb (p_mod p) "rewards" && (p_byte p =? 22) && live p && p_counter p) prefixes = true /\
  restored_value (counter_restore the_table "rewards" 21) 1 [(1, 7)] = Some 1 /\
  restored_value (counter_restore the_table "rewards" 22) 2 [(1, 7); (2, 8)] = Some 2 /\
  ~ In (next_id 1) (ids [(1, 7)]).
Proof. repeat split; try (vm_compute; reflexivity). cbn. intros [H|[]]; discriminate. Qed.

(* ---------------- non-vacuity ---------------- *)
(* a locker store with two lockers, a lookup table and a user mapping round-trips on every covered
   prefix (the hypotheses of c20_roundtrip_partial are met: prefix 21 = lockers is live, not a
   counter, outside the known classes; the locker module has no derived index) *)
Example c20_nonvacuous_locker :
  let s := [(21, [(1, 77); (2, 78)]); (18, [(5, 9)]); (20, [(6, 10)]); (23, [(0, 2)])] in
  let dv := fun _ _ (es : entries) => es in
  get (roundtrip dv the_table "locker" s) 21 = [(1, 77); (2, 78)] /\
  get (roundtrip dv the_table "locker" s) 18 = [(5, 9)] /\
  get (roundtrip dv the_table "locker" s) 23 = [] /\
  existsb (fun p => String.eqb (p_mod p) "locker" && (p_byte p =? 21) && live p && negb (p_counter p)) prefixes = true /\
  kf_C20_any "locker" 21 = false.
Proof. vm_compute. repeat split. Qed.

(* a consistent asset store: the by-denom index (33) is the function [dv] of the assets (17) *)
Example c20_nonvacuous_asset :
  let dv := fun (_ _ : Z) (es : entries) => map (fun e => (snd e, fst e)) es in
  let s := [(17, [(1, 500); (2, 600)]); (33, [(500, 1); (600, 2)]); (1, [(0, 2)])] in
  classify the_table "asset" 33 = CovDerived 17 /\
  get s 33 = dv 33 17 (get s 17) /\
  get (roundtrip dv the_table "asset" s) 33 = get s 33 /\
  get (roundtrip dv the_table "asset" s) 17 = get s 17 /\
  restored_value (counter_restore the_table "asset" 1) 2 (get s 17) = Some 2.
Proof. vm_compute. repeat split. Qed.
