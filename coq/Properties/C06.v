(* C06 — Pool shares are fair.
   Property theorems only; each is closed by [exact] of a lemma proved in Proofs/PoolProofs.v.
   [deposit] / [withdraw] are the models of amm.Deposit / amm.Withdraw (Model/Pool.v), tied to
   /repo by the correspondence run.  All amounts are arbitrary non-negative integers: no size
   bound is needed, because an sdk overflow takes the SafeMath fallback (all outputs zero), which
   the model contains; the module's 10^40 bound is therefore not a hypothesis.  Dec values (the
   fee rate) are their 10^18-scaled integers; P18 = 10^18. *)
From Comdex Require Import Lib.Base Lib.DecArith Lib.DecFacts Model.Pool Proofs.PoolProofs Proofs.PoolCreateProofs Proofs.SqrtProofs.
From Comdex Require Model.Liquidity Model.LiquidityWitness.

(* A deposit never takes more of either coin than was offered. *)
Theorem c06_deposit_bounded : forall rx ry ps x y ax ay pc,
  0 <= rx -> 0 <= ry -> 0 < ps -> 0 <= x -> 0 <= y ->
  deposit rx ry ps x y = Ok (ax, ay, pc) ->
  0 <= ax <= x /\ 0 <= ay <= y /\ 0 <= pc.
Proof. exact deposit_bounded. Qed.
Print Assumptions c06_deposit_bounded.

Example c06_deposit_bounded_ex :
  deposit 1000000 3000000 1000000000000 1234 5000 = Ok (1234, 3702, 1234000000).
Proof. vm_compute. reflexivity. Qed.

(* Creating a ranged pool never accepts more of either coin than was offered (amm.CreateRangedPool:
   single-sided at initial = min / max, two-sided inside the range), for ALL offered amounts and all
   price triples on which the call returns a pool.  The two-sided branch recomputes the accepted x
   from y only when the y that goes with all of x is STRICTLY more than offered; the proof needs that
   strictness and the exact rounding of each Quo / Mul (Proofs/PoolCreateProofs.v).
   (Kept for reference; superseded by the unconditional c06_create_ranged_bounded below, which discharges the
   hypothesis.)  PARTIAL in one respect: the hypothesis [ranged_roots_ok] - the three Newton square roots the call
   computes satisfy 0 < sqrt(min) <= sqrt(initial) <= sqrt(max) - is not derived from
   ValidateRangedPoolParams (MISSING: a monotonicity / positivity lemma for the 300-step Newton
   iteration utils.DecApproxSqrt).  It is an executable predicate; the runner evaluates it on every
   ranged creation it replays and reports a case on which it is false. *)
Theorem c06_create_ranged_bounded_partial : forall x y minP maxP initP ax ay,
  0 <= x -> 0 <= y -> ranged_roots_ok minP maxP initP = true ->
  create_ranged_amounts x y minP maxP initP = Ok (ax, ay) ->
  0 <= ax <= x /\ 0 <= ay <= y /\ holds_C06_create x y ax ay = true.
Proof.
  intros x y minP maxP initP ax ay Hx Hy Hr H.
  pose proof (create_ranged_amounts_bounded x y minP maxP initP ax ay Hx Hy Hr H) as (A & B).
  split; [exact A|]. split; [exact B|]. unfold holds_C06_create. lia.
Qed.
Print Assumptions c06_create_ranged_bounded_partial.

(* an exactly balanced offer (y = the counterpart the pool computes for x = 10^6 at initial price
   0.5001 in [0.5, 2]): all of both coins is accepted; one unit less of y and x is recomputed *)
Example c06_create_ranged_balanced_ex :
  let minP := 5 * 10 ^ 17 in let maxP := 2 * 10 ^ 18 in let initP := 5001 * 10 ^ 14 in
  ranged_roots_ok minP maxP initP = true /\
  create_ranged_amounts 1000000 9998500175 minP maxP initP = Ok (1000000, 9998500175) /\
  create_ranged_amounts 1000000 9998500174 minP maxP initP = Ok (1000000, 9998500174) /\
  create_ranged_amounts 1000000 9998500176 minP maxP initP = Ok (1000000, 9998500175).
Proof. vm_compute. repeat split; reflexivity. Qed.

(* The hypothesis [ranged_roots_ok] is a consequence of ValidateRangedPoolParams.  About the model of
   utils.DecApproxSqrt = LegacyDec.ApproxRoot(2) (Newton from the start value 1, every Quo rounded half-even at
   18 decimals, the halving an arithmetic shift, stop when |delta| <= 10^-18 or after 300 iterations),
   Proofs/SqrtProofs.v proves, for every argument 0 < d <= 10^20 (= MaxPoolPrice; MinPoolPrice = 10^-15 > 0):
   the loop leaves through the delta test (never through the 300 cap), the result r is positive and is
   floor(sqrt(d * 10^18)) or that plus one - more precisely sqrt X - 3/4 - 10^-18 <= r <= sqrt X + 1/4 + 0.8/sqrt X
   with X = d * 10^18 - and, because two different 18-decimal arguments in that range have exact roots more than
   10^-10 units apart, the result is EXACTLY weakly monotone in the argument. *)
Theorem c06_sqrt_positive_monotone : forall x y,
  0 < x -> x <= y -> y <= MaxPoolPrice ->
  0 < dsqrt x /\ dsqrt x <= dsqrt y /\
  (dsqrt x - 1) * (dsqrt x - 1) <= x * P18 < (dsqrt x + 1) * (dsqrt x + 1).
Proof.
  intros x y Hx Hxy Hy. rewrite MaxPoolPrice_eq in Hy.
  split; [apply dsqrt_pos; lia|]. split; [apply dsqrt_mono; assumption|].
  apply (dsqrt_error x); lia.
Qed.
Print Assumptions c06_sqrt_positive_monotone.

(* boundary values: the two ends of the validated range, the fixed points 0 and 1, adjacent 18-decimal
   arguments whose roots coincide, and an argument that is exactly on the r / r+1 threshold *)
Example c06_sqrt_ex :
  dsqrt MinPoolPrice = 31622776601 /\ dsqrt (MinPoolPrice + 1) = 31638584039 /\
  dsqrt MaxPoolPrice = 10 ^ 28 /\ dsqrt (MaxPoolPrice - 1) = 10 ^ 28 /\
  dsqrt P18 = P18 /\ dsqrt (P18 + 1) = P18 /\ dsqrt (P18 - 1) = P18 - 1 /\
  dsqrt (2 * P18) = 1414213562373095049 /\
  dsqrt (36 * P18 + 9) = 6 * P18 + 1 /\ dsqrt (36 * P18 + 8) = 6 * P18.
Proof. vm_compute. repeat split; reflexivity. Qed.

Theorem c06_validated_roots_ok : forall minP maxP initP,
  validate_ranged minP maxP initP = Ok tt -> ranged_roots_ok minP maxP initP = true.
Proof. exact validate_ranged_roots_ok. Qed.
Print Assumptions c06_validated_roots_ok.

(* Hence, UNCONDITIONALLY: creating a ranged pool never accepts more of either coin than was offered, for all
   offered amounts and all price triples (min, max, initial) on which CreateRangedPool returns a pool (i.e. all
   triples that pass ValidateRangedPoolParams and on which the call does not panic). *)
Theorem c06_create_ranged_bounded : forall x y minP maxP initP ax ay,
  0 <= x -> 0 <= y ->
  create_ranged_amounts x y minP maxP initP = Ok (ax, ay) ->
  0 <= ax <= x /\ 0 <= ay <= y /\ holds_C06_create x y ax ay = true.
Proof.
  intros x y minP maxP initP ax ay Hx Hy H.
  pose proof (create_ranged_amounts_bounded_all x y minP maxP initP ax ay Hx Hy H) as (A & B).
  split; [exact A|]. split; [exact B|]. unfold holds_C06_create. lia.
Qed.
Print Assumptions c06_create_ranged_bounded.

(* non-vacuity at the edge the hypothesis was about: initial one unit (10^-18) above min and one unit below max,
   at the top of the price range where adjacent arguments have the same root *)
Example c06_create_ranged_bounded_ex :
  let minP := 9 * 10 ^ 37 in let maxP := 10 ^ 38 in
  validate_ranged minP maxP (minP + 1) = Ok tt /\ validate_ranged minP maxP (maxP - 1) = Ok tt /\
  dsqrt minP = dsqrt (minP + 1) /\ dsqrt maxP = dsqrt (maxP - 1) /\
  create_ranged_amounts 1000000 1000000 minP maxP (minP + 1) = Panic /\
  create_ranged_amounts 1000000 1000000 minP maxP (maxP - 1) = Ok (1000000, 0) /\
  create_ranged_amounts 1000000 1000000 (10 ^ 3) (10 ^ 38) (10 ^ 18) = Ok (1000000, 1000000).
Proof. vm_compute. repeat split; reflexivity. Qed.

(* Shares are minted at a rate no better than the pool's reserves per share:
   pc/ps <= x/rx and y/ry exactly (against what was offered), and against what was actually taken
   pc * rx <= ax * ps + rx * ps / 10^18, i.e. the minted shares are worth at most what was paid
   plus 10^-18 of the reserve (the half-even rounding of mintProportion = pc/ps). *)
Theorem c06_deposit_rate : forall rx ry ps x y ax ay pc,
  0 <= rx -> 0 <= ry -> 0 < ps -> 0 <= x -> 0 <= y ->
  deposit rx ry ps x y = Ok (ax, ay, pc) ->
  pc * rx <= x * ps /\ pc * ry <= y * ps /\
  (pc * rx - ax * ps) * P18 <= rx * ps /\
  (pc * ry - ay * ps) * P18 <= ry * ps.
Proof. exact deposit_rate. Qed.
Print Assumptions c06_deposit_rate.

(* the slack is really used by the code: one third of the supply is minted for 10^12 less than a
   third of the reserve (pc/ps = 1/3 is rounded down to 0.333333333333333333) *)
Example c06_deposit_rate_slack_attained :
  deposit (3 * 10 ^ 30) (3 * 10 ^ 30) 3 (10 ^ 30 + 10 ^ 13) (10 ^ 30 + 10 ^ 13) = Ok (10 ^ 30 - 10 ^ 12, 10 ^ 30 - 10 ^ 12, 1).
Proof. vm_compute. reflexivity. Qed.
(* A withdrawal never returns more of either coin than the withdrawn shares' pro-rata part of the
   reserves reduced by the withdrawal fee: x <= rx * (pc/ps) * (1 - fee), exactly. *)
Theorem c06_withdraw_bounded : forall rx ry ps pc fee x y,
  0 <= rx -> 0 <= ry -> 0 < ps -> 0 <= pc -> pc <> ps -> 0 <= fee <= P18 ->
  withdraw rx ry ps pc fee = Ok (x, y) ->
  0 <= x /\ 0 <= y /\
  x * ps * P18 <= rx * pc * (P18 - fee) /\
  y * ps * P18 <= ry * pc * (P18 - fee).
Proof. exact withdraw_bounded. Qed.
Print Assumptions c06_withdraw_bounded.

Example c06_withdraw_bounded_ex :
  withdraw 1000000 3000000 1000000000000 250000000000 3000000000000000 = Ok (249250, 747750).
Proof. vm_compute. reflexivity. Qed.

(* Redeeming the last outstanding shares returns the entire remaining reserves (any fee). *)
Theorem c06_last_share : forall rx ry ps fee, withdraw rx ry ps ps fee = Ok (rx, ry).
Proof. exact withdraw_last. Qed.
Print Assumptions c06_last_share.

(* Neither call panics on a live pool (positive supply, not both reserves zero). *)
Theorem c06_no_panic : forall rx ry ps,
  0 <= rx -> 0 <= ry -> 0 < ps -> (rx <> 0 \/ ry <> 0) ->
  (forall x y, deposit rx ry ps x y <> Panic) /\ (forall pc fee, withdraw rx ry ps pc fee <> Panic).
Proof.
  intros rx ry ps Hrx Hry Hps Hnz. split.
  - intros x y. apply deposit_no_panic; assumption.
  - intros pc fee. apply withdraw_no_panic. lia.
Qed.
Print Assumptions c06_no_panic.

(* Per step: whatever the operation (a deposit of any offered amounts, a withdrawal of any
   0 < pc <= ps at any fee in [0,1], or a request that fails and changes nothing), on a basic or a
   ranged pool, reserves per share afterwards are at least (1 - 10^-18) times those before for a
   deposit and not lower at all for a withdrawal; the executable predicate the runner evaluates
   on the implementation's outputs holds. *)
Theorem c06_share_value_step : forall ranged s o, pinv s ->
  pinv (pstep ranged s o) /\
  value_ge (slack_of o) P18 s (pstep ranged s o) /\
  holds_C06_value s (pstep ranged s o) = true.
Proof.
  intros ranged s o H. destruct (pstep_value ranged s o H) as (A & B).
  split; [exact A|]. split; [exact B|]. apply pstep_holds_value; exact H.
Qed.
Print Assumptions c06_share_value_step.

(* Every finite history of deposits and withdrawals on one pool: reserves per outstanding share
   never decrease below (1 - 10^-18)^n of their initial value, n = number of deposits in the
   history (withdrawals cost nothing); hence at least (1 - n * 10^-18).  In particular a single
   operation loses less than the 10^-17 of the property text.  When the supply reaches zero the
   reserves are empty ([pinv]).  The slack per deposit is attained (c06_deposit_rate_slack_attained),
   so no bound independent of n holds for the code as written. *)
Theorem c06_share_value_monotone : forall ranged ops s, pinv s ->
  let s' := prun ranged s ops in
  let n := Z.of_nat (ndeps ops) in
  pinv s' /\
  (0 < p_ps s' ->
     (p_rx s * p_ps s' * (P18 - 1) ^ n <= p_rx s' * p_ps s * P18 ^ n /\
      p_ry s * p_ps s' * (P18 - 1) ^ n <= p_ry s' * p_ps s * P18 ^ n) /\
     (p_rx s * p_ps s' * (P18 - n) <= p_rx s' * p_ps s * P18 /\
      p_ry s * p_ps s' * (P18 - n) <= p_ry s' * p_ps s * P18)).
Proof.
  intros ranged ops s H s' n.
  destruct (prun_value_closed ranged ops s H) as (A & B). split; [exact A|].
  intros Hpos. split; [exact (B Hpos)|]. exact (prun_value_linear ranged ops s H Hpos).
Qed.
Print Assumptions c06_share_value_monotone.

Example c06_share_value_monotone_ex :
  let s := {| p_rx := 1000000; p_ry := 3000000; p_ps := 1000000000000 |} in
  prun false s [Dep 1234 5000; Wd 250000000000 3000000000000000; Dep 7 7; Wd 5 0]
  = {| p_rx := 751988; p_ry := 2255960; p_ps := 751236331005 |}
  /\ (0 <=? p_rx s) && (0 <? p_ps s) = true.
Proof. vm_compute. split; reflexivity. Qed.

(* Ranged pools use the same Deposit / Withdraw on their reserves (ranged = true above).  Their
   order-book clamps never offer more than the reserves hold: BuyAmountOver needs at most rx quote
   coin for the amount it offers (outside the explicit MaxCoinAmount overflow fallback), and
   SellAmountUnder offers at most ry base coin. *)
Theorem c06_ranged_clamps : forall p price amt,
  0 <= r_rx p -> 0 <= r_ry p -> 0 < price ->
  (ranged_buy_amount_over p price = Some amt ->
     0 <= amt /\ (amt = MaxCoinAmount \/ price * amt <= r_rx p * P18)) /\
  (ranged_sell_amount_under p price = Some amt -> 0 <= amt <= r_ry p).
Proof.
  intros p price amt Hrx Hry Hp. split.
  - apply ranged_buy_clamp; assumption.
  - apply ranged_sell_clamp; assumption.
Qed.
Print Assumptions c06_ranged_clamps.

(* ---- the price clause: "a ranged pool's price always stays within its configured range" ---- *)

(* REFUTED for the code as written (model = implementation on these inputs: the harness replays
   them on the real amm package in every run).
   C06-F1: CreateRangedPool with the admissible triple (min, max, initial) = (4*10^19, 10^20,
   4.2*10^19) and offered (10^24, 10^22) accepts (10^24, 347686); ry/rx rounds to 0 at 18
   decimals, DeriveTranslation takes its "x asset single pool" shortcut (pool.go:550) and the
   freshly created pool's price is 7.26*10^18 < 4*10^19 = min, 82% below the range. *)
Theorem c06_ranged_price_shortcut_refuted :
  exists x y minP maxP initP,
    match create_ranged_pool x y minP maxP initP with
    | Ok p =>
        0 < r_rx p /\ 0 < r_ry p /\
        match ranged_price p with
        | Some price =>
            price * 5 < minP /\
            holds_C06_price_range minP maxP price = false /\ kf_C06_1 (r_rx p) (r_ry p) = true
        | None => False
        end
    | _ => False
    end.
Proof.
  exists (10 ^ 24), (10 ^ 22), (4 * 10 ^ 37), (10 ^ 38), (42 * 10 ^ 36).
  vm_compute. repeat split; reflexivity.
Qed.
Print Assumptions c06_ranged_price_shortcut_refuted.

(* C06-F2: a single-asset pool (here created at initial price = max with 346 quote coins, range
   [7*10^-14, 10^20]): the ideal price equals the bound, transY = 3*10^-18 has one significant
   digit and the price is 1.153 * 10^20, 15% above max. *)
Theorem c06_ranged_price_single_refuted :
  exists x y minP maxP initP,
    match create_ranged_pool x y minP maxP initP with
    | Ok p =>
        match ranged_price p with
        | Some price =>
            maxP * 115 < price * 100 /\
            holds_C06_price_range minP maxP price = false /\ kf_C06_2 (r_rx p) (r_ry p) = true
        | None => False
        end
    | _ => False
    end.
Proof.
  exists 346, 0, 70000, (10 ^ 38), (10 ^ 38).
  vm_compute. repeat split; reflexivity.
Qed.
Print Assumptions c06_ranged_price_single_refuted.

(* PARTIAL.  What is proved is the idealised statement: with exact (rational) arithmetic, whenever
   the translation (a, b) = (k*m, k/l) puts the reserves on the curve (x + a)(y + b) = k^2
   (m, l, k standing for sqrt(min), sqrt(max), sqrt(K): any positive numbers), the price
   (x + a)/(y + b) lies in [m^2, l^2].  MISSING: the same for the implemented pipeline (Newton
   ApproxSqrt capped at 300 iterations, every Quo/Mul rounded half-even at 18 decimals, and the
   p1/p2 selection of DeriveTranslation).  No error bound for it is proved; outside the classes
   kf_C06_1 (shortcut) and kf_C06_2 (single-asset) the harness measures pool.Price() against
   [min, max] on every ranged state it reaches: every excursion observed there is below 10^-6 of
   the bound (class kf_C06_3, largest measured about 7*10^-9) and anything larger is reported as
   a violation. *)
From Coq Require Import QArith.
Theorem c06_ranged_price_ideal_partial : forall x y k m l b : Q,
  (0 <= x -> 0 <= y -> 0 < k -> 0 < m -> m < l ->
   b * l == k ->
   (x + k * m) * (y + b) == k * k ->
   m * m * (y + b) <= x + k * m /\ x + k * m <= l * l * (y + b))%Q.
Proof. exact ranged_curve_price_in_range. Qed.
Print Assumptions c06_ranged_price_ideal_partial.

Example c06_ranged_price_ideal_ex :
  (* x = 1, y = 1/3, sqrt M = 1, sqrt L = 2, sqrt K = 2: a = 2, b = 1, (1+2)(1/3+1) = 4; price 9/4 *)
  ((1 + 2 * 1) * ((1 # 3) + 1) == 2 * 2)%Q /\ (1 * 1 * ((1 # 3) + 1) <= 1 + 2 * 1)%Q /\ (1 * 2 == 2)%Q.
Proof. split; [vm_compute; reflexivity|]. split; [vm_compute; discriminate|vm_compute; reflexivity]. Qed.

Local Close Scope Q_scope.
Local Open Scope Z_scope.

(* ---------- through the keeper: shares of another pool are never accepted ----------
   A pool message names (app id, pool id) and carries a pool coin; the keeper (ValidateMsgWithdraw / Farm / Unfarm /
   UnfarmAndWithdraw, modelled by [Liquidity.pool_coin_check]) accepts it only when the coin is the pool's own
   "pool<app>-<pool>" ([Liquidity.pool_denom]).  The pool coin of ANOTHER app's pool with the same pool id is a
   different denom, and a message carrying any other denom leaves the whole state - reserves and share supply of
   every pool included - unchanged.  Together with c06_share_value_monotone (reserves per share over the deposits
   and withdrawals executed on a pool) this is what the keeper-level workload judges on the real keeper after every
   step: [holds_C06_untouched] for every pool on which the step executed no request, [holds_C06_value] otherwise. *)
Theorem c06_foreign_pool_coin_rejected : forall s app owner pid dn amt now x y,
  dn <> Liquidity.pool_denom app pid ->
  Liquidity.apply_op s (Liquidity.OWithdraw app owner pid dn amt) = s /\
  Liquidity.apply_op s (Liquidity.OFarm app owner pid dn amt now) = s /\
  Liquidity.apply_op s (Liquidity.OUnfarm app owner pid dn amt) = s /\
  Liquidity.apply_op s (Liquidity.OUnfarmAndWithdraw app owner pid dn amt x y) = s.
Proof.
  intros s app owner pid dn amt now x y Hd.
  assert (C : forall en, match Liquidity.pool_coin_check s app pid dn en with Ok _ => False | _ => True end).
  { intros en. unfold Liquidity.pool_coin_check. destruct (negb (Liquidity.has_app s app)); [exact I|].
    destruct (Liquidity.find_pool app pid (Liquidity.pools s)); [|exact I].
    destruct (en && Liquidity.pl_disabled p); [exact I|]. destruct (Z.eqb_spec dn (Liquidity.pool_denom app pid)); [contradiction|exact I]. }
  unfold Liquidity.apply_op. cbn [Liquidity.step].
  unfold Liquidity.withdraw_msg, Liquidity.farm_msg, Liquidity.unfarm_msg, Liquidity.unfarm_and_withdraw_msg, obind.
  repeat split.
  - destruct (_ || _); [reflexivity|]. pose proof (C true) as H. destruct (Liquidity.pool_coin_check s app pid dn true); [contradiction|reflexivity|reflexivity].
  - destruct (_ || _); [reflexivity|]. pose proof (C false) as H. destruct (Liquidity.pool_coin_check s app pid dn false); [contradiction|reflexivity|reflexivity].
  - destruct (_ || _); [reflexivity|]. pose proof (C false) as H. destruct (Liquidity.pool_coin_check s app pid dn false); [contradiction|reflexivity|reflexivity].
  - destruct (_ || _); [reflexivity|]. pose proof (C false) as H. destruct (Liquidity.pool_coin_check s app pid dn false); [contradiction|reflexivity|reflexivity].
Qed.
Print Assumptions c06_foreign_pool_coin_rejected.

(* the pool coins of two different pools are different denoms (pool ids below 100 in the encoding of the model) *)
Theorem c06_pool_coin_injective : forall a p a' p', 0 <= p < 100 -> 0 <= p' < 100 ->
  Liquidity.pool_denom a p = Liquidity.pool_denom a' p' -> a = a' /\ p = p'.
Proof. unfold Liquidity.pool_denom. intros. lia. Qed.
Print Assumptions c06_pool_coin_injective.

(* deposit coins outside the pool's pair are rejected as well: nothing changes *)
Theorem c06_foreign_deposit_rejected : forall s app owner pid cs pl pr now ax ay pc,
  Liquidity.find_pool app pid (Liquidity.pools s) = Some pl -> Liquidity.pool_pair s pl = Some pr ->
  existsb (fun c => negb (fst c =? Liquidity.p_base pr) && negb (fst c =? Liquidity.p_quote pr)) cs = true ->
  Liquidity.apply_op s (Liquidity.ODeposit app owner pid cs) = s /\
  Liquidity.apply_op s (Liquidity.ODepositAndFarm app owner pid cs now ax ay pc) = s.
Proof.
  intros s app owner pid cs pl pr now ax ay pc Hp Hr He.
  assert (C : match Liquidity.deposit_coins s app pid cs with Ok _ => False | _ => True end).
  { unfold Liquidity.deposit_coins. destruct (_ || _); [exact I|]. destruct (negb (Liquidity.has_app s app)); [exact I|].
    rewrite Hp. destruct (Liquidity.pl_disabled pl); [exact I|]. rewrite Hr, He. exact I. }
  unfold Liquidity.apply_op. cbn [Liquidity.step]. unfold Liquidity.deposit_msg, Liquidity.deposit_and_farm_msg, obind.
  destruct (Liquidity.deposit_coins s app pid cs); [contradiction|split; reflexivity|split; reflexivity].
Qed.
Print Assumptions c06_foreign_deposit_rejected.

(* non-vacuity: the creator of pool 1 of app 1 (1000000 shares, denom 1101) and a message that names app 1 / pool 1
   with the shares of pool 1 of app 2 (denom 1201): rejected; with its own shares: accepted *)
Example c06_foreign_pool_coin_ex :
  Liquidity.pool_denom 2 1 <> Liquidity.pool_denom 1 1 /\
  is_ok (Liquidity.step LiquidityWitness.w_pool_pending (Liquidity.OWithdraw 1 90 1 1201 500000)) = false /\
  is_ok (Liquidity.step LiquidityWitness.w_pool_pending (Liquidity.OWithdraw 1 90 1 1101 500000)) = true.
Proof. split; [vm_compute; discriminate|]. split; vm_compute; reflexivity. Qed.
