(* Tie (C) for C05.  gen_amm_MatchableAmount is REGENERATED from /repo's x/liquidity/amm/util.go on
   every run; AMM.matchable_amount is the hand-written model of Model/AMM.v.  The Go function takes
   an amm.Order (an interface): the four getters it calls are parameters of the regenerated
   definition (direction as the Go constant: Buy = 1, Sell = 2).

   Model/AMM.v deliberately does not model the 256/315-bit overflow panics nor division by a zero
   price (assumptions of bin/props.d/C05.py), so the statement is the refinement that holds for
   ALL inputs: whenever the code returns a value, it is the value of the model. *)
From Coq Require Import String.
From Comdex Require Import Lib.Base Lib.DecArith Lib.GoSem Model.AMM Gen.PureFuns Proofs.PureFunsLemmas.

Definition dir_code (d : dir) : Z := match d with Buy => 1 | Sell => 2 end.

Theorem tie_amm_MatchableAmount : forall o p r,
  gen_amm_MatchableAmount p (dir_code (o_dir o)) (o_offer o) (o_paid o) (o_open o) = Ok r ->
  r = AMM.matchable_amount o p.
Proof.
  intros o p r. unfold gen_amm_MatchableAmount, matchable_amount, quote_floor, dmul_int.
  destruct (o_dir o); cbn [dir_code Z.eqb Pos.eqb]; unfold_gosem;
    unfold isub_c, chk_int, chk_dec, dtrunc_int_c, dmul_int_c, chk_int, chk_dec; cbv beta iota zeta delta [obind];
    repeat match goal with
    | |- context [if ?c then _ else _] => destruct c eqn:?
    end; intro H; inversion H; try reflexivity; rewrite ?min_int_Zmin in *; congruence.
Qed.
Print Assumptions tie_amm_MatchableAmount.

Theorem tie_amm_MatchableAmount_recognised : gen_amm_MatchableAmount_unrecognised = [].
Proof. reflexivity. Qed.
Print Assumptions tie_amm_MatchableAmount_recognised.
