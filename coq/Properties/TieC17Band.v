(* Tie (C) for the band-oracle side of C17.  gen_band_OraclePriceValidationByRequestID is REGENERATED
   from /repo's x/bandoracle/keeper/oracle.go on every run (tools/goextract -> Gen/PureFuns.v; spec in
   tools/goextract/emit_purefuns_specs_band.go).  It is the request-id comparison of the 20-block
   check: bandoracle.BeginBlocker calls it with req = GetTempFetchPriceID, the function reads
   GetLastFetchPriceID (an input), and its result becomes the oracle validation result.  The theorem
   proves it equal to what Model/BandOracle.v's [band_begin_block] stores as b_valid in the second
   branch (a registered feed, a check height, check flag set).
   The discard arithmetic of BeginBlocker itself (the comparison of the outage length with
   AcceptedHeightDiff) is inline code between keeper writes to four different records; the
   translator handles one store cell per function, so that part is tied by the differential run
   (workload band-pipeline) only. *)
From Comdex Require Import Lib.Base Model.Market Model.BandOracle Gen.PureFuns.

Theorem tie_band_OraclePriceValidationByRequestID : forall h b,
  b_block b <> 0 -> h mod 20 = 0 -> b_check b = true ->
  gen_band_OraclePriceValidationByRequestID (b_temp b) (b_last b) = Ok (b_valid (band_begin_block h b)).
Proof.
  intros h b Hb Hm Hc. unfold gen_band_OraclePriceValidationByRequestID, band_begin_block.
  destruct (Z.eqb_spec (b_block b) 0); [contradiction|]. rewrite Hm, Hc. reflexivity.
Qed.
Print Assumptions tie_band_OraclePriceValidationByRequestID.

(* pointwise: unequal ids validate *)
Theorem tie_band_validation_spec : forall req last,
  gen_band_OraclePriceValidationByRequestID req last = Ok (negb (last =? req)).
Proof. reflexivity. Qed.
Print Assumptions tie_band_validation_spec.

Example tie_band_validation_nonvacuous :
  gen_band_OraclePriceValidationByRequestID 2 3 = Ok true /\
  gen_band_OraclePriceValidationByRequestID 3 3 = Ok false /\
  gen_band_OraclePriceValidationByRequestID_unrecognised = [].
Proof. repeat split; reflexivity. Qed.
