(* C14 - emergency controls fail closed.  A finite matrix over the REGENERATED tables
   (Gen/GuardTable.v, Gen/SweepGuards.v) lifted by the generic guard-list lemmas to every store,
   every write effect and every outcome of the other checks. *)
From Coq Require Import String List ZArith Bool.
From Comdex Require Import Lib.Base Lib.Atomic Model.Guards Model.GuardsCheck Proofs.GuardsProofs Model.Market
  Gen.GuardTable Gen.MsgTypes Gen.SweepGuards.
Import ListNotations.
Open Scope string_scope.

(* While the breaker of the governing app is enabled, every handler in the scope the property
   names (vault: all ten position operations; locker: create, deposit; lend: every opening,
   enlarging, drawing handler) returns an error BEFORE any write: the store on the handler's
   branch is still the original one. *)
Theorem c14_breaker_matrix : forall n, In n breaker_scope ->
  exists h, find_handler n = Some h /\
    forall (store : Type) (wr : string -> store -> store) (c : octx) (s : store), c_breaker c = true ->
      exists code, exec wr helper_rows scan_fuel c (h_items h) s = RunErr s code.
Proof.
  assert (K : c14_breaker_check = true) by (vm_compute; reflexivity).
  intros n Hn. unfold c14_breaker_check in K. rewrite forallb_forall in K. specialize (K n Hn).
  unfold rejects_under_breaker in K. destruct (find_handler n) as [h|]; [|discriminate].
  exists h. split; [reflexivity|]. intros store wr c s Hb.
  exact (scan_strict_no_write store wr helper_rows is_breaker_guard c (breaker_fires c Hb) scan_fuel _ s K).
Qed.
Print Assumptions c14_breaker_matrix.

(* closed world: every handler of the vault, locker and lend msg servers is either in the breaker
   scope or in the reviewed out-of-scope list (accrual only / not guarded by design / closing) *)
Theorem c14_breaker_scope_closed : c14_scope_closed = true.
Proof. vm_compute. reflexivity. Qed.
Print Assumptions c14_breaker_scope_closed.

(* "no liquidation ... is started for it": while the breaker of the governing app is enabled the liquidate
   MESSAGES refuse as the sweeps do.  Generation 1 (MsgLiquidateVault, MsgLiquidateBorrow): the regenerated
   row of the handler has the breaker check before any write - the error is returned on the untouched
   store.  Generation 2 (MsgLiquidateInternalKeeper): the handler dispatches to the two per-position
   functions of the block sweep; each is a row of Gen/SweepGuards.v that starts nothing under the breaker
   and writes nothing before reading it (c14_sweeps_skip), and the handler's regenerated call chain names
   both.  PARTIAL for generation 2: that the handler does nothing else is read off the (opaque) row
   [IWriteSigner nested:LiquidateIndividualVault] and the reviewed dispatch list, and cross-checked by the
   control matrix (TestC14X). *)
Theorem c14_liquidation_msgs_refuse_partial : forall n, In n liquidation_msg_names ->
  match assoc n liquidate_msg_dispatch with
  | None => exists h, find_handler n = Some h /\
      forall (store : Type) (wr : string -> store -> store) (c : octx) (s : store), c_breaker c = true ->
        exists code, exec wr helper_rows scan_fuel c (h_items h) s = RunErr s code
  | Some fs => forall f, In f fs ->
      (exists r, In r sweep_table /\ s_name r = f /\ sweep_starts r true = false /\ s_write_before r = false) /\
      (exists h u, find_handler n = Some h /\ In u (h_price h) /\ pu_callee u = f)
  end.
Proof.
  assert (K : forallb (fun n => match assoc n liquidate_msg_dispatch with
                                | Some fs => dispatch_gated n fs
                                | None => rejects_under_breaker n end) liquidation_msg_names = true)
    by (vm_compute; reflexivity).
  intros n Hn. rewrite forallb_forall in K. specialize (K n Hn).
  destruct (assoc n liquidate_msg_dispatch) as [fs|].
  - intros f Hf. unfold dispatch_gated in K. apply andb_prop in K. destruct K as [K1 K2].
    rewrite forallb_forall in K1. specialize (K1 f Hf). apply existsb_exists in K1. destruct K1 as [r [Hr Kr]].
    apply andb_prop in Kr. destruct Kr as [En Ok]. apply String.eqb_eq in En. split.
    + exists r. split; [exact Hr|]. split; [exact En|].
      unfold sweep_row_ok, sweep_starts in *.
      destruct (s_gate r); try discriminate; destruct (s_write_before r); try discriminate; split; reflexivity.
    + destruct (find_handler n) as [h|]; [|discriminate].
      rewrite forallb_forall in K2. specialize (K2 f Hf). apply existsb_exists in K2. destruct K2 as [u [Hu Eu]].
      apply String.eqb_eq in Eu. exists h, u. split; [reflexivity|]. split; [exact Hu|exact Eu].
  - unfold rejects_under_breaker in K. destruct (find_handler n) as [h|]; [|discriminate].
    exists h. split; [reflexivity|]. intros store wr c s Hb.
    exact (scan_strict_no_write store wr helper_rows is_breaker_guard c (breaker_fires c Hb) scan_fuel _ s K).
Qed.
Print Assumptions c14_liquidation_msgs_refuse_partial.

(* closed world of the extended control matrix: every msgServer method of the liquidation, auction, esm,
   rewards, collector and tokenmint modules is either a liquidate message (above) or in the reviewed list
   of handlers the breaker clause does not name *)
Theorem c14_x_breaker_scope_closed : c14_x_scope_closed = true.
Proof. vm_compute. reflexivity. Qed.
Print Assumptions c14_x_breaker_scope_closed.

(* After emergency shutdown: every vault handler that can reach bank.MintCoins (a call-graph fact
   computed by the translator) returns an error before any write. *)
Theorem c14_esm_no_mint : forall h, In h esm_mint_scope ->
  forall (store : Type) (wr : string -> store -> store) (c : octx) (s : store), c_esm c = true ->
    exists code, exec wr helper_rows scan_fuel c (h_items h) s = RunErr s code.
Proof.
  assert (K : c14_esm_check = true) by (vm_compute; reflexivity).
  intros h Hh store wr c s He. unfold c14_esm_check in K. apply andb_prop in K. destruct K as [K _].
  rewrite forallb_forall in K. specialize (K h Hh). unfold esm_guarded in K.
  exact (scan_strict_no_write store wr helper_rows is_esm_guard c (esm_fires c He) scan_fuel _ s K).
Qed.
Print Assumptions c14_esm_no_mint.

(* Collateral withdrawal after shutdown only until the cool-off period ends:
   (a) the ESM branch of vault MsgWithdraw (hand model of msg_server.go:326-338) lets a withdrawal
       pass under shutdown only while now <= end of cool-off (and never under the breaker);
   (b) the regenerated row of the handler has that check before any write, so once the period is
       over the handler returns an error on the untouched store. *)
Theorem c14_cooloff :
  (forall breaker now end_time, withdraw_gate breaker true now end_time = None -> (now <= end_time)%Z /\ breaker = false) /\
  exists h, find_handler "vault.MsgWithdraw" = Some h /\
    forall (store : Type) (wr : string -> store -> store) (c : octx) (s : store),
      c_esm c = true -> (c_now c > c_end c)%Z ->
      exists code, exec wr helper_rows scan_fuel c (h_items h) s = RunErr s code.
Proof.
  split; [exact withdraw_gate_cooloff|].
  assert (K : c14_cooloff_check = true) by (vm_compute; reflexivity).
  unfold c14_cooloff_check in K. destruct (find_handler "vault.MsgWithdraw") as [h|]; [|discriminate].
  exists h. split; [reflexivity|]. intros store wr c s He Hn.
  exact (scan_strict_no_write store wr helper_rows is_cooloff_guard c (cooloff_fires c He Hn) scan_fuel _ s K).
Qed.
Print Assumptions c14_cooloff.

(* The liquidation sweeps (V1 vaults and borrows, V2 vault and borrow) and the surplus / debt
   starters (V1 activators, V2 LiquidateForSurplusAndDebt) start nothing for an app whose breaker
   is enabled, and write nothing before reading the breaker. *)
Theorem c14_sweeps_skip : forall r, In r sweep_table ->
  sweep_starts r true = false /\ s_write_before r = false.
Proof.
  assert (K : c14_sweep_check = true) by (vm_compute; reflexivity).
  intros r Hr. unfold c14_sweep_check in K. apply andb_prop in K. destruct K as [K _].
  rewrite forallb_forall in K. specialize (K r Hr). unfold sweep_row_ok, sweep_starts in *.
  destruct (s_gate r); try discriminate; destruct (s_write_before r); try discriminate; split; reflexivity.
Qed.
Print Assumptions c14_sweeps_skip.

Theorem c14_sweeps_listed : forall n,
  In n ["liquidation.LiquidateVaults"; "liquidation.LiquidateBorrows"; "liquidationsV2.LiquidateIndividualVault";
        "liquidationsV2.LiquidateIndividualBorrow"; "liquidationsV2.LiquidateForSurplusAndDebt";
        "auction.SurplusActivator"; "auction.DebtActivator"] ->
  exists r, In r sweep_table /\ s_name r = n.
Proof.
  intros n Hn. cbn [In] in Hn.
  repeat (destruct Hn as [<-|Hn];
          [match goal with |- exists r, _ /\ s_name r = ?n =>
             let x := eval vm_compute in (find (fun r => String.eqb (s_name r) n) sweep_table) in
             match x with Some ?r => exists r; split; [vm_compute; tauto|reflexivity] end end|]).
  contradiction.
Qed.
Print Assumptions c14_sweeps_listed.

(* Missing / inactive price: the oracle returns an error (Model/Market.v, tied by C17), and in
   every handler of the vault, locker, lend, liquidation and auction modules - except the two
   listed in [price_unverified] - every price call site the handler can reach, and every call on
   the chain to it, checks and returns that error; the failed handler then commits nothing
   (c12_rejected_noop / Lib/Atomic.v).
   PARTIAL: liquidation.MsgLiquidateBorrow and auction.MsgPlaceDutchLendBid are excluded - the
   translator finds price errors assigned to _ on their paths (c14_price_unverified_sites); a
   price lookup inside a conditional block is covered by the call-site table, not by [exec].
   (A raw GetTwa read whose found flag is discarded counts as such a site: C14-F1, fixed.)
   Both excluded handlers are sent by the extended control matrix (TestC14X, same-pool and cross-pool
   borrows); the discarded errors of the health re-checks changed outcomes and were repaired (C14-F2); the
   sites that remain (CalcAssetPrice in UpdateLockedBorrows / CreteNewBorrow) follow a checked lookup of the
   same feeds in the same message. *)
Theorem c14_price_fail_closed_partial :
  (forall t, (match t with Some tw => active tw = false | None => True end) ->
             price_in_force t = Err 1 /\ get_latest t = Err 1) /\
  forall h, In h price_scope ->
    price_all_checked h = true /\ no_unchecked_price (h_items h) = true.
Proof.
  split.
  - intros [tw|] H; cbn; [rewrite H|]; auto.
  - assert (K : c14_price_check = true) by (vm_compute; reflexivity).
    intros h Hh. unfold c14_price_check in K. rewrite forallb_forall in K. specialize (K h Hh).
    unfold price_fail_closed in K. apply andb_prop in K. exact K.
Qed.
Print Assumptions c14_price_fail_closed_partial.

(* the exclusions are real: their rows do contain a price error that is not propagated *)
Theorem c14_price_unverified_sites : c14_price_unverified_really_unchecked = true.
Proof. vm_compute. reflexivity. Qed.
Print Assumptions c14_price_unverified_sites.

(* ---- non-vacuity ---- *)
Example c14_scopes_nonempty :
  length breaker_scope = 19%nat /\ length esm_mint_scope = 5%nat /\ length sweep_table = 7%nat /\
  (10 <=? length price_scope)%nat = true /\
  (* the handlers that use prices are in the price scope and do have price sites *)
  forallb (fun n => existsb (fun h => String.eqb (h_name h) n && negb (Nat.eqb (length (h_price h)) 0)) price_scope)
    ["vault.MsgCreate"; "vault.MsgWithdraw"; "vault.MsgDraw"; "lend.Borrow"; "lend.Lend"; "liquidation.MsgLiquidateVault"] = true.
Proof. vm_compute. repeat split; reflexivity. Qed.

(* the liquidate messages: three in scope, both forms of the statement occur; the predicate refuses a
   liquidation that succeeds under the breaker and accepts one that fails *)
Example c14_liquidation_msgs_nonvacuous :
  length liquidation_msg_names = 3%nat /\ assoc "liquidation.MsgLiquidateVault" liquidate_msg_dispatch = None /\
  (exists fs, assoc "liquidationsV2.MsgLiquidateInternalKeeper" liquidate_msg_dispatch = Some fs /\ length fs = 2%nat) /\
  predict_ctrl "liquidation.MsgLiquidateVault" false 0 0 true = 5%Z /\ predict_ctrl "liquidation.MsgLiquidateBorrow" false 0 0 true = 2%Z /\
  holds_C14 "liquidationsV2.MsgLiquidateInternalKeeper" true 0 true true = false /\
  holds_C14 "liquidationsV2.MsgLiquidateInternalKeeper" true 0 false false = true /\
  holds_C14 "liquidationsV2.MsgLiquidateExternalKeeper" true 0 true true = true.
Proof. vm_compute. repeat split; try reflexivity. eexists; split; reflexivity. Qed.

(* concrete runs of the regenerated rows: breaker -> code 2; ESM -> code 3 (checked first);
   withdraw under ESM passes inside the cool-off and returns code 4 after it; no control -> ok *)
Example c14_runs :
  predict_ctrl "vault.MsgDraw" false 0 0 true = 2%Z /\ predict_ctrl "vault.MsgDraw" true 0 10 true = 3%Z /\
  predict_ctrl "vault.MsgWithdraw" true 5 10 false = 0%Z /\ predict_ctrl "vault.MsgWithdraw" true 11 10 false = 4%Z /\
  predict_ctrl "lend.Withdraw" false 0 0 true = 2%Z /\ predict_ctrl "lend.Withdraw" false 0 0 false = 0%Z /\
  predict_ctrl "locker.MsgWithdrawAsset" true 11 10 true = 0%Z.
Proof. vm_compute. repeat split; reflexivity. Qed.
