(* C04 — Liquidity custody: escrows, reserves and farmed pool coins are fully backed.
   Property theorems only; each is closed by [exact]/short glue of lemmas in Proofs/Liquidity*.v.

   A history ([hist_ok setup ops]) is a setup prefix (app / asset registrations, funding of user
   accounts) followed by ANY finite list of the other operations of Model/Liquidity.v: pair / basic /
   ranged pool creation, deposits, withdrawals, limit / market / market-making orders, cancellations,
   farm, unfarm, deposit-and-farm, unfarm-and-withdraw, BeginBlock, and EndBlock with ANY matching result
   and share arithmetic (ENV), by any accounts with any amounts.  [reach setup ops] is the state after
   the history; failed messages and a failed per-app end-block leave the state unchanged. *)
From Comdex Require Import Lib.Base Lib.DecArith Model.Liquidity Model.LiquidityWitness Model.LiquidityWitness3
  Proofs.LiquiditySweep Proofs.LiquidityProofs2 Proofs.LiquidityEscrow Proofs.LiquidityReach Proofs.LiquidityOrderThms
  Proofs.LiquidityCustody Proofs.LiquidityFarm Proofs.LiquidityPools Proofs.LiquiditySupply Proofs.LiquidityCustodyThms.

(* the global escrow holds, in every denom, the coins of all pending deposit requests plus the pool
   coins of all pending withdrawal requests - exactly (hence at least).  [min_pc_ok]: the registered
   parameters have a positive MinInitialPoolCoinSupply (enforced by the parameter validation) *)
Theorem c04_global_escrow : forall setup ops d, hist_ok setup ops -> min_pc_ok (apps (reach setup ops)) ->
  let s := reach setup ops in
  led s GlobalEscrow d = pending d s /\ holds_C04_escrow (led s GlobalEscrow d) (pending d s) = true.
Proof. exact global_escrow_backed. Qed.
Print Assumptions c04_global_escrow.

Example c04_global_escrow_example :
  hist_ok (w_setup 1) w_pool_ops /\ min_pc_ok (apps (reach (w_setup 1) w_pool_ops)) /\
  map (fun r => (d_x r, d_xd r, d_y r, d_yd r, d_status r)) (deps (reach (w_setup 1) w_pool_ops)) = [(1000000, 2, 1000000, 1, 1)] /\
  pending 1 (reach (w_setup 1) w_pool_ops) = 1000000 /\ led (reach (w_setup 1) w_pool_ops) GlobalEscrow 2 = 1000000.
Proof.
  split; [split; repeat constructor|]. split; [unfold min_pc_ok; vm_compute; repeat constructor|].
  split; [vm_compute; reflexivity|]. split; vm_compute; reflexivity.
Qed.

(* each pair's escrow holds at least the remaining offer coins of the pair's live orders - relative to
   C05: the recorded fills, pool-order legs and dust of the pair must not have taken coins of that denom
   out of the escrow ([0 <= surplus]; [surplus] is 0 when every executed batch conserved coins).
   [rem_need] sums [o_rem] over the stored, not yet terminated orders of the pair offering [d] *)
Theorem c04_pair_escrow : forall setup ops a p d, hist_ok setup ops ->
  let s := reach setup ops in
  params_ok (apps s) -> 0 <= surplus s a p d ->
  holds_C04_escrow (led s (Escrow a p) d) (rem_need d (pair_orders a p (orders s))) = true.
Proof. exact pair_escrow_covers. Qed.
Print Assumptions c04_pair_escrow.

Example c04_pair_escrow_example :
  hist_ok (w_setup 1) w_two_ops /\ surplus w_two_state 1 1 2 = 0 /\
  rem_need 2 (pair_orders 1 1 (orders w_two_state)) = 3000 /\ led w_two_state (Escrow 1 1) 2 = 3009.
Proof. split; [split; repeat constructor|]. split; [vm_compute; reflexivity|]. split; vm_compute; reflexivity. Qed.

(* the dependence on C05 is real: with an ENV batch whose fills do not conserve the base coin (a buy
   order receives 500 base coins and pays nothing) the escrow holds 503 while the live sell order
   still has 1000 remaining - [surplus] is -500.  (Such batches ARE produced by the real matching engine through the keeper:
   known findings C05-F1 / C04-F1, harness TestC05KeeperHunt - one limit order against two pool orders worth about
   one quote unit on the same tick; the runner then sees holds_C04_pair_escrow fail inside kf_C05_1_via_fills) *)
Theorem c04_pair_escrow_needs_conservation :
  hist_ok (w_setup 1) w_bad_ops /\ surplus w_bad_state 1 1 1 = -500 /\
  led w_bad_state (Escrow 1 1) 1 = 503 /\ rem_need 1 (pair_orders 1 1 (orders w_bad_state)) = 1000 /\
  holds_C04_escrow (led w_bad_state (Escrow 1 1) 1) (rem_need 1 (pair_orders 1 1 (orders w_bad_state))) = false.
Proof.
  split; [split; repeat constructor|]. split; [vm_compute; reflexivity|]. split; [vm_compute; reflexivity|].
  split; vm_compute; reflexivity.
Qed.
Print Assumptions c04_pair_escrow_needs_conservation.

(* the module account holds, in every pool-coin denom, exactly the coins recorded as farmed: queued
   plus active - through farm, unfarm (LIFO consumption of the queue), deposit-and-farm,
   unfarm-and-withdraw and the maturation of queued coins *)
Theorem c04_farmed_exact : forall setup ops d, hist_ok setup ops ->
  let s := reach setup ops in
  holds_C04_farmed (led s Module d) (queued d s) (active d s) = true.
Proof. exact farmed_exact. Qed.
Print Assumptions c04_farmed_exact.

Example c04_farmed_exact_example :
  hist_ok (w_setup 1) w_pool_ops2 /\
  queued 1101 (reach (w_setup 1) w_pool_ops2) = 200000 /\ led (reach (w_setup 1) w_pool_ops2) Module 1101 = 200000.
Proof. split; [split; repeat constructor|]. split; vm_compute; reflexivity. Qed.

(* Unfarm consumes the farming queue from its end: the queue shrinks by exactly the part of the
   requested amount that is not taken from the active farmer record, for every queue and amount *)
Theorem c04_unfarm_queue_exact : forall rq amt, 0 <= amt -> Forall (fun c => 0 <= fst c) rq ->
  let r := unfarm_queue rq amt in
  qsum (fst r) + (amt - snd r) = qsum rq /\ 0 <= snd r <= amt /\ Forall (fun c => 0 <= fst c) (fst r) /\
  (snd r > 0 -> qsum (fst r) = 0).
Proof. exact unfarm_queue_law. Qed.
Print Assumptions c04_unfarm_queue_exact.

Example c04_unfarm_queue_example :
  unfarm_queue [(5, 30); (7, 20); (4, 10)] 9 = ([(0, 30); (3, 20); (4, 10)], 0) /\
  unfarm_queue [(5, 30)] 9 = ([(0, 30)], 4).
Proof. split; vm_compute; reflexivity. Qed.

(* every pool whose pool-coin supply is zero is marked disabled *)
Theorem c04_disabled : forall setup ops a i pl, hist_ok setup ops -> min_pc_ok (apps (reach setup ops)) ->
  let s := reach setup ops in
  find_pool a i (pools s) = Some pl -> holds_C04_disabled (sup s a i) (pl_disabled pl) = true.
Proof. exact zero_supply_disabled. Qed.
Print Assumptions c04_disabled.

Example c04_disabled_example :
  hist_ok (w_setup 1) w_drain_ops /\ sup (reach (w_setup 1) w_drain_ops) 1 1 = 0 /\
  map pl_disabled (pools (reach (w_setup 1) w_drain_ops)) = [true].
Proof. split; [split; repeat constructor|]. split; vm_compute; reflexivity. Qed.

(* ... also when the supply reaches zero INSIDE a transaction: the sole provider farms the whole supply and leaves with
   one MsgUnfarmAndWithdraw (no EndBlocker in the history) - supply 0, pool disabled, the request succeeded, nothing
   left in the module account; in the same block a deposit to the pool is refused (disabled pool, error class 20)
   and a new basic pool of the pair is accepted *)
Example c04_disabled_in_transaction_example :
  hist_ok (w_setup 1) w_sole_ops /\ sup w_sole_state 1 1 = 0 /\ map pl_disabled (pools w_sole_state) = [true] /\
  map w_status (wds w_sole_state) = [2] /\ led w_sole_state Module 1101 = 0 /\
  err_of (step w_sole_state (ODeposit 1 50 1 [(1, 1000); (2, 1000)])) = 20 /\
  map pl_disabled (pools (apply_op w_sole_state (OCreatePool 1 90 1 2000000 2000000 true 1000000))) = [true; false].
Proof. split; [split; repeat constructor|]. repeat split; vm_compute; reflexivity. Qed.

(* the pair check of order placement, one position at a time (the senders hold the offered coins; everything else
   about the messages is valid): the third asset offered for the right demand coin, the right offer coin for the third
   asset, the pair's coins swapped - each is refused with the wrong-pair class 6 and the right coins are accepted *)
Example c04_wrong_coin_orders_example :
  map (fun m => err_of (step w_two_state (OLimit m 12))) [w_foreign_offer; w_foreign_demand; w_swapped_coins; w_buy 1 1]
  = [6; 6; 6; 0].
Proof. vm_compute; reflexivity. Qed.

(* the pool-coin supply of pool (a, i) changes only by the creation of that pool, by a deposit-and-farm
   or unfarm-and-withdraw on that pool, or in an end block at whose start a deposit or withdrawal
   request of that pool was pending - for every operation (successful or not) in every state *)
Theorem c04_supply_change : forall s o a i,
  sup (apply_op s o) a i <> sup s a i -> sup_cause s o a i.
Proof. exact step_supply. Qed.
Print Assumptions c04_supply_change.

Example c04_supply_change_example :
  sup w_pool_pending 1 1 = 1000000 /\
  sup (apply_op w_pool_pending (OEnd 2 11 [mkAppEnv 1 [] [(1, 1, 1000000, 1000000, 500000)] []])) 1 1 = 1500000 /\
  map (fun r => (d_status r, d_app r, d_pool r)) (deps w_pool_pending) = [(1, 1, 1)].
Proof. split; [vm_compute; reflexivity|]. split; vm_compute; reflexivity. Qed.
