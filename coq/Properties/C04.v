(* C04 — Liquidity custody: escrows, reserves and farmed pool coins are fully backed.
   Property theorems only; each is closed by [exact]/short glue of lemmas in Proofs/Liquidity*.v. *)
From Comdex Require Import Lib.Base Lib.DecArith Model.Liquidity Model.LiquidityWitness Proofs.LiquidityCustody.

(* Unfarm consumes the farming queue from its end: the queue shrinks by exactly the part of the
   requested amount that is not taken from the active farmer record, for every queue and amount *)
Theorem c04_unfarm_queue_exact : forall rq amt, 0 <= amt -> Forall (fun c => 0 <= fst c) rq ->
  let r := unfarm_queue rq amt in
  qsum (fst r) + (amt - snd r) = qsum rq /\ 0 <= snd r <= amt /\ Forall (fun c => 0 <= fst c) (fst r) /\
  (snd r > 0 -> qsum (fst r) = 0).
Proof. exact unfarm_queue_law. Qed.
Print Assumptions c04_unfarm_queue_exact.

Example c04_unfarm_queue_example :
  unfarm_queue [(5, 30); (7, 20); (4, 10)] 9 = ([(0, 30); (3, 20); (4, 10)], 0) /\
  unfarm_queue [(5, 30)] 9 = ([(0, 30)], 4).
Proof. split; vm_compute; reflexivity. Qed.
