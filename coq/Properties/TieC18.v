(* Tie (C) for C18.  gen_lend_* are REGENERATED from /repo's x/lend/keeper/maths.go on every run;
   Rates.utilisation / kink_apr / lend_apr are the hand-written models the C18 rate theorems are about.
   The Go functions are keeper methods: the values they read from the store (ModuleBalance, the
   asset statistics, the rate parameters) are parameters of the regenerated definitions, named in the
   comment above each definition in Gen/PureFuns.v.  A result is the pair (value, error) with
   error 0 = nil; [to_option] maps both classes of panic to None, the models' "the call panics".
   Pointwise equalities for ALL inputs. *)
From Coq Require Import String.
From Comdex Require Import Lib.Base Lib.DecArith Lib.GoSem Model.Rates Gen.PureFuns
  Proofs.PureFunsLemmas.

(* GetUtilisationRatioByPoolIDAndAssetID: asset statistics present.  The model takes the sum
   TotalBorrowed + TotalStableBorrowed; the code's Int.Add overflow check is subsumed by Int64(). *)
Theorem tie_lend_GetUtilisationRatio : forall poolID assetID mb tb tsb,
  to_option (gen_lend_GetUtilisationRatio poolID assetID mb true tb tsb)
  = pair0 (Rates.utilisation mb (tb + tsb)).
Proof.
  intros. unfold gen_lend_GetUtilisationRatio, utilisation, pair0. cbn [negb].
  unfold_gosem. unfold iadd_c, chk_int, dadd_c, chk_dec, dadd. cbv [obind].
  destruct (int64_c mb) as [m|] eqn:Em; [|reflexivity].
  destruct (fits_int (tb + tsb)) eqn:Ef; [|rewrite (not_fits_int_int64 _ Ef); reflexivity].
  destruct (int64_c (tb + tsb)) as [b|] eqn:Eb; [|reflexivity].
  apply int64_c_some in Em; apply int64_c_some in Eb. destruct Em as [-> Hm], Eb as [-> Hb].
  rewrite (int64_dec_add_fits _ _ Hm Hb).
  destruct (dec_of_int mb + dec_of_int (tb + tsb) =? 0) eqn:Ez; [reflexivity|].
  unfold dquo_c; rewrite Ez. unfold chk_dec. destruct (fits_dec _); reflexivity.
Qed.
Print Assumptions tie_lend_GetUtilisationRatio.

(* asset statistics absent: (0, ErrAssetStatsNotFound), no arithmetic *)
Theorem tie_lend_GetUtilisationRatio_notfound : forall poolID assetID mb tb tsb,
  gen_lend_GetUtilisationRatio poolID assetID mb false tb tsb = Ok (0, 1).
Proof. reflexivity. Qed.
Print Assumptions tie_lend_GetUtilisationRatio_notfound.

(* GetBorrowAPRByAssetID, rate parameters and statistics present: the kinked curve on the
   utilisation, with (Base, Slope1, Slope2) or (StableBase, StableSlope1, StableSlope2) *)
Theorem tie_lend_GetBorrowAPR : forall poolID assetID (stable : bool) mb tb tsb uopt s1 base s2 ss1 sbase ss2,
  to_option (gen_lend_GetBorrowAPR poolID assetID stable true mb true tb tsb uopt s1 base s2 ss1 sbase ss2)
  = obindr (Rates.utilisation mb (tb + tsb)) (fun u =>
      pair0 (if stable then Rates.kink_apr u uopt sbase ss1 ss2 else Rates.kink_apr u uopt base s1 s2)).
Proof.
  intros. unfold gen_lend_GetBorrowAPR. cbn [negb].
  rewrite to_option_obind, tie_lend_GetUtilisationRatio. unfold pair0 at 1.
  destruct (utilisation mb (tb + tsb)) as [u|]; [|reflexivity]. cbn [option_map obindr].
  cbn [Z.eqb negb]. unfold kink_apr, pair0.
  destruct stable; cbn [negb]; unfold_gosem; unfold dquo_c, dmul_c, dadd_c, dsub_c;
    cbv [obind obindr to_option option_map]; tie_auto.
Qed.
Print Assumptions tie_lend_GetBorrowAPR.

(* GetLendAPRByAssetIDAndPoolID: borrowAPY.Mul(utilisation).Mul(1 - ReserveFactor) on the normal
   borrow curve *)
Theorem tie_lend_GetLendAPR : forall poolID assetID mb tb tsb uopt s1 base s2 ss1 sbase ss2 rf,
  to_option (gen_lend_GetLendAPR poolID assetID true mb true tb tsb uopt s1 base s2 ss1 sbase ss2 rf)
  = obindr (Rates.utilisation mb (tb + tsb)) (fun u =>
    obindr (Rates.kink_apr u uopt base s1 s2) (fun b =>
      pair0 (Rates.lend_apr b u rf))).
Proof.
  intros. unfold gen_lend_GetLendAPR. cbn [negb].
  rewrite to_option_obind, tie_lend_GetBorrowAPR.
  destruct (utilisation mb (tb + tsb)) as [u|] eqn:Eu; [|reflexivity]. cbn [obindr].
  unfold pair0 at 1. destruct (kink_apr u uopt base s1 s2) as [b|]; [|reflexivity]. cbn [option_map].
  cbn [Z.eqb negb]. rewrite to_option_obind, tie_lend_GetUtilisationRatio, Eu. cbn [pair0 option_map].
  cbn [Z.eqb negb]. unfold lend_apr, pair0.
  unfold_gosem; unfold dmul_c, dsub_c; cbv [obind obindr to_option option_map]; tie_auto.
Qed.
Print Assumptions tie_lend_GetLendAPR.

Theorem tie_lend_recognised :
  gen_lend_GetUtilisationRatio_unrecognised = [] /\ gen_lend_GetBorrowAPR_unrecognised = [] /\
  gen_lend_GetLendAPR_unrecognised = [].
Proof. repeat split; reflexivity. Qed.
Print Assumptions tie_lend_recognised.
