(* Tie (C) for C18.  gen_lend_* are REGENERATED from /repo's x/lend/keeper/maths.go on every run;
   Rates.utilisation / kink_apr / lend_apr are the hand-written models the C18 rate theorems are about.
   The Go functions are keeper methods: the values they read from the store (ModuleBalance, the
   asset statistics, the rate parameters) are parameters of the regenerated definitions, named in the
   comment above each definition in Gen/PureFuns.v.  A result is the pair (value, error) with
   error 0 = nil; [to_option] maps both classes of panic to None, the models' "the call panics".
   Pointwise equalities for ALL inputs. *)
From Coq Require Import String.
From Comdex Require Import Lib.Base Lib.DecArith Lib.GoSem Model.Rates Model.AccrualSites Gen.PureFuns
  Proofs.PureFunsLemmas Proofs.PureFunsLemmas2 Proofs.PureFunsC18.

(* GetUtilisationRatioByPoolIDAndAssetID: asset statistics present.  The model takes the sum
   TotalBorrowed + TotalStableBorrowed; the code's Int.Add overflow check is subsumed by Int64(). *)
Theorem tie_lend_GetUtilisationRatio : forall poolID assetID mb tb tsb,
  to_option (gen_lend_GetUtilisationRatio poolID assetID mb true tb tsb)
  = pair0 (Rates.utilisation mb (tb + tsb)).
Proof.
  intros. unfold gen_lend_GetUtilisationRatio, utilisation, pair0. cbn [negb].
  unfold_gosem. unfold iadd_c, chk_int, dadd_c, chk_dec, dadd. cbv [obind].
  destruct (int64_c mb) as [m|] eqn:Em; [|reflexivity].
  destruct (fits_int (tb + tsb)) eqn:Ef; [|rewrite (not_fits_int_int64 _ Ef); reflexivity].
  destruct (int64_c (tb + tsb)) as [b|] eqn:Eb; [|reflexivity].
  apply int64_c_some in Em; apply int64_c_some in Eb. destruct Em as [-> Hm], Eb as [-> Hb].
  rewrite (int64_dec_add_fits _ _ Hm Hb).
  destruct (dec_of_int mb + dec_of_int (tb + tsb) =? 0) eqn:Ez; [reflexivity|].
  unfold dquo_c; rewrite Ez. unfold chk_dec. destruct (fits_dec _); reflexivity.
Qed.
Print Assumptions tie_lend_GetUtilisationRatio.

(* asset statistics absent: (0, ErrAssetStatsNotFound), no arithmetic *)
Theorem tie_lend_GetUtilisationRatio_notfound : forall poolID assetID mb tb tsb,
  gen_lend_GetUtilisationRatio poolID assetID mb false tb tsb = Ok (0, 1).
Proof. reflexivity. Qed.
Print Assumptions tie_lend_GetUtilisationRatio_notfound.

(* GetBorrowAPRByAssetID, rate parameters and statistics present: the kinked curve on the
   utilisation, with (Base, Slope1, Slope2) or (StableBase, StableSlope1, StableSlope2) *)
Theorem tie_lend_GetBorrowAPR : forall poolID assetID (stable : bool) mb tb tsb uopt s1 base s2 ss1 sbase ss2,
  to_option (gen_lend_GetBorrowAPR poolID assetID stable true mb true tb tsb uopt s1 base s2 ss1 sbase ss2)
  = obindr (Rates.utilisation mb (tb + tsb)) (fun u =>
      pair0 (if stable then Rates.kink_apr u uopt sbase ss1 ss2 else Rates.kink_apr u uopt base s1 s2)).
Proof.
  intros. unfold gen_lend_GetBorrowAPR. cbn [negb].
  rewrite to_option_obind, tie_lend_GetUtilisationRatio. unfold pair0 at 1.
  destruct (utilisation mb (tb + tsb)) as [u|]; [|reflexivity]. cbn [option_map obindr].
  cbn [Z.eqb negb]. unfold kink_apr, pair0.
  destruct stable; cbn [negb]; unfold_gosem; unfold dquo_c, dmul_c, dadd_c, dsub_c;
    cbv [obind obindr to_option option_map]; tie_auto.
Qed.
Print Assumptions tie_lend_GetBorrowAPR.

(* GetLendAPRByAssetIDAndPoolID: borrowAPY.Mul(utilisation).Mul(1 - ReserveFactor) on the normal
   borrow curve *)
Theorem tie_lend_GetLendAPR : forall poolID assetID mb tb tsb uopt s1 base s2 ss1 sbase ss2 rf,
  to_option (gen_lend_GetLendAPR poolID assetID true mb true tb tsb uopt s1 base s2 ss1 sbase ss2 rf)
  = obindr (Rates.utilisation mb (tb + tsb)) (fun u =>
    obindr (Rates.kink_apr u uopt base s1 s2) (fun b =>
      pair0 (Rates.lend_apr b u rf))).
Proof.
  intros. unfold gen_lend_GetLendAPR. cbn [negb].
  rewrite to_option_obind, tie_lend_GetBorrowAPR.
  destruct (utilisation mb (tb + tsb)) as [u|] eqn:Eu; [|reflexivity]. cbn [obindr].
  unfold pair0 at 1. destruct (kink_apr u uopt base s1 s2) as [b|]; [|reflexivity]. cbn [option_map].
  cbn [Z.eqb negb]. rewrite to_option_obind, tie_lend_GetUtilisationRatio, Eu. cbn [pair0 option_map].
  cbn [Z.eqb negb]. unfold lend_apr, pair0.
  unfold_gosem; unfold dmul_c, dsub_c; cbv [obind obindr to_option option_map]; tie_auto.
Qed.
Print Assumptions tie_lend_GetLendAPR.

(* ---------------- UpdateAPR, GetAverageBorrowRate, GetSavingRate, GetReserveRate ----------------
   The chain IterateBorrow uses (Model/AccrualSites.v borrow_rates).  UpdateAPR returns a struct: the
   regenerated definition returns its scalar fields in declaration order (PoolID, AssetID, LendIds,
   BorrowIds, TotalBorrowed, TotalStableBorrowed, TotalLend, TotalInterestAccumulated, LendApr,
   BorrowApr, StableBorrowApr, UtilisationRatio) and then found.  GetSavingRate / GetReserveRate
   return the nil value sdk.Dec{} beside an error: their value component is an option Z ([res_opt]).
   In GetReserveRate the test  averageBorrowRate != sdk.ZeroDec()  compares the *big.Int POINTERS
   of two Dec structs, one of them freshly allocated: it is always true (the translator emits
   [if true]); the model subtracts unconditionally - the same.
   All theorems: asset statistics and rate parameters present, ALL values. *)
Theorem tie_lend_UpdateAPR : forall poolID assetID pid aid lids bids tb tsb tl tia la ba sa ur mb p,
  to_option (gen_lend_UpdateAPR poolID assetID true pid aid lids bids tb tsb tl tia la ba sa ur true mb
               (rp_uopt p) (rp_s1 p) (rp_base p) (rp_s2 p) (rp_ss1 p) (rp_sbase p) (rp_ss2 p) (rp_rf p))
  = obindr (utilisation mb (tb + tsb)) (fun u =>
    obindr (lend_apr_p p u) (fun l =>
    obindr (borrow_apr p false u) (fun b =>
    obindr (borrow_apr p true u) (fun sb =>
      Some (pid, aid, lids, bids, tb, tsb, tl, tia, l, b, sb, u, true))))).
Proof.
  intros. unfold gen_lend_UpdateAPR. cbn [negb].
  rewrite to_option_obind, tie_lend_GetLendAPR. unfold lend_apr_p, borrow_apr.
  destruct (utilisation mb (tb + tsb)) as [u|] eqn:Eu; [|reflexivity]. cbn [obindr].
  destruct (kink_apr u (rp_uopt p) (rp_base p) (rp_s1 p) (rp_s2 p)) as [b|] eqn:Eb; [|reflexivity]. cbn [obindr].
  destruct (lend_apr b u (rp_rf p)) as [l|]; [|reflexivity]. cbn [pair0 option_map obindr].
  rewrite to_option_obind, tie_lend_GetBorrowAPR, Eu. cbn [obindr]. rewrite Eb. cbn [pair0 option_map].
  rewrite to_option_obind, tie_lend_GetBorrowAPR, Eu. cbn [obindr].
  destruct (kink_apr u (rp_uopt p) (rp_sbase p) (rp_ss1 p) (rp_ss2 p)) as [sb|]; [|reflexivity]. cbn [pair0 option_map].
  rewrite to_option_obind, tie_lend_GetUtilisationRatio, Eu. reflexivity.
Qed.
Print Assumptions tie_lend_UpdateAPR.

Theorem tie_lend_GetAverageBorrowRate : forall poolID assetID pid aid lids bids tb tsb tl tia la ba sa ur mb p,
  res_of (gen_lend_GetAverageBorrowRate poolID assetID true pid aid lids bids tb tsb tl tia la ba sa ur true mb
               (rp_uopt p) (rp_s1 p) (rp_base p) (rp_s2 p) (rp_ss1 p) (rp_sbase p) (rp_ss2 p) (rp_rf p))
  = match aprs p mb tb tsb with
    | Some (b, sb, _) => average_borrow_rate b sb tb tsb
    | None => Panic
    end.
Proof.
  intros. unfold gen_lend_GetAverageBorrowRate, aprs.
  rewrite res_of_obind, tie_lend_UpdateAPR.
  destruct (utilisation mb (tb + tsb)) as [u|]; [|reflexivity]. cbn [obindr].
  destruct (lend_apr_p p u) as [l|]; [|reflexivity]. cbn [obindr].
  destruct (borrow_apr p false u) as [b|]; [|reflexivity]. cbn [obindr].
  destruct (borrow_apr p true u) as [sb|]; [|reflexivity]. cbn [obindr].
  unfold average_borrow_rate, obindo. unfold_gosem. unfold iadd_c, chk_int, dmul_c, dadd_c, dquo_c. cbv [obind].
  destruct (int64_c tb) as [x|] eqn:E1; [apply int64_c_some in E1; destruct E1 as [-> _]|reflexivity].
  destruct (chk_dec (dmul b (dec_of_int tb))) as [f1|]; [|destruct (int64_c tsb); reflexivity].
  destruct (int64_c tsb) as [y|] eqn:E2; [apply int64_c_some in E2; destruct E2 as [-> _]|reflexivity].
  destruct (chk_dec (dmul sb (dec_of_int tsb))) as [f2|]; [|reflexivity].
  destruct (chk_dec (f1 + f2)) as [num|]; [|reflexivity].
  destruct (fits_int (tsb + tb)) eqn:Ef; [|rewrite (not_fits_int_int64 _ Ef); reflexivity].
  destruct (int64_c (tsb + tb)) as [tot|] eqn:E3; [apply int64_c_some in E3; destruct E3 as [-> _]|reflexivity].
  cbv zeta. destruct (dec_of_int (tsb + tb) <=? 0); [reflexivity|].
  cbn [res_of]. destruct (dec_of_int (tsb + tb) =? 0); [reflexivity|].
  destruct (chk_dec _); reflexivity.
Qed.
Print Assumptions tie_lend_GetAverageBorrowRate.

Theorem tie_lend_GetSavingRate : forall poolID assetID pid aid lids bids tb tsb tl tia la ba sa ur mb p,
  res_opt (gen_lend_GetSavingRate poolID assetID true true pid aid lids bids tb tsb tl tia la ba sa ur mb
               (rp_uopt p) (rp_s1 p) (rp_base p) (rp_s2 p) (rp_ss1 p) (rp_sbase p) (rp_ss2 p) (rp_rf p))
  = match aprs p mb tb tsb with
    | Some (b, sb, u) => obind (average_borrow_rate b sb tb tsb) (fun avg => pan_of (saving_rate avg u (rp_rf p)))
    | None => Panic
    end.
Proof.
  intros. unfold gen_lend_GetSavingRate. cbn [negb].
  rewrite res_opt_obind_err, tie_lend_GetAverageBorrowRate. unfold aprs.
  destruct (utilisation mb (tb + tsb)) as [u|] eqn:Eu; [|reflexivity]. cbn [obindr].
  destruct (lend_apr_p p u) as [l|]; [|reflexivity]. cbn [obindr].
  destruct (borrow_apr p false u) as [b|]; [|reflexivity]. cbn [obindr].
  destruct (borrow_apr p true u) as [sb|]; [|reflexivity]. cbn [obindr].
  destruct (average_borrow_rate b sb tb tsb) as [avg| |]; [|reflexivity|reflexivity]. cbn [obind].
  rewrite res_opt_obind_err.
  rewrite (res_of_pair0 _ _ (tie_lend_GetUtilisationRatio poolID assetID mb tb tsb)), Eu. cbn [pan_of obind].
  unfold saving_rate, lend_apr. unfold_gosem. unfold dsub_c, dmul_c. cbv [obind obindr].
  destruct (chk_dec (P18 - rp_rf p)); [|reflexivity].
  destruct (chk_dec (dmul avg u)); [|reflexivity].
  destruct (chk_dec _); reflexivity.
Qed.
Print Assumptions tie_lend_GetSavingRate.

Theorem tie_lend_GetReserveRate : forall poolID assetID pid aid lids bids tb tsb tl tia la ba sa ur mb p,
  res_opt (gen_lend_GetReserveRate poolID assetID true pid aid lids bids tb tsb tl tia la ba sa ur true mb
               (rp_uopt p) (rp_s1 p) (rp_base p) (rp_s2 p) (rp_ss1 p) (rp_sbase p) (rp_ss2 p) (rp_rf p))
  = obind (borrow_rates p mb tb tsb false) (fun '(_, rr, _, _) => Ok rr).
Proof.
  intros. unfold gen_lend_GetReserveRate.
  rewrite res_opt_obind_err, tie_lend_GetAverageBorrowRate.
  unfold borrow_rates, obindo.
  pose proof (tie_lend_GetSavingRate poolID assetID pid aid lids bids tb tsb tl tia la ba sa ur mb p) as HS.
  unfold aprs in *.
  destruct (utilisation mb (tb + tsb)) as [u|] eqn:Eu; [|reflexivity]. cbn [obindr] in *.
  destruct (lend_apr_p p u) as [l|]; [|reflexivity]. cbn [obindr] in *.
  destruct (borrow_apr p false u) as [b|] eqn:Eb; [|reflexivity]. cbn [obindr] in *.
  destruct (borrow_apr p true u) as [sb|]; [|reflexivity]. cbn [obindr] in *.
  destruct (average_borrow_rate b sb tb tsb) as [avg| |]; [|reflexivity|reflexivity]. cbn [obind] in *.
  rewrite res_opt_obind_err_opt, HS. unfold reserve_rate.
  destruct (saving_rate avg u (rp_rf p)) as [s|]; [|reflexivity]. cbn [pan_of obind obindr].
  unfold_gosem. unfold dsub_c. destruct (chk_dec (avg - s)); reflexivity.
Qed.
Print Assumptions tie_lend_GetReserveRate.

(* rate parameters absent: GetSavingRate returns (0, ErrorAssetRatesParamsNotFound) before any arithmetic *)
Theorem tie_lend_GetSavingRate_notfound : forall poolID assetID (f1 : bool) pid aid lids bids tb tsb tl tia la ba sa ur mb uopt s1 base s2 ss1 sbase ss2 rf,
  gen_lend_GetSavingRate poolID assetID false f1 pid aid lids bids tb tsb tl tia la ba sa ur mb uopt s1 base s2 ss1 sbase ss2 rf
  = Ok (Some 0, 1).
Proof. reflexivity. Qed.
Print Assumptions tie_lend_GetSavingRate_notfound.

Theorem tie_lend_rates_recognised :
  gen_lend_UpdateAPR_unrecognised = [] /\ gen_lend_GetAverageBorrowRate_unrecognised = [] /\
  gen_lend_GetSavingRate_unrecognised = [] /\ gen_lend_GetReserveRate_unrecognised = [].
Proof. repeat split; reflexivity. Qed.
Print Assumptions tie_lend_rates_recognised.

Theorem tie_lend_recognised :
  gen_lend_GetUtilisationRatio_unrecognised = [] /\ gen_lend_GetBorrowAPR_unrecognised = [] /\
  gen_lend_GetLendAPR_unrecognised = [].
Proof. repeat split; reflexivity. Qed.
Print Assumptions tie_lend_recognised.
