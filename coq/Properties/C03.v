(* C03 — Vault risk limits: min collateral ratio, debt floor and debt ceiling hold.
   Property theorems only; each is closed by [exact] of a lemma proved in Proofs/.

   Rounding of the Go code (x/vault/keeper/vault.go:300-393), as modelled by [calc_cr]:
     value_in  = Quo(Mul(NewDecFromInt(amountIn),  NewDecFromInt(price_in )), NewDecFromInt(decimals_in ))
     value_out = Quo(Mul(NewDecFromInt(amountOut), NewDecFromInt(price_out)), NewDecFromInt(decimals_out))
     ratio     = Quo(value_in, value_out)            reject when ratio < MinCr (LT)
   Mul of two integer-valued Decs is exact; each Quo rounds half-even at 10^-18, so each of the three
   is within one unit of 10^-18 of the exact quotient (Lib/DecFacts.v dquo_bounds).
   [cr_exact_ok] is the resulting bound on the exact rationals:
     (MinCr - 10^-18) * (aOut*pOut/decOut - 10^-18) <= (aIn*pIn/decIn + 10^-18)
   written over integers.  The slack is attained (Example c03_slack_attained).

   [cfg_ok3 c]: [cfg_ok] + decimals > 0, MinCr >= 10^-18, fixed debt price >= 0, ceiling >= 0.
   [PriceOk s]: oracle prices are not negative (uint64).  Interest added inside a handler is an
   environment value >= 0 (its arithmetic is C18's subject).
   PARTIAL: liquidation / auction / ESM-return operations are not in the model (the debt-floor
   clause is stated for histories of vault messages only). *)
From Comdex Require Import Lib.Base Lib.DecArith Lib.Atomic Model.Vault Model.VaultExample Proofs.VaultProofs Proofs.VaultInv Proofs.VaultRisk.

(* decision rule: outside ESM an accepting VerifyCollaterlizationRatio means the required prices
   are active, the Dec ratio computed by the code is >= MinCr, and the exact-rational bound holds *)
Theorem c03_cr_rule : forall s ep ain aout, ep_ok3 ep -> PriceOk s -> 0 <= ain -> 0 <= aout ->
  e_status (esm s (ep_app ep)) = false -> verify_cr s ep ain aout false = Ok tt ->
  price_required_missing s ep = false /\ cr_ok s ep ain aout = true /\
  exists r, calc_cr s ep ain aout = Ok r /\ ep_min_cr ep <= r.
Proof. exact verify_cr_accept. Qed.
Print Assumptions c03_cr_rule.

(* the rounding bound by itself, for all amounts, prices and decimal scales *)
Theorem c03_cr_exact : forall min_cr ain pin dec_in aout pout dec_out it ot r,
  0 <= ain -> 0 <= pin -> 0 < dec_in -> 0 <= aout -> 0 <= pout -> 0 < dec_out -> 1 <= min_cr ->
  - dec_in <= it * dec_in - ain * pin * P18 <= dec_in ->           (* it = value_in, one Quo *)
  - dec_out <= ot * dec_out - aout * pout * P18 <= dec_out ->      (* ot = value_out, one Quo *)
  0 < it -> 0 < ot -> r = dquo it ot -> min_cr <= r ->             (* r = ratio, one Quo; accepted *)
  (min_cr - 1) * (aout * pout * P18 - dec_out) * dec_in <= (ain * pin * P18 + dec_in) * P18 * dec_out.
Proof.
  intros. apply Z.leb_le. change (cr_exact_ok min_cr ain pin dec_in aout pout dec_out = true).
  eapply cr_exact_bound; eassumption.
Qed.
Print Assumptions c03_cr_exact.

(* every successful create / draw / withdraw / deposit-and-draw outside ESM leaves the vault, as it
   stands AFTER the operation (debt = principal for create; principal + interest + closing fee
   otherwise), satisfying the rule at the prices in force; with a required price inactive the
   operation does not succeed.  Stated through the executable predicate the runner evaluates on
   the implementation's observations ([ok] = the message succeeded) *)
Theorem c03_accepts_imply_cr : forall c s o, cfg_ok3 c -> user_op o -> Inv01 c s -> PriceOk s ->
  holds_C03_step c s o (is_ok (run c s o)) (step c s o) = true.
Proof. exact run_c03_step. Qed.
Print Assumptions c03_accepts_imply_cr.

Theorem c03_price_inactive : forall c s o a e ep, cfg_ok3 c -> user_op o -> Inv01 c s -> PriceOk s ->
  risk_op_on o a e -> get_ep c e = Some ep -> e_status (esm s a) = false -> price_required_missing s ep = true ->
  is_ok (run c s o) = false /\ step c s o = s.
Proof. exact price_inactive_fails. Qed.
Print Assumptions c03_price_inactive.

(* debt floor on every open vault and debt ceiling on every product: one step ... *)
Theorem c03_limits_step : forall c s o s', cfg_ok c -> user_op o -> Inv01 c s -> InvRisk c s -> run c s o = Ok s' -> InvRisk c s'.
Proof. exact run_risk. Qed.
Print Assumptions c03_limits_step.

(* ... and after every finite history of vault messages *)
Theorem c03_limits_history_partial : forall c ops s, cfg_ok c -> Forall user_op ops -> Inv01 c s -> InvRisk c s ->
  InvRisk c (run_all c ops s).
Proof. intros c ops s CK U I R. exact (proj2 (history_risk c ops CK U s I R)). Qed.
Print Assumptions c03_limits_history_partial.

(* with C01(c) the ceiling bounds the principal really outstanding on the product's records *)
Theorem c03_ceiling_outstanding_partial : forall c ops b sp t pr e, cfg_ok3 c -> Forall user_op ops ->
  (forall d, b VAULT d = 0) -> In e (epairs c) ->
  prod_mint_sum (run_all c ops (init b sp t pr)) (ep_app e) (ep_id e) <= ep_ceiling e.
Proof.
  intros c ops b sp t pr e CK3 U Hb Hin. pose proof CK3 as [CK E3].
  destruct (history_risk c ops CK U _ (inv01_init c b sp t pr Hb) (risk_init c b sp t pr)) as [I R].
  destruct (i_prod _ _ I (ep_app e) (ep_id e)) as (_ & <- & _).
  pose proof (r_ceil _ _ R (ep_app e) (ep_id e) e (get_ep_nodup c e (proj1 CK) Hin)) as HC.
  destruct (E3 e Hin) as (_ & _ & _ & _ & Hce). lia.
Qed.
Print Assumptions c03_ceiling_outstanding_partial.

Theorem c03_predicate_holds_partial : forall c ops b sp t pr, cfg_ok3 c -> Forall user_op ops ->
  (forall d, b VAULT d = 0) -> holds_C03 c (run_all c ops (init b sp t pr)) = true.
Proof.
  intros c ops b sp t pr CK3 U Hb. apply (risk_holds c _ CK3).
  exact (proj2 (history_risk c ops (proj1 CK3) U _ (inv01_init c b sp t pr Hb) (risk_init c b sp t pr))).
Qed.
Print Assumptions c03_predicate_holds_partial.

(* non-vacuity *)
Example c03_example_hyps : cfg_ok3 ex_cfg /\ Forall user_op ex_ops /\ Inv01 ex_cfg ex_init /\ PriceOk ex_init /\ InvRisk ex_cfg ex_init.
Proof. exact (conj ex_cfg_ok3 (conj ex_ops_users (conj ex_init_inv (conj ex_price_ok (risk_init ex_cfg ex_bal ex_sup 1000 ex_price))))). Qed.
(* the boundary: collateral 3.0 units at price 2.0, MinCr 1.5: debt 4.000000 is accepted (ratio
   exactly 1.5), debt 4.000001 is rejected with the c-ratio error class *)
Example c03_boundary :
  result_class ex_cfg ex_init (Create 2 1 1 3000000 4000000) = 0 /\
  run ex_cfg ex_init (Create 2 1 1 3000000 4000001) = Err E_CR /\
  calc_cr ex_init ex_ep1 3000000 4000000 = Ok 1500000000000000000 /\
  holds_C03_step ex_cfg ex_init (Create 2 1 1 3000000 4000000) true (step ex_cfg ex_init (Create 2 1 1 3000000 4000000)) = true.
Proof. vm_compute. repeat split; reflexivity. Qed.
(* the slack of the three roundings is attained: this pair is ACCEPTED (Dec ratio rounds half-even
   up to exactly 1.5) although its exact ratio 3000000000000000002 / 2000000000000000002 is below 1.5 *)
Example c03_slack_attained :
  let ain := 1500000000000000001 in let aout := 2000000000000000002 in
  verify_cr ex_init ex_ep1 ain aout false = Ok tt /\
  (ain * 2000000 * ep_dec_out ex_ep1) * 2 < 3 * (aout * ep_out_price ex_ep1 * ep_dec_in ex_ep1) /\
  cr_exact_ok (ep_min_cr ex_ep1) ain 2000000 (ep_dec_in ex_ep1) aout (ep_out_price ex_ep1) (ep_dec_out ex_ep1) = true.
Proof. vm_compute. repeat split; reflexivity. Qed.
(* inactive price: after SetPrice 1 None the draw and the create of the example fail, state unchanged *)
Example c03_example_inactive :
  let s := run_all ex_cfg (firstn 13 ex_ops) ex_init in
  price_required_missing s ex_ep1 = true /\ result_class ex_cfg s (Draw 3 1 1 2 5 0) = 1 /\
  holds_C03_step ex_cfg s (Draw 3 1 1 2 5 0) false s = true /\ holds_C03_step ex_cfg s (Draw 3 1 1 2 5 0) true s = false /\
  holds_C03 ex_cfg s = true.
Proof. vm_compute. repeat split; reflexivity. Qed.
