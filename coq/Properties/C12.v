(* C12 - only the rightful party can act.  Property theorems over the tables REGENERATED from the
   Go source (Gen/MsgTypes.v, Gen/GuardTable.v, Gen/WasmTable.v) and the generic guard-list
   semantics (Model/Guards.v, Proofs/GuardsProofs.v).  A removed or moved owner check, a new
   position message, a changed wasm comparison flips one of the [vm_compute] checks below. *)
From Coq Require Import String List ZArith Bool Arith.
From Comdex Require Import Lib.Base Lib.Atomic Model.Guards Model.GuardsCheck Proofs.GuardsProofs Proofs.GuardsCheckProofs
  Gen.GuardTable Gen.MsgTypes Gen.WasmTable.
Import ListNotations.
Open Scope string_scope.

(* Every registered message type that names a position (by id field, or by acting on the records
   stored under the signer's address) and is not in the reviewed exemption list has, on every path
   to a successful return of its handler, a comparison of the record's owner field with the signer
   or a lookup keyed by the signer; the two "cancel all my orders" messages hand the signer to
   their first state-changing call instead. *)
Theorem c12_owner_table : forall m, In m position_msgs ->
  exists h, find_handler (mt_handler m) = Some h /\
    (has_owner_guard_items (h_items h) = true \/
     (mem (mt_qname m) signer_keyed_msgs = true /\ first_write_signer (h_items h) = true)).
Proof.
  assert (K : c12_owner_check = true) by (vm_compute; reflexivity).
  intros m Hm. unfold c12_owner_check in K. rewrite forallb_forall in K. specialize (K m Hm).
  unfold has_owner_guard in K. destruct (mt_signer m); [|discriminate].
  destruct (find_handler (mt_handler m)) as [h|]; [|discriminate].
  exists h. split; [reflexivity|]. unfold owner_ok_items in K.
  apply orb_prop in K. destruct K as [K|K]; [left; exact K|right]. apply andb_prop in K. exact K.
Qed.
Print Assumptions c12_owner_table.

(* ... and therefore, for EVERY store, every effect of the writes and every outcome of the other
   checks: when the signer is not the owner (each owner comparison mismatches, each signer-keyed
   lookup finds nothing) the handler does not succeed and the committed store is the original *)
Theorem c12_nonowner_rejected : forall m h, In m position_msgs -> find_handler (mt_handler m) = Some h ->
  has_owner_guard_items (h_items h) = true ->
  forall (store : Type) (wr : string -> store -> store) (c : octx) (s : store),
    (forall r, c_owner_ok c r = false) -> (forall l, c_keyed_found c l = false) ->
    is_ok store (exec wr helper_rows scan_fuel c (h_items h) s) = false /\
    apply (exec wr helper_rows scan_fuel c (h_items h)) s = s.
Proof.
  intros m h _ _ Hg store wr c s Ho Hk. unfold has_owner_guard_items in Hg. split.
  - exact (scan_rejects store wr helper_rows false is_owner_guard c (owner_fires c Ho Hk) scan_fuel _ s Hg).
  - exact (scan_rejects_noop store wr helper_rows false is_owner_guard c (owner_fires c Ho Hk) scan_fuel _ s Hg).
Qed.
Print Assumptions c12_nonowner_rejected.

(* WHICH record is compared.  The hypothesis "each owner comparison mismatches for a non-owner" of
   c12_nonowner_rejected is about the record the comparison reads: it is justified only when that
   record is the named position's own record (for a borrow, which has no owner field: the lend
   position it sits on).  For every position message that names an id, the regenerated table
   (Gen/GuardTable.v owner_cmps: compared field + chain of lookups with their keys, delegation and
   helper rows followed) shows at least one owner comparison, and for EVERY owner comparison on the
   handler's walk: the first lookup fetches a record of the kind whose owner field is compared;
   each lookup is keyed by exactly one id of the kind it expects and by no id of another kind
   (reviewed kinds: GuardsCheck.lookup_info / key_kind); a key that is a field of another record is
   a field of the record the next lookup fetched; and the chain starts at one of the message's own
   position-id fields.  A lend fetched by a borrow's own id (GetLend(ctx, borrowPos.ID)) fails it. *)
Theorem c12_owner_record_keyed : forall m, In m position_msgs -> mem (mt_qname m) signer_keyed_msgs = false ->
  (cmps_of (mt_handler m) = [] -> False) /\
  forall c, In c (cmps_of (mt_handler m)) ->
    owner_cmp_ok (msg_position_ids m) c = true /\
    exists f lk keys, In f (msg_position_ids m) /\ In (lk, keys) (oc_chain c) /\ In ("msg." ++ f) keys.
Proof.
  assert (K : c12_owner_prov_check = true) by (vm_compute; reflexivity).
  intros m Hm Hs. unfold c12_owner_prov_check in K. rewrite forallb_forall in K. specialize (K m Hm).
  unfold owner_prov_ok in K. apply orb_prop in K. destruct K as [K|K].
  - exfalso. apply (eq_true_false_abs _ K Hs).
  - exact (owner_cmps_ok_spec _ _ K).
Qed.
Print Assumptions c12_owner_record_keyed.

(* a rejected attempt changes no balance and no record: baseapp runs the handler on a branch of
   the store and commits only on success (Lib/Atomic.v) - for every handler row whatsoever *)
Theorem c12_rejected_noop : forall (store : Type) (wr : string -> store -> store) helpers fuel c items s,
  is_ok store (exec wr helpers fuel c items s) = false -> apply (exec wr helpers fuel c items) s = s.
Proof. exact rejected_noop. Qed.
Print Assumptions c12_rejected_noop.

(* closed world: every registered message of a DeFi module has a recognised signer field and a
   msgServer row (one registered type is reachable only through the wasm binding) *)
Theorem c12_registry_closed : c12_registry_check = true.
Proof. vm_compute. reflexivity. Qed.
Print Assumptions c12_registry_closed.

(* closed-world classification: every registered message of a DeFi module is exactly one of
   owner-guarded / signer-keyed (position_msgs), exempt with a reason (owner_exempt), naming no position
   of any user with a reason (no_position_msgs), admin (kill switch), or without a msgServer method; and
   every name in the reviewed lists is a registered message *)
Theorem c12_classification_closed :
  (forall m, In m msg_types -> mem (mt_module m) defi_modules = true -> msg_classes m = 1%nat) /\
  (forall n, In n (map fst no_position_msgs ++ admin_msgs ++ map fst owner_exempt ++ signer_keyed_msgs) ->
             exists m, In m msg_types /\ mt_qname m = n).
Proof.
  assert (K : c12_classified_check = true) by (vm_compute; reflexivity).
  unfold c12_classified_check in K. apply andb_prop in K. destruct K as [K1 K2]. split.
  - intros m Hm Hd. rewrite forallb_forall in K1. specialize (K1 m Hm). rewrite Hd in K1. cbn in K1.
    apply Nat.eqb_eq. exact K1.
  - intros n Hn. rewrite forallb_forall in K2. specialize (K2 n Hn). apply existsb_exists in K2.
    destruct K2 as [m [Hm E]]. exists m. split; [exact Hm|]. apply String.eqb_eq in E. exact E.
Qed.
Print Assumptions c12_classification_closed.

(* every msgServer method of a DeFi module is in the list one of the two authority matrices must send
   (runner coverage checks: an un-sent handler is a reported mismatch); the kill switch has its own cases *)
Theorem c12_matrices_cover_registry : forall m, In m msg_types -> mem (mt_module m) defi_modules = true ->
  mt_handler m <> "" -> mem (mt_qname m) admin_msgs = false ->
  mem (mt_handler m) x_matrix_handlers = true \/ mem (mt_handler m) base_matrix_handlers = true.
Proof.
  assert (K : c12_matrix_cover_check = true) by (vm_compute; reflexivity).
  intros m Hm Hd Hh Ha. unfold c12_matrix_cover_check in K. rewrite forallb_forall in K. specialize (K m Hm).
  rewrite Hd, Ha in K. cbn in K.
  destruct (String.eqb (mt_handler m) "") eqn:E; [apply String.eqb_eq in E; contradiction|]. cbn in K.
  apply orb_prop in K. exact K.
Qed.
Print Assumptions c12_matrices_cover_registry.

(* custom contract-to-chain messages: for every variant, on each of the two named networks, an
   accepted message was sent by the contract designated for that variant.
   NOTE (faithful to the code): on any other chain id the ladder accepts every sender - see
   c12_wasm_other_chain_accepts; the property only constrains the two named networks. *)
Theorem c12_wasm_guard : forall w chain sender, In w wasm_table -> In chain named_networks ->
  ladder_accepts (w_ladder w) chain sender = true ->
  designated chain (w_variant w) = Some sender.
Proof.
  assert (K : c12_wasm_check = true) by (vm_compute; reflexivity).
  intros w chain sender Hw Hc Ha. unfold c12_wasm_check in K. apply andb_prop in K. destruct K as [K _].
  rewrite forallb_forall in K. specialize (K w Hw). unfold wasm_row_ok in K.
  apply andb_prop in K. destruct K as [_ K]. rewrite forallb_forall in K. specialize (K chain Hc).
  destruct (ladder_find (w_ladder w) chain) as [r|] eqn:Hf; [|discriminate].
  destruct (designated chain (w_variant w)) as [a|]; [|discriminate].
  apply String.eqb_eq in K. rewrite (ladder_accepts_find _ _ _ _ Hf Ha). rewrite K. reflexivity.
Qed.
Print Assumptions c12_wasm_guard.

(* the variant list is closed: each variant of bindings.ComdexMessages is dispatched, its ladder
   was recognised, and it has a reviewed role *)
Theorem c12_wasm_variants_closed : forall w, In w wasm_table ->
  w_recognised w = true /\ w_handler w <> "" /\ wasm_role (w_variant w) <> None.
Proof.
  assert (K : forallb (fun w => w_recognised w && negb (String.eqb (w_handler w) "") &&
                                match wasm_role (w_variant w) with Some _ => true | None => false end) wasm_table = true)
    by (vm_compute; reflexivity).
  intros w Hw. rewrite forallb_forall in K. specialize (K w Hw).
  apply andb_prop in K. destruct K as [K K3]. apply andb_prop in K. destruct K as [K1 K2].
  split; [exact K1|]. split.
  - intro E. rewrite E in K2. discriminate.
  - destruct (wasm_role (w_variant w)); [discriminate|discriminate].
Qed.
Print Assumptions c12_wasm_variants_closed.

Theorem c12_wasm_other_chain_accepts : forall w chain sender, In w wasm_table ->
  mem chain named_networks = false -> ladder_accepts (w_ladder w) chain sender = true.
Proof.
  assert (K : c12_wasm_rungs_named = true) by (vm_compute; reflexivity).
  intros w chain sender Hw Hn. unfold c12_wasm_rungs_named in K. rewrite forallb_forall in K.
  specialize (K w Hw). unfold mem in *. exact (ladder_accepts_unnamed named_networks _ chain sender K Hn).
Qed.
Print Assumptions c12_wasm_other_chain_accepts.

(* kill switch: a signer that is not one of the configured admins gets an error before any write *)
Theorem c12_kill_switch_admin : exists h, find_handler "esm.MsgKillSwitch" = Some h /\
  forall (store : Type) (wr : string -> store -> store) (c : octx) (s : store), c_admin c = false ->
    exists code, exec wr helper_rows scan_fuel c (h_items h) s = RunErr s code.
Proof.
  assert (K : kill_switch_ok = true) by (vm_compute; reflexivity).
  unfold kill_switch_ok in K. destruct (find_handler "esm.MsgKillSwitch") as [h|]; [|discriminate].
  exists h. split; [reflexivity|]. intros store wr c s Ha.
  exact (scan_strict_no_write store wr helper_rows is_admin_guard c (admin_fires c Ha) scan_fuel _ s K).
Qed.
Print Assumptions c12_kill_switch_admin.

(* ---- non-vacuity ---- *)
(* the position-message list is not empty and contains the messages one expects *)
Example c12_position_msgs_nonempty :
  length position_msgs = 25%nat /\
  forallb (fun n => existsb (fun m => String.eqb (mt_qname m) n) position_msgs)
    ["vault.MsgWithdrawRequest"; "vault.MsgCloseRequest"; "vault.MsgDepositAndDrawRequest"; "locker.MsgWithdrawAssetRequest";
     "lend.MsgWithdraw"; "lend.MsgCloseBorrow"; "lend.MsgRepayWithdraw"; "liquidity.MsgCancelOrder"; "liquidity.MsgUnfarm";
     "auctionsV2.MsgWithdrawLimitBidRequest"] = true.
Proof. vm_compute. split; reflexivity. Qed.

(* the provenance check is not vacuous: 19 id-naming position messages are covered by owner
   comparisons, a lend looked up by the borrow's LendingID passes, by the borrow's own ID fails,
   a chain that does not start at the message fails *)
Example c12_owner_prov_nonvacuous :
  length (filter (fun m => negb (mem (mt_qname m) signer_keyed_msgs)) position_msgs) = 19%nat /\
  forallb (fun m => mem (mt_qname m) signer_keyed_msgs || negb (Nat.eqb (length (cmps_of (mt_handler m))) 0)) position_msgs = true /\
  owner_cmp_ok ["BorrowId"] (mkOwnerCmp "lend.CloseBorrow" "LendAsset.Owner" [("GetLend", ["BorrowAsset.LendingID"]); ("GetBorrow", ["msg.BorrowId"])]) = true /\
  owner_cmp_ok ["BorrowId"] (mkOwnerCmp "lend.CloseBorrow" "LendAsset.Owner" [("GetLend", ["BorrowAsset.ID"]); ("GetBorrow", ["msg.BorrowId"])]) = false /\
  owner_cmp_ok ["BorrowId"] (mkOwnerCmp "lend.CloseBorrow" "LendAsset.Owner" [("GetLend", ["?x"])]) = false /\
  owner_cmp_ok ["UserVaultId"] (mkOwnerCmp "vault.MsgClose" "Vault.Owner" [("GetVault", ["msg.LockerId"])]) = false /\
  owner_cmp_ok ["UserVaultId"] (mkOwnerCmp "vault.MsgClose" "Vault.Owner" [("GetLocker", ["msg.LockerId"])]) = false.
Proof. vm_compute. repeat split; reflexivity. Qed.

(* the exemptions are load-bearing: none of the exempt messages has an owner guard *)
Example c12_exempt_unguarded :
  forallb (fun m => negb (has_owner_guard m)) (filter (fun m => names_position m && is_exempt m) msg_types) = true /\
  length (filter (fun m => names_position m && is_exempt m) msg_types) = 7%nat.
Proof. vm_compute. split; reflexivity. Qed.

(* the classification is not vacuous: 36 messages name no position, 23 handlers belong to the extended
   matrix, 49 to the plain one; a liquidation by a stranger may change the named owner's records, a bid may not *)
Example c12_classification_nonvacuous :
  length no_position_msgs = 36%nat /\ length x_matrix_handlers = 23%nat /\ length base_matrix_handlers = 49%nat /\
  holds_C12_x "liquidationsV2.MsgLiquidateInternalKeeper" false false true true true false = true /\
  holds_C12_x "auction.MsgPlaceDutchBid" false false true true true false = false /\
  holds_C12_x "auction.MsgPlaceDutchBid" false false true true false true = false /\
  holds_C12_x "auctionsV2.MsgCancelLimitBid" false true true true true false = false /\
  holds_C12_x "auctionsV2.MsgCancelLimitBid" false true true true false false = true /\
  holds_C12_x "auctionsV2.MsgCancelLimitBid" false false true true false false = false.
Proof. vm_compute. repeat split; reflexivity. Qed.

(* a concrete run: vault withdraw with a mismatching owner returns "unauthorized" (code 1) on the
   untouched store, and succeeds for the owner *)
Example c12_run_nonowner :
  predict nonowner_ctx "vault.MsgWithdraw" = 1%Z /\ predict (ctrl_ctx false 0 0 false) "vault.MsgWithdraw" = 0%Z.
Proof. vm_compute. split; reflexivity. Qed.

Example c12_wasm_nonvacuous :
  wasm_model_accepts "MsgRebaseMint" "comdex-1" "comdex1nc5tatafv6eyq7llkr2gv50ff9e22mnf70qgjlv737ktmt4eswrqdfklyz" = Some true /\
  wasm_model_accepts "MsgRebaseMint" "comdex-1" "comdex17p9rzwnnfxcjp32un9ug7yhhzgtkhvl9jfksztgw5uh69wac2pgs4jg6dx" = Some false /\
  wasm_model_accepts "MsgRebaseMint" "verif-1" "anyone" = Some true /\ length wasm_table = 20%nat.
Proof. vm_compute. repeat split; reflexivity. Qed.
