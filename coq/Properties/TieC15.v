(* Tie (C) for C15 (and C09, which uses the same batch window).  gen_liquidationsV2_GetSliceStartEnd
   and gen_liquidation_GetSliceStartEnd are REGENERATED on every run from the two copies of
   GetSliceStartEndForLiquidations (x/liquidationsV2/types/offset.go:19, x/liquidation/types/
   liquidations.go:21); Sweep.slice_bounds is the hand-written model every sweep theorem of C15 / C09
   is about.  Go's int is 64 bits: offset + batchSize wraps (wrap_i64 = Sweep.wrap64).
   Pointwise equality for ALL integers. *)
From Coq Require Import String.
From Comdex Require Import Lib.Base Lib.DecArith Lib.GoSem Model.Sweep Gen.PureFuns Proofs.PureFunsLemmas.

Theorem tie_liquidationsV2_GetSliceStartEnd : forall len off batch,
  gen_liquidationsV2_GetSliceStartEnd len off batch = Ok (Sweep.slice_bounds len off batch).
Proof.
  intros. unfold gen_liquidationsV2_GetSliceStartEnd, slice_bounds.
  change (wrap_i64 (off + batch)) with (wrap64 (off + batch)).
  destruct ((off >=? len) || (off <? 0) || (batch <? 0)); [reflexivity|].
  cbv zeta. destruct ((wrap64 (off + batch) >=? len) || (wrap64 (off + batch) <? off)); reflexivity.
Qed.
Print Assumptions tie_liquidationsV2_GetSliceStartEnd.

Theorem tie_liquidation_GetSliceStartEnd : forall len off batch,
  gen_liquidation_GetSliceStartEnd len off batch = Ok (Sweep.slice_bounds len off batch).
Proof.
  intros. unfold gen_liquidation_GetSliceStartEnd, slice_bounds.
  change (wrap_i64 (off + batch)) with (wrap64 (off + batch)).
  destruct ((off >=? len) || (off <? 0) || (batch <? 0)); [reflexivity|].
  cbv zeta. destruct ((wrap64 (off + batch) >=? len) || (wrap64 (off + batch) <? off)); reflexivity.
Qed.
Print Assumptions tie_liquidation_GetSliceStartEnd.

Theorem tie_liquidation_recognised :
  gen_liquidationsV2_GetSliceStartEnd_unrecognised = [] /\ gen_liquidation_GetSliceStartEnd_unrecognised = [].
Proof. split; reflexivity. Qed.
Print Assumptions tie_liquidation_recognised.

(* non-vacuity: a batch size of 2^63-1 from offset 1 wraps and is clamped to the list *)
Example tie_liquidation_wrap_example :
  gen_liquidationsV2_GetSliceStartEnd 5 1 9223372036854775807 = Ok (1, 5).
Proof. vm_compute. reflexivity. Qed.
