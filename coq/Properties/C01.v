(* C01 — CDP vault custody and published totals always match the open vaults.
   Property theorems only; each is closed by [exact] of a lemma proved in Proofs/.

   [Inv01 c s] (Proofs/VaultInv.v) says, for the books [s] under the asset-module configuration [c]:
   (a) for EVERY denom d: bank balance of the custody account vaultV1 =
       sum of AmountIn over open vaults and stable-mint vaults whose collateral is d + the coins
       sent to the custody account unsolicited;
   (b) LengthOfVault = number of open vaults;
   (c) for EVERY (app, extended pair): CollateralLockedAmount / TokenMintedAmount = the sums of
       AmountIn / AmountOut over its records, and VaultIds = the ids of its records, ascending.
   [cfg_ok c]: what x/asset accepts (unique extended-pair ids, draw-down and closing fee in [0,1),
   a pair's two assets differ).  [user_op o]: the message is signed by a user account, not by
   the module accounts vaultV1 / collectorV1.

   FULL LIFE CYCLE (Model/VaultLife.v on top of Model/Vault.v): besides every vault / stable-mint message,
   unsolicited transfers and the environment (prices, time, ESM, breaker) the histories quantified over
   contain the wired generation-2 steps: seizure by liquidationsV2 (keeper message and BeginBlocker sweep),
   successful dutch-auction bids (partial and closing; the amounts are environment values bounded as C10
   proves), the auctionsV2 block tick (restart of expired auctions AND the ESM auction return TriggerEsm) and the
   esm vault redemption set-up.  The vaults
   "currently awaiting auction settlement" are exactly the liquidationsV2 locked-vault records; the clause of
   the property about them is carried by [InvL] (Proofs/VaultLifeInv.v), which is [Inv01] of the books with
   the locked vaults' collateral and principal subtracted from the published totals.
   [InvL] carries the identities corrected by ghost terms and holds in EVERY history, including those that run
   into the two known-finding classes where the identity of the property text fails on the faithful model
   (both reproduced on the real keepers by the workload C01-life):
   - C01-F2 [kf_C01_2]: a closing bid subtracts the seized vault's DEBT (principal + accrued interest +
     closing fee) from TokenMintedAmount although only the principal was ever added; [drift] is the sum of
     those excesses.
   - C01-F4 [kf_C01_4_denom / kf_C01_4_prod]: under emergency shutdown the auctionsV2 BeginBlocker hands an
     expired auction back (TriggerEsm) by re-creating / topping up the owner's vault without returning the
     collateral to custody, without a matching update of the totals and without closing the auction, in every
     block; [er_short], [er_coll], [er_mint] accumulate what each return leaves unbacked.
   The identity of the property text is proved wherever these ghosts are zero ([kf_C01_life] = false).
   Hypotheses on a history ([hist_ok], Proofs/VaultLifeHist.v): signers / liquidators / bidders are not the
   custody account, and the environment amounts of a successful bid respect the bounds Properties/C10.v
   (c10_bid_amounts) proves for the auction arithmetic (paid <= debt left, received <= collateral left).
   The theorems named ..._messages_... are the earlier statements over histories of vault messages only.

   EMERGENCY SHUTDOWN (Model/EsmLife.v on top of the life cycle): the histories of the theorems c01_esm_* also
   contain MsgDepositESM / MsgExecuteESM, the esm BeginBlocker (price snapshot; after the cool-off the vault,
   stable-mint and collector set-up steps; the share calculation), every keeper step called on its own, and
   MsgCollateralRedemption.  [InvE] (Proofs/EsmLifeInv.v) is [InvL] plus: custody of the esm account of EVERY
   denom = the collateral registered in the AssetToAmount records of all apps (>= 0) = collateral pooled by the
   set-up steps - collateral paid out by redemptions; the records have distinct keys and sides that agree with
   the role of their asset.  So through the whole shutdown
       vault custody + esm custody = collateral on open vaults and stable-mint vaults + unsolicited coins
                                     + collateral registered for redemption                (- the C01-F4 ghost),
   nothing is paid out that was not pooled, and the stable-mint set-up step leaves no stable-mint vault behind.
   Hypotheses: [eop_ok] = [lop_ok] + no message is signed by the esm module account; [roles_ok]: no asset is the
   collateral of one product and the debt asset of another.
   Finding C01-F5 (SetUpCollateralRedemptionForStableVault left the emptied stable-mint vault record behind) was
   reproduced on the real keepers; it is repaired by fixes/C01-F5/patch.diff and the model follows the repaired code. *)
From Comdex Require Import Lib.Base Lib.Atomic Model.Vault Model.VaultExample Model.VaultLife Model.VaultLifeExample
  Proofs.VaultProofs Proofs.VaultInv Proofs.VaultLifeBase Proofs.VaultLifeInv Proofs.VaultLifeHist Proofs.VaultLifeWitness.
From Comdex Require Import Model.EsmLife Model.EsmLifeExample Proofs.EsmLifeInv Proofs.EsmLifeHist Proofs.EsmLifeWitness.
From Coq Require Import Sorted.

(* the books before the first vault message satisfy the identity when custody is empty *)
Theorem c01_init : forall c b sp t pr, (forall d, b VAULT d = 0) -> Inv01 c (init b sp t pr).
Proof. exact inv01_init. Qed.
Print Assumptions c01_init.

(* one step: every successful message, for all amounts, users, products and environment values,
   re-establishes the identity *)
Theorem c01_step : forall c s o s', cfg_ok c -> user_op o -> Inv01 c s -> run c s o = Ok s' -> Inv01 c s'.
Proof. exact run_inv01. Qed.
Print Assumptions c01_step.

(* a message that returns an error or panics leaves every book, balance and counter unchanged *)
Theorem c01_rejected_noop : forall c s o, is_ok (run c s o) = false -> step c s o = s.
Proof. exact step_rejected. Qed.
Print Assumptions c01_rejected_noop.

(* between any two transactions of ANY finite history of vault messages (any interleaving of users, products,
   successful and rejected messages, price moves, time gaps, ESM / breaker switches, donations) *)
Theorem c01_messages_history : forall c ops s, cfg_ok c -> Forall user_op ops -> Inv01 c s -> Inv01 c (run_all c ops s).
Proof. intros c ops s CK U I. exact (history_inv01 c ops CK U s I). Qed.
Print Assumptions c01_messages_history.

(* the executable predicate that the runner evaluates on the implementation's observations is
   implied by the invariant: on the model it can never fail *)
Theorem c01_messages_predicate_holds : forall c ops b sp t pr denoms, cfg_ok c -> Forall user_op ops ->
  (forall d, b VAULT d = 0) -> holds_C01 c denoms (run_all c ops (init b sp t pr)) = true.
Proof.
  intros c ops b sp t pr denoms CK U Hb. apply inv01_holds.
  exact (history_inv01 c ops CK U _ (inv01_init c b sp t pr Hb)).
Qed.
Print Assumptions c01_messages_predicate_holds.

(* non-vacuity: the example configuration and history (Model/VaultExample.v) meet every hypothesis;
   13 messages succeed, 2 are rejected, a vault and a stable-mint vault stay open *)
Example c01_example_hyps : cfg_ok ex_cfg /\ Forall user_op ex_ops /\ Inv01 ex_cfg ex_init.
Proof. exact (conj ex_cfg_ok (conj ex_ops_users ex_init_inv)). Qed.
Example c01_example_run :
  classes ex_cfg ex_init ex_ops = [0; 0; 0; 0; 0; 0; 0; 0; 0; 0; 0; 0; 0; 1; 1] /\
  let s := run_all ex_cfg ex_ops ex_init in
  zlen (vaults s) = 1 /\ zlen (svaults s) = 1 /\ vlen s = 1 /\ bal s VAULT 1 = 12000777 /\ unsol s 1 = 777 /\
  prods s 1 1 = Some (mkP 12000000 2666666 [2]) /\ holds_C01 ex_cfg ex_denoms s = true.
Proof. vm_compute. repeat split; reflexivity. Qed.
(* the predicate is not trivially true: it rejects books whose counter is off by one *)
Example c01_predicate_discriminates :
  holds_C01 ex_cfg ex_denoms (set_vlen (run_all ex_cfg ex_ops ex_init) 2) = false.
Proof. vm_compute. reflexivity. Qed.

(* ====================== the full life cycle ====================== *)

(* the books before the first step *)
Theorem c01_life_init : forall c b sp t pr, (forall d, b VAULT d = 0) -> InvL c (lift (init b sp t pr)).
Proof. exact invL_init. Qed.
Print Assumptions c01_life_init.

(* one step of any kind: vault message, seizure (keeper message or sweep), bid, auction block tick (restart or
   ESM return), esm vault redemption *)
Theorem c01_life_step : forall c lc l o l', cfg_ok c -> lop_ok l o -> InvL c l -> lrun c lc l o = Ok l' -> InvL c l'.
Proof. exact lrun_invL. Qed.
Print Assumptions c01_life_step.

Theorem c01_life_rejected_noop : forall c lc l o, is_ok (lrun c lc l o) = false -> lstep c lc l o = l.
Proof. exact lstep_rejected. Qed.
Print Assumptions c01_life_rejected_noop.

(* between any two steps of EVERY finite history *)
Theorem c01_history : forall c lc ops l, cfg_ok c -> hist_ok c lc l ops -> InvL c l -> InvL c (lrun_all c lc ops l).
Proof. intros c lc ops l CK HO I. exact (history_invL c lc ops CK l HO I). Qed.
Print Assumptions c01_history.

(* what the invariant says, clause by clause of the property text; [er_short], [er_coll], [er_mint] are
   ghosts that only TriggerEsm moves, [drift] only a closing bid *)
Theorem c01_identities : forall c l, InvL c l ->
  (forall d, bal (vs l) VAULT d = coll_sum c (vs l) d + unsol (vs l) d - er_short l d) /\
  vlen (vs l) = zlen (vaults (vs l)) /\
  (forall a p, pcoll (vs l) a p = prod_coll_sum (vs l) a p + lock_coll l a p - er_coll l a p /\
               pmint (vs l) a p = prod_mint_sum (vs l) a p + lock_prin l a p - drift l a p - er_mint l a p /\
               pids (vs l) a p = prod_ids (vs l) a p /\ StronglySorted Z.lt (prod_ids (vs l) a p)).
Proof.
  intros c l I. split; [intros d; exact (invL_custody c l d I)|]. split; [exact (invL_count c l I)|].
  intros a p. exact (invL_prod c l a p I).
Qed.
Print Assumptions c01_identities.

(* the executable predicate of the property text, as the runner evaluates it on the implementation's
   observations, holds after every history outside the known-finding classes *)
Theorem c01_predicate_holds : forall c lc ops b sp t pr denoms, cfg_ok c -> (forall d, b VAULT d = 0) ->
  hist_ok c lc (lift (init b sp t pr)) ops ->
  kf_C01_life c denoms (lrun_all c lc ops (lift (init b sp t pr))) = false ->
  holds_C01_life c denoms (lrun_all c lc ops (lift (init b sp t pr))) = true.
Proof.
  intros c lc ops b sp t pr denoms CK Hb HO K. apply invL_holds; [|exact K].
  exact (history_invL c lc ops CK _ HO (invL_init c b sp t pr Hb)).
Qed.
Print Assumptions c01_predicate_holds.

(* ... and the ghost-corrected predicate (the invariant itself in executable form: the identities of
   [c01_identities]) holds after EVERY history, with no known-finding hypothesis on the final state; the runner
   uses it to tell a failure inside a known class from any other failure *)
Theorem c01_adjusted_predicate_holds : forall c lc ops b sp t pr denoms, cfg_ok c -> (forall d, b VAULT d = 0) ->
  hist_ok c lc (lift (init b sp t pr)) ops ->
  holds_C01_adj c denoms (lrun_all c lc ops (lift (init b sp t pr))) = true.
Proof.
  intros c lc ops b sp t pr denoms CK Hb HO. apply invL_holds_adj.
  exact (history_invL c lc ops CK _ HO (invL_init c b sp t pr Hb)).
Qed.
Print Assumptions c01_adjusted_predicate_holds.

(* C01-F2 refuted on the faithful model: after seizure and one full bid on a product with a closing fee no
   vault is open or awaiting settlement and the published TokenMintedAmount is -50000 *)
Theorem c01_settlement_totals_refuted :
  exists c lc l0 ops, cfg_ok c /\ InvL c l0 /\ hist_ok c lc l0 ops /\
    let l := lrun_all c lc ops l0 in
    vaults (vs l) = [] /\ lks l = [] /\ prods (vs l) 1 1 = Some (mkP 0 (-50000) []) /\
    c01l_mint l 1 1 = false /\ holds_C01_life c [1; 2] l = false /\ kf_C01_2 l 1 1 = true /\ drift l 1 1 = 50000.
Proof. exact settlement_totals_refuted. Qed.
Print Assumptions c01_settlement_totals_refuted.

(* C01-F4 refuted on the faithful model: two block ticks under emergency shutdown re-create the seized vault
   twice (16000000 collateral recorded, nothing in custody, the auction still open); the history meets every
   hypothesis, the ghost-corrected identities hold, the identities of the property text do not *)
Theorem c01_esm_return_refuted :
  exists c lc l0 ops, cfg_ok c /\ InvL c l0 /\ hist_ok c lc l0 ops /\
    let l1 := lrun_all c lc (firstn 5 ops) l0 in
    let l := lrun_all c lc ops l0 in
    nth 5 ops (Sweep []) = AucTick /\ nth 6 ops (Sweep []) = AucTick /\ length ops = 7%nat /\
    kf_C01_4 l1 true = true /\
    vaults (vs l) = [mkV 2 2 1 5 16000000 22400000 0 0] /\ bal (vs l) VAULT 1 = 0 /\ bal (vs l) AUC 1 = 8000000 /\
    zlen (lks l) = 1 /\ zlen (aus l) = 1 /\
    c01l_custody c l 1 = false /\ c01l_coll l 1 5 = false /\ c01l_mint l 1 5 = false /\ holds_C01_life c [1; 2] l = false /\
    kf_C01_4_denom l 1 = true /\ kf_C01_4_prod l 1 5 = true /\ er_short l 1 = 16000000 /\ holds_C01_adj c [1; 2] l = true.
Proof. exact esm_return_refuted. Qed.
Print Assumptions c01_esm_return_refuted.

(* non-vacuity: history A of Model/VaultLifeExample.v (two vaults, price fall, keeper seizure, partial bid,
   expiry + restart, sweep, closing bid) meets every hypothesis, all nine steps succeed, and at the point where
   vault 1 awaits settlement (after the partial bid) the published totals 38000000 / 20000000 are the open
   vault's 30000000 / 10000000 plus the locked vault's 8000000 / 10000000 *)
Example c01_life_example_hyps : cfg_ok lx_cfg /\ InvL lx_cfg lx_init /\ hist_ok lx_cfg lx_lc lx_init lx_ops_a.
Proof. exact (conj lx_cfg_ok (conj lx_init_inv lx_hist_a)). Qed.
Example c01_life_example_run :
  lclasses lx_cfg lx_lc lx_init lx_ops_a = [0; 0; 0; 0; 0; 0; 0; 0; 0] /\
  let m := lrun_all lx_cfg lx_lc (firstn 5 lx_ops_a) lx_init in
  let l := lrun_all lx_cfg lx_lc lx_ops_a lx_init in
  prods (vs m) 1 5 = Some (mkP 38000000 20000000 [2]) /\ lock_coll m 1 5 = 8000000 /\ lock_prin m 1 5 = 10000000 /\
  bal (vs m) VAULT 1 = 30000000 /\ vlen (vs m) = 1 /\ holds_C01_life lx_cfg lx_denoms m = true /\
  map au_end (aus (lrun_all lx_cfg lx_lc (firstn 7 lx_ops_a) lx_init)) = [2201] /\
  prods (vs l) 1 5 = Some (mkP 30000000 10000000 [2]) /\ lks l = [] /\ aus l = [] /\
  kf_C01_life lx_cfg lx_denoms l = false /\ holds_C01_life lx_cfg lx_denoms l = true.
Proof. vm_compute. repeat split; reflexivity. Qed.
(* the life predicate is not trivially true: it rejects the seeded behaviour "subtract the collateral LEFT in
   the auction" (6000000 instead of 8000000 stays in the published total) *)
Example c01_life_predicate_discriminates :
  let l := lrun_all lx_cfg lx_lc lx_ops_a lx_init in
  holds_C01_life lx_cfg lx_denoms (set_vs l (upd_coll (vs l) 1 5 2000000 true)) = false.
Proof. vm_compute. reflexivity. Qed.

(* ====================== emergency shutdown ====================== *)

(* the books before the first step: custody and the esm account empty *)
Theorem c01_esm_init : forall c b sp t pr tm, (forall d, b VAULT d = 0) -> (forall d, b ESMA d = 0) ->
  InvE c (elift (lift (init b sp t pr)) tm).
Proof. exact invE_init. Qed.
Print Assumptions c01_esm_init.

(* one step of any kind: a life-cycle step, MsgDepositESM, MsgExecuteESM, MsgCollateralRedemption, a keeper
   set-up step, the whole esm BeginBlocker *)
Theorem c01_esm_step : forall c lc ec e o e', cfg_ok c -> roles_ok c -> eop_ok e o -> InvE c e -> erun c lc ec e o = Ok e' -> InvE c e'.
Proof. intros c lc ec e o e' CK RO Hok I H. exact (proj1 (erun_pair c lc ec e o e' CK RO Hok I H)). Qed.
Print Assumptions c01_esm_step.

Theorem c01_esm_rejected_noop : forall c lc ec e o, is_ok (erun c lc ec e o) = false -> estep c lc ec e o = e.
Proof. exact estep_rejected. Qed.
Print Assumptions c01_esm_rejected_noop.

(* between any two steps of EVERY finite history through the emergency shutdown *)
Theorem c01_esm_history : forall c lc ec ops e, cfg_ok c -> roles_ok c -> ehist_ok c lc ec e ops -> InvE c e -> InvE c (erun_all c lc ec ops e).
Proof. intros c lc ec ops e CK RO HO I. exact (proj1 (ehistory_pair c lc ec ops CK RO e HO I)). Qed.
Print Assumptions c01_esm_history.

(* the custody identities through redemption: vault custody (as before), esm custody = registered collateral
   = pooled - paid out, paid out between 0 and pooled *)
Theorem c01_esm_identities : forall c e, InvE c e ->
  (forall d, bal (vs (el e)) VAULT d = coll_sum c (vs (el e)) d + unsol (vs (el e)) d - er_short (el e) d) /\
  (forall d, bal (vs (el e)) ESMA d = esm_coll e d) /\
  (forall d, esm_coll e d = epool e d - epaid e d /\ 0 <= epaid e d <= epool e d).
Proof. exact invE_identities. Qed.
Print Assumptions c01_esm_identities.

(* the executable predicates the runner evaluates on the implementation's observations: the identity of the
   property text (outside the known-finding classes of the auction path) together with the esm custody identity *)
Theorem c01_esm_predicate_holds : forall c lc ec ops b sp t pr tm denoms, cfg_ok c -> roles_ok c ->
  (forall d, b VAULT d = 0) -> (forall d, b ESMA d = 0) ->
  ehist_ok c lc ec (elift (lift (init b sp t pr)) tm) ops ->
  let e := erun_all c lc ec ops (elift (lift (init b sp t pr)) tm) in
  (kf_C01_life c denoms (el e) = false -> holds_C01_esm c denoms e = true) /\
  forallb (c01e_esm_custody e) denoms = true /\ forallb (c01e_paid_le_pool e) denoms = true.
Proof.
  intros c lc ec ops b sp t pr tm denoms CK RO Hb He HO e.
  pose proof (proj1 (ehistory_pair c lc ec ops CK RO _ HO (invE_init c b sp t pr tm Hb He))) as I. fold e in I.
  split; [intros K; exact (invE_holds c e denoms I K)|exact (invE_esm_custody c e denoms I)].
Qed.
Print Assumptions c01_esm_predicate_holds.

(* non-vacuity: the history of Model/EsmLifeExample.v (the one replayed on the real keepers) meets every hypothesis;
   all steps succeed but the four the keepers reject too; after the set-up block the vault custody of the three
   denoms is empty, the esm account holds 150000000 / 30000000 = the registered collateral, no vault and NO
   stable-mint vault is left (regression of C01-F5) and both product records read 0 / 0 / []; after the last
   redemption 31 and 7 base units of dust remain, = registered = pooled - paid out *)
Example c01_esm_example_hyps : cfg_ok ee_cfg /\ roles_ok ee_cfg /\ InvE ee_cfg ee_init /\ ehist_ok ee_cfg ee_lc ee_ec ee_init ee_ops.
Proof. exact (conj ee_cfg_ok (conj ee_roles_ok (conj ee_init_inv ee_hist))). Qed.
Example c01_f5_regression :
  eclasses ee_cfg ee_lc ee_ec ee_init ee_ops = [0; 0; 0; 0; 1; 0; 1; 0; 0; 0; 1; 0; 0; 0; 0; 0; 0; 0; 0] /\
  let m := erun_all ee_cfg ee_lc ee_ec (firstn 13 ee_ops) ee_init in
  let f := erun_all ee_cfg ee_lc ee_ec ee_ops ee_init in
  svaults (vs (el m)) = [] /\ vaults (vs (el m)) = [] /\
  map (fun d => (bal (vs (el m)) VAULT d, bal (vs (el m)) ESMA d, esm_coll m d)) ee_denoms = [(0, 150000000, 150000000); (0, 30000000, 30000000); (0, 0, 0)] /\
  prods (vs (el m)) 1 1 = Some (mkP 0 0 []) /\ prods (vs (el m)) 1 2 = Some (mkP 0 0 []) /\
  holds_C01_esm ee_cfg ee_denoms m = true /\
  map (fun d => (bal (vs (el f)) ESMA d, esm_coll f d, epool f d, epaid f d)) ee_denoms = [(31, 31, 150000000, 149999969); (7, 7, 30000000, 29999993); (0, 0, 0, 0)] /\
  kf_C01_life ee_cfg ee_denoms (el f) = false /\ holds_C01_esm ee_cfg ee_denoms f = true.
Proof. vm_compute. repeat split; reflexivity. Qed.
(* the predicate is not trivially true: it rejects the unrepaired behaviour (the stable-mint vault record left behind
   after its collateral has gone to the esm account) and an esm account one coin short of the records *)
Example c01_esm_predicate_discriminates :
  let m := erun_all ee_cfg ee_lc ee_ec (firstn 13 ee_ops) ee_init in
  holds_C01_esm ee_cfg ee_denoms (set_el m (set_vs (el m) (set_svaults (vs (el m)) [mkSV 1 1 2 30000000 30000000]))) = false /\
  holds_C01_esm ee_cfg ee_denoms (set_el m (set_vs (el m) (set_bal (vs (el m)) (fun a d => if (a =? ESMA) && (d =? 3) then 29999999 else bal (vs (el m)) a d)))) = false.
Proof. vm_compute. split; reflexivity. Qed.
