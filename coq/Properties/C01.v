(* C01 — CDP vault custody and published totals always match the open vaults.
   Property theorems only; each is closed by [exact] of a lemma proved in Proofs/.

   [Inv01 c s] (Proofs/VaultInv.v) says, for the books [s] under the asset-module configuration [c]:
   (a) for EVERY denom d: bank balance of the custody account vaultV1 =
       sum of AmountIn over open vaults and stable-mint vaults whose collateral is d + the coins
       sent to the custody account unsolicited;
   (b) LengthOfVault = number of open vaults;
   (c) for EVERY (app, extended pair): CollateralLockedAmount / TokenMintedAmount = the sums of
       AmountIn / AmountOut over its records, and VaultIds = the ids of its records, ascending.
   [cfg_ok c]: what x/asset accepts (unique extended-pair ids, draw-down and closing fee in [0,1),
   a pair's two assets differ).  [user_op o]: the message is signed by a user account, not by
   the module accounts vaultV1 / collectorV1.

   PARTIAL with respect to the property text in one respect, stated in the theorem names: the
   model (Model/Vault.v) contains every vault / stable-mint message, unsolicited transfers and
   the environment (prices, time, ESM, breaker) but NOT the liquidation sweeps, auction
   settlement and ESM redemption; in the histories quantified over no vault is ever "awaiting
   auction settlement", so those terms of clause (c) are identically zero here. *)
From Comdex Require Import Lib.Base Lib.Atomic Model.Vault Model.VaultExample Proofs.VaultProofs Proofs.VaultInv.

(* the books before the first vault message satisfy the identity when custody is empty *)
Theorem c01_init : forall c b sp t pr, (forall d, b VAULT d = 0) -> Inv01 c (init b sp t pr).
Proof. exact inv01_init. Qed.
Print Assumptions c01_init.

(* one step: every successful message, for all amounts, users, products and environment values,
   re-establishes the identity *)
Theorem c01_step : forall c s o s', cfg_ok c -> user_op o -> Inv01 c s -> run c s o = Ok s' -> Inv01 c s'.
Proof. exact run_inv01. Qed.
Print Assumptions c01_step.

(* a message that returns an error or panics leaves every book, balance and counter unchanged *)
Theorem c01_rejected_noop : forall c s o, is_ok (run c s o) = false -> step c s o = s.
Proof. exact step_rejected. Qed.
Print Assumptions c01_rejected_noop.

(* between any two transactions of ANY finite history (any interleaving of users, products,
   successful and rejected messages, price moves, time gaps, ESM / breaker switches, donations) *)
Theorem c01_history_partial : forall c ops s, cfg_ok c -> Forall user_op ops -> Inv01 c s -> Inv01 c (run_all c ops s).
Proof. intros c ops s CK U I. exact (history_inv01 c ops CK U s I). Qed.
Print Assumptions c01_history_partial.

(* the executable predicate that the runner evaluates on the implementation's observations is
   implied by the invariant: on the model it can never fail *)
Theorem c01_predicate_holds_partial : forall c ops b sp t pr denoms, cfg_ok c -> Forall user_op ops ->
  (forall d, b VAULT d = 0) -> holds_C01 c denoms (run_all c ops (init b sp t pr)) = true.
Proof.
  intros c ops b sp t pr denoms CK U Hb. apply inv01_holds.
  exact (history_inv01 c ops CK U _ (inv01_init c b sp t pr Hb)).
Qed.
Print Assumptions c01_predicate_holds_partial.

(* non-vacuity: the example configuration and history (Model/VaultExample.v) meet every hypothesis;
   13 messages succeed, 2 are rejected, a vault and a stable-mint vault stay open *)
Example c01_example_hyps : cfg_ok ex_cfg /\ Forall user_op ex_ops /\ Inv01 ex_cfg ex_init.
Proof. exact (conj ex_cfg_ok (conj ex_ops_users ex_init_inv)). Qed.
Example c01_example_run :
  classes ex_cfg ex_init ex_ops = [0; 0; 0; 0; 0; 0; 0; 0; 0; 0; 0; 0; 0; 1; 1] /\
  let s := run_all ex_cfg ex_ops ex_init in
  zlen (vaults s) = 1 /\ zlen (svaults s) = 1 /\ vlen s = 1 /\ bal s VAULT 1 = 12000777 /\ unsol s 1 = 777 /\
  prods s 1 1 = Some (mkP 12000000 2666666 [2]) /\ holds_C01 ex_cfg ex_denoms s = true.
Proof. vm_compute. repeat split; reflexivity. Qed.
(* the predicate is not trivially true: it rejects books whose counter is off by one *)
Example c01_predicate_discriminates :
  holds_C01 ex_cfg ex_denoms (set_vlen (run_all ex_cfg ex_ops ex_init) 2) = false.
Proof. vm_compute. reflexivity. Qed.
