(* C17 — Oracle price averaging is exact and activates only on a full window.
   Property theorems only; each is closed by [exact] of a lemma proved in Proofs/. *)
From Comdex Require Import Lib.Base Model.Market Proofs.MarketProofs Proofs.MarketBlock
  Model.BandOracle Proofs.BandOracleProofs.

(* [ops] is any finite history of what reaches one asset's record: samples (height, rate) with
   any rates including 0 and 2^64-1, discard resets and validation failures, in any order.
   [ghost_run] computes, from those inputs alone, the positive samples accepted since the last
   window reset (most recent first). *)

(* the price pipeline never indexes outside its window or panics, for every window size n >= 1 *)
Theorem c17_no_panic : forall n gap ops, 1 <= n ->
  exists t', mrun n gap None ops = Ok t' /\ Inv17 n (ghost_run gap ghost0 ops) t'.
Proof. intros n gap ops Hn. exact (mrun_inv n gap ops ghost0 None Hn (inv_init n)). Qed.
Print Assumptions c17_no_panic.

(* active only after n positive samples since the last reset, window never over-full *)
Theorem c17_activation : forall n gap ops tw, 1 <= n ->
  mrun n gap None ops = Ok (Some tw) ->
  (active tw = true -> zlen (g_hist (ghost_run gap ghost0 ops)) >= n) /\
  Forall (fun x => x > 0) (g_hist (ghost_run gap ghost0 ops)) /\
  zlen (vals tw) <= n /\ 0 <= idx tw /\ (active tw = true -> zlen (vals tw) = n /\ idx tw < n).
Proof.
  intros n gap ops tw Hn Hrun.
  destruct (mrun_inv n gap ops ghost0 None Hn (inv_init n)) as (t' & Hr & HI).
  rewrite Hrun in Hr. injection Hr as <-.
  split; [exact (inv_activation n _ tw HI)|].
  split.
  - apply ghost_run_pos. constructor.
  - exact (inv_index n _ tw Hn HI).
Qed.
Print Assumptions c17_activation.

(* from then on the published price is the integer mean of the most recent n samples (the sum
   is carried in 128 bits since the fix of C17-F2, so there is no wrap guard) *)
Theorem c17_mean : forall n gap ops h r t tw', 1 <= n -> r > 0 ->
  mrun n gap None ops = Ok t ->
  mstep n gap t (Sample h r) = Ok (Some tw') -> active tw' = true ->
  let hist := g_hist (ghost_run gap ghost0 (ops ++ [Sample h r])) in
  avg tw' = zsum (firstn (Z.to_nat n) hist) / n.
Proof.
  intros n gap ops h r t tw' Hn Hr Hrun Hs Ha hist.
  destruct (mrun_inv n gap ops ghost0 None Hn (inv_init n)) as (t0 & Hr0 & HI).
  rewrite Hrun in Hr0. injection Hr0 as <-.
  assert (Hm := sample_mean n gap _ t h r _ tw' Hn HI Hr Hs eq_refl Ha).
  assert (Hh : hist = g_hist (ghost_step gap (ghost_run gap ghost0 ops) (Sample h r))).
  { unfold hist, ghost_run. rewrite fold_left_app. reflexivity. }
  rewrite Hh. exact Hm.
Qed.
Print Assumptions c17_mean.

(* a zero sample deactivates the price and keeps the window *)
Theorem c17_zero_deactivates : forall n gap h tw, DiscOk tw ->
  exists tw', update n gap h 0 (Some tw) = Ok (Some tw') /\ active tw' = false /\
              vals tw' = vals tw /\ idx tw' = idx tw.
Proof. exact zero_deactivates. Qed.
Print Assumptions c17_zero_deactivates.

(* [DiscOk] holds in every reachable state when block heights are positive *)
Theorem c17_discok_step : forall n gap t o t',
  (match o with Sample h _ => 0 < h | _ => True end) ->
  (match t with Some tw => DiscOk tw | None => True end) ->
  mstep n gap t o = Ok t' ->
  match t' with Some tw => DiscOk tw | None => True end.
Proof. exact mstep_discok. Qed.
Print Assumptions c17_discok_step.

(* resume rule: fresh data within the accepted gap keeps the window, beyond it restarts *)
Theorem c17_resume_rule : forall n gap h r tw, r > 0 -> disc tw > 0 ->
  update n gap h r (Some tw) =
    if h - disc tw <? gap
    then update_tail n r (Some (mkTwa (vals tw) (idx tw) (avg tw) (active tw) (-1)))
    else update_tail n r (Some (mkTwa [] 0 (avg tw) false (-1))).
Proof.
  intros n gap h r tw Hr Hd. unfold update.
  destruct (Z.leb_spec r 0); [lia|]. cbn [andb].
  destruct (Z.gtb_spec r 0); [|lia]. destruct (Z.gtb_spec (disc tw) 0); [|lia]. reflexivity.
Qed.
Print Assumptions c17_resume_rule.

(* consumers of an inactive price get an error *)
Theorem c17_inactive_error : forall t,
  (match t with Some tw => active tw = false | None => True end) ->
  price_in_force t = Err 1 /\ get_latest t = Err 1.
Proof. intros [tw|] H; cbn; [rewrite H|]; auto. Qed.
Print Assumptions c17_inactive_error.

(* the whole market.BeginBlocker (discard reset, rate indexing by position among the
   price-requiring assets, validation-failed branch) does to each asset's record exactly what the
   per-asset pipeline does on the ops it delivers to that asset: the theorems above therefore
   speak about every block-level history *)
Theorem c17_block_refines : forall e assets s s' d,
  begin_block e assets s = Ok (s', d) ->
  forall id, mrun (bb_n e) (bb_gap e) (sget s id) (filter_ops id (bb_ops e assets (map fst s))) = Ok (sget s' id).
Proof. exact begin_block_refines. Qed.
Print Assumptions c17_block_refines.

Theorem c17_block_inv : forall e assets s s' d g id,
  1 <= bb_n e ->
  begin_block e assets s = Ok (s', d) ->
  Inv17 (bb_n e) g (sget s id) ->
  Inv17 (bb_n e) (ghost_run (bb_gap e) g (filter_ops id (bb_ops e assets (map fst s)))) (sget s' id).
Proof. exact begin_block_asset_inv. Qed.
Print Assumptions c17_block_inv.

(* market.BeginBlocker never panics on a store whose records satisfy the ring invariant and
   re-establishes it (so, by induction over blocks from the empty store, no block of any history
   panics - the block-level form of "never indexes outside its window or panics") *)
Theorem c17_block_no_panic : forall e assets s,
  1 <= bb_n e -> StoreInv (bb_n e) s ->
  exists s' d, begin_block e assets s = Ok (s', d) /\ StoreInv (bb_n e) s'.
Proof. exact begin_block_no_panic. Qed.
Print Assumptions c17_block_no_panic.

(* ---- formerly refuted, now proved: the two defects repaired in /repo by "fix:" commits ---- *)

(* window size 1 (C17-F1): the first sample completes the window; any history is panic-free and
   the published value is the last sample *)
Theorem c17_n1_holds : forall gap ops, exists t', mrun 1 gap None ops = Ok t'.
Proof.
  intros gap ops. destruct (mrun_inv 1 gap ops ghost0 None ltac:(lia) (inv_init 1)) as (t' & H & _).
  exists t'. exact H.
Qed.
Print Assumptions c17_n1_holds.

(* large samples (C17-F2): two samples of 2^63 publish 2^63, not 0 *)
Theorem c17_no_wrap_witness : exists tw,
  mrun 2 10 None [Sample 20 9223372036854775808; Sample 40 9223372036854775808] = Ok (Some tw) /\
  active tw = true /\ avg tw = 9223372036854775808.
Proof. eexists. vm_compute. repeat split. Qed.
Print Assumptions c17_no_wrap_witness.

(* non-vacuity: a concrete history that meets the hypotheses and reaches an active state *)
Example c17_nonvacuous :
  exists tw, mrun 3 10 None [Sample 20 5; Sample 40 7; Sample 60 9; Sample 80 11] = Ok (Some tw)
             /\ active tw = true /\ avg tw = 9.
Proof. eexists. vm_compute. repeat split. Qed.

Example c17_nonvacuous_n1 :
  exists tw, mrun 1 10 None [Sample 20 5; Sample 40 7] = Ok (Some tw) /\ active tw = true /\ avg tw = 7.
Proof. eexists. vm_compute. repeat split. Qed.

(* ==================================================================================== *)
(* The whole pipeline, block after block (Model/BandOracle.v): bandoracle.BeginBlocker then
   market.BeginBlocker, the IBC callbacks (Ack / Result), the fetch-price proposal (Register) and
   asset registration.  [ops] is any finite history of those; [prun_g] threads the model state and
   the observer [gs] (per asset: the positive samples delivered since the last wipe of its window,
   where a wipe is the band-level discard, the per-record gap restart, or a registration).
   [op_typed]: the TwaBatchSize of a proposal is a uint64 (>= 0). *)

(* no block of any history panics; every reachable state satisfies the pipeline invariant
   (ring invariant + "active => avg = mean" for every asset, discard flag consumed in the block
   that raises it, a registered configuration has N >= 1) *)
Theorem c17_pipe_no_panic : forall ops, Forall op_typed ops ->
  exists p gs, prun_g pinit [] ops = Ok (p, gs) /\ PInv p gs /\ AssetsOk (p_assets p).
Proof. exact reachable_inv. Qed.
Print Assumptions c17_pipe_no_panic.

(* an active price is always the integer mean of N positive samples that were all delivered after
   the last wipe of that asset's window (and after the last registration) *)
Theorem c17_pipe_active_mean : forall ops p gs id tw, Forall op_typed ops ->
  prun_g pinit [] ops = Ok (p, gs) ->
  sget (p_store p) id = Some tw -> active tw = true ->
  let n := f_n (b_msg (p_band p)) in
  let hist := g_hist (gget gs id) in
  1 <= n /\ zlen hist >= n /\ Forall (fun x => x > 0) hist /\
  zlen (vals tw) = n /\ 0 <= idx tw < n /\ avg tw = zsum (firstn (Z.to_nat n) hist) / n.
Proof.
  intros ops p gs id tw Ht Hr Hg Ha.
  destruct (prun_g_inv ops pinit [] Ht pinv_init) as (p' & gs' & Hr' & HP).
  rewrite Hr in Hr'. injection Hr' as <- <-.
  exact (pinv_active p gs id tw HP Hg Ha).
Qed.
Print Assumptions c17_pipe_active_mean.

(* the boolean the runner evaluates on the implementation's records is exactly the invariant, and
   every record of every reachable model state satisfies it *)
Theorem c17_pipe_predicate : forall ops p gs id, Forall op_typed ops ->
  prun_g pinit [] ops = Ok (p, gs) ->
  holds_C17_pipe (f_n (b_msg (p_band p))) (gget gs id) (sget (p_store p) id) = true.
Proof.
  intros ops p gs id Ht Hr.
  destruct (prun_g_inv ops pinit [] Ht pinv_init) as (p' & gs' & Hr' & HP).
  rewrite Hr in Hr'. injection Hr' as <- <-.
  apply holds_pipe_iff. destruct HP as (_ & _ & _ & HI & _). apply HI.
Qed.
Print Assumptions c17_pipe_predicate.

(* (re-)registration: no Twa record of the old configuration survives, the observer restarts, the
   discard data is reset; a proposal with TwaBatchSize = 0 changes nothing *)
Theorem c17_pipe_register_wipes : forall p gs h m, f_n m <> 0 ->
  exists p', pstep p (Register h m) = Ok p' /\ p_store p' = [] /\ pghost p gs (Register h m) = [] /\
    b_msg (p_band p') = m /\ b_block (p_band p') = h /\ b_check (p_band p') = false /\
    b_dheight (p_band p') = -1 /\ b_dbool (p_band p') = false /\ p_assets p' = p_assets p.
Proof. exact register_effect. Qed.
Print Assumptions c17_pipe_register_wipes.

Theorem c17_pipe_register_zero_rejected : forall p gs h m, f_n m = 0 ->
  pstep p (Register h m) = Ok p /\ pghost p gs (Register h m) = gs.
Proof. intros p gs h m H. cbn [pstep pghost]. rewrite H. split; reflexivity. Qed.
Print Assumptions c17_pipe_register_zero_rejected.

(* the outage boundary the code uses.  From a state whose last check was answered (discard height
   < 0, no new acknowledgement since): the check at h0 is silent, [mid] holds any further blocks and
   arriving results but no acknowledgement, then request r is acknowledged, [post] holds results and
   blocks that are not checks, and h1 is the next check.  Then the band hook at h1 validates, resets
   the discard height and raises the discard flag IFF h1 - h0 >= AcceptedHeightDiff (h0 = the first
   silent check, h1 = the first answered check; the last consumed sample is 20 blocks older). *)
Theorem c17_band_outage_boundary : forall p h0 mid r post h1,
  b_block (p_band p) <> 0 -> b_check (p_band p) = true -> b_dheight (p_band p) < 0 ->
  b_last (p_band p) = b_temp (p_band p) -> b_dbool (p_band p) = false ->
  0 < h0 -> h0 mod 20 = 0 -> h1 mod 20 = 0 ->
  Forall silent_op mid -> Forall quiet_op post -> r <> b_last (p_band p) ->
  exists p1, prun p (Block h0 :: mid ++ Ack r :: post) = Ok p1 /\
    b_dheight (p_band p1) = h0 /\ b_valid (p_band p1) = false /\
    let b' := band_begin_block h1 (p_band p1) in
    b_valid b' = true /\ b_dheight b' = -1 /\
    b_dbool b' = (h1 - h0 >=? f_gap (b_msg (p_band p))).
Proof.
  intros p h0 mid r post h1 Hb Hc Hd Hl Hdb Hh Hm0 Hm1 Hmid Hpost Hr.
  destruct (outage_run p h0 mid r post Hb Hc Hd Hl Hdb Hh Hm0 Hmid Hpost Hr) as (p1 & Hr1 & HPend).
  exists p1. split; [exact Hr1|].
  destruct (pending_check h0 _ _ r h1 (p_band p1) Hh Hr Hm1 HPend) as (Hv & Hdh & Hdbool & _).
  destruct HPend as (_ & _ & H3 & _ & _ & H6 & _).
  split; [exact H3|]. split; [exact H6|]. cbv zeta. auto.
Qed.
Print Assumptions c17_band_outage_boundary.

(* ... and on the pipeline: the block at h1 delivers a DiscardReset to EVERY stored record before
   any sample when h1 - h0 >= AcceptedHeightDiff (none otherwise); every window that existed is
   then left with at most the one sample of this block, and for N >= 2 its price is inactive *)
Theorem c17_pipe_outage_wipes : forall p gs h0 mid r post h1,
  PInv p gs -> AssetsOk (p_assets p) ->
  b_block (p_band p) <> 0 -> b_check (p_band p) = true -> b_dheight (p_band p) < 0 ->
  b_last (p_band p) = b_temp (p_band p) ->
  0 < h0 -> h0 mod 20 = 0 -> h1 mod 20 = 0 ->
  Forall silent_op mid -> Forall quiet_op post -> r <> b_last (p_band p) ->
  let m := b_msg (p_band p) in
  exists p1 gs1 p2,
    prun_g p gs (Block h0 :: mid ++ Ack r :: post) = Ok (p1, gs1) /\
    b_dheight (p_band p1) = h0 /\ b_valid (p_band p1) = false /\
    pstep p1 (Block h1) = Ok p2 /\ PInv p2 (pghost p1 gs1 (Block h1)) /\
    b_msg (p_band p2) = m /\ b_valid (p_band p2) = true /\ b_dheight (p_band p2) = -1 /\
    block_ops h1 p1 =
      (if h1 - h0 >=? f_gap m then map (fun id => (id, DiscardReset)) (map fst (p_store p1)) else [])
      ++ bb_samples h1 (lookup_result (b_results (p_band p1)) r) (p_assets p1) (-1) /\
    (h1 - h0 >= f_gap m -> forall id, sget (p_store p1) id <> None ->
       (length (g_hist (gget (pghost p1 gs1 (Block h1)) id)) <= 1)%nat /\
       (2 <= f_n m -> forall tw, sget (p_store p2) id = Some tw -> active tw = false)).
Proof. exact outage_pipeline. Qed.
Print Assumptions c17_pipe_outage_wipes.

(* ---- non-vacuity: concrete block histories (N = 2, AcceptedHeightDiff = 40) ---- *)
Definition ex_warm : list pop :=
  [AddAsset true; Register 1 (mkFmsg 7 2 40); Block 20;
   Ack 1; Result 1 [1000000]; Block 40; Ack 2; Result 2 [3000000]; Block 60].

Definition ex_price (ops : list pop) : option (bool * Z * list Z) :=
  match prun_g pinit [] ops with
  | Ok (p, _) => match sget (p_store p) 1 with
                 | Some tw => Some (active tw, avg tw, vals tw)
                 | None => None end
  | _ => None
  end.

(* the warm state meets the hypotheses of the outage theorems *)
Example c17_pipe_outage_hyps :
  exists p gs, prun_g pinit [] ex_warm = Ok (p, gs) /\
    b_block (p_band p) <> 0 /\ b_check (p_band p) = true /\ b_dheight (p_band p) < 0 /\
    b_last (p_band p) = b_temp (p_band p) /\ b_dbool (p_band p) = false /\
    ex_price ex_warm = Some (true, 2000000, [1000000; 3000000]).
Proof. eexists _, _. split; [vm_compute; reflexivity|]. vm_compute. repeat split; congruence. Qed.

(* outage of AcceptedHeightDiff - 20 (silent at 80, answered at 100): window kept, mean(5, 3) *)
Example c17_pipe_outage_short :
  ex_price (ex_warm ++ [Block 80; Ack 3; Result 3 [5000000]; Block 100])
  = Some (true, 4000000, [5000000; 3000000]).
Proof. vm_compute. reflexivity. Qed.

(* outage of exactly AcceptedHeightDiff (silent at 80 and 100, answered at 120): the window is
   wiped, one fresh sample does not activate, the second publishes the mean of the two fresh ones *)
Example c17_pipe_outage_exact :
  ex_price (ex_warm ++ [Block 80; Block 100; Ack 3; Result 3 [9000000]; Block 120])
  = Some (false, 2000000, [9000000]) /\
  ex_price (ex_warm ++ [Block 80; Block 100; Ack 3; Result 3 [9000000]; Block 120;
                        Ack 4; Result 4 [11000000]; Block 140])
  = Some (true, 10000000, [9000000; 11000000]).
Proof. vm_compute. split; reflexivity. Qed.

(* outage of AcceptedHeightDiff + 20 *)
Example c17_pipe_outage_long :
  ex_price (ex_warm ++ [Block 80; Block 100; Block 120; Ack 3; Result 3 [9000000]; Block 140])
  = Some (false, 2000000, [9000000]).
Proof. vm_compute. reflexivity. Qed.

(* while the oracle is silent the price is inactive (consumers get an error) *)
Example c17_pipe_silent_inactive :
  ex_price (ex_warm ++ [Block 80]) = Some (false, 2000000, [1000000; 3000000]).
Proof. vm_compute. reflexivity. Qed.

(* re-registration of the same script with a larger window: nothing survives; three fresh samples
   are needed and the first published value is their mean *)
Example c17_pipe_reregistration :
  ex_price (ex_warm ++ [Register 70 (mkFmsg 7 3 40)]) = None /\
  ex_price (ex_warm ++ [Register 70 (mkFmsg 7 3 40); Block 80; Ack 3; Result 3 [3000000]; Block 100;
                        Ack 4; Result 4 [4000000]; Block 120])
  = Some (false, 0, [3000000; 4000000]) /\
  ex_price (ex_warm ++ [Register 70 (mkFmsg 7 3 40); Block 80; Ack 3; Result 3 [3000000]; Block 100;
                        Ack 4; Result 4 [4000000]; Block 120; Ack 5; Result 5 [8000000]; Block 140])
  = Some (true, 5000000, [3000000; 4000000; 8000000]).
Proof. vm_compute. repeat split; reflexivity. Qed.

(* ==================================================================================== *)
(* Freshness (finding C17-F4, fixed: 0376b67): is every delivered sample fresh?
   [prun_f] threads, from the inputs alone, the request ids whose result has been delivered to the
   windows ([cons]) and the acknowledged ids; [acks_ok]: Band's request ids are unique and non-zero.
   Before the repair the first check after a check-flag reset (registration, or AddAssetRecords /
   UpdateAssetRecords of a price-requiring asset) stored TempFetchPriceID = 0, so the next check
   took the last acknowledged request for a new one even when it was consumed long ago.  The
   repaired hook stores TempFetchPriceID = LastFetchPriceID there: whatever was acknowledged before
   the restart counts as seen, and only a request acknowledged afterwards validates. *)

(* every result a check hands to the windows belongs to a request that was never delivered before *)
Theorem c17_pipe_fresh : forall ops p cons acked h, acks_ok [] ops ->
  prun_f pinit [] [] ops = Ok (p, cons, acked) ->
  holds_C17_fresh cons (delivered_id h (band_begin_block h (p_band p))) = true.
Proof.
  intros ops p cons acked h Ha Hr.
  exact (fresh_always p cons acked h (prun_f_inv ops _ _ _ _ _ _ Ha finv_init Hr)).
Qed.
Print Assumptions c17_pipe_fresh.

(* over the whole history: the delivered request ids are pairwise distinct, and each one is a
   non-zero id that was acknowledged *)
Theorem c17_pipe_delivered_once : forall ops p cons acked, acks_ok [] ops ->
  prun_f pinit [] [] ops = Ok (p, cons, acked) ->
  NoDup cons /\ (forall r, In r cons -> In r acked /\ r <> 0).
Proof.
  intros ops p cons acked Ha Hr.
  exact (delivered_once p cons acked (prun_f_inv ops _ _ _ _ _ _ Ha finv_init Hr)).
Qed.
Print Assumptions c17_pipe_delivered_once.

(* both together on one history: an active price is the integer mean of N positive samples that
   were all delivered after the last wipe of the window, and no request's result was delivered to
   the windows twice *)
Theorem c17_pipe_active_fresh : forall ops p gs p' cons acked id tw,
  Forall op_typed ops -> acks_ok [] ops ->
  prun_g pinit [] ops = Ok (p, gs) -> prun_f pinit [] [] ops = Ok (p', cons, acked) ->
  sget (p_store p) id = Some tw -> active tw = true ->
  let n := f_n (b_msg (p_band p)) in
  let hist := g_hist (gget gs id) in
  p' = p /\ NoDup cons /\
  1 <= n /\ zlen hist >= n /\ Forall (fun x => x > 0) hist /\
  avg tw = zsum (firstn (Z.to_nat n) hist) / n.
Proof.
  intros ops p gs p' cons acked id tw Ht Ha Hg Hf Hs Hact. cbv zeta.
  pose proof (prun_of_prun_g _ _ _ _ _ Hg) as E1. pose proof (prun_of_prun_f _ _ _ _ _ _ _ Hf) as E2.
  rewrite E1 in E2. injection E2 as <-.
  destruct (c17_pipe_delivered_once ops p cons acked Ha Hf) as [Hnd _].
  destruct (c17_pipe_active_mean ops p gs id tw Ht Hg Hs Hact) as (H1 & H2 & H3 & _ & _ & H6).
  repeat split; assumption.
Qed.
Print Assumptions c17_pipe_active_fresh.

(* the first check after a check-flag reset: validates nothing, delivers nothing, and remembers
   the last acknowledged id as seen *)
Theorem c17_band_first_check : forall h b,
  b_block b <> 0 -> h mod 20 = 0 -> b_check b = false ->
  let b' := band_begin_block h b in
  b_temp b' = b_last b /\ b_last b' = b_last b /\ b_check b' = true /\ b_valid b' = false /\
  b_dheight b' = b_dheight b /\ b_dbool b' = b_dbool b /\ delivered_id h b' = None.
Proof. exact first_check. Qed.
Print Assumptions c17_band_first_check.

(* regression for C17-F4 (the witness of the former c17_pipe_fresh_refuted; N = 1,
   AcceptedHeightDiff = 40): the oracle is silent from block 60 on, an asset is added at 100, the
   first check after the reset is at 120.  The check at 140 used to end the "outage" by
   re-delivering the result consumed at 60 (price active again with the pre-outage value 3000000
   although no result had arrived).  Now it is one more silent check: nothing is delivered, the
   outage goes on (discard height 80), the price stays inactive. *)
Definition ex_stale : list pop :=
  [AddAsset true; Register 1 (mkFmsg 7 1 40); Block 20; Ack 1; Result 1 [1000000]; Block 40;
   Ack 2; Result 2 [3000000]; Block 60; Block 80; Block 100; AddAsset true; Block 120].

Example c17_pipe_stale_regression : exists p cons acked p' tw,
  acks_ok [] ex_stale /\ Forall op_typed ex_stale /\
  prun_f pinit [] [] ex_stale = Ok (p, cons, acked) /\
  b_dheight (p_band p) = 80 /\ b_valid (p_band p) = false /\
  b_temp (p_band p) = 2 /\ b_last (p_band p) = 2 /\ cons = [2; 1] /\
  delivered_id 140 (band_begin_block 140 (p_band p)) = None /\
  holds_C17_fresh cons (delivered_id 140 (band_begin_block 140 (p_band p))) = true /\
  b_dbool (band_begin_block 140 (p_band p)) = false /\
  b_valid (band_begin_block 140 (p_band p)) = false /\
  pstep p (Block 140) = Ok p' /\ b_dheight (p_band p') = 80 /\
  sget (p_store p') 1 = Some tw /\ active tw = false /\ vals tw = [3000000].
Proof.
  eexists _, _, _, _, _. split.
  { cbn. intuition (try discriminate). }
  split; [repeat constructor; cbn; lia|].
  split; [vm_compute; reflexivity|]. vm_compute. repeat split; reflexivity.
Qed.

(* ... and when a request IS acknowledged after the restart, the check delivers it (once): the
   outage 80..140 >= 40 wipes the window, the fresh sample activates the price (N = 1) *)
Example c17_pipe_stale_then_fresh :
  ex_price (ex_stale ++ [Ack 3; Result 3 [7000000]; Block 140]) = Some (true, 7000000, [7000000]) /\
  ex_price (ex_stale ++ [Ack 3; Result 3 [7000000]; Block 140; Block 160])
  = Some (false, 7000000, [7000000]).
Proof. vm_compute. split; reflexivity. Qed.

(* a request acknowledged between the reset and the first check belongs to the configuration
   before the restart: it counts as seen and is not delivered (second harness regression history:
   reset by a re-registration during the outage) *)
Example c17_pipe_restart_marks_seen : exists p cons acked,
  prun_f pinit [] [] (ex_warm ++ [Block 80; Register 90 (mkFmsg 7 2 40); Block 100]) = Ok (p, cons, acked) /\
  b_temp (p_band p) = 2 /\ b_last (p_band p) = 2 /\ cons = [2; 1] /\
  delivered_id 120 (band_begin_block 120 (p_band p)) = None.
Proof. eexists _, _, _. split; [vm_compute; reflexivity|]. vm_compute. repeat split; reflexivity. Qed.

(* non-vacuity of c17_pipe_fresh: in the warm history every check delivers a new result *)
Example c17_pipe_fresh_nonvacuous : exists p cons acked,
  acks_ok [] (ex_warm ++ [Ack 3; Result 3 [5]]) /\
  prun_f pinit [] [] (ex_warm ++ [Ack 3; Result 3 [5]]) = Ok (p, cons, acked) /\
  delivered_id 80 (band_begin_block 80 (p_band p)) = Some 3 /\ cons = [2; 1] /\
  holds_C17_fresh cons (delivered_id 80 (band_begin_block 80 (p_band p))) = true.
Proof.
  eexists _, _, _. split; [cbn; intuition (try discriminate)|].
  split; [vm_compute; reflexivity|]. vm_compute. repeat split; reflexivity.
Qed.
