(* C17 — Oracle price averaging is exact and activates only on a full window.
   Property theorems only; each is closed by [exact] of a lemma proved in Proofs/. *)
From Comdex Require Import Lib.Base Model.Market Proofs.MarketProofs Proofs.MarketBlock.

(* [ops] is any finite history of what reaches one asset's record: samples (height, rate) with
   any rates including 0 and 2^64-1, discard resets and validation failures, in any order.
   [ghost_run] computes, from those inputs alone, the positive samples accepted since the last
   window reset (most recent first). *)

(* the price pipeline never indexes outside its window or panics, for every window size n >= 1 *)
Theorem c17_no_panic : forall n gap ops, 1 <= n ->
  exists t', mrun n gap None ops = Ok t' /\ Inv17 n (ghost_run gap ghost0 ops) t'.
Proof. intros n gap ops Hn. exact (mrun_inv n gap ops ghost0 None Hn (inv_init n)). Qed.
Print Assumptions c17_no_panic.

(* active only after n positive samples since the last reset, window never over-full *)
Theorem c17_activation : forall n gap ops tw, 1 <= n ->
  mrun n gap None ops = Ok (Some tw) ->
  (active tw = true -> zlen (g_hist (ghost_run gap ghost0 ops)) >= n) /\
  Forall (fun x => x > 0) (g_hist (ghost_run gap ghost0 ops)) /\
  zlen (vals tw) <= n /\ 0 <= idx tw /\ (active tw = true -> zlen (vals tw) = n /\ idx tw < n).
Proof.
  intros n gap ops tw Hn Hrun.
  destruct (mrun_inv n gap ops ghost0 None Hn (inv_init n)) as (t' & Hr & HI).
  rewrite Hrun in Hr. injection Hr as <-.
  split; [exact (inv_activation n _ tw HI)|].
  split.
  - apply ghost_run_pos. constructor.
  - exact (inv_index n _ tw Hn HI).
Qed.
Print Assumptions c17_activation.

(* from then on the published price is the integer mean of the most recent n samples (the sum
   is carried in 128 bits since the fix of C17-F2, so there is no wrap guard) *)
Theorem c17_mean : forall n gap ops h r t tw', 1 <= n -> r > 0 ->
  mrun n gap None ops = Ok t ->
  mstep n gap t (Sample h r) = Ok (Some tw') -> active tw' = true ->
  let hist := g_hist (ghost_run gap ghost0 (ops ++ [Sample h r])) in
  avg tw' = zsum (firstn (Z.to_nat n) hist) / n.
Proof.
  intros n gap ops h r t tw' Hn Hr Hrun Hs Ha hist.
  destruct (mrun_inv n gap ops ghost0 None Hn (inv_init n)) as (t0 & Hr0 & HI).
  rewrite Hrun in Hr0. injection Hr0 as <-.
  assert (Hm := sample_mean n gap _ t h r _ tw' Hn HI Hr Hs eq_refl Ha).
  assert (Hh : hist = g_hist (ghost_step gap (ghost_run gap ghost0 ops) (Sample h r))).
  { unfold hist, ghost_run. rewrite fold_left_app. reflexivity. }
  rewrite Hh. exact Hm.
Qed.
Print Assumptions c17_mean.

(* a zero sample deactivates the price and keeps the window *)
Theorem c17_zero_deactivates : forall n gap h tw, DiscOk tw ->
  exists tw', update n gap h 0 (Some tw) = Ok (Some tw') /\ active tw' = false /\
              vals tw' = vals tw /\ idx tw' = idx tw.
Proof. exact zero_deactivates. Qed.
Print Assumptions c17_zero_deactivates.

(* [DiscOk] holds in every reachable state when block heights are positive *)
Theorem c17_discok_step : forall n gap t o t',
  (match o with Sample h _ => 0 < h | _ => True end) ->
  (match t with Some tw => DiscOk tw | None => True end) ->
  mstep n gap t o = Ok t' ->
  match t' with Some tw => DiscOk tw | None => True end.
Proof. exact mstep_discok. Qed.
Print Assumptions c17_discok_step.

(* resume rule: fresh data within the accepted gap keeps the window, beyond it restarts *)
Theorem c17_resume_rule : forall n gap h r tw, r > 0 -> disc tw > 0 ->
  update n gap h r (Some tw) =
    if h - disc tw <? gap
    then update_tail n r (Some (mkTwa (vals tw) (idx tw) (avg tw) (active tw) (-1)))
    else update_tail n r (Some (mkTwa [] 0 (avg tw) false (-1))).
Proof.
  intros n gap h r tw Hr Hd. unfold update.
  destruct (Z.leb_spec r 0); [lia|]. cbn [andb].
  destruct (Z.gtb_spec r 0); [|lia]. destruct (Z.gtb_spec (disc tw) 0); [|lia]. reflexivity.
Qed.
Print Assumptions c17_resume_rule.

(* consumers of an inactive price get an error *)
Theorem c17_inactive_error : forall t,
  (match t with Some tw => active tw = false | None => True end) ->
  price_in_force t = Err 1 /\ get_latest t = Err 1.
Proof. intros [tw|] H; cbn; [rewrite H|]; auto. Qed.
Print Assumptions c17_inactive_error.

(* the whole market.BeginBlocker (discard reset, rate indexing by position among the
   price-requiring assets, validation-failed branch) does to each asset's record exactly what the
   per-asset pipeline does on the ops it delivers to that asset: the theorems above therefore
   speak about every block-level history *)
Theorem c17_block_refines : forall e assets s s' d,
  begin_block e assets s = Ok (s', d) ->
  forall id, mrun (bb_n e) (bb_gap e) (sget s id) (filter_ops id (bb_ops e assets (map fst s))) = Ok (sget s' id).
Proof. exact begin_block_refines. Qed.
Print Assumptions c17_block_refines.

Theorem c17_block_inv : forall e assets s s' d g id,
  1 <= bb_n e ->
  begin_block e assets s = Ok (s', d) ->
  Inv17 (bb_n e) g (sget s id) ->
  Inv17 (bb_n e) (ghost_run (bb_gap e) g (filter_ops id (bb_ops e assets (map fst s)))) (sget s' id).
Proof. exact begin_block_asset_inv. Qed.
Print Assumptions c17_block_inv.

(* market.BeginBlocker never panics on a store whose records satisfy the ring invariant and
   re-establishes it (so, by induction over blocks from the empty store, no block of any history
   panics - the block-level form of "never indexes outside its window or panics") *)
Theorem c17_block_no_panic : forall e assets s,
  1 <= bb_n e -> StoreInv (bb_n e) s ->
  exists s' d, begin_block e assets s = Ok (s', d) /\ StoreInv (bb_n e) s'.
Proof. exact begin_block_no_panic. Qed.
Print Assumptions c17_block_no_panic.

(* ---- formerly refuted, now proved: the two defects repaired in /repo by "fix:" commits ---- *)

(* window size 1 (C17-F1): the first sample completes the window; any history is panic-free and
   the published value is the last sample *)
Theorem c17_n1_holds : forall gap ops, exists t', mrun 1 gap None ops = Ok t'.
Proof.
  intros gap ops. destruct (mrun_inv 1 gap ops ghost0 None ltac:(lia) (inv_init 1)) as (t' & H & _).
  exists t'. exact H.
Qed.
Print Assumptions c17_n1_holds.

(* large samples (C17-F2): two samples of 2^63 publish 2^63, not 0 *)
Theorem c17_no_wrap_witness : exists tw,
  mrun 2 10 None [Sample 20 9223372036854775808; Sample 40 9223372036854775808] = Ok (Some tw) /\
  active tw = true /\ avg tw = 9223372036854775808.
Proof. eexists. vm_compute. repeat split. Qed.
Print Assumptions c17_no_wrap_witness.

(* non-vacuity: a concrete history that meets the hypotheses and reaches an active state *)
Example c17_nonvacuous :
  exists tw, mrun 3 10 None [Sample 20 5; Sample 40 7; Sample 60 9; Sample 80 11] = Ok (Some tw)
             /\ active tw = true /\ avg tw = 9.
Proof. eexists. vm_compute. repeat split. Qed.

Example c17_nonvacuous_n1 :
  exists tw, mrun 1 10 None [Sample 20 5; Sample 40 7] = Ok (Some tw) /\ active tw = true /\ avg tw = 7.
Proof. eexists. vm_compute. repeat split. Qed.
