(* C10 - Dutch auctions settle completely and sell at the posted, falling price.
   Property theorems only; each is closed by [exact] of a lemma proved in Proofs/DutchProofs*.v. *)
From Comdex Require Import Lib.Base Lib.DecArith Model.DutchV2 Proofs.DutchProofsPrice Proofs.DutchProofsBid
  Proofs.DutchProofsClose.

(* ------------------------------------------------------------------------------------------ *)
(* Price clauses (generation 2).  [posted_price init disc dur t] is what UpdateDutchAuction writes
   into the record t seconds after the (re)start: init = oracle price x premium, disc = the
   configured end-price factor, dur = AuctionDurationSeconds.  None = the call panics.            *)

(* between restarts the posted price is non-increasing in time, at most the start price, never
   negative, and at least the price posted at t = D *)
Theorem c10_price_monotone : forall init disc dur t1 t2 p1 p2,
  0 <= end_price init disc < init -> 0 <= dur -> 0 <= t1 -> t1 <= t2 -> t2 <= dur ->
  posted_price init disc dur t1 = Some p1 -> posted_price init disc dur t2 = Some p2 ->
  p2 <= p1 /\ p1 <= init /\ 0 <= p2 /\
  (forall pD, posted_price init disc dur dur = Some pD -> pD <= p2).
Proof. exact posted_monotone. Qed.
Print Assumptions c10_price_monotone.

(* at t = 0 the posted price is the start price, for every tau *)
Theorem c10_price_start : forall p tau, 0 < tau -> price_at p tau 0 = p.
Proof. exact price_at_start. Qed.
Print Assumptions c10_price_start.

(* what a block tick does to the record: strictly after EndTime a restart at the new start price,
   otherwise exactly [posted_price] of the elapsed whole seconds; amounts are untouched *)
Theorem c10_tick_posts : forall cf lk now pc pd a a',
  tick_raw cf lk now pc pd a = Ok a' ->
  (now > a_end a /\ a_price a' = a_init a' /\ a_start a' = now /\ a_end a' = now + c_dur cf) \/
  (now <= a_end a /\ a_init a' = a_init a /\ a_start a' = a_start a /\ a_end a' = a_end a /\
   posted_price (a_init a) (c_disc cf) (c_dur cf) (now - a_start a) = Some (a_price a')).
Proof. exact tick_price. Qed.
Print Assumptions c10_tick_posts.

(* "stays above the configured end price" is FALSE for the code as written: the time-to-zero is
   truncated to whole seconds (TruncateInt64), so the line is steeper than configured.  Witness:
   D = 10 s, end factor 0.7, start price 1.2 x 10^6: tau = 33 instead of 33.33.., price at t = D is
   836363.63.. < 840000.  (known finding C10-F1; replayed on the real keeper by TestC10Price case 0) *)
Theorem c10_end_price_refuted : exists init disc dur p,
  0 <= end_price init disc < init /\ 0 < dur /\
  posted_price init disc dur dur = Some p /\ p < end_price init disc /\ kf_C10_1 init disc dur = true.
Proof. exact end_price_refuted. Qed.
Print Assumptions c10_end_price_refuted.

(* outside that class (the price at t = D is not below the end price) the clause holds at every
   instant of the run *)
Theorem c10_end_price_partial : forall init disc dur t pD pt,
  kf_C10_1 init disc dur = false ->
  0 <= end_price init disc < init -> 0 <= dur -> 0 <= t <= dur ->
  posted_price init disc dur dur = Some pD -> posted_price init disc dur t = Some pt ->
  end_price init disc <= pt.
Proof. exact end_price_partial. Qed.
Print Assumptions c10_end_price_partial.

(* non-vacuity: a configuration outside the class (D = 3600 s, factor 0.7: tau = 12000 exactly)
   with the price at t = D equal to the end price, and one strictly inside the run *)
Example c10_end_price_nonvacuous :
  let init := 1200000 * P18 in let disc := 7 * P18 / 10 in
  kf_C10_1 init disc 3600 = false /\ 0 <= end_price init disc < init /\
  posted_price init disc 3600 3600 = Some (end_price init disc) /\
  posted_price init disc 3600 1800 = Some (1020000 * P18).
Proof. vm_compute. repeat split; congruence. Qed.

(* ------------------------------------------------------------------------------------------ *)
(* Totals.  [run cf lk f ops] threads one auction through ANY finite history of MsgPlaceMarketBid
   (any bidder, any amount incl. 0 / negative / over-sized / wrong denom, any debt oracle value) and
   block ticks (any time, any oracle values, active or not); each op is atomic (a failing message or
   iterator body leaves the state as it was).  [good_cfg]: positive asset Decimals, premium >= 0,
   end factor in [0,1], duration >= 0, advertised bonus >= 0.  [op_ok]: oracle values are uint64s
   below 2^63.  f_paid / f_recv sum what the bidders paid and received.                           *)
Theorem c10_totals : forall cf lk now pc pd a0 s ops,
  good_cfg cf lk -> 0 <= l_target lk -> 0 <= l_coll lk -> tick_in_ok pc ->
  activate cf lk now pc pd = Ok a0 -> Forall op_ok ops ->
  let f := run cf lk (mkLife s (Some a0) 0 0 0 0) ops in
  0 <= f_paid f <= l_target lk /\ 0 <= f_recv f <= l_coll lk /\
  match f_a f with
  | Some a => f_paid f + a_debt a = l_target lk /\ f_recv f + a_coll a = l_coll lk /\ 0 <= a_debt a /\ 0 <= a_coll a
  | None => f_paid f + f_top f + f_short f = l_target lk /\ 0 <= f_top f /\ 0 <= f_short f
  end.
Proof. exact totals. Qed.
Print Assumptions c10_totals.

(* Each bid exchanges at the posted price: the collateral sent is the truncated conversion
   (GetAmountOfOtherToken) of the amount paid at the price in the record, plus - only on the closing
   bid - the conversion of the advertised bonus; a partial bid never gets a bonus share (the share
   is computed with integer Quo of bid/target, which is 0).  In the collateral-exhausted branch the
   bidder receives what is left and pays the truncated conversion of (left - bonus part) back into
   debt units.  PARTIAL: the numeric rounding bound of [conv] against the exact rational
   (received <= floor(exact) + 1 per conversion, paid >= floor(exact) - 1) is not proved here; it is
   evaluated on every observed bid by the extracted [holds_C10_bid]. *)
Theorem c10_bid_price_partial : forall cf lk a s who amt0 wd twa s' a' r,
  good_cfg cf lk -> good_auction cf lk a -> 0 <= twa < 9223372036854775808 ->
  place_bid cf lk a s who amt0 wd twa = Ok (s', a', r) ->
  0 <= r_paid r <= a_debt a /\ 0 <= r_recv r <= a_coll a /\
  match a' with
  | Some b => r_closed r = false /\ 0 < r_paid r /\
              a_debt b = a_debt a - r_paid r /\ 0 < a_debt b /\ a_coll b = a_coll a - r_recv r /\
              a_bonus b = a_bonus a /\ a_price b = a_price a /\ a_init b = a_init a /\
              a_start b = a_start a /\ a_end b = a_end a /\
              r_recv r = conv (c_dd cf) (dp_of lk twa) (r_paid r) (c_dc cf) (a_price a)
  | None => r_closed r = true /\
            (r_exh r = false -> r_paid r = a_debt a /\
               r_recv r = conv (c_dd cf) (dp_of lk twa) (a_debt a) (c_dc cf) (a_price a) + r_bonus r) /\
            (r_exh r = true -> r_recv r = a_coll a /\
               r_paid r = conv (c_dc cf) (a_price a) (a_coll a - r_bonus r) (c_dd cf) (dp_of lk twa) /\
               r_short r = a_debt a - r_paid r /\ 0 <= r_topup r <= r_short r) /\
            r_bonus r = conv (c_dd cf) (dp_of lk twa) (a_bonus a) (c_dc cf) (a_price a)
  end.
Proof. exact place_bid_amounts. Qed.
Print Assumptions c10_bid_price_partial.

(* Close completeness, per initiator type (0 vault, 2 external, otherwise lend), outside C10-F2:
   the closing bid takes out of the auction account exactly this auction's remaining collateral and
   the debt it had collected (so what is attributable to the auction drops to 0; externally
   initiated auctions keep the penalty in the account, booked as auction-module fees), principal is
   burned / sent to the initiator / to the lending pool, the penalty goes to collector + keeper,
   unsold collateral to the owner. *)
Theorem c10_close_complete : forall cf lk a s who amt0 wd twa s' r,
  good_cfg cf lk -> good_auction cf lk a -> 0 <= twa < 9223372036854775808 -> 0 <= l_fee lk -> 0 <= who ->
  place_bid cf lk a s who amt0 wd twa = Ok (s', None, r) -> kf_C10_2 r = false ->
  r_paid r + r_topup r = a_debt a /\
  led s' AUC_C = led s AUC_C - a_coll a /\
  led s' AUC_D - xfee s' = led s AUC_D - xfee s - (l_target lk - a_debt a) /\
  led s' OWN_C + led s' (BID_C who) = led s OWN_C + led s (BID_C who) + a_coll a /\
  (l_init lk = 0 -> led s' BRN_D = led s BRN_D + (l_target lk - l_fee lk) /\
                    led s' COL_D + led s' KEE_D = led s COL_D + led s KEE_D + l_fee lk /\ xfee s' = xfee s) /\
  (l_init lk = 2 -> led s' INI_D = led s INI_D + (l_target lk - l_fee lk) /\ xfee s' = xfee s + l_fee lk) /\
  (l_init lk <> 0 -> l_init lk <> 2 -> led s' POOL_D = led s POOL_D + l_target lk /\ xfee s' = xfee s).
Proof. exact close_complete. Qed.
Print Assumptions c10_close_complete.

(* C10-F2: inside the class the clause fails.  Witness = the state of harness case 92 (seed 1): the
   reserve holds 1000, the shortfall is 440072, nothing is transferred, the reserve record becomes
   -439072 and the auction account ends 440072 short of the fees it has booked *)
Theorem c10_close_complete_refuted : exists s' r,
  place_bid w_cf w_lk w_au w_s 0 27429945 false 1000000 = Ok (s', None, r) /\
  kf_C10_2 r = true /\ r_paid r = 8703243 /\ r_short r = 440072 /\ r_topup r = 0 /\
  rsv s' = Some (-439072) /\
  led s' AUC_D - xfee s' = led w_s AUC_D - xfee w_s - (l_target w_lk - a_debt w_au) - 440072.
Proof. exact reserve_refuted. Qed.
Print Assumptions c10_close_complete_refuted.

(* C10-F3: "settles completely" fails for externally initiated auctions of an app with a positive
   keeper incentive: no bid can ever close them (the closing branch panics on the empty address) *)
Theorem c10_external_close_refuted : forall cf lk a s who amt0 wd twa s' r,
  kf_C10_3 cf lk = true -> place_bid cf lk a s who amt0 wd twa <> Ok (s', None, r).
Proof. exact external_never_closes. Qed.
Print Assumptions c10_external_close_refuted.

(* non-vacuity: a vault-initiated auction (target 1120000 = 1000000 + 12 %, internal keeper, 10 %
   incentive) takes a partial bid, a tick, and a closing bid; everything is distributed *)
Definition ex_cf : acfg := mkCfg (12 * P18 / 10) (7 * P18 / 10) 3600 100000 (P18 / 10) 1000000 1000000.
Definition ex_lk : locked := mkLk 1000000 1120000 120000 0 0 true false.
Definition ex_led : ledger := fun k => if k =? 0 then 1000000 else if k =? 11 then 5000000 else if k =? 13 then 5000000 else 0.
Example c10_nonvacuous :
  exists a0, activate ex_cf ex_lk 0 (Some 1200000) (Some 1000000) = Ok a0 /\
  let f := run ex_cf ex_lk (mkLife (mkS ex_led None 0) (Some a0) 0 0 0 0)
               [Bid 0 400000 false 1000000; Tick 600 (Some 1200000) (Some 1000000); Bid 1 9999999 false 1000000] in
  f_a f = None /\ f_paid f = 1120000 /\ f_recv f = 804092 /\
  led (f_s f) AUC_C = 0 /\ led (f_s f) AUC_D = 0 /\ led (f_s f) BRN_D = 1000000 /\
  led (f_s f) COL_D = 108000 /\ led (f_s f) KEE_D = 12000 /\ led (f_s f) OWN_C = 195908.
Proof. eexists. split; [vm_compute; reflexivity|]. vm_compute. repeat split; reflexivity. Qed.

(* ------------------------------------------------------------------------------------------ *)
(* Generation 1 (x/auction): the price update (dutch.go:495-503, dutch_lend.go likewise) is the same
   arithmetic with the end price stored in the record, so the price clauses and the refutation carry
   over.  PARTIAL: generation 1 is modelled for the price path only (Model/DutchV1.v); its bid path
   (both dust rules, the target-reached recomputation) and close are not modelled and generation 1
   is not driven by the harness (the price functions are unexported). *)
From Comdex Require Import Model.DutchV1 Proofs.DutchProofsV1.

Theorem c10_v1_price_monotone_partial : forall top cusp dur t1 t2 p1 p2,
  fits_dec (dmul top cusp) = true ->
  0 <= v1_end_price top cusp < top -> 0 <= dur -> 0 <= t1 -> t1 <= t2 -> t2 <= dur ->
  v1_posted_price top (v1_end_price top cusp) dur t1 = Some p1 ->
  v1_posted_price top (v1_end_price top cusp) dur t2 = Some p2 ->
  p2 <= p1 /\ p1 <= top /\ 0 <= p2.
Proof. exact v1_posted_monotone. Qed.
Print Assumptions c10_v1_price_monotone_partial.

Theorem c10_v1_end_price_refuted : exists top cusp dur p,
  0 <= v1_end_price top cusp < top /\ 0 < dur /\
  v1_posted_price top (v1_end_price top cusp) dur dur = Some p /\ p < v1_end_price top cusp.
Proof. exact v1_end_price_refuted. Qed.
Print Assumptions c10_v1_end_price_refuted.
