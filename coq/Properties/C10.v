(* C10 - Dutch auctions settle completely and sell at the posted, falling price.
   Property theorems only; each is closed by [exact] of a lemma proved in Proofs/DutchProofs*.v. *)
From Comdex Require Import Lib.Base Lib.DecArith Model.DutchV2 Proofs.DutchProofsPrice.

(* ------------------------------------------------------------------------------------------ *)
(* Price clauses (generation 2).  [posted_price init disc dur t] is what UpdateDutchAuction writes
   into the record t seconds after the (re)start: init = oracle price x premium, disc = the
   configured end-price factor, dur = AuctionDurationSeconds.  None = the call panics.            *)

(* between restarts the posted price is non-increasing in time, at most the start price, never
   negative, and at least the price posted at t = D *)
Theorem c10_price_monotone : forall init disc dur t1 t2 p1 p2,
  0 <= end_price init disc < init -> 0 <= dur -> 0 <= t1 -> t1 <= t2 -> t2 <= dur ->
  posted_price init disc dur t1 = Some p1 -> posted_price init disc dur t2 = Some p2 ->
  p2 <= p1 /\ p1 <= init /\ 0 <= p2 /\
  (forall pD, posted_price init disc dur dur = Some pD -> pD <= p2).
Proof. exact posted_monotone. Qed.
Print Assumptions c10_price_monotone.

(* at t = 0 the posted price is the start price, for every tau *)
Theorem c10_price_start : forall p tau, 0 < tau -> price_at p tau 0 = p.
Proof. exact price_at_start. Qed.
Print Assumptions c10_price_start.

(* what a block tick does to the record: strictly after EndTime a restart at the new start price,
   otherwise exactly [posted_price] of the elapsed whole seconds; amounts are untouched *)
Theorem c10_tick_posts : forall cf lk now pc pd a a',
  tick_raw cf lk now pc pd a = Ok a' ->
  (now > a_end a /\ a_price a' = a_init a' /\ a_start a' = now /\ a_end a' = now + c_dur cf) \/
  (now <= a_end a /\ a_init a' = a_init a /\ a_start a' = a_start a /\ a_end a' = a_end a /\
   posted_price (a_init a) (c_disc cf) (c_dur cf) (now - a_start a) = Some (a_price a')).
Proof. exact tick_price. Qed.
Print Assumptions c10_tick_posts.

(* "stays above the configured end price" is FALSE for the code as written: the time-to-zero is
   truncated to whole seconds (TruncateInt64), so the line is steeper than configured.  Witness:
   D = 10 s, end factor 0.7, start price 1.2 x 10^6: tau = 33 instead of 33.33.., price at t = D is
   836363.63.. < 840000.  (known finding C10-F1; replayed on the real keeper by TestC10Price case 0) *)
Theorem c10_end_price_refuted : exists init disc dur p,
  0 <= end_price init disc < init /\ 0 < dur /\
  posted_price init disc dur dur = Some p /\ p < end_price init disc /\ kf_C10_1 init disc dur = true.
Proof. exact end_price_refuted. Qed.
Print Assumptions c10_end_price_refuted.

(* outside that class (the price at t = D is not below the end price) the clause holds at every
   instant of the run *)
Theorem c10_end_price_partial : forall init disc dur t pD pt,
  kf_C10_1 init disc dur = false ->
  0 <= end_price init disc < init -> 0 <= dur -> 0 <= t <= dur ->
  posted_price init disc dur dur = Some pD -> posted_price init disc dur t = Some pt ->
  end_price init disc <= pt.
Proof. exact end_price_partial. Qed.
Print Assumptions c10_end_price_partial.

(* non-vacuity: a configuration outside the class (D = 3600 s, factor 0.7: tau = 12000 exactly)
   with the price at t = D equal to the end price, and one strictly inside the run *)
Example c10_end_price_nonvacuous :
  let init := 1200000 * P18 in let disc := 7 * P18 / 10 in
  kf_C10_1 init disc 3600 = false /\ 0 <= end_price init disc < init /\
  posted_price init disc 3600 3600 = Some (end_price init disc) /\
  posted_price init disc 3600 1800 = Some (1020000 * P18).
Proof. vm_compute. repeat split; congruence. Qed.
