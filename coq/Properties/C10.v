(* C10 - Dutch auctions settle completely and sell at the posted, falling price.
   Property theorems only; each is closed by [exact] of a lemma proved in Proofs/DutchProofs*.v. *)
From Comdex Require Import Lib.Base Lib.DecArith Lib.DecFacts Model.DutchV2 Proofs.DutchProofsPrice Proofs.DutchProofsBid
  Proofs.DutchProofsClose Proofs.DutchProofsConv Proofs.DutchProofsFill.

(* ------------------------------------------------------------------------------------------ *)
(* Price clauses (generation 2).  [posted_price init disc dur t] is what UpdateDutchAuction writes
   into the record t seconds after the (re)start: init = oracle price x premium, disc = the
   configured end-price factor, dur = AuctionDurationSeconds.  None = the call panics.            *)

(* between restarts the posted price is non-increasing in time, at most the start price, never
   negative, and at least the price posted at t = D *)
Theorem c10_price_monotone : forall init disc dur t1 t2 p1 p2,
  0 <= end_price init disc < init -> 0 <= dur -> 0 <= t1 -> t1 <= t2 -> t2 <= dur ->
  posted_price init disc dur t1 = Some p1 -> posted_price init disc dur t2 = Some p2 ->
  p2 <= p1 /\ p1 <= init /\ 0 <= p2 /\
  (forall pD, posted_price init disc dur dur = Some pD -> pD <= p2).
Proof. exact posted_monotone. Qed.
Print Assumptions c10_price_monotone.

(* at t = 0 the posted price is the start price, for every tau *)
Theorem c10_price_start : forall p tau, 0 < tau -> price_at p tau 0 = p.
Proof. exact price_at_start. Qed.
Print Assumptions c10_price_start.

(* what a block tick does to the record: strictly after EndTime a restart at the new start price,
   otherwise exactly [posted_price] of the elapsed whole seconds; amounts are untouched *)
Theorem c10_tick_posts : forall cf lk now pc pd a a',
  tick_raw cf lk now pc pd a = Ok a' ->
  (now > a_end a /\ a_price a' = a_init a' /\ a_start a' = now /\ a_end a' = now + c_dur cf) \/
  (now <= a_end a /\ a_init a' = a_init a /\ a_start a' = a_start a /\ a_end a' = a_end a /\
   posted_price (a_init a) (c_disc cf) (c_dur cf) (now - a_start a) = Some (a_price a')).
Proof. exact tick_price. Qed.
Print Assumptions c10_tick_posts.

(* "stays above the configured end price" is FALSE for the code as written: the time-to-zero is
   truncated to whole seconds (TruncateInt64), so the line is steeper than configured.  Witness:
   D = 10 s, end factor 0.7, start price 1.2 x 10^6: tau = 33 instead of 33.33.., price at t = D is
   836363.63.. < 840000.  (known finding C10-F1; replayed on the real keeper by TestC10Price case 0) *)
Theorem c10_end_price_refuted : exists init disc dur p,
  0 <= end_price init disc < init /\ 0 < dur /\
  posted_price init disc dur dur = Some p /\ p < end_price init disc /\ kf_C10_1 init disc dur = true.
Proof. exact end_price_refuted. Qed.
Print Assumptions c10_end_price_refuted.

(* outside that class (the price at t = D is not below the end price) the clause holds at every
   instant of the run *)
Theorem c10_end_price_partial : forall init disc dur t pD pt,
  kf_C10_1 init disc dur = false ->
  0 <= end_price init disc < init -> 0 <= dur -> 0 <= t <= dur ->
  posted_price init disc dur dur = Some pD -> posted_price init disc dur t = Some pt ->
  end_price init disc <= pt.
Proof. exact end_price_partial. Qed.
Print Assumptions c10_end_price_partial.

(* non-vacuity: a configuration outside the class (D = 3600 s, factor 0.7: tau = 12000 exactly)
   with the price at t = D equal to the end price, and one strictly inside the run *)
Example c10_end_price_nonvacuous :
  let init := 1200000 * P18 in let disc := 7 * P18 / 10 in
  kf_C10_1 init disc 3600 = false /\ 0 <= end_price init disc < init /\
  posted_price init disc 3600 3600 = Some (end_price init disc) /\
  posted_price init disc 3600 1800 = Some (1020000 * P18).
Proof. vm_compute. repeat split; congruence. Qed.

(* ------------------------------------------------------------------------------------------ *)
(* Totals.  [run cf lk f ops] threads one auction through ANY finite history of MsgPlaceMarketBid
   (any bidder, any amount incl. 0 / negative / over-sized / wrong denom, any debt oracle value),
   block ticks (any time, any oracle values, active or not), MsgDepositLimitBid (any bidder, premium,
   amount) and automatic fills (LimitOrderBid closures: any listing order, any debt oracle value, active
   or not) from any limit-bid book; each op is atomic (a failing message, iterator body or closure leaves
   the state as it was).  [good_cfg]: positive asset Decimals, premium >= 0, end factor in [0,1],
   duration >= 0, advertised bonus >= 0.  [op_ok]: oracle values are uint64s below 2^63.
   f_paid / f_recv sum what the bidders paid and received: a market bid pays coins, a fill's bid is paid
   by its limit bid being charged (c10_fill_charges: charged = bid).                               *)
Theorem c10_totals : forall cf lk now pc pd a0 s bk pool ops,
  good_cfg cf lk -> 0 <= l_target lk -> 0 <= l_coll lk -> tick_in_ok pc ->
  activate cf lk now pc pd = Ok a0 -> Forall op_ok ops ->
  let f := run cf lk (mkLife s (Some a0) 0 0 0 bk pool) ops in
  0 <= f_paid f <= l_target lk /\ 0 <= f_recv f <= l_coll lk /\
  match f_a f with
  | Some a => f_paid f + a_debt a = l_target lk /\ f_recv f + a_coll a = l_coll lk /\ 0 <= a_debt a /\ 0 <= a_coll a /\
              f_top f = 0
  | None => f_paid f + f_top f = l_target lk /\ 0 <= f_top f
  end.
Proof. exact totals. Qed.
Print Assumptions c10_totals.

(* Each bid exchanges at the posted price: the collateral sent is the truncated conversion
   (GetAmountOfOtherToken) of the amount paid at the price in the record, plus - only on the closing
   bid - the conversion of the advertised bonus; a partial bid never gets a bonus share (the share
   is computed with integer Quo of bid/target, which is 0).  In the collateral-exhausted branch the
   bidder receives what is left and pays the truncated conversion of (left - bonus part) back into
   debt units.  (The numeric bound of these conversions against the exact rational is
   c10_conv_bounds / c10_bid_price below.) *)
Theorem c10_bid_amounts : forall cf lk a s who amt0 wd twa s' a' r,
  good_cfg cf lk -> good_auction cf lk a -> 0 <= twa < 9223372036854775808 ->
  place_bid_core cf lk a s who amt0 wd twa = Ok (s', a', r) ->
  0 <= r_paid r <= a_debt a /\ 0 <= r_recv r <= a_coll a /\
  match a' with
  | Some b => r_closed r = false /\ 0 < r_paid r /\
              a_debt b = a_debt a - r_paid r /\ 0 < a_debt b /\ a_coll b = a_coll a - r_recv r /\
              a_bonus b = a_bonus a /\ a_price b = a_price a /\ a_init b = a_init a /\
              a_start b = a_start a /\ a_end b = a_end a /\
              r_recv r = conv (c_dd cf) (dp_of lk twa) (r_paid r) (c_dc cf) (a_price a)
  | None => r_closed r = true /\
            (r_exh r = false -> r_paid r = a_debt a /\
               r_recv r = conv (c_dd cf) (dp_of lk twa) (a_debt a) (c_dc cf) (a_price a) + r_bonus r) /\
            (r_exh r = true -> r_recv r = a_coll a /\
               r_paid r = conv (c_dc cf) (a_price a) (a_coll a - r_bonus r) (c_dd cf) (dp_of lk twa) /\
               r_topup r = a_debt a - r_paid r /\ 0 <= r_topup r) /\
            r_bonus r = conv (c_dd cf) (dp_of lk twa) (a_bonus a) (c_dc cf) (a_price a)
  end.
Proof. exact place_bid_amounts. Qed.
Print Assumptions c10_bid_amounts.

(* GetAmountOfOtherToken against the exact rational amt * r1 * d2 / (d1 * r2): two roundings to
   10^-18 and one truncation.  With Decimals d2 <= 10^18 and a rate of at least 10^-18 uusd per
   smallest unit of the target asset (d2 <= r2): at most one unit above, less than three below. *)
Theorem c10_conv_bounds : forall d1 r1 a d2 r2,
  0 < d1 -> 0 <= r1 -> 0 <= a -> 0 < d2 <= P18 -> d2 <= r2 ->
  conv d1 r1 a d2 r2 * (d1 * r2) <= a * r1 * d2 + d1 * r2 /\
  a * r1 * d2 < (conv d1 r1 a d2 r2 + 3) * (d1 * r2).
Proof. intros. split; [apply conv_upper | apply conv_lower]; assumption. Qed.
Print Assumptions c10_conv_bounds.

(* the price clause of the property, as the extracted predicate the runner evaluates on every
   observed bid: never more collateral than the amount paid (+ the advertised bonus on the closing
   bid) buys at the posted price, up to one collateral unit per conversion (two on the closing bid:
   debt and bonus are converted separately) and three debt units in the exhausted branch *)
Theorem c10_bid_price : forall cf lk a s who amt0 wd twa s' a' r,
  good_cfg cf lk -> good_auction cf lk a -> 0 <= twa < 9223372036854775808 ->
  c_dc cf <= P18 -> c_dc cf <= a_price a -> c_dd cf <= P18 -> c_dd cf <= dp_of lk twa ->
  place_bid_core cf lk a s who amt0 wd twa = Ok (s', a', r) ->
  holds_C10_bid (c_dc cf) (c_dd cf) (a_price a) (dp_of lk twa) (a_coll a) (a_debt a) (a_bonus a)
                (r_paid r) (r_recv r) (r_closed r) = true.
Proof. exact bid_price_holds. Qed.
Print Assumptions c10_bid_price.

(* Close completeness, per initiator type (0 vault, 2 external, otherwise lend), for EVERY closing
   bid (no exception class any more: fixes/C10-F2 and fixes/C10-F3 repaired the two defects that
   used to be carved out here): what the bidder pays plus what the app reserve tops up is exactly
   the outstanding debt; the closing bid takes out of the auction account exactly this auction's
   remaining collateral and the debt it had collected (so what is attributable to the auction drops
   to 0; externally initiated auctions keep the penalty net of the incentive in the account, booked
   as auction-module fees); principal is burned / sent to the initiator / to the lending pool, the
   penalty goes to collector + keeper (vault) resp. fee book + external keeper (external), unsold
   collateral to the owner; the reserve account pays exactly the top-up. *)
Theorem c10_close_complete : forall cf lk a s who amt0 wd twa s' r,
  good_cfg cf lk -> good_auction cf lk a -> 0 <= twa < 9223372036854775808 -> 0 <= l_fee lk -> 0 <= who ->
  place_bid_core cf lk a s who amt0 wd twa = Ok (s', None, r) ->
  r_paid r + r_topup r = a_debt a /\
  led s' AUC_C = led s AUC_C - a_coll a /\
  led s' AUC_D - xfee s' = led s AUC_D - xfee s - (l_target lk - a_debt a) /\
  led s' OWN_C + led s' (BID_C who) = led s OWN_C + led s (BID_C who) + a_coll a /\
  led s' LIQ_D = led s LIQ_D - r_topup r /\
  (l_init lk = 0 -> led s' BRN_D = led s BRN_D + (l_target lk - l_fee lk) /\
                    led s' COL_D + led s' KEE_D = led s COL_D + led s KEE_D + l_fee lk /\ xfee s' = xfee s) /\
  (l_init lk = 2 -> led s' INI_D = led s INI_D + (l_target lk - l_fee lk) + ext_incentive cf lk /\
                    xfee s' = xfee s + (l_fee lk - ext_incentive cf lk) /\ 0 <= ext_incentive cf lk <= l_fee lk) /\
  (l_init lk <> 0 -> l_init lk <> 2 -> led s' POOL_D = led s POOL_D + l_target lk /\ xfee s' = xfee s).
Proof. exact close_complete. Qed.
Print Assumptions c10_close_complete.

(* The app reserve is touched only by the collateral-exhausted close; it is debited exactly the
   shortfall, and only when the record covers it: a successful bid never leaves a negative record.
   Hence an exhausted close against a reserve smaller than the shortfall is not a successful bid,
   and by [step] (a failed message's cache context is dropped) nothing changes. *)
Theorem c10_reserve_covers_shortfall : forall cf lk a s who amt wd twa s' a' r,
  place_bid_core cf lk a s who amt wd twa = Ok (s', a', r) ->
  (r_exh r = false -> r_topup r = 0 /\ rsv s' = rsv s) /\
  (r_exh r = true -> exists rv, rsv s = Some rv /\ rsv s' = Some (rv - r_topup r) /\ 0 <= rv - r_topup r).
Proof. exact reserve_spec. Qed.
Print Assumptions c10_reserve_covers_shortfall.

(* the reserve record stays non-negative and backed by the liquidation module's balance over every
   successful bid (evaluated on the implementation as holds_C10_reserve) *)
Theorem c10_reserve_backed : forall cf lk a s who amt0 wd twa s' a' r rv,
  good_cfg cf lk -> good_auction cf lk a -> 0 <= twa < 9223372036854775808 -> 0 <= l_fee lk -> 0 <= who ->
  place_bid_core cf lk a s who amt0 wd twa = Ok (s', a', r) ->
  rsv s = Some rv -> 0 <= rv <= led s LIQ_D ->
  exists rv', rsv s' = Some rv' /\ 0 <= rv' <= led s' LIQ_D /\ rv - rv' = led s LIQ_D - led s' LIQ_D.
Proof. exact reserve_backed. Qed.
Print Assumptions c10_reserve_backed.

(* a partial bid moves only the bidder's and the auction account's balances, by the amounts of
   the bid; with c10_bid_amounts: the account keeps exactly the auction's remaining collateral
   and the debt collected so far *)
Theorem c10_partial_bid_ledger : forall cf lk a s who amt0 wd twa s' b r,
  good_cfg cf lk -> good_auction cf lk a -> 0 <= twa < 9223372036854775808 ->
  place_bid_core cf lk a s who amt0 wd twa = Ok (s', Some b, r) ->
  xfee s' = xfee s /\ rsv s' = rsv s /\
  forall k, led s' k = led s k + delta k (BID_D who) AUC_D (r_paid r) + delta k AUC_C (BID_C who) (r_recv r).
Proof. exact partial_ledger. Qed.
Print Assumptions c10_partial_bid_ledger.

(* regression, C10-F2 (fixed): the state of harness corpus case 1 - reserve 1000, shortfall 440072.
   Before the repair the bid succeeded with nothing transferred, the reserve record went to -439072
   and the auction account ended 440072 short of its booked fees.  Now the bid is rejected
   (ErrorInvalidAppOrAssetData) and the life is unchanged ... *)
Example c10_short_reserve_rejected :
  place_bid_core w_cf w_lk w_au (w_s 1000) 0 27429945 false 1000000 = Err 3 /\
  forall p rc t, step w_cf w_lk (mkLife (w_s 1000) (Some w_au) p rc t nobook 0) (Bid 0 27429945 false 1000000)
                 = mkLife (w_s 1000) (Some w_au) p rc t nobook 0.
Proof. exact reserve_short_rejected. Qed.

(* ... and with a reserve that covers the shortfall the same bid closes, fully backed (non-vacuity
   of the exhausted branch of c10_close_complete) *)
Example c10_covered_reserve_closes :
  exists s' r, place_bid_core w_cf w_lk w_au (w_s 440072) 0 27429945 false 1000000 = Ok (s', None, r) /\
    r_exh r = true /\ r_paid r = 8703243 /\ r_topup r = 440072 /\ rsv s' = Some 0 /\ led s' LIQ_D = 0 /\
    led s' INI_D = 8313000 /\ xfee s' = 831300 /\ led s' AUC_D = 831300 /\ led s' AUC_C = 0.
Proof. exact reserve_covered_closes. Qed.

(* regression, C10-F3 (fixed): the state of harness corpus case 0 - externally initiated auction of
   an app with KeeeperIncentive 0.1.  Before the repair every closing bid panicked (incentive sent to
   the empty InternalKeeperAddress); now the bid closes, the external keeper gets target - penalty
   plus the incentive 4487, the rest of the penalty (40385) is booked and backed, nothing goes to the
   empty address *)
Example c10_external_closes :
  exists s' r, place_bid_core x_cf x_lk x_au x_s 0 493593 false 1000000 = Ok (s', None, r) /\
    ext_incentive x_cf x_lk = 4487 /\ r_paid r = 493592 /\ r_recv r = 329061 /\
    led s' INI_D = 448720 + 4487 /\ xfee s' = 40385 /\ led s' AUC_D = 40385 /\ led s' AUC_C = 0 /\
    led s' OWN_C = 238939 /\ led s' NUL_D = 0.
Proof. exact external_closes. Qed.

(* non-vacuity: a vault-initiated auction (target 1120000 = 1000000 + 12 %, internal keeper, 10 %
   incentive) takes a partial bid, a tick, and a closing bid; everything is distributed *)
Definition ex_cf : acfg := mkCfg (12 * P18 / 10) (7 * P18 / 10) 3600 100000 (P18 / 10) 1000000 1000000.
Definition ex_lk : locked := mkLk 1000000 1120000 120000 0 0 true false false.
Definition ex_led : ledger := fun k => if k =? 0 then 1000000 else if k =? 11 then 5000000 else if k =? 13 then 5000000 else 0.
Example c10_nonvacuous :
  exists a0, activate ex_cf ex_lk 0 (Some 1200000) (Some 1000000) = Ok a0 /\
  let f := run ex_cf ex_lk (mkLife (mkS ex_led None 0 0) (Some a0) 0 0 0 nobook 0)
               [Bid 0 400000 false 1000000; Tick 600 (Some 1200000) (Some 1000000); Bid 1 9999999 false 1000000] in
  f_a f = None /\ f_paid f = 1120000 /\ f_recv f = 804092 /\
  led (f_s f) AUC_C = 0 /\ led (f_s f) AUC_D = 0 /\ led (f_s f) BRN_D = 1000000 /\
  led (f_s f) COL_D = 108000 /\ led (f_s f) KEE_D = 12000 /\ nfee (f_s f) = 108000 /\ led (f_s f) OWN_C = 195908.
Proof. eexists. split; [vm_compute; reflexivity|]. vm_compute. repeat split; reflexivity. Qed.

(* ------------------------------------------------------------------------------------------ *)
(* The automatic fill of limit bids (auctionsV2.BeginBlocker -> LimitOrderBid; one closure per auction whose
   posted price is below the oracle price in the record and whose whole-percent discount has limit bids).
   The model follows the code after fixes/C10-F6 and fixes/C10-F5 (known findings C10-F6 / C10-F5, both
   reproduced on the original code and repaired; the witnesses are the Examples below and the harness
   corpus).  [fill_closure cf lk order twa dact a s bk pool] = Ok (s', a', bk', pool', log): the log lists
   the bids of the closure (bidder, the auction record the bid was placed on, what it did).            *)

(* the shape of a closure: every limit bid is placed, as an automatic bid of its whole amount, on the
   auction AS THE PREVIOUS BID OF THE CLOSURE LEFT IT (on the original code: on the copy read before the
   loop, C10-F6), nothing follows a closing bid, and no limit bid is charged more than it holds *)
Theorem c10_fill_trace : forall cf lk order twa dact a s bk pool s' a' bk' pool' log,
  fill_closure cf lk order twa dact a s bk pool = Ok (s', a', bk', pool', log) ->
  fill_trace cf lk twa a s log a' s'.
Proof. exact fill_closure_trace. Qed.
Print Assumptions c10_fill_trace.

(* what the limit bids pay: the pool (LimitBidProtocolData.BidValue) falls by exactly what the bids of the
   closure bid; the limit bid of each bidder at the auction's discount falls by exactly what its own bids
   bid (on the original code: by min(record, auction debt) even when the bid was cut down to the value of
   the left-over collateral, C10-F5); no other record moves; no record goes negative *)
Theorem c10_fill_charges : forall cf lk order twa dact a s bk pool s' a' bk' pool' log,
  fill_closure cf lk order twa dact a s bk pool = Ok (s', a', bk', pool', log) ->
  pool' = pool - log_paid log /\
  exists prem, (forall p w, bk' p w = bk p w - (if p =? prem then log_charged w log else 0)) /\
               ((forall p w, 0 <= bk p w) -> forall p w, 0 <= bk' p w).
Proof. exact fill_closure_charges. Qed.
Print Assumptions c10_fill_charges.

(* every bid of a fill exchanges at the posted price: the same extracted predicate as for market bids, with
   "paid" = what the limit bid is charged *)
Theorem c10_fill_price : forall cf lk order twa dact a s bk pool s' a' bk' pool' log,
  good_cfg cf lk -> good_auction cf lk a -> 0 <= twa < 9223372036854775808 ->
  c_dc cf <= P18 -> c_dc cf <= a_price a -> c_dd cf <= P18 -> c_dd cf <= dp_of lk twa ->
  fill_closure cf lk order twa dact a s bk pool = Ok (s', a', bk', pool', log) ->
  Forall (fun e => holds_C10_bid (c_dc cf) (c_dd cf) (a_price (fb_before e)) (dp_of lk twa)
                     (a_coll (fb_before e)) (a_debt (fb_before e)) (a_bonus (fb_before e))
                     (r_paid (fb_res e)) (r_recv (fb_res e)) (r_closed (fb_res e)) = true) log.
Proof.
  intros cf lk order twa dact a s bk pool s' a' bk' pool' log GC GA Htwa H1 H2 H3 H4 E.
  exact (fill_trace_price cf lk twa a s log a' s' GC Htwa H1 H3 H4 (fill_closure_trace _ _ _ _ _ _ _ _ _ _ _ _ _ _ E) GA H2).
Qed.
Print Assumptions c10_fill_price.

(* close completeness of a closing AUTOMATIC bid: as c10_close_complete, except that the bid brings no
   coins - what it bids is taken from the limit-bid pool the auction account already holds, so the account's
   debt balance falls by that much more (and the pool by the same amount, c10_fill_charges), and the bidder's
   own debt balance does not move *)
Theorem c10_auto_close_complete : forall cf lk a s who amt0 twa s' r,
  good_cfg cf lk -> good_auction cf lk a -> 0 <= twa < 9223372036854775808 -> 0 <= l_fee lk -> 0 <= who ->
  place_bid_gen true cf lk a s who amt0 false twa = Ok (s', None, r) ->
  r_paid r + r_topup r = a_debt a /\
  led s' AUC_C = led s AUC_C - a_coll a /\
  led s' AUC_D - xfee s' = led s AUC_D - xfee s - (l_target lk - a_debt a) - r_paid r /\
  led s' OWN_C + led s' (BID_C who) = led s OWN_C + led s (BID_C who) + a_coll a /\
  led s' (BID_D who) = led s (BID_D who) /\
  led s' LIQ_D = led s LIQ_D - r_topup r.
Proof.
  intros cf lk a s who amt0 twa s' r GC GA Htwa Hfee Hw E.
  destruct (close_complete_gen true _ _ _ _ _ _ _ _ _ _ GC GA Htwa Hfee Hw E) as (H1 & H2 & H3 & H4 & H5 & H6 & _).
  repeat split; try assumption; lia.
Qed.
Print Assumptions c10_auto_close_complete.

(* Custody over the whole life of one auction, by induction over ANY history of market bids, ticks, limit-bid
   deposits and fills ([op_ok2]: bidders are accounts, oracle values below 2^63): beyond the live auction's
   remaining collateral the auction account holds what it held before the auction minus the seized lot;
   beyond the booked external fees, the limit-bid pool and what the live auction has collected so far, its
   debt balance is what it was - "no unaccounted remainder stays in auction custody", at every point of the
   history and after the close. *)
Theorem c10_custody : forall cf lk now pc pd a0 s bk pool ops,
  good_cfg cf lk -> 0 <= l_target lk -> 0 <= l_coll lk -> 0 <= l_fee lk -> tick_in_ok pc ->
  activate cf lk now pc pd = Ok a0 -> Forall op_ok2 ops ->
  let f := run cf lk (mkLife s (Some a0) 0 0 0 bk pool) ops in
  led (f_s f) AUC_C - live_coll (f_a f) = led s AUC_C - l_coll lk /\
  led (f_s f) AUC_D - xfee (f_s f) - f_pool f - collected lk (f_a f) = led s AUC_D - xfee s - pool.
Proof. exact custody. Qed.
Print Assumptions c10_custody.

(* The penalty of EVERY closing bid, market or automatic, as the extracted predicate the runner evaluates on
   the implementation: vault-initiated - what reached the collector plus what the (internal) keeper got is
   LockedVault.FeeToBeCollected and the collector's net-fee book grows by exactly what reached the collector
   (not by the gross penalty); without an internal keeper the collector gets all of it; external / lend: the
   collector and its book are not involved.  A partial bid touches neither. *)
Theorem c10_penalty_split : forall auto cf lk a s who amt0 wd twa s' r,
  good_cfg cf lk -> good_auction cf lk a -> 0 <= twa < 9223372036854775808 -> 0 <= l_fee lk -> 0 <= who ->
  place_bid_gen auto cf lk a s who amt0 wd twa = Ok (s', None, r) ->
  holds_C10_penalty (l_init lk) (l_fee lk) (led s' COL_D - led s COL_D) (led s' KEE_D - led s KEE_D) (nfee s' - nfee s) = true /\
  (l_init lk = 0 -> l_intk lk = false -> led s' COL_D - led s COL_D = l_fee lk).
Proof. exact penalty_split. Qed.
Print Assumptions c10_penalty_split.

Theorem c10_partial_no_penalty : forall auto cf lk a s who amt0 wd twa s' b r,
  good_cfg cf lk -> good_auction cf lk a -> 0 <= twa < 9223372036854775808 -> 0 <= who ->
  place_bid_gen auto cf lk a s who amt0 wd twa = Ok (s', Some b, r) ->
  led s' COL_D = led s COL_D /\ led s' KEE_D = led s KEE_D /\ nfee s' = nfee s.
Proof. exact partial_no_penalty. Qed.
Print Assumptions c10_partial_no_penalty.

(* "When the auction ends ..." presupposes that it can end.  FALSE for a lend-initiated auction of a CROSS-POOL
   borrow whose lend position was used up by the borrow (known finding C10-F7): UpdateLockedBorrows deletes the
   emptied lend position when the borrow is seized; MsgCloseDutchAuctionForBorrow later looks that position up
   for the pool to return the bridged amount to, gets the zero value, and sends the amount to the module
   account "" - the bank keeper panics, the closing bid is rolled back.  Partial bids go through, so bidders'
   payments pile up in the auction account while no bid - market or automatic, of any amount - can ever close
   the auction.  Witness = harness TestC10Lend (first seen: VERIF_SEED=1 case 15 step 7). *)
Theorem c10_lend_close_refuted :
  kf_C10_7 s_lk = true /\
  place_bid_core s_cf s_lk s_au (mkS s_led None 0 0) 0 1050000 false 1000000 = Panic /\
  place_bid_core s_cf s_lk s_au (mkS s_led None 0 0) 0 9999999 false 1000000 = Panic /\
  (exists s' b r, place_bid_core s_cf s_lk s_au (mkS s_led None 0 0) 0 500000 false 1000000 = Ok (s', Some b, r)) /\
  (forall auto cf lk a s who amt wd twa s' r,
     place_bid_gen auto cf lk a s who amt wd twa = Ok (s', None, r) -> kf_C10_7 lk = false).
Proof.
  destruct lend_close_stuck as (A & B & C & D). repeat split; auto. exact stuck_never_closes.
Qed.
Print Assumptions c10_lend_close_refuted.

(* outside the class the lend-initiated settlement goes through whenever the auction account holds the target
   debt (which c10_custody guarantees at the closing bid): exactly the target debt moves to the lending pool *)
Theorem c10_lend_close_partial : forall cf lk L xf nf,
  l_init lk <> 0 -> l_init lk <> 2 -> kf_C10_7 lk = false -> 0 <= l_target lk <= L AUC_D ->
  exists L', settle cf lk L xf nf = Ok (L', xf, nf) /\ L' POOL_D = L POOL_D + l_target lk /\ L' AUC_D = L AUC_D - l_target lk.
Proof. exact lend_settle_live. Qed.
Print Assumptions c10_lend_close_partial.

(* regression, C10-F5 (fixed) = harness corpus case 4: external auction, target 1 120 000 (penalty 120 000),
   collateral 1 000 000, app reserve 10 000 000, limit bid 3 000 000 at discount 9; block at t = 2940 s
   (posted price 0.906, discount 9.4 %).  The bid is cut down to the value of the collateral, 906 000; the
   reserve pays 214 000.  Before the repair the limit bid was charged the whole debt 1 120 000 (1.12 per ucol
   against a posted 0.906) and 214 000 stayed in the auction account owned by nothing; now it is charged
   906 000 and the account holds exactly the remaining limit bid plus the booked penalty *)
Definition f_cf : acfg := mkCfg (12 * P18 / 10) (7 * P18 / 10) 3600 0 0 1000000 1000000.
Definition f5_lk : locked := mkLk 1000000 1120000 120000 0 2 false false false.
Definition f5_led : ledger := fun k => if k =? 0 then 1000000 else if k =? 7 then 10000000 else if k =? 11 then 5000000 else 0.
Example c10_fill_cut_down_regression :
  exists a0, activate f_cf f5_lk 0 (Some 1000000) (Some 1000000) = Ok a0 /\
  let f := run f_cf f5_lk (mkLife (mkS f5_led (Some 10000000) 0 0) (Some a0) 0 0 0 nobook 0)
               [Deposit 0 9 3000000 false; Tick 2940 (Some 1000000) (Some 1000000); Fill [0] 1000000 true] in
  f_a f = None /\ f_paid f = 906000 /\ f_recv f = 1000000 /\ f_top f = 214000 /\
  f_book f 9 0 = 2094000 /\ f_pool f = 2094000 /\ xfee (f_s f) = 120000 /\
  led (f_s f) AUC_D = 2094000 + 120000 /\ led (f_s f) AUC_C = 0 /\ led (f_s f) INI_D = 1000000 /\
  led (f_s f) (BID_C 0) = 1000000 /\ led (f_s f) (BID_D 0) = 2000000 /\ led (f_s f) LIQ_D = 9786000.
Proof. eexists. split; [vm_compute; reflexivity|]. vm_compute. repeat split; reflexivity. Qed.

(* regression, C10-F6 (fixed) = harness corpus case 5: debt 500 003, collateral 1 000 006, limit bids of 1
   (bidder 0) and 999 (bidder 1) at discount 5, block at t = 2550 s (price 0.945).  Before the repair both
   bids were placed on the auction copy read before the loop: the record ended at debt 500 002 / collateral
   1 000 005 while 1 058 ucol had left the account for 1 000 uharbor.  Now the second bid sees what the first
   left: debt 499 003, collateral 998 948 = what the account holds *)
Definition f6_lk : locked := mkLk 1000006 500003 0 0 2 false false false.
Definition f6_led : ledger := fun k => if k =? 0 then 1000006 else if k =? 11 then 5000000 else if k =? 13 then 5000000 else 0.
Example c10_fill_two_partials_regression :
  exists a0, activate f_cf f6_lk 0 (Some 1000000) (Some 1000000) = Ok a0 /\
  let f := run f_cf f6_lk (mkLife (mkS f6_led None 0 0) (Some a0) 0 0 0 nobook 0)
               [Deposit 0 5 1 false; Deposit 1 5 999 false; Tick 2550 (Some 1000000) (Some 1000000); Fill [0; 1] 1000000 true] in
  (exists a, f_a f = Some a /\ a_debt a = 499003 /\ a_coll a = 998948) /\
  f_paid f = 1000 /\ f_recv f = 1058 /\ f_pool f = 0 /\ f_book f 5 0 = 0 /\ f_book f 5 1 = 0 /\
  led (f_s f) AUC_C = 998948 /\ led (f_s f) AUC_D = 1000 /\ led (f_s f) (BID_C 0) = 1 /\ led (f_s f) (BID_C 1) = 1057.
Proof.
  eexists. split; [vm_compute; reflexivity|]. vm_compute. split; [eexists; repeat split; reflexivity|].
  repeat split; reflexivity.
Qed.

(* regression, C10-F6 liveness half (fixed) = harness corpus case 6: debt 1 000 000, collateral 2 000 000, limit
   bids 3 000 000 (bidder 0) and 250 000 (bidder 1) at discount 5.  Before the repair the first bid closed the
   auction, the second failed on the stale copy and the closure was rolled back on every block; now the
   closure ends with the closing bid, bidder 1's limit bid is untouched *)
Definition f6c_lk : locked := mkLk 2000000 1000000 0 0 2 false false false.
Definition f6c_led : ledger := fun k => if k =? 0 then 2000000 else if k =? 11 then 5000000 else if k =? 13 then 5000000 else 0.
Example c10_fill_closing_first_regression :
  exists a0, activate f_cf f6c_lk 0 (Some 1000000) (Some 1000000) = Ok a0 /\
  let f := run f_cf f6c_lk (mkLife (mkS f6c_led None 0 0) (Some a0) 0 0 0 nobook 0)
               [Deposit 0 5 3000000 false; Deposit 1 5 250000 false; Tick 2550 (Some 1000000) (Some 1000000); Fill [0; 1] 1000000 true] in
  f_a f = None /\ f_paid f = 1000000 /\ f_recv f = 1058201 /\ f_book f 5 0 = 2000000 /\ f_book f 5 1 = 250000 /\
  f_pool f = 2250000 /\ led (f_s f) AUC_D = 2250000 /\ led (f_s f) AUC_C = 0 /\ led (f_s f) INI_D = 1000000 /\
  led (f_s f) OWN_C = 941799.
Proof. eexists. split; [vm_compute; reflexivity|]. vm_compute. repeat split; reflexivity. Qed.

(* non-vacuity of c10_custody / c10_totals over a history with every kind of op: a vault auction with an
   internal keeper takes a limit-bid deposit, a market bid, a tick into the discount of the limit bid, the
   fill (partial) and a closing market bid; the account is left with exactly the rest of the limit bid *)
Example c10_history_nonvacuous :
  exists a0, activate ex_cf ex_lk 0 (Some 1200000) (Some 1000000) = Ok a0 /\
  let ops := [Deposit 1 4 300000 false; Bid 0 400000 false 1000000; Tick 2400 (Some 1200000) (Some 1000000);
              Fill [0; 1] 1000000 true; Bid 0 9999999 false 1000000] in
  Forall op_ok2 ops /\
  let f := run ex_cf ex_lk (mkLife (mkS ex_led None 0 0) (Some a0) 0 0 0 nobook 0) ops in
  f_a f = None /\ f_paid f = 1120000 /\ f_pool f = 0 /\ f_book f 4 1 = 0 /\
  led (f_s f) AUC_C = 0 /\ led (f_s f) AUC_D = 0 /\ led (f_s f) BRN_D = 1000000 /\
  led (f_s f) COL_D = 108000 /\ led (f_s f) KEE_D = 12000 /\ nfee (f_s f) = 108000.
Proof.
  eexists. split; [vm_compute; reflexivity|]. split.
  - assert (T : tick_in_ok (Some 1200000)) by (intros t [= <-]; lia).
    unfold op_ok2, op_ok. repeat (apply Forall_cons || apply Forall_nil); repeat split; try lia; try exact T;
      repeat (apply Forall_cons || apply Forall_nil); lia.
  - vm_compute. repeat split; reflexivity.
Qed.

(* ------------------------------------------------------------------------------------------ *)
(* Generation 1 (x/auction): vault auctions (dutch.go) and lend auctions (dutch_lend.go).  A bid names an
   amount of COLLATERAL; the bidder pays its posted value in debt, clipped to the debt still to collect
   (then the collateral slice is recomputed from that debt).  Model/DutchV1.v follows the code statement
   by statement; TestC10V1 / TestC10V1Lend drive the real keepers.  [v1_place_bid] is the whole message: the
   core (checks, sale arithmetic, transfers incl. those of a close) and, for the bid that closes a LEND auction,
   the price-feed requirement of x/liquidation UnLiquidateLockedBorrows (fix 6257748); [lv] is the locked
   borrow behind a lend auction (v1_no_lv for vault auctions), [pin] / [pout] the debt / collateral feed at the
   bid.  Not modelled: the ESM branch of RestartDutchAuctions, the borrow book-keeping of
   UnLiquidateLockedBorrows after a lend close (hand-back or re-liquidation). *)
From Comdex Require Import Model.DutchV1 Proofs.DutchProofsV1 Proofs.DutchProofsV1Bid.

(* price: the update is the same arithmetic as generation 2 with the end price stored in the record *)
Theorem c10_v1_price_monotone : forall top cusp dur t1 t2 p1 p2,
  fits_dec (dmul top cusp) = true ->
  0 <= v1_end_price top cusp < top -> 0 <= dur -> 0 <= t1 -> t1 <= t2 -> t2 <= dur ->
  v1_posted_price top (v1_end_price top cusp) dur t1 = Some p1 ->
  v1_posted_price top (v1_end_price top cusp) dur t2 = Some p2 ->
  p2 <= p1 /\ p1 <= top /\ 0 <= p2.
Proof. exact v1_posted_monotone. Qed.
Print Assumptions c10_v1_price_monotone.

(* what a block tick posts: strictly after EndTime a restart at the new start price (with the end price
   = start x cusp), otherwise [v1_posted_price] of the elapsed whole seconds *)
Theorem c10_v1_tick_posts : forall cf now pin pout a a',
  v1_tick_raw cf now pin pout a = Ok a' ->
  (now > t_end a /\ p_out a' = p_top a' /\ p_end a' = v1_end_price (p_top a') (v_cusp cf) /\
   t_start a' = now /\ t_end a' = now + v_dur cf) \/
  (now <= t_end a /\ p_top a' = p_top a /\ p_end a' = p_end a /\ t_start a' = t_start a /\ t_end a' = t_end a /\
   v1_posted_price (p_top a) (p_end a) (v_dur cf) (now - t_start a) = Some (p_out a')).
Proof. exact v1_tick_price. Qed.
Print Assumptions c10_v1_tick_posts.

(* the end-price clause fails exactly as in generation 2 (C10-F1, same truncation) *)
Theorem c10_v1_end_price_refuted : exists top cusp dur p,
  0 <= v1_end_price top cusp < top /\ 0 < dur /\
  v1_posted_price top (v1_end_price top cusp) dur dur = Some p /\ p < v1_end_price top cusp.
Proof. exact v1_end_price_refuted. Qed.
Print Assumptions c10_v1_end_price_refuted.

(* Totals, by induction over ANY history of MsgPlaceDutchBid / MsgPlaceDutchLendBid (any bidder, any
   amount incl. 0 / negative / over-sized / wrong denom) and block ticks (any time, any oracle values),
   each atomic; no assumption on prices.  g_paid = debt paid by bidders, g_recv = collateral taken off
   the auction, g_bonus = collateral paid on top of it (lend: the liquidation bonus), g_top = shortfall
   covered by the collector (vault) / the lend reserve (lend) when the collateral is sold out. *)
Theorem c10_v1_totals : forall cf lv coll ao pen fees now pin pout a0 s ops,
  (v_lend cf = true -> 0 <= v_bonus cf) -> (v_lend cf = false -> v_bonus cf = 0) ->
  0 <= coll -> 0 <= ao -> 0 <= pen -> 0 <= fees ->
  v1_activate cf coll ao pen fees now pin pout = Ok a0 ->
  let f := v1_run cf ao lv (mkV1L s (Some a0) 0 0 0 0) ops in
  0 <= g_paid f <= i_target a0 /\ 0 <= g_recv f <= coll /\
  0 <= g_bonus f /\ g_bonus f * P18 <= g_recv f * v_bonus cf /\
  match g_a f with
  | Some a => g_paid f = i_cur a /\ g_recv f + o_cur a = coll /\ 0 <= o_cur a /\ i_cur a <= i_target a /\
              i_target a = i_target a0 /\ g_top f = 0
  | None => g_paid f + g_top f = i_target a0 /\ 0 <= g_top f
  end.
Proof. exact v1_totals. Qed.
Print Assumptions c10_v1_totals.

(* one bid: amounts *)
Theorem c10_v1_bid_amounts : forall cf ao lv a s who bid wd pin pout s' a' r,
  v1good a -> (v_lend cf = true -> 0 <= v_bonus cf) -> (v_lend cf = false -> v_bonus cf = 0) ->
  v1_place_bid cf ao lv a s who bid wd pin pout = Ok (s', a', r) ->
  let tab := i_target a - i_cur a in
  0 <= w_paid r <= tab /\ 0 <= w_slice r <= o_cur a /\
  w_recv r = w_slice r + v1_bonus_of cf (w_slice r) /\ 0 <= v1_bonus_of cf (w_slice r) /\
  v1_bonus_of cf (w_slice r) * P18 <= w_slice r * v_bonus cf /\
  (w_reached r = false -> w_slice r = bid /\ w_paid r = conv (v_dout cf) (p_out a) bid (v_din cf) (p_in a) /\ 0 < w_paid r) /\
  (w_reached r = true -> w_paid r = tab /\ w_slice r = conv (v_din cf) (p_in a) tab (v_dout cf) (p_out a)) /\
  match a' with
  | Some b => w_closed r = false /\ w_topup r = 0 /\
              o_cur b = o_cur a - w_slice r /\ i_cur b = i_cur a + w_paid r /\ i_cur b < i_target a /\ 0 < o_cur b /\
              i_target b = i_target a /\ p_out b = p_out a /\ p_in b = p_in a /\ p_top b = p_top a /\ p_end b = p_end a /\
              t_start b = t_start a /\ t_end b = t_end a
  | None => w_closed r = true /\ 0 <= w_topup r /\ i_cur a + w_paid r + w_topup r = i_target a /\
            (0 < w_topup r -> w_slice r = o_cur a)
  end.
Proof. exact v1_bid_amounts. Qed.
Print Assumptions c10_v1_bid_amounts.

(* each bid exchanges at the posted price, as the extracted predicate the runner evaluates on every observed
   bid: the bidder pays more than the posted value of the slice minus three debt units (when the bid fills
   the target: the slice is at most one collateral unit more than the payment buys); lend: the bonus on top
   is at most the advertised share of the slice *)
Theorem c10_v1_bid_price : forall cf ao lv a s who bid wd pin pout s' a' r,
  v1good a -> (v_lend cf = true -> 0 <= v_bonus cf) -> (v_lend cf = false -> v_bonus cf = 0) ->
  0 < v_dout cf <= P18 -> 0 < v_din cf <= P18 -> v_dout cf <= p_out a -> v_din cf <= p_in a ->
  v1_place_bid cf ao lv a s who bid wd pin pout = Ok (s', a', r) ->
  holds_C10_v1_bid (v_dout cf) (v_din cf) (p_out a) (p_in a) (v_bonus cf) (o_cur a) (i_target a - i_cur a)
                   (w_paid r) (w_recv r) (w_slice r) = true.
Proof. exact v1_bid_price_holds. Qed.
Print Assumptions c10_v1_bid_price.

(* close completeness, vault auctions: the closing bid (target reached, or collateral sold out with the
   collector paying the rest) takes out of the auction account exactly this auction's remaining collateral
   and the debt it had collected; the principal (LockedVault.AmountOut) is burned, the rest of the target
   (penalty + accumulated fees) goes to the collector and into its fee book, unsold collateral to the owner *)
Theorem c10_v1_close_complete_vault : forall cf ao lv a s who bid wd pin pout s' r,
  v_lend cf = false -> v_bonus cf = 0 -> v1good a -> 0 <= ao <= i_target a -> 0 <= who ->
  v1_place_bid cf ao lv a s who bid wd pin pout = Ok (s', None, r) ->
  i_cur a + w_paid r + w_topup r = i_target a /\
  v_led s' AUC_C = v_led s AUC_C - o_cur a /\
  v_led s' AUC_D = v_led s AUC_D - i_cur a /\
  v_led s' OWN_C + v_led s' (BID_C who) = v_led s OWN_C + v_led s (BID_C who) + o_cur a /\
  v_led s' BRN_D = v_led s BRN_D + ao /\
  v_led s' COL_D = v_led s COL_D + (i_target a - ao) - w_topup r /\
  v_netfee s' = Some (match v_netfee s with Some x => x | None => 0 end + (i_target a - ao) - w_topup r).
Proof. exact v1_close_complete_vault. Qed.
Print Assumptions c10_v1_close_complete_vault.

(* close completeness, lend auctions: every bid's payment goes straight on to the lending pool; at the close
   the pool has received the whole target (the lend reserve covering a shortfall it can afford), the
   remaining collateral went to bidder and owner.  The bonus is paid out of the auction account ON TOP of
   the auction's own collateral (it was transferred in by the liquidation module). *)
Theorem c10_v1_close_complete_lend : forall cf ao lv a s who bid wd pin pout s' r,
  v_lend cf = true -> 0 <= v_bonus cf -> v1good a -> 0 <= who ->
  v1_place_bid cf ao lv a s who bid wd pin pout = Ok (s', None, r) ->
  i_cur a + w_paid r + w_topup r = i_target a /\
  v_led s' AUC_C = v_led s AUC_C - o_cur a - (w_recv r - w_slice r) /\
  v_led s' AUC_D = v_led s AUC_D /\
  v_led s' OWN_C + v_led s' (BID_C who) = v_led s OWN_C + v_led s (BID_C who) + o_cur a + (w_recv r - w_slice r) /\
  v_led s' POOL_D = v_led s POOL_D + w_paid r + w_topup r /\
  v_led s' LEND_D = v_led s LEND_D - w_topup r /\ (0 < w_topup r -> w_topup r <= v_led s LEND_D).
Proof. exact v1_close_complete_lend. Qed.
Print Assumptions c10_v1_close_complete_lend.

(* Custody over the whole life of one generation-1 auction, by induction over any history: beyond the live
   auction's remaining collateral the auction account holds what it held at the start minus the seized lot
   minus the bonus paid out; beyond what a live vault auction has collected, its debt balance is unchanged
   (vault: held until the close, then burned / sent to the collector; lend: passed on to the pool per bid) *)
Theorem c10_v1_custody : forall cf lv coll ao pen fees now pin pout a0 s ops,
  (v_lend cf = true -> 0 <= v_bonus cf) -> (v_lend cf = false -> v_bonus cf = 0) ->
  0 <= coll -> 0 <= ao -> 0 <= pen -> 0 <= fees -> Forall v1op_ok ops ->
  v1_activate cf coll ao pen fees now pin pout = Ok a0 ->
  let f := v1_run cf ao lv (mkV1L s (Some a0) 0 0 0 0) ops in
  v_led (g_s f) AUC_C - live_o f = (v_led s AUC_C - coll) - g_bonus f /\
  v_led (g_s f) AUC_D - live_i cf f = v_led s AUC_D.
Proof. exact v1_custody. Qed.
Print Assumptions c10_v1_custody.

(* "no unaccounted remainder stays in auction custody" is FALSE for generation-1 LEND auctions (known finding
   C10-F4): x/liquidation moves the lot PLUS the whole advertised bonus into the auction account; the bonus is
   paid per bid as trunc(slice x bonus); the bonus share of collateral that is not sold (target reached early,
   the rest goes back to the borrower) and the truncation remainders are never paid out or returned.
   Witness = harness TestC10V1Lend case 5 (seed 1) on the real keepers: lot 213393065, bonus 10 %, 234732372
   moved in; one bid fills the target with 142262043 of the lot (+ 14226204 bonus), 71131022 go back to the
   borrower, 7113103 stay in the module account with no auction left. *)
Theorem c10_v1_lend_custody_refuted :
  exists s' r, v1_place_bid l_cf 0 l_lv l_au (mkV1S l_led None) 0 213393065 false (Some 1013000) (Some 1005000) = Ok (s', None, r) /\
    w_paid r = 211707829 /\ w_slice r = 142262043 /\ w_recv r = 156488247 /\
    v_led s' OWN_C = 71131022 /\ v_led s' AUC_C = 7113103 /\
    kf_C10_4 true 234732372 213393065 (w_recv r - w_slice r) = true /\
    holds_C10_v1_custody (v_led s' AUC_C) (v_led s' AUC_D) = false.
Proof. exact lend_bonus_stranded. Qed.
Print Assumptions c10_v1_lend_custody_refuted.

(* outside that class the custody clause holds at every point of every history: [funded] is what was moved
   into the (otherwise empty) auction account for this auction - for vault auctions exactly the lot.  (Bank
   balances cannot be overdrawn, hence the residual is never negative: taken as a hypothesis here.) *)
Theorem c10_v1_custody_partial : forall cf lv coll ao pen fees now pin pout a0 s ops,
  (v_lend cf = true -> 0 <= v_bonus cf) -> (v_lend cf = false -> v_bonus cf = 0) ->
  0 <= coll -> 0 <= ao -> 0 <= pen -> 0 <= fees -> Forall v1op_ok ops ->
  v1_activate cf coll ao pen fees now pin pout = Ok a0 ->
  (v_lend cf = false -> v_led s AUC_C = coll) -> v_led s AUC_D = 0 ->
  let f := v1_run cf ao lv (mkV1L s (Some a0) 0 0 0 0) ops in
  kf_C10_4 (v_lend cf) (v_led s AUC_C) coll (g_bonus f) = false ->
  0 <= v_led (g_s f) AUC_C - live_o f ->
  holds_C10_v1_custody (v_led (g_s f) AUC_C - live_o f) (v_led (g_s f) AUC_D - live_i cf f) = true.
Proof.
  intros cf lv coll ao pen fees now pin pout a0 s ops Hb Hb0 Hc Ha Hp Hf Hops Ea Hv Hd f Hkf Hnn.
  destruct (v1_custody cf lv coll ao pen fees now pin pout a0 s ops Hb Hb0 Hc Ha Hp Hf Hops Ea) as (H1 & H2).
  fold f in H1, H2. unfold holds_C10_v1_custody, kf_C10_4 in *.
  assert (Hcase : v_lend cf = true \/ v_lend cf = false) by (destruct (v_lend cf); auto).
  destruct Hcase as [Hl|Hl].
  - rewrite Hl in Hkf. cbn [andb] in Hkf. apply Z.ltb_ge in Hkf.
    apply andb_true_iff. split; apply Z.eqb_eq; lia.
  - specialize (Hv Hl).
    assert (g_bonus f = 0).
    { pose proof (v1_totals cf lv coll ao pen fees now pin pout a0 s ops Hb Hb0 Hc Ha Hp Hf Ea) as (_ & _ & B0 & B1 & _).
      fold f in B0, B1. rewrite (Hb0 Hl) in B1. pose proof P18_pos. nia. }
    apply andb_true_iff. split; apply Z.eqb_eq; lia.
Qed.
Print Assumptions c10_v1_custody_partial.

(* non-vacuity: a vault auction (1000000 collateral at 1.0, debt 600000 + 12 % penalty, start price 1.2,
   end factor 0.6, 300 s) takes a partial bid, a tick and a bid that fills the target *)
Definition v1ex_cf : v1cfg := mkV1Cfg (12 * P18 / 10) (6 * P18 / 10) 300 100000 1000000 1000000 false 0.
Definition v1ex_led : ledger := fun k => if k =? 0 then 1000000 else if k =? 11 then 5000000 else if k =? 13 then 5000000 else 0.
Example c10_v1_nonvacuous :
  exists a0, v1_activate v1ex_cf 1000000 600000 (12 * P18 / 100) 0 0 (Some 1000000) (Some 1000000) = Ok a0 /\
  i_target a0 = 672000 /\
  let f := v1_run v1ex_cf 600000 v1_no_lv (mkV1L (mkV1S v1ex_led None) (Some a0) 0 0 0 0)
                  [V1Bid 0 200000 false None None; V1Tick 100 (Some 1000000) (Some 1000000); V1Bid 1 800000 false None None] in
  g_a f = None /\ g_paid f = 672000 /\ g_recv f = 615384 /\ g_top f = 0 /\
  v_led (g_s f) AUC_C = 0 /\ v_led (g_s f) AUC_D = 0 /\ v_led (g_s f) BRN_D = 600000 /\
  v_led (g_s f) COL_D = 72000 /\ v_netfee (g_s f) = Some 72000 /\ v_led (g_s f) OWN_C = 384616.
Proof. eexists. split; [vm_compute; reflexivity|]. vm_compute. repeat split; reflexivity. Qed.

(* The bid that closes a generation-1 LEND auction and the price feeds (fix 6257748, finding C14-F2).
   CloseDutchLendAuction takes the auction's target off the locked borrow's debt and runs x/liquidation
   UnLiquidateLockedBorrows; when debt AND collateral are left there ([v1_lv_open]) it values both through the
   oracle to decide between handing the borrow back and liquidating again, and since the fix the error of a
   missing / inactive feed is returned instead of being read as "ratio 0 = healthy".
   (a) the message is its core except at that point: same result for vault auctions, for bids that leave the
       auction open and for failing cores; the closing lend bid succeeds (with the core's result) exactly when
       UnLiquidateLockedBorrows does and fails with its failure - after all sale computations, no state kept;
   (b) fail-closed: with debt and collateral left and the debt or the collateral feed missing, the closing bid
       is refused (ErrorPriceNotActive = Err 17, or - collateral feed active, its valuation overflowing - a panic);
   (c) a lend auction is closed by a bid only with the locked borrow cleared or both feeds active;
   (d) a refused bid leaves the life of the auction (state, record, totals) exactly as it was. *)
Theorem c10_v1_lend_close_needs_feeds : forall cf ao lv a s who bid wd pin pout,
  (match v1_place_bid_core cf ao a s who bid wd with
   | Ok (s', None, r) =>
       if v_lend cf then
         match v1_lend_unliquidate cf lv (i_target a) pin pout with
         | Ok _ => v1_place_bid cf ao lv a s who bid wd pin pout = Ok (s', None, r)
         | Err c => v1_place_bid cf ao lv a s who bid wd pin pout = Err c
         | Panic => v1_place_bid cf ao lv a s who bid wd pin pout = Panic
         end
       else v1_place_bid cf ao lv a s who bid wd pin pout = Ok (s', None, r)
   | x => v1_place_bid cf ao lv a s who bid wd pin pout = x
   end) /\
  (forall s' r, v_lend cf = true -> v1_place_bid_core cf ao a s who bid wd = Ok (s', None, r) ->
     v1_lv_open lv (i_target a) = true -> pin = None \/ pout = None ->
     v1_place_bid cf ao lv a s who bid wd pin pout = Err 17 \/ v1_place_bid cf ao lv a s who bid wd pin pout = Panic) /\
  (forall s' r, v_lend cf = true -> v1_place_bid cf ao lv a s who bid wd pin pout = Ok (s', None, r) ->
     v1_lv_open lv (i_target a) = false \/ exists td tc, pin = Some td /\ pout = Some tc) /\
  (forall f, g_a f = Some a -> g_s f = s -> (forall x, v1_place_bid cf ao lv a s who bid wd pin pout <> Ok x) ->
     v1_step cf ao lv f (V1Bid who bid wd pin pout) = f).
Proof.
  intros cf ao lv a s who bid wd pin pout. split; [apply v1_place_bid_spec|].
  split; [intros s' r; apply v1_lend_close_fail_closed|].
  split; [intros s' r; apply v1_lend_close_needs_feeds|].
  intros f Ea <- Hn. apply v1_step_refused with (a := a); assumption.
Qed.
Print Assumptions c10_v1_lend_close_needs_feeds.

(* non-vacuity = the shape of harness TestC10V1Lend seed 1 case 46 (the first mismatch after the fix landed):
   the lend auction l_au (lot 213393065, target 211707829) over a locked borrow that keeps 100000000 collateral
   and owes 300000000; the bid for the whole lot fills the target.  With both feeds active it closes the auction
   (ratio 88292171 x 1.013 / (100000000 x 1.005) = 0.889...); with the collateral feed inactive, or the debt
   feed, the same bid is refused and the auction's life is untouched; the bidder can still buy a part *)
Definition l_lv2 : v1lv := mkV1LV 100000000 300000000 300000000.
Example c10_v1_lend_close_feeds_nonvacuous :
  let f0 := mkV1L (mkV1S l_led None) (Some l_au) 0 0 0 0 in
  v1_lv_open l_lv2 (i_target l_au) = true /\
  v1_lend_unliquidate l_cf l_lv2 (i_target l_au) (Some 1013000) (Some 1005000) = Ok (Some 889949942517412935) /\
  (exists s' r, v1_place_bid_core l_cf 0 l_au (mkV1S l_led None) 0 213393065 false = Ok (s', None, r)) /\
  g_a (v1_step l_cf 0 l_lv2 f0 (V1Bid 0 213393065 false (Some 1013000) (Some 1005000))) = None /\
  g_paid (v1_step l_cf 0 l_lv2 f0 (V1Bid 0 213393065 false (Some 1013000) (Some 1005000))) = 211707829 /\
  v1_place_bid l_cf 0 l_lv2 l_au (mkV1S l_led None) 0 213393065 false (Some 1013000) None = Err 17 /\
  v1_place_bid l_cf 0 l_lv2 l_au (mkV1S l_led None) 0 213393065 false None (Some 1005000) = Err 17 /\
  v1_step l_cf 0 l_lv2 f0 (V1Bid 0 213393065 false (Some 1013000) None) = f0 /\
  (exists b, g_a (v1_step l_cf 0 l_lv2 f0 (V1Bid 0 1000000 false (Some 1013000) None)) = Some b /\ o_cur b = 212393065).
Proof.
  cbv zeta. split; [vm_compute; reflexivity|]. split; [vm_compute; reflexivity|].
  split. { destruct (v1_place_bid_core l_cf 0 l_au (mkV1S l_led None) 0 213393065 false) as [[[s' [a'|]] r]| |] eqn:E;
             vm_compute in E; try discriminate. eauto. }
  split; [vm_compute; reflexivity|]. split; [vm_compute; reflexivity|].
  split; [vm_compute; reflexivity|]. split; [vm_compute; reflexivity|].
  split.
  { apply v1_step_refused with (a := l_au); [reflexivity|]. intros x. cbn [g_s].
    assert (E : v1_place_bid l_cf 0 l_lv2 l_au (mkV1S l_led None) 0 213393065 false (Some 1013000) None = Err 17) by (vm_compute; reflexivity).
    rewrite E. discriminate. }
  eexists. split; vm_compute; reflexivity.
Qed.

(* the debt asset's price feed gates every bid (fix 3349d05, finding C14-F1): a bid succeeds only
   with an active debt price, and then it is exactly the core bid all theorems above are about;
   without it the bid is refused (the message's cache context is dropped: no state change) *)
Theorem c10_bid_needs_debt_price : forall cf lk a s who amt0 wd dact twa,
  (forall x, place_bid cf lk a s who amt0 wd dact twa = Ok x ->
     dact = true /\ place_bid_core cf lk a s who amt0 wd twa = Ok x) /\
  (dact = false -> exists c, place_bid cf lk a s who amt0 wd dact twa = Err c).
Proof.
  intros cf lk a s who amt0 wd dact twa. unfold place_bid, place_bid_a, place_bid_core. split.
  - intros x H. destruct (amt0 <=? 0); [discriminate|]. destruct wd; [discriminate|].
    destruct dact; cbn [negb] in H; [split; [reflexivity|exact H]|discriminate].
  - intros ->. destruct (amt0 <=? 0); [eexists; reflexivity|]. destruct wd; eexists; reflexivity.
Qed.
Print Assumptions c10_bid_needs_debt_price.
