(* Tie (C) for C06.  gen_amm_* are REGENERATED from /repo's x/liquidity/amm/pool.go on every run
   (tools/goextract -> Gen/PureFuns.v); Pool.deposit / Pool.withdraw are the hand-written models every
   C06 theorem is about.  Each theorem is a pointwise equality for ALL inputs (no sampling): a change
   of the arithmetic of the Go function changes the regenerated definition and the theorem stops
   checking; an edit that keeps the arithmetic keeps it.  The *_recognised theorems state that the
   translator met no construct outside its subset. *)
From Coq Require Import String.
From Coq Require Import ZifyBool.
From Comdex Require Import Lib.Base Lib.DecArith Lib.GoSem Model.Pool Gen.PureFuns Proofs.PureFunsLemmas Proofs.PureFunsC06
  Proofs.PureFunsLemmas2 Proofs.PureFunsC06b Proofs.PureFunsC06c.

Theorem tie_amm_Deposit : forall rx ry ps x y,
  gen_amm_Deposit rx ry ps x y = Pool.deposit rx ry ps x y.
Proof.
  (* convertible as the code stands; the case analysis also survives a re-ordering of the
     independent checked operations (same results in every case) *)
  intros. first [ reflexivity
                | unfold gen_amm_Deposit, deposit, deposit_body, quo_trunc_s, quo_s, ceil_int_s, Pool.lift_ovf, min_dec;
                  tie_solve ].
Qed.
Print Assumptions tie_amm_Deposit.

Theorem tie_amm_Deposit_recognised : gen_amm_Deposit_unrecognised = [].
Proof. reflexivity. Qed.
Print Assumptions tie_amm_Deposit_recognised.

Theorem tie_amm_Withdraw : forall rx ry ps pc fee,
  gen_amm_Withdraw rx ry ps pc fee = Pool.withdraw rx ry ps pc fee.
Proof.
  intros. unfold gen_amm_Withdraw, withdraw, withdraw_body, withdraw_one, quo_trunc_s, Pool.lift_ovf.
  destruct (pc =? ps); [reflexivity|]. tie_solve.
Qed.
Print Assumptions tie_amm_Withdraw.

Theorem tie_amm_Withdraw_recognised : gen_amm_Withdraw_unrecognised = [].
Proof. reflexivity. Qed.
Print Assumptions tie_amm_Withdraw_recognised.

(* amm.InitialPoolCoinSupply: 10^ceil((digits x + digits y)/2) through the *big.Int API (len(Text(10)),
   big.NewInt, Exp, NewIntFromBigInt: Lib/GoSem.v).  The model's decimal length has fuel 100, hence
   the bound 10^100 (every sdk.Int is below 2^256 < 10^78); the code's NewIntFromBigInt adds the
   256-bit check the model does not have (10^78 for two 78-digit reserves): stated exactly. *)
Theorem tie_amm_InitialPoolCoinSupply : forall x y, Z.abs x < 10 ^ 100 -> Z.abs y < 10 ^ 100 ->
  gen_amm_InitialPoolCoinSupply x y = GoSem.lift_ovf (chk_int (Pool.initial_pool_coin_supply x y)).
Proof.
  intros x y Hx Hy. unfold gen_amm_InitialPoolCoinSupply, initial_pool_coin_supply.
  rewrite (dec_text_len_100 x Hx), (dec_text_len_100 y Hy).
  pose proof (text_len_bounds x) as Bx. pose proof (text_len_bounds y) as By.
  assert (H63 : GoSem.two63 = 9223372036854775808) by reflexivity.
  cbv zeta. clear Hx Hy.
  assert (W : forall e, -1000 <= e <= 1000 -> wrap_i64 e = e).
  { intros e He. apply wrap_i64_id. unfold i64. rewrite H63. lia. }
  rewrite (W (text_len x - 1)), (W (text_len y - 1)) by lia.
  rewrite (W (text_len x - 1 + 1)), (W (text_len y - 1 + 1)) by lia.
  rewrite (W (text_len x - 1 + 1 + (text_len y - 1 + 1))) by lia.
  rewrite (W (text_len x - 1 + 1 + (text_len y - 1 + 1) + 1)) by lia.
  unfold g_sdiv. change (2 =? 0) with false. cbv iota. cbn [obind].
  set (a := text_len x - 1 + 1 + (text_len y - 1 + 1) + 1).
  assert (Ha : 3 <= a <= 205) by (unfold a; lia).
  assert (Hq : 1 <= Z.quot a 2 <= 103).
  { rewrite Z.quot_div_nonneg by lia. split; [apply Z.div_le_lower_bound; lia|apply Z.div_le_upper_bound; lia]. }
  rewrite W by lia.
  unfold big_exp. destruct (Z.leb_spec (Z.quot a 2) 0); [lia|]. reflexivity.
Qed.
Print Assumptions tie_amm_InitialPoolCoinSupply.

Theorem tie_amm_InitialPoolCoinSupply_recognised : gen_amm_InitialPoolCoinSupply_unrecognised = [].
Proof. reflexivity. Qed.
Print Assumptions tie_amm_InitialPoolCoinSupply_recognised.

Example tie_amm_InitialPoolCoinSupply_example : gen_amm_InitialPoolCoinSupply 1000000 999 = Ok 100000.
Proof. vm_compute. reflexivity. Qed.

(* ---------------- ranged pools ---------------- *)

(* amm.DeriveTranslation.  Model/Pool.v omits the 315-bit check of the two subtractions at
   pool.go:571 (see Proofs/PureFunsLemmas.v); the regenerated definition equals the model with these
   two checks added, for all inputs ... *)
Theorem tie_amm_DeriveTranslation_checked : forall rx ry minP maxP,
  to_option (gen_amm_DeriveTranslation rx ry minP maxP) = derive_translation_c rx ry minP maxP.
Proof.
  intros. unfold gen_amm_DeriveTranslation, derive_translation_c, gen_amm_inv, inv_d, sqrt_d, to_option.
  unfold_gosem. unfold dquo_c, dsub_c, dadd_c, dmul_c, dec_of_int. cbv [obind ob].
  change (2 =? 0) with false. cbv iota. tie_auto.
Qed.
Print Assumptions tie_amm_DeriveTranslation_checked.

(* ... hence every value the Go function returns is the value of Pool.derive_translation (the model
   the C06 theorems are about); where the Go function panics the model may still return a value. *)
Theorem tie_amm_DeriveTranslation : forall rx ry minP maxP r,
  gen_amm_DeriveTranslation rx ry minP maxP = Ok r ->
  Pool.derive_translation rx ry minP maxP = Some r.
Proof.
  intros rx ry minP maxP r H.
  assert (E : to_option (gen_amm_DeriveTranslation rx ry minP maxP) = Some r) by (rewrite H; reflexivity).
  rewrite tie_amm_DeriveTranslation_checked in E.
  destruct (derive_translation_c_agrees rx ry minP maxP) as [N | A]; congruence.
Qed.
Print Assumptions tie_amm_DeriveTranslation.

Theorem tie_amm_DeriveTranslation_recognised :
  gen_amm_DeriveTranslation_unrecognised = [] /\ gen_amm_inv_unrecognised = [].
Proof. split; reflexivity. Qed.
Print Assumptions tie_amm_DeriveTranslation_recognised.

(* amm.ValidateRangedPoolParams: the error result as a number (0 = nil, n = the n-th error of the
   function in source order = the model's Err n); no SafeMath here, so both panic classes collapse *)
Theorem tie_amm_ValidateRangedPoolParams : forall minP maxP initP,
  collapse (gen_amm_ValidateRangedPoolParams minP maxP initP) = err_value (Pool.validate_ranged minP maxP initP).
Proof.
  intros. unfold gen_amm_ValidateRangedPoolParams, validate_ranged, err_value, collapse.
  rewrite !k_min_pool_price, !k_max_pool_price, !k_min_gap_ratio.
  unfold_gosem. unfold dquo_c, dsub_c. cbv [obind ob]. tie_auto.
Qed.
Print Assumptions tie_amm_ValidateRangedPoolParams.

Theorem tie_amm_ValidateRangedPoolParams_recognised : gen_amm_ValidateRangedPoolParams_unrecognised = [].
Proof. reflexivity. Qed.
Print Assumptions tie_amm_ValidateRangedPoolParams_recognised.

(* amm.NewRangedPool: a pointer-to-struct result is ONE component, option of the struct's fields
   (tools/goextract/emit_purefuns_ptr.go); every pool the Go constructor returns is the model's *)
Theorem tie_amm_NewRangedPool : forall rx ry ps minP maxP r,
  gen_amm_NewRangedPool rx ry ps minP maxP = Ok r ->
  exists p, Pool.new_ranged_pool rx ry ps minP maxP = Some p /\ r = Some (rp_fields p).
Proof.
  intros rx ry ps minP maxP r H. unfold gen_amm_NewRangedPool in H.
  destruct (gen_amm_DeriveTranslation rx ry minP maxP) as [[tx ty]| |] eqn:E; cbn [obind] in H; try discriminate.
  apply tie_amm_DeriveTranslation in E. unfold new_ranged_pool. rewrite E. cbn [ob fst snd].
  unfold g_dadd, GoSem.lift_ovf in H.
  destruct (dadd_c (dec_of_int rx) tx) as [xc|]; cbn [obind] in H; [|discriminate].
  destruct (dadd_c (dec_of_int ry) ty) as [yc|]; cbn [obind] in H; [|discriminate].
  inversion H; subst r. cbn [ob]. eexists; split; reflexivity.
Qed.
Print Assumptions tie_amm_NewRangedPool.

(* amm.CreateRangedPool, the arithmetic core, for ALL inputs: the regenerated function is
   Pool.create_ranged_amounts (the accepted ax, ay and the error) followed by the regenerated
   InitialPoolCoinSupply and NewRangedPool (tied above).  No SafeMath here: both panic classes
   collapse.  A change of the comparison `ay.GT(y)`, of a rounding or of the order of the operands
   changes the left-hand side and the theorem stops checking. *)
Theorem tie_amm_CreateRangedPool_core : forall x y minP maxP initP,
  collapse (gen_amm_CreateRangedPool x y minP maxP initP) =
  collapse (match Pool.create_ranged_amounts x y minP maxP initP with
            | Ok (ax, ay) =>
                obind (gen_amm_InitialPoolCoinSupply ax ay) (fun ps =>
                obind (gen_amm_NewRangedPool ax ay ps minP maxP) (fun r => Ok (r, 0)))
            | Err n => Ok (None, create_err_code n)
            | Panic => Panic
            end).
Proof.
  intros. unfold gen_amm_CreateRangedPool, create_ranged_amounts.
  destruct (negb (x >? 0) && negb (y >? 0)); [reflexivity|].
  rewrite collapse_obind, tie_amm_ValidateRangedPoolParams.
  destruct (validate_ranged minP maxP initP) as [[]|n|] eqn:V; cbn [err_value obind]; [| |reflexivity].
  2:{ pose proof (validate_ranged_err _ _ _ _ V) as Hn. unfold create_err_code.
      destruct (Z.eqb_spec n 0); [lia|]. destruct (Z.eqb_spec n 9); [lia|]. reflexivity. }
  change (negb (0 =? 0)) with false. cbv iota.
  match goal with |- collapse (obind _ ?k) = _ => set (K := k) end.
  destruct (initP =? minP); [reflexivity|]. destruct (initP =? maxP); [reflexivity|].
  unfold gen_amm_inv, inv_d, sqrt_d. unfold_gosem. unfold dquo_c, dsub_c, dmul_c, dtrunc_int_c. cbv [obind ob].
  tie_auto.
Qed.
Print Assumptions tie_amm_CreateRangedPool_core.

(* hence: whatever the Go function returns is what the model returns (amounts within 10^100, the
   fuel of the model's decimal length: see tie_amm_InitialPoolCoinSupply) *)
Theorem tie_amm_CreateRangedPool : forall x y minP maxP initP r e,
  Z.abs x < 10 ^ 100 -> Z.abs y < 10 ^ 100 ->
  gen_amm_CreateRangedPool x y minP maxP initP = Ok (r, e) ->
  match Pool.create_ranged_pool x y minP maxP initP with
  | Ok p => e = 0 /\ r = Some (rp_fields p)
  | Err n => e = create_err_code n /\ r = None
  | Panic => False
  end.
Proof.
  intros x y minP maxP initP r e Hx Hy H.
  pose proof (tie_amm_CreateRangedPool_core x y minP maxP initP) as T. rewrite H in T. cbn [collapse] in T.
  unfold create_ranged_pool.
  destruct (create_ranged_amounts x y minP maxP initP) as [[ax ay]|n|] eqn:A; cbn [obind fst snd]; [| |discriminate].
  2:{ inversion T; auto. }
  assert (Hax : Z.abs ax < 10 ^ 100 /\ Z.abs ay < 10 ^ 100).
  { revert A. unfold create_ranged_amounts.
    destruct (negb (x >? 0) && negb (y >? 0)); [discriminate|].
    destruct (validate_ranged minP maxP initP) as [[]| |]; cbn [obind]; try discriminate.
    destruct (initP =? minP); [intros A; inversion A; subst; split; [reflexivity|assumption]|].
    destruct (initP =? maxP); [intros A; inversion A; subst; split; [assumption|reflexivity]|].
    assert (B : forall d v, dtrunc_int_c d = Some v -> Z.abs v < 10 ^ 100).
    { intros d v. unfold dtrunc_int_c, chk_int, fits_int.
      destruct (Z.ltb_spec (Z.abs (dtrunc_int d)) two256); [|discriminate].
      intros E; inversion E; subst.
      assert (two256 < 10 ^ 100) by (vm_compute; reflexivity). lia. }
    cbv [ob].
    repeat match goal with
           | |- context [match ?o with Some _ => _ | None => _ end] =>
               match o with context [match _ with _ => _ end] => fail 1 | _ => idtac end;
               let E := fresh "E" in destruct o eqn:E; [|discriminate]
           | |- context [if ?c then _ else _] => destruct c
           end; intros A; inversion A; subst; split; eauto. }
  destruct Hax as (Hax & Hay).
  rewrite (tie_amm_InitialPoolCoinSupply ax ay Hax Hay) in T.
  unfold GoSem.lift_ovf in T.
  destruct (chk_int (initial_pool_coin_supply ax ay)) as [ps|] eqn:C; cbn [obind collapse] in T; [|discriminate].
  unfold chk_int in C. destruct (fits_int _); [|discriminate]. inversion C; subst ps.
  destruct (gen_amm_NewRangedPool ax ay (initial_pool_coin_supply ax ay) minP maxP) as [r'| |] eqn:N;
    cbn [obind collapse] in T; try discriminate.
  inversion T; subst r e.
  apply tie_amm_NewRangedPool in N as (p & Np & ->). rewrite Np. auto.
Qed.
Print Assumptions tie_amm_CreateRangedPool.

Theorem tie_amm_CreateRangedPool_recognised :
  gen_amm_CreateRangedPool_unrecognised = [] /\ gen_amm_NewRangedPool_unrecognised = [].
Proof. split; reflexivity. Qed.
Print Assumptions tie_amm_CreateRangedPool_recognised.

(* the exactly balanced offer of c06_create_ranged_balanced_ex through the regenerated function *)
Example tie_amm_CreateRangedPool_example :
  match gen_amm_CreateRangedPool 1000000 9998500175 (5 * 10 ^ 17) (2 * 10 ^ 18) (5001 * 10 ^ 14) with
  | Ok (Some (rx, ry, _, _, _, _, _, _, _), e) => rx = 1000000 /\ ry = 9998500175 /\ e = 0
  | _ => False
  end.
Proof. vm_compute. repeat split; reflexivity. Qed.

(* methods of *RangedPool: the receiver's fields are the leading parameters, in declaration order *)
Theorem tie_amm_RangedPool_Price : forall p,
  to_option (gen_amm_RangedPool_Price (r_rx p) (r_ry p) (r_ps p) (r_min p) (r_max p) (r_tx p) (r_ty p) (r_xc p) (r_yc p))
  = Pool.ranged_price p.
Proof.
  intros. unfold gen_amm_RangedPool_Price, ranged_price, to_option.
  unfold_gosem. unfold dquo_c. cbv [obind ob]. tie_auto.
Qed.
Print Assumptions tie_amm_RangedPool_Price.

Theorem tie_amm_RangedPool_BuyAmountOver : forall p price,
  to_option (gen_amm_RangedPool_BuyAmountOver (r_rx p) (r_ry p) (r_ps p) (r_min p) (r_max p) (r_tx p) (r_ty p) (r_xc p) (r_yc p) price)
  = Pool.ranged_buy_amount_over p price.
Proof.
  intros. unfold gen_amm_RangedPool_BuyAmountOver, ranged_buy_amount_over, gen_amm_RangedPool_Price, ranged_price, to_option.
  rewrite !k_max_coin_amount.
  unfold_gosem. unfold dquo_c, dmul_c, dsub_c, dtrunc_int_c. cbv [obind ob]. tie_auto.
Qed.
Print Assumptions tie_amm_RangedPool_BuyAmountOver.

Theorem tie_amm_RangedPool_SellAmountUnder : forall p price,
  to_option (gen_amm_RangedPool_SellAmountUnder (r_rx p) (r_ry p) (r_ps p) (r_min p) (r_max p) (r_tx p) (r_ty p) (r_xc p) (r_yc p) price)
  = Pool.ranged_sell_amount_under p price.
Proof.
  intros. unfold gen_amm_RangedPool_SellAmountUnder, ranged_sell_amount_under, gen_amm_RangedPool_Price, ranged_price, to_option.
  unfold_gosem. unfold dquo_c, dquo_up_c, dmul_c, dsub_c, dtrunc_int_c. cbv [obind ob]. tie_auto.
Qed.
Print Assumptions tie_amm_RangedPool_SellAmountUnder.

Theorem tie_amm_RangedPool_recognised :
  gen_amm_RangedPool_Price_unrecognised = [] /\ gen_amm_RangedPool_BuyAmountOver_unrecognised = [] /\
  gen_amm_RangedPool_SellAmountUnder_unrecognised = [].
Proof. repeat split; reflexivity. Qed.
Print Assumptions tie_amm_RangedPool_recognised.
