(* Tie (C) for C06.  gen_amm_* are REGENERATED from /repo's x/liquidity/amm/pool.go on every run
   (tools/goextract -> Gen/PureFuns.v); Pool.deposit / Pool.withdraw are the hand-written models every
   C06 theorem is about.  Each theorem is a pointwise equality for ALL inputs (no sampling): a change
   of the arithmetic of the Go function changes the regenerated definition and the theorem stops
   checking; an edit that keeps the arithmetic keeps it.  The *_recognised theorems state that the
   translator met no construct outside its subset. *)
From Coq Require Import String.
From Comdex Require Import Lib.Base Lib.DecArith Lib.GoSem Model.Pool Gen.PureFuns Proofs.PureFunsLemmas.

Theorem tie_amm_Deposit : forall rx ry ps x y,
  gen_amm_Deposit rx ry ps x y = Pool.deposit rx ry ps x y.
Proof. intros. reflexivity. Qed.
Print Assumptions tie_amm_Deposit.

Theorem tie_amm_Deposit_recognised : gen_amm_Deposit_unrecognised = [].
Proof. reflexivity. Qed.
Print Assumptions tie_amm_Deposit_recognised.

Theorem tie_amm_Withdraw : forall rx ry ps pc fee,
  gen_amm_Withdraw rx ry ps pc fee = Pool.withdraw rx ry ps pc fee.
Proof.
  intros. unfold gen_amm_Withdraw, withdraw, withdraw_body, withdraw_one, quo_trunc_s, Pool.lift_ovf.
  destruct (pc =? ps); [reflexivity|]. tie_solve.
Qed.
Print Assumptions tie_amm_Withdraw.

Theorem tie_amm_Withdraw_recognised : gen_amm_Withdraw_unrecognised = [].
Proof. reflexivity. Qed.
Print Assumptions tie_amm_Withdraw_recognised.
