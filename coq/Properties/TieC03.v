(* Tie (C) for C03.  gen_vault_CalculateCollateralizationRatio and gen_market_CalcAssetPrice are
   REGENERATED from /repo's x/vault/keeper/vault.go and x/market/keeper/oracle.go on every run;
   Vault.calc_cr / Vault.calc_asset_price are the hand-written models the C03 theorems are about.
   Both Go functions are keeper methods: what they read from the stores (pair, assets, ESM status,
   price snapshot, Twa, and - in the vault function - the two results of oracle.CalcAssetPrice,
   which is called through an interface) are parameters of the regenerated definitions; the
   theorems instantiate them with the corresponding components of the model state.  Error values
   are the model's codes (E_NOTFOUND = 3, E_INVALID = 6, E_PRICE = 10; emit_purefuns_specs.go).
   [res_of] turns the pair (value, error) into the models' outcome. *)
From Coq Require Import String.
From Comdex Require Import Lib.Base Lib.DecArith Lib.GoSem Model.Vault Gen.PureFuns Proofs.PureFunsLemmas Proofs.PureFunsLemmas2.

(* market.CalcAssetPrice, asset found; [active] = the Twa record exists and IsPriceActive *)
Theorem tie_market_CalcAssetPrice : forall s id amt dec twa (found_twa is_active : bool),
  price s id = (if found_twa && is_active then Some twa else None) ->
  res_of (gen_market_CalcAssetPrice id amt true found_twa is_active twa dec) = Vault.calc_asset_price s id dec amt.
Proof.
  intros s id amt dec twa ft ia H. unfold gen_market_CalcAssetPrice, calc_asset_price, total_value. rewrite H.
  destruct (ft && ia); cbn [negb]; [|reflexivity].
  unfold_gosem. unfold E_PRICE, dmul_c, dquo_c. cbv [obind res_of]. tie_auto.
Qed.
Print Assumptions tie_market_CalcAssetPrice.

(* vault.CalculateCollateralizationRatio, extended pair / pair / both assets found.
   [pin fin], [pout fout]: the ESM price snapshots of the two assets and whether they exist;
   (vin, ein), (vout, eout): the results of the two oracle.CalcAssetPrice calls, related to the
   model's calc_asset_price on the branches that make the call *)
Theorem tie_vault_CalculateCollateralizationRatio :
  forall s ep id pairId aid_in aid_out iid oid ain aout (f_esm : bool) pin (fin : bool) pout (fout : bool) vin ein vout eout,
  (f_esm = false -> esm s (ep_app ep) = esm0) ->
  snap s (ep_app ep) (ep_in ep) = (if fin then Some pin else None) ->
  snap s (ep_app ep) (ep_out ep) = (if fout then Some pout else None) ->
  (e_status (esm s (ep_app ep)) = false -> calc_asset_price s (ep_in ep) (ep_dec_in ep) ain = ret vin ein) ->
  ((e_status (esm s (ep_app ep)) && e_snap (esm s (ep_app ep))) = false -> ep_oracle_out ep = true ->
     calc_asset_price s (ep_out ep) (ep_dec_out ep) aout = ret vout eout) ->
  res_of (gen_vault_CalculateCollateralizationRatio id ain aout true pairId true aid_in true aid_out true (ep_app ep)
            f_esm (e_status (esm s (ep_app ep))) (e_snap (esm s (ep_app ep))) iid pin fin (ep_dec_in ep)
            (ep_oracle_out ep) oid pout fout (ep_dec_out ep) vout eout (ep_out_price ep) vin ein)
  = Vault.calc_cr s ep ain aout.
Proof.
  intros until eout. intros Hesm Hin Hout Hci Hco.
  unfold gen_vault_CalculateCollateralizationRatio, calc_cr, total_value. rewrite Hin, Hout.
  unfold E_PRICE, E_INVALID.
  destruct f_esm; [|rewrite (Hesm eq_refl) in *; cbn [esm0 e_status e_snap] in *];
  destruct (e_status (esm s (ep_app ep))) eqn:Est; destruct (e_snap (esm s (ep_app ep))) eqn:Esn;
  destruct (ep_oracle_out ep) eqn:Eo; cbn [negb andb];
  try (rewrite (Hci eq_refl)); try (rewrite (Hco eq_refl eq_refl)); unfold ret;
  destruct fin; destruct fout; cbn [negb];
  unfold_gosem; unfold dmul_c, dquo_c; cbv [obind res_of]; tie_auto; try congruence.
Qed.
Print Assumptions tie_vault_CalculateCollateralizationRatio.

(* vault.VerifyCollaterlizationRatio: the error result as a number (0 = nil) *)
Definition err_of (o : outcome Z) : outcome unit :=
  match o with Ok e => if e =? 0 then Ok tt else Err e | Err _ => Panic | Panic => Panic end.

Theorem tie_vault_VerifyCollaterlizationRatio :
  forall s ep id pairId aid_in aid_out iid oid ain aout (status : bool) (f_esm : bool) pin (fin : bool) pout (fout : bool) vin ein vout eout,
  (f_esm = false -> esm s (ep_app ep) = esm0) ->
  snap s (ep_app ep) (ep_in ep) = (if fin then Some pin else None) ->
  snap s (ep_app ep) (ep_out ep) = (if fout then Some pout else None) ->
  (e_status (esm s (ep_app ep)) = false -> calc_asset_price s (ep_in ep) (ep_dec_in ep) ain = ret vin ein) ->
  ((e_status (esm s (ep_app ep)) && e_snap (esm s (ep_app ep))) = false -> ep_oracle_out ep = true ->
     calc_asset_price s (ep_out ep) (ep_dec_out ep) aout = ret vout eout) ->
  err_of (gen_vault_VerifyCollaterlizationRatio id ain aout (ep_min_cr ep) status true pairId true aid_in true aid_out true (ep_app ep)
            f_esm (e_status (esm s (ep_app ep))) (e_snap (esm s (ep_app ep))) iid pin fin (ep_dec_in ep)
            (ep_oracle_out ep) oid pout fout (ep_dec_out ep) vout eout (ep_out_price ep) vin ein)
  = Vault.verify_cr s ep ain aout status.
Proof.
  intros until eout. intros Hesm Hin Hout Hci Hco.
  unfold gen_vault_VerifyCollaterlizationRatio, verify_cr.
  rewrite <- (tie_vault_CalculateCollateralizationRatio s ep id pairId aid_in aid_out iid oid ain aout f_esm
                pin fin pout fout vin ein vout eout Hesm Hin Hout Hci Hco).
  destruct (gen_vault_CalculateCollateralizationRatio _ _ _ _ _ _ _ _ _ _ _ _ _ _ _ _ _ _ _ _ _ _ _ _ _ _ _ _) as [[r e] | c |];
    [|reflexivity|reflexivity].
  cbn [obind res_of err_of]. destruct (e =? 0) eqn:Ee; cbn [negb obind].
  - unfold E_CR. change 1000000000000000000 with P18.
    destruct ((r <? ep_min_cr ep) && negb status); [reflexivity|].
    destruct ((r <? P18) && status); reflexivity.
  - cbn [err_of]. rewrite Ee. reflexivity.
Qed.
Print Assumptions tie_vault_VerifyCollaterlizationRatio.

(* vault.GetAmountOfOtherToken(id1, rate1, amt1, id2, rate2), both assets found: the token amount (second
   result) and the nil error are those of Vault.other_token_gen on the two assets' Decimals, for all
   inputs; [snd3] drops the first result (the dollar value t1dAmount, which the vault model does not use) *)
Theorem tie_vault_GetAmountOfOtherToken : forall id1 rate1 amt1 id2 rate2 dec1 dec2,
  snd3 (to_option (gen_vault_GetAmountOfOtherToken id1 rate1 amt1 id2 rate2 true true dec1 dec2))
  = pair0 (Vault.other_token_gen dec1 rate1 amt1 dec2 rate2).
Proof.
  intros. unfold gen_vault_GetAmountOfOtherToken, other_token_gen, snd3, pair0. cbn [negb].
  unfold_gosem. unfold dmul_c, dquo_c, dtrunc_int_c. cbv [obind to_option option_map]. tie_auto.
Qed.
Print Assumptions tie_vault_GetAmountOfOtherToken.

(* an asset that does not exist: (0, 0, ErrorAssetDoesNotExist), no arithmetic *)
Theorem tie_vault_GetAmountOfOtherToken_notfound : forall id1 rate1 amt1 id2 rate2 (f2 : bool) dec1 dec2,
  gen_vault_GetAmountOfOtherToken id1 rate1 amt1 id2 rate2 false f2 dec1 dec2 = Ok (0, 0, 3) /\
  gen_vault_GetAmountOfOtherToken id1 rate1 amt1 id2 rate2 true false dec1 dec2 = Ok (0, 0, 3).
Proof. split; reflexivity. Qed.
Print Assumptions tie_vault_GetAmountOfOtherToken_notfound.

Theorem tie_vault_GetAmountOfOtherToken_recognised : gen_vault_GetAmountOfOtherToken_unrecognised = [].
Proof. reflexivity. Qed.
Print Assumptions tie_vault_GetAmountOfOtherToken_recognised.

Theorem tie_vault_recognised :
  gen_vault_CalculateCollateralizationRatio_unrecognised = [] /\ gen_market_CalcAssetPrice_unrecognised = [] /\
  gen_vault_VerifyCollaterlizationRatio_unrecognised = [].
Proof. repeat split; reflexivity. Qed.
Print Assumptions tie_vault_recognised.
