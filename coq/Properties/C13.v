(* C13 - Savings and fee books are backed: locker balances and collector net fees.
   Property theorems only; each is closed by lemmas proved in Proofs/LockerProofs.v,
   Proofs/CollectorProofs.v, Proofs/C13Locker.v and Proofs/C13Collector.v.

   [ops] is ANY finite history of the modelled operations (Model/Locker.v, type [op]): the five
   locker messages, collector lookup / whitelist / auction-flag / ESM / breaker settings, fee
   inflows of the vault handlers, GetAmountFromCollector (auction lots, debt cover),
   DecreaseNetFeeCollectedData, WasmMsgGetSurplusFund, generation-1 surplus / debt auction starts
   and closes, generation-1 and generation-2 liquidation penalties, the generation-2
   CheckStatsForSurplusAndDebt and the generation-2 surplus / debt auction closes, the generation-2
   TriggerEsm hand-back (penalty share to the collector), the emergency-shutdown redemption of the
   collector's books (esm SetUpDebtRedemptionForCollector) and the collector's own MsgDeposit +
   Refund, with any arguments; failed messages / hooks leave the state unchanged ([apply_step]: baseapp,
   ApplyFuncIfNoError).  [genesis assets apps funds] is the empty store with funded users.
   [valid_op]: users are accounts >= 0, DecreaseNetFeeCollectedData is not given a negative
   amount, WasmMsgGetSurplusFund is given the coin of the asset it names, the generation-2 debt
   auction's DebtToken is in the denom of the collector asset (CheckStatsForSurplusAndDebt mints it so). *)
From Comdex Require Import Lib.Base Lib.DecArith Model.Collector Model.Locker
  Proofs.CollectorProofs Proofs.LockerProofs Proofs.C13Locker Proofs.C13Collector.

(* ---- lockers ---- *)

(* deposited(app, asset) = sum of the net balances of its lockers, after every history *)
Theorem c13_locker_total : forall assets apps funds ops app asset lk,
  forallb valid_fund funds = true -> forallb valid_op ops = true ->
  let s := run (genesis assets apps funds) ops in
  lks s (app, asset) = Some lk -> lk_dep lk = net_sum (lockers_of s app asset).
Proof. exact run_locker_total. Qed.
Print Assumptions c13_locker_total.

(* the locker custody account holds at least the lockers' balances of each asset, which are at
   least the sum of the deposited totals over any duplicate-free list of apps *)
Theorem c13_locker_custody : forall assets apps funds ops la d,
  forallb valid_fund funds = true -> forallb valid_op ops = true -> NoDup la ->
  let s := run (genesis assets apps funds) ops in
  sum_over la (fun a => dep_val s a d) <= net_sum (filter (fun x => l_asset x =? d) (lockers s)) /\
  net_sum (filter (fun x => l_asset x =? d) (lockers s)) <= bnk (cs s) (A_LOCKER, d).
Proof. exact run_locker_custody. Qed.
Print Assumptions c13_locker_custody.

(* the predicate the runner evaluates on the implementation's observations is a theorem of the model *)
Theorem c13_locker_predicate : forall assets apps funds ops la ld,
  forallb valid_fund funds = true -> forallb valid_op ops = true -> NoDup la ->
  holds_C13_locker la ld (run (genesis assets apps funds) ops) = true.
Proof. exact run_locker_holds. Qed.
Print Assumptions c13_locker_predicate.

(* a successful withdrawal pays the owner exactly the requested amount; a successful close pays
   exactly the full net balance (the balance before the message plus the reward the message
   itself credits) and removes the locker *)
Theorem c13_locker_pay : forall assets apps funds ops u app asset lid amt rw s',
  forallb valid_fund funds = true -> forallb valid_op ops = true -> 0 <= u ->
  let s := run (genesis assets apps funds) ops in
  (step s (LWithdraw u app asset lid amt rw) = Ok s' ->
   bnk (cs s') (user u, asset) = bnk (cs s) (user u, asset) + amt) /\
  (step s (LClose u app asset lid rw) = Ok s' ->
   exists ld, find_locker (lockers s) lid = Some ld /\ find_locker (lockers s') lid = None /\
              bnk (cs s') (user u, asset) = bnk (cs s) (user u, asset) + l_net ld + credited s app asset lid rw).
Proof.
  intros assets apps funds ops u app asset lid amt rw s' Hf Hv Hu s.
  pose proof (run_linv ops _ (genesis_linv assets apps funds Hf) Hv) as HI. split.
  - exact (step_pay_withdraw _ _ _ _ _ _ _ _ HI Hu).
  - exact (step_pay_close _ _ _ _ _ _ _ HI Hu).
Qed.
Print Assumptions c13_locker_pay.

Theorem c13_locker_pay_predicate : forall assets apps funds ops o s',
  forallb valid_fund funds = true -> forallb valid_op ops = true -> valid_op o = true ->
  let s := run (genesis assets apps funds) ops in
  step s o = Ok s' -> holds_C13_pay s o s' = true.
Proof.
  intros assets apps funds ops o s' Hf Hv Ho s. exact (step_pay _ _ _ (run_linv ops _ (genesis_linv assets apps funds Hf) Hv) Ho).
Qed.
Print Assumptions c13_locker_pay_predicate.

(* ---- collector ---- *)

(* recorded net fees never go negative, whatever the history *)
Theorem c13_net_fee_nonneg : forall assets apps funds ops la ld,
  forallb valid_fund funds = true -> forallb valid_op ops = true ->
  let s := run (genesis assets apps funds) ops in
  (forall k x, nf (cs s) k = Some x -> 0 <= x) /\ holds_C13_nonneg la ld s = true.
Proof.
  intros assets apps funds ops la ld Hf Hv s.
  assert (Hn : NfNonneg (cs s)) by exact (run_nonneg ops _ (proj1 (proj2 (genesis_cinv assets apps funds Hf))) Hv).
  split; [exact Hn|exact (nonneg_holds la ld s Hn)].
Qed.
Print Assumptions c13_net_fee_nonneg.

(* the per-op table, in ANY state: a successful op other than the savings-rate change and the
   emergency redemption (which touch several lockers / book entries: next two theorems) moves the
   book entry net_fee(a, d) by exactly [nf_delta_of] (fees / interest / penalties booked in, locker
   rewards / auction lots / debt cover booked out) and the collector's balance of exactly one
   denom by exactly [coin_delta_of]; both tables are in Model/Locker.v *)
Theorem c13_net_fee_delta : forall s o s',
  valid_op o = true -> is_multi o = false -> step s o = Ok s' ->
  (forall a d, nf_val (cs s') a d = nf_val (cs s) a d + nf_delta_of s s' o (a, d)) /\
  (forall d, bnk (cs s') (A_COLLECTOR, d) = bnk (cs s) (A_COLLECTOR, d) +
             (if d =? fst (coin_delta_of s s' o) then snd (coin_delta_of s s' o) else 0)) /\
  (forall keys, holds_C13_delta keys s o s' = true).
Proof.
  intros s o s' Hv U H. destruct (step_effok s o s' Hv U H) as (A1 & A2 & _).
  split; [exact A1|]. split; [exact A2|]. intros keys. exact (delta_holds keys s o s' Hv U H).
Qed.
Print Assumptions c13_net_fee_delta.

(* the savings-rate change (WasmUpdateCollectorLookupTable -> LockerIterateRewards) after any history
   (no known-finding class is left): net fees of (app, asset) fall by exactly what its lockers
   are credited, exactly that many coins leave the collector, nothing else moves *)
Theorem c13_net_fee_delta_rate_change : forall assets apps funds ops app asset lsr sthr dthr lot dlot rws s',
  forallb valid_fund funds = true -> forallb valid_op ops = true ->
  let s := run (genesis assets apps funds) ops in
  step s (UpdLookup app asset lsr sthr dthr lot dlot rws) = Ok s' ->
  exists r, 0 <= r /\
    net_sum (lockers_of s' app asset) = net_sum (lockers_of s app asset) + r /\
    (forall a d, nf_val (cs s') a d = nf_val (cs s) a d + (if keq (a, d) (app, asset) then - r else 0)) /\
    (forall d, bnk (cs s') (A_COLLECTOR, d) = bnk (cs s) (A_COLLECTOR, d) + (if d =? asset then - r else 0)) /\
    (forall keys, holds_C13_delta keys s (UpdLookup app asset lsr sthr dthr lot dlot rws) s' = true).
Proof.
  intros assets apps funds ops app asset lsr sthr dthr lot dlot rws s' Hf Hv s H.
  pose proof (run_cinv ops _ (genesis_cinv assets apps funds Hf) Hv) as HC. fold s in HC.
  assert (H' := H). cbn [step] in H'.
  destruct (update_lookup_eff _ _ _ _ _ _ _ _ _ _ HC H') as (r & Hr & (A1 & A2 & _) & F).
  exists r. split; [exact Hr|]. split; [exact F|]. split; [exact A1|]. split; [exact A2|].
  intros keys. exact (delta_holds_upd keys s _ _ _ _ _ _ _ _ s' HC H).
Qed.
Print Assumptions c13_net_fee_delta_rate_change.

(* the emergency-shutdown redemption (esm SetUpDebtRedemptionForCollector) after any history:
   every book entry of the app that is listed as a debt asset is taken off
   the books WHOLE, exactly that many coins of that asset are burnt out of the collector, no other
   app's entry and no other denom moves; in particular the function's `return nil` after a failed
   DecreaseNetFeeCollectedData (coins burnt, books kept) is unreachable *)
Theorem c13_net_fee_delta_esm_redeem : forall assets apps funds ops app st l s',
  forallb valid_fund funds = true -> forallb valid_op ops = true ->
  let s := run (genesis assets apps funds) ops in
  step s (EsmRedeem app st l) = Ok s' ->
  (forall a d, nf_val (cs s') a d = if (a =? app) && esm_has1 l d then 0 else nf_val (cs s) a d) /\
  (forall d, bnk (cs s') (A_COLLECTOR, d) = bnk (cs s) (A_COLLECTOR, d) - (nf_val (cs s) app d - nf_val (cs s') app d)) /\
  (forall keys, holds_C13_delta keys s (EsmRedeem app st l) s' = true).
Proof.
  intros assets apps funds ops app st l s' Hf Hv s H.
  pose proof (run_cinv ops _ (genesis_cinv assets apps funds Hf) Hv) as HC. fold s in HC.
  assert (H' := H). cbn [step] in H'. destruct HC as (HI & Hn & Hb).
  destruct (esm_redeem_eff _ _ _ _ _ Hn Hb H') as (_ & _ & (A1 & A2)).
  split; [exact A1|]. split; [exact A2|]. intros keys. exact (delta_holds_esm keys s _ _ _ s' (conj HI (conj Hn Hb)) H).
Qed.
Print Assumptions c13_net_fee_delta_esm_redeem.

(* "increase exactly by the fees, interest and penalties paid in, decrease exactly by what is paid
   out": after every history (no known-finding class is left) every successful op changes the summed net fees of
   each asset by exactly the change of the collector's coin balance of that asset (for
   DecreaseNetFeeCollectedData alone, which moves no coins, the books only fall).  This includes the
   savings-rate change: collector.LockerIterateRewards writes the decremented tracker, then
   DecreaseNetFeeCollectedData, then the transfer, and `continue`s when either fails; after a
   history the transfer cannot fail once the books were lowered (the collector holds at least the
   book entry: c13_collector_backed), so the books never fall without the coins being paid *)
Theorem c13_net_fee_flow : forall assets apps funds ops o s' la ld,
  forallb valid_fund funds = true -> forallb valid_op ops = true ->
  valid_op o = true -> NoDup la ->
  let s := run (genesis assets apps funds) ops in
  key_in la s o = true -> step s o = Ok s' -> holds_C13_flow la ld s o s' = true.
Proof.
  intros assets apps funds ops o s' la ld Hf Hv Ho Hnd s Hin H.
  exact (flow_holds la ld s o s' Ho eq_refl (run_cinv ops _ (genesis_cinv assets apps funds Hf) Hv) Hnd Hin H).
Qed.
Print Assumptions c13_net_fee_flow.

(* the collector's custody account holds, for every asset, at least the sum over any
   duplicate-free list of apps of the recorded net fees - after EVERY history: the former classes
   kf_C13_1 (generation-2 penalty booked under the collateral asset), kf_C13_2 (generation-2 surplus
   close took the lot from the collector a second time and re-credited the books) and kf_C13_3
   (generation-2 debt close booked the minted amount) are repaired and nothing is excluded any more *)
Theorem c13_collector_backed : forall assets apps funds ops la ld d,
  forallb valid_fund funds = true -> forallb valid_op ops = true -> NoDup la ->
  let s := run (genesis assets apps funds) ops in
  nf_total (cs s) la d <= bnk (cs s) (A_COLLECTOR, d) /\ holds_C13_backed la ld s = true.
Proof.
  intros assets apps funds ops la ld d Hf Hv Hnd s.
  destruct (run_cinv ops _ (genesis_cinv assets apps funds Hf) Hv) as (_ & _ & Hb). fold s in Hb.
  split; [exact (Hb d la Hnd)|exact (backed_holds la ld s Hb Hnd)].
Qed.
Print Assumptions c13_collector_backed.

(* ---- the witnesses of the three former classes, now regressions (replayed on the real keepers by the
   harness's directed cases) ---- *)

(* C13-F1 (repaired in /repo, fix: f6e2316): a generation-2 dutch close pays a 120000 penalty in the
   debt denom (asset 3); it is now booked under the debt asset, so the former witness is backed *)
Example c13_penalty_regression :
  forallb valid_op ex_kf1_ops = true /\ forallb kf_free ex_kf1_ops = true /\
  holds_C13_backed [1; 2] [1; 2; 3] (run ex_genesis ex_kf1_ops) = true /\
  holds_C13_flow [1; 2] [1; 2; 3] ex_genesis (V2Penalty 1 2 3 120000) (run ex_genesis ex_kf1_ops) = true /\
  nf_val (cs (run ex_genesis ex_kf1_ops)) 1 3 = 120000 /\ nf_val (cs (run ex_genesis ex_kf1_ops)) 1 2 = 0.
Proof. exact kf1_regression. Qed.

(* C13-F2 (repaired in /repo, fix: 67f334a): a generation-2 surplus auction: the start takes the lot (500)
   out of the collector and the books, the close pays the bidder out of the auction module account and
   moves neither: 1500 coins against 1500 recorded (before the fix: 1000 against 2000) *)
Example c13_surplus_close_regression :
  forallb valid_op ex_kf2_ops = true /\
  holds_C13_backed [1; 2] [1; 2; 3] (run ex_genesis ex_kf2_ops) = true /\
  holds_C13_flow [1; 2] [1; 2; 3] (run ex_genesis (removelast ex_kf2_ops)) (V2SurplusClose 1 2 500) (run ex_genesis ex_kf2_ops) = true /\
  nf_val (cs (run ex_genesis ex_kf2_ops)) 1 2 = 1500 /\ bnk (cs (run ex_genesis ex_kf2_ops)) (A_COLLECTOR, 2) = 1500.
Proof. exact kf2_regression. Qed.

(* the former consequence of C13-F2 for the savings-rate change: with the books backed (502 / 502) the
   reward (3) is taken off the books, paid and credited (before the fix: 2 coins against 1002 recorded,
   the books lowered, the transfer failed, `continue`) *)
Example c13_rate_change_after_surplus_close_regression :
  let s := run ex_genesis (removelast ex_kf2_rate_ops) in let s' := run ex_genesis ex_kf2_rate_ops in
  forallb valid_op ex_kf2_rate_ops = true /\
  bnk (cs s) (A_COLLECTOR, 2) = 502 /\ nf_val (cs s) 1 2 = 502 /\
  nf_val (cs s') 1 2 = 499 /\ bnk (cs s') (A_COLLECTOR, 2) = 499 /\
  net_sum (lockers_of s' 1 2) = net_sum (lockers_of s 1 2) + 3 /\
  holds_C13_flow [1; 2] [1; 2; 3] s (UpdLookup 1 2 50000000000000000 1000 500 500 500 [3500000000000000000]) s' = true.
Proof. exact kf2_rate_change_regression. Qed.

(* C13-F3 (repaired in /repo, fix: 40dff76): a generation-2 debt auction close with 700 of the secondary
   asset minted for the bidder and DebtToken = 500 arriving: 500 is booked, the former witness is backed *)
Example c13_debt_close_regression :
  forallb valid_op ex_kf3_ops = true /\ forallb kf_free ex_kf3_ops = true /\
  holds_C13_backed [1; 2] [1; 2; 3] (run ex_genesis ex_kf3_ops) = true /\
  holds_C13_flow [1; 2] [1; 2; 3] (run ex_genesis (removelast ex_kf3_ops)) (V2DebtClose 1 2 700 2 500) (run ex_genesis ex_kf3_ops) = true /\
  nf_val (cs (run ex_genesis ex_kf3_ops)) 1 2 = 500 /\ bnk (cs (run ex_genesis ex_kf3_ops)) (A_COLLECTOR, 2) = 500.
Proof. exact kf3_regression. Qed.

(* ---- non-vacuity: a concrete history (ex_ops, Proofs/C13Collector.v) that meets every
   hypothesis, in which every op succeeds, rewards are paid three ways (reward-calc message,
   withdrawal, savings-rate change), a generation-1 surplus auction runs and a locker is closed ---- *)
Example c13_nonvacuous_hyps :
  forallb valid_fund [(0, 2, 5000000); (1, 2, 7000000); (1, 3, 900)] = true /\
  forallb valid_op ex_ops = true /\ forallb kf_free ex_ops = true /\ NoDup [1; 2].
Proof. repeat split; try reflexivity. repeat constructor; cbn; intuition discriminate. Qed.

Example c13_nonvacuous_all_succeed :
  forallb (fun n => is_ok (step (run ex_genesis (firstn n ex_ops)) (nth n ex_ops (SetEsm 0 false)))) (seq 0 (length ex_ops)) = true.
Proof. vm_compute. reflexivity. Qed.

Example c13_nonvacuous_state :
  let s := run ex_genesis ex_ops in
  map l_net (lockers s) = [2200006] /\ dep_val s 1 2 = 2200006 /\ bnk (cs s) (A_LOCKER, 2) = 2200006 /\
  nf_val (cs s) 1 2 = 39891 /\ bnk (cs s) (A_COLLECTOR, 2) = 39891 /\
  holds_C13_locker [1; 2] [1; 2; 3] s = true /\ holds_C13_backed [1; 2] [1; 2; 3] s = true.
Proof. vm_compute. repeat split. Qed.

(* pay: the withdrawal of 300000 (step 10) and the close (step 14, balance 1000500 + reward 3 earlier) *)
Example c13_nonvacuous_pay :
  let s := run ex_genesis (firstn 9 ex_ops) in let s' := run ex_genesis (firstn 10 ex_ops) in
  bnk (cs s') (user 1, 2) = bnk (cs s) (user 1, 2) + 300000 /\ credited s 1 2 2 2000000000000000000 = 2 /\
  holds_C13_pay s (LWithdraw 1 1 2 2 300000 2000000000000000000) s' = true /\
  key_in [1; 2] s (LWithdraw 1 1 2 2 300000 2000000000000000000) = true /\
  holds_C13_flow [1; 2] [1; 2; 3] s (LWithdraw 1 1 2 2 300000 2000000000000000000) s' = true.
Proof. vm_compute. repeat split. Qed.

(* rate change: 4 credited to the one remaining locker, 4 off the books, 4 coins moved *)
Example c13_nonvacuous_rate_change :
  let s := run ex_genesis (firstn 14 ex_ops) in let s' := run ex_genesis ex_ops in
  net_sum (lockers_of s' 1 2) = net_sum (lockers_of s 1 2) + 4 /\ nf_val (cs s') 1 2 = nf_val (cs s) 1 2 - 4 /\
  bnk (cs s') (A_COLLECTOR, 2) = bnk (cs s) (A_COLLECTOR, 2) - 4.
Proof. vm_compute. repeat split. Qed.

(* the ESM / refund paths (ex_ops2, Proofs/C13Collector.v): every op succeeds; TriggerEsm hands 1200 of
   5000 collected and then all of 700 to the collector, the collector MsgDeposit books 25000000000
   and the refund takes 20163520000 out of coins and books, the emergency redemption burns app 1's
   debt-asset entry (1900 of asset 3; the collateral-class entry of asset 2 stays) and app 2's *)
Example c13_nonvacuous_esm_refund :
  forallb valid_op ex_ops2 = true /\ forallb kf_free ex_ops2 = true /\
  forallb (fun n => is_ok (step (run ex_genesis2 (firstn n ex_ops2)) (nth n ex_ops2 (SetEsm 0 false)))) (seq 0 (length ex_ops2)) = true /\
  (let s := run ex_genesis2 (firstn 2 ex_ops2) in nf_val (cs s) 1 3 = 1900 /\ bnk (cs s) (A_COLLECTOR, 3) = 1900) /\
  (let s := run ex_genesis2 (firstn 3 ex_ops2) in nf_val (cs s) 2 3 = 4836480000 /\ bnk (cs s) (A_COLLECTOR, 3) = 4836481900) /\
  (let s := run ex_genesis2 (firstn 5 ex_ops2) in nf_val (cs s) 1 3 = 0 /\ nf_val (cs s) 1 2 = 900 /\ bnk (cs s) (A_COLLECTOR, 3) = 4836480000) /\
  (let s := run ex_genesis2 ex_ops2 in nf_val (cs s) 2 3 = 0 /\ bnk (cs s) (A_COLLECTOR, 3) = 0 /\ bnk (cs s) (A_COLLECTOR, 2) = 900 /\
     holds_C13_backed [1; 2] [1; 2; 3] s = true) /\
  holds_C13_flow [1; 2] [1; 2; 3] (run ex_genesis2 (firstn 4 ex_ops2)) (EsmRedeem 1 true [(2, 0); (3, 1)]) (run ex_genesis2 (firstn 5 ex_ops2)) = true /\
  holds_C13_delta [(1, 2); (1, 3); (2, 3)] (run ex_genesis2 (firstn 4 ex_ops2)) (EsmRedeem 1 true [(2, 0); (3, 1)]) (run ex_genesis2 (firstn 5 ex_ops2)) = true.
Proof. vm_compute. repeat split. Qed.
