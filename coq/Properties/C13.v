(* C13 - Savings and fee books are backed: locker balances and collector net fees.
   Property theorems only; each is closed by lemmas proved in Proofs/LockerProofs.v and
   Proofs/CollectorProofs.v.  (First cut: per-handler preservation; the history theorems follow.) *)
From Comdex Require Import Lib.Base Lib.DecArith Model.Collector Model.Locker
  Proofs.CollectorProofs Proofs.LockerProofs.

(* the locker invariant (deposited = sum of net balances, custody covers, ...) is kept by every
   successful locker message *)
Theorem c13_locker_msgs_partial : forall s s' u app asset lid amt rw,
  LInv s -> 0 <= u ->
  (msg_create s u app asset amt = Ok s' \/ msg_deposit s u app asset lid amt rw = Ok s' \/
   msg_withdraw s u app asset lid amt rw = Ok s' \/ msg_close s u app asset lid rw = Ok s' \/
   msg_reward_calc s app lid rw = Ok s') -> LInv s'.
Proof.
  intros s s' u app asset lid amt rw HI Hu [H|[H|[H|[H|H]]]].
  - exact (msg_create_linv _ _ _ _ _ _ HI Hu H).
  - exact (msg_deposit_linv _ _ _ _ _ _ _ _ HI Hu H).
  - exact (msg_withdraw_linv _ _ _ _ _ _ _ _ HI Hu H).
  - exact (msg_close_linv _ _ _ _ _ _ _ HI Hu H).
  - exact (msg_reward_calc_linv _ _ _ _ _ HI H).
Qed.
Print Assumptions c13_locker_msgs_partial.
