(* C07 — Every order is settled exactly: fills, refunds and swap fees add up.
   Property theorems only; each is closed by [exact]/short glue of lemmas in Proofs/LiquidityProofs*.v.
   A history is a setup prefix (app / asset registrations, funding) followed by ANY finite list of
   the other operations of Model/Liquidity.v (orders of the three types, cancellations, pool and
   farming operations, BeginBlock, EndBlock with ANY matching result / share arithmetic as ENV). *)
From Comdex Require Import Lib.Base Lib.DecArith Model.Liquidity Model.LiquidityWitness Proofs.LiquidityProofs Proofs.LiquiditySweep Proofs.LiquidityProofs2.

(* what was taken from the orderer at placement = offer coin + swap-fee reserve, where the reserve
   is floor(offer * rate) (0 for market-making orders) - for every order stored in any reachable state *)
Theorem c07_taken : forall setup ops e,
  Forall (fun o => is_setup o = true) setup -> Forall (fun o => is_addapp o = false) ops ->
  let s := fold_left apply_op ops (fold_left apply_op setup init) in
  In e (orders s) ->
  g_taken (snd e) = o_offer (fst e) + fee_reserve (rate_of (apps s) (o_app (fst e))) (fst e).
Proof.
  intros setup ops e Hs Ho s Hin.
  pose proof (run_sinv setup ops Hs Ho) as HS. unfold SInv, SInvL in HS.
  exact (proj1 (proj1 (Forall_forall _ _) HS e Hin)).
Qed.
Print Assumptions c07_taken.

(* a terminated order (completed, cancelled, cancel-all, expired, too small, market-making replace):
   the unspent offer coin went back, the fee reserve was split into the refunded part and the part
   forwarded to the pair's fee collector, the forwarded part is floor(executed offer * rate), and
   the demand coins received are the sum over the recorded fills - for every fill pattern *)
Theorem c07_settled : forall setup ops e,
  Forall (fun o => is_setup o = true) setup -> Forall (fun o => is_addapp o = false) ops ->
  let s := fold_left apply_op ops (fold_left apply_op setup init) in
  let rate := rate_of (apps s) (o_app (fst e)) in
  In e (orders s) ->
  g_recv (snd e) = o_recv (fst e) /\ o_recv (fst e) = fills_recv (snd e) /\
  o_offer (fst e) - o_rem (fst e) = fills_paid (snd e) /\ 0 <= o_rem (fst e) /\
  (is_term (o_status (fst e)) = false ->
     g_ret_offer (snd e) = 0 /\ g_ret_fee (snd e) = 0 /\ g_fee_fwd (snd e) = 0) /\
  (is_term (o_status (fst e)) = true ->
     g_ret_offer (snd e) = o_rem (fst e) /\
     g_ret_fee (snd e) + g_fee_fwd (snd e) = fee_reserve rate (fst e) /\
     g_fee_fwd (snd e) = (if o_type (fst e) =? 3 then 0 else fee_amt rate (o_offer (fst e) - o_rem (fst e)))).
Proof.
  intros setup ops e Hs Ho s rate Hin.
  pose proof (run_sinv setup ops Hs Ho) as HS. unfold SInv, SInvL in HS.
  pose proof (proj1 (Forall_forall _ _) HS e Hin) as (H1 & H2 & H3 & H4 & H5 & H6 & H7 & H8).
  repeat split; try assumption; try (apply H7; assumption); apply H8; assumption.
Qed.
Print Assumptions c07_settled.

(* non-vacuity: a limit buy (offer 1000, fee reserve 3) cancelled after one batch is stored terminated
   with everything returned *)
Example c07_settled_example :
  Forall (fun o => is_setup o = true) (w_setup 1) /\ Forall (fun o => is_addapp o = false) w_cancel_ops /\
  map (fun e => (o_status (fst e), g_taken (snd e), g_ret_offer (snd e), g_ret_fee (snd e), g_fee_fwd (snd e)))
      (orders w_cancel_state) = [(5, 1003, 1000, 3, 0)].
Proof. split; [repeat constructor|split; [repeat constructor|vm_compute; reflexivity]]. Qed.
