(* C07 — Every order is settled exactly: fills, refunds and swap fees add up.
   Property theorems only; each is closed by [exact]/short glue of lemmas in Proofs/Liquidity*.v.

   A history ([hist_ok setup ops]) is a setup prefix (app / asset registrations, funding of user
   accounts) followed by ANY finite list of the other operations of Model/Liquidity.v: limit / market /
   market-making orders, cancel / cancel-all / cancel-market-making, pair and pool creation, deposits,
   withdrawals, farming, BeginBlock, and EndBlock with ANY matching result and share arithmetic (ENV).
   [reach setup ops] is the state after the history; failed messages leave the state unchanged.
   Each stored order carries a ghost: taken from the orderer, offer coin returned, fee returned, demand
   coin received, fee forwarded to the pair's fee collector, fills. *)
From Comdex Require Import Lib.Base Lib.DecArith Model.Liquidity Model.LiquidityWitness
  Proofs.LiquidityProofs Proofs.LiquiditySweep Proofs.LiquidityProofs2 Proofs.LiquidityEffects
  Proofs.LiquidityEscrow Proofs.LiquidityReach Proofs.LiquidityMMCancel Proofs.LiquidityOrderThms Proofs.LiquidityMM
  Proofs.LiquidityLife.

(* what was taken from the orderer at placement = offer coin + swap-fee reserve, where the reserve
   is floor(offer * rate) (0 for market-making orders) - for every order stored in any reachable state *)
Theorem c07_taken : forall setup ops e, hist_ok setup ops ->
  let s := reach setup ops in
  In e (orders s) ->
  g_taken (snd e) = o_offer (fst e) + fee_reserve (rate_of (apps s) (o_app (fst e))) (fst e).
Proof.
  intros setup ops e [Hs Ho] s Hin.
  pose proof (run_sinv setup ops Hs Ho) as HS. unfold SInv, SInvL in HS.
  exact (proj1 (proj1 (Forall_forall _ _) HS e Hin)).
Qed.
Print Assumptions c07_taken.

(* ... and that ghost is what left the orderer's account and entered the pair escrow when the order
   was placed (limit and market orders; any account c, any denom d) *)
Theorem c07_taken_on_ledger : forall s m typ pr price offer fee now s',
  place s m typ pr price offer fee now = Ok s' ->
  exists e, In e (orders s') /\ ekey e = (m_app m, p_id pr, p_last_order pr + 1) /\ o_owner (fst e) = m_owner m /\
    g_taken (snd e) = offer + fee /\
    forall c d, led s' c d = led s c d + at_ (Escrow (m_app m) (m_pair m)) (m_odenom m) c d (g_taken (snd e))
                             - at_ (User (m_owner m)) (m_odenom m) c d (g_taken (snd e)).
Proof. exact place_takes. Qed.
Print Assumptions c07_taken_on_ledger.

(* the reserve is the floor of offer * rate (rate scaled by 10^18), for every non-negative offer and rate *)
Theorem c07_fee_floor : forall rate x, 0 <= rate -> 0 <= x -> fee_amt rate x = (x * rate) / P18.
Proof. exact fee_amt_floor. Qed.
Print Assumptions c07_fee_floor.

(* every stored order, in every reachable state, for every fill pattern: received = sum of its fills,
   offer - remaining = sum paid by its fills; while it is live nothing has been returned; once it is
   terminated (completed, cancelled, cancel-all, expired, too small, market-making replace) the unspent
   offer coin went back, the fee reserve was split into the refunded part and the part forwarded to the
   pair's fee collector, and the forwarded part is floor(executed offer * rate) *)
Theorem c07_settled : forall setup ops e, hist_ok setup ops ->
  let s := reach setup ops in
  let rate := rate_of (apps s) (o_app (fst e)) in
  In e (orders s) ->
  g_recv (snd e) = o_recv (fst e) /\ o_recv (fst e) = fills_recv (snd e) /\
  o_offer (fst e) - o_rem (fst e) = fills_paid (snd e) /\ 0 <= o_rem (fst e) /\
  (is_term (o_status (fst e)) = false ->
     g_ret_offer (snd e) = 0 /\ g_ret_fee (snd e) = 0 /\ g_fee_fwd (snd e) = 0) /\
  (is_term (o_status (fst e)) = true ->
     g_ret_offer (snd e) = o_rem (fst e) /\
     g_ret_fee (snd e) + g_fee_fwd (snd e) = fee_reserve rate (fst e) /\
     g_fee_fwd (snd e) = (if o_type (fst e) =? 3 then 0 else fee_amt rate (o_offer (fst e) - o_rem (fst e)))).
Proof.
  intros setup ops e [Hs Ho] s rate Hin.
  pose proof (run_sinv setup ops Hs Ho) as HS. unfold SInv, SInvL in HS.
  pose proof (proj1 (Forall_forall _ _) HS e Hin) as (H1 & H2 & H3 & H4 & H5 & H6 & H7 & H8).
  repeat split; try assumption; try (apply H7; assumption); apply H8; assumption.
Qed.
Print Assumptions c07_settled.

(* non-vacuity: a limit buy (offer 1000, fee reserve 3) cancelled after one batch is stored terminated
   with everything returned *)
Example c07_settled_example :
  hist_ok (w_setup 1) w_cancel_ops /\
  map (fun e => (o_status (fst e), g_taken (snd e), g_ret_offer (snd e), g_ret_fee (snd e), g_fee_fwd (snd e)))
      (orders (reach (w_setup 1) w_cancel_ops)) = [(5, 1003, 1000, 3, 0)].
Proof. split; [split; repeat constructor|vm_compute; reflexivity]. Qed.

(* the returned / forwarded ghosts are what moved on the ledger when the order was terminated: the
   refund went from the pair escrow to the orderer, the earned fee to the pair's fee collector, and
   nothing else moved *)
Theorem c07_settled_on_ledger : forall s e st s',
  is_term (o_status (fst e)) = false -> finish_entry s e st = Ok s' ->
  exists rate, fin_rate s e = Some rate /\
    let '(e', refund, fee) := finish_calc rate e st in
    let o := fst e in
    refund = (g_ret_offer (snd e') + g_ret_fee (snd e')) - (g_ret_offer (snd e) + g_ret_fee (snd e)) /\
    fee = g_fee_fwd (snd e') - g_fee_fwd (snd e) /\
    forall c d, led s' c d = led s c d + at_ (User (o_owner o)) (o_odenom o) c d refund
                             + at_ (SwapFee (o_app o) (o_pair o)) (o_odenom o) c d fee
                             - at_ (Escrow (o_app o) (o_pair o)) (o_odenom o) c d (refund + fee).
Proof. exact finish_pays. Qed.
Print Assumptions c07_settled_on_ledger.

(* each fill: ApplyMatchResult books (matched, paid, received) on the record and its ghost, completes the
   order through FinishOrder when nothing is left open, and pays the received demand coin from the pair
   escrow to the orderer - nothing else moves *)
Theorem c07_fill_on_ledger : forall s app pair id matched paid recv s',
  apply_fill s app pair (id, matched, paid, recv) = Ok s' ->
  exists o g s3, find_order (app, pair, id) (orders s) = Some (o, g) /\ 0 <= paid <= o_rem o /\ 0 <= recv /\
    (if o_open o - matched =? 0
     then finish_entry (fill_book s (app, pair, id) o g matched paid recv)
                       (set_fill o matched paid recv (o_status o), fill_ghost g matched paid recv) 4 = Ok s3
     else s3 = mark_status (fill_book s (app, pair, id) o g matched paid recv) (app, pair, id)
                           (set_fill o matched paid recv (o_status o)) (fill_ghost g matched paid recv) 3) /\
    g_recv (fill_ghost g matched paid recv) = g_recv g + recv /\
    forall c d, led s' c d = led s3 c d + at_ (User (o_owner o)) (o_ddenom o) c d recv - at_ (Escrow app pair) (o_ddenom o) c d recv.
Proof. exact fill_pays. Qed.
Print Assumptions c07_fill_on_ledger.

(* nothing of a terminated order remains in escrow: in every reachable state the balance of every pair
   escrow in every denom is exactly the sum of the shares of the pair's stored orders offering that denom
   (remaining offer coin + unreleased fee reserve while live, 0 once terminated) plus the net of the
   recorded fills, pool-order legs and dust of the pair ([surplus]; 0 when every executed batch conserved
   coins, which is C05's subject).  [holds_C07_escrow] is the extracted predicate the runner evaluates on
   the implementation's balances and records *)
Theorem c07_nothing_left : forall setup ops a p d, hist_ok setup ops ->
  let s := reach setup ops in
  holds_C07_escrow (rate_of (apps s) a) (pair_orders a p (orders s)) d (led s (Escrow a p) d) (surplus s a p d) = true.
Proof. exact escrow_decomposition. Qed.
Print Assumptions c07_nothing_left.

Example c07_nothing_left_example :
  hist_ok (w_setup 1) (w_two_ops ++ [OCancel 1 50 1 1]) /\
  (let s := reach (w_setup 1) (w_two_ops ++ [OCancel 1 50 1 1]) in
   map (fun o => (o_id o, o_status o, escrow_share (rate_of (apps s) 1) o)) (pair_orders 1 1 (orders s)) = [(1, 5, 0); (2, 2, 2006)] /\
   led s (Escrow 1 1) 2 = 2006 /\ surplus s 1 1 2 = 0).
Proof. split; [split; repeat constructor|vm_compute; auto]. Qed.

(* an order that is not in its placement batch can always be cancelled by its owner: the message
   succeeds and leaves the order terminated.  Relative to C05: the recorded fills of the pair must not
   have taken coins of the offer denom out of the escrow ([0 <= surplus]) *)
Theorem c07_cancellable : forall setup ops app owner pair id e pr, hist_ok setup ops ->
  let s := reach setup ops in
  params_ok (apps s) ->
  pair <> 0 -> id <> 0 ->
  find_order (app, pair, id) (orders s) = Some e -> o_owner (fst e) = owner -> o_status (fst e) <> 5 ->
  find_pair app pair (pairs s) = Some pr -> o_batch (fst e) <> p_batch pr ->
  0 <= surplus s app pair (o_odenom (fst e)) ->
  exists s' e', cancel_order s app owner pair id = Ok s' /\
    find_order (app, pair, id) (orders s') = Some e' /\ is_term (o_status (fst e')) = true /\
    (is_term (o_status (fst e)) = false -> o_status (fst e') = 5).
Proof. exact cancellable. Qed.
Print Assumptions c07_cancellable.

Example c07_cancellable_example :
  hist_ok (w_setup 1) w_two_ops /\ params_ok (apps w_two_state) /\
  match find_order (1, 1, 1) (orders w_two_state), find_pair 1 1 (pairs w_two_state) with
  | Some e, Some pr => (o_owner (fst e), o_status (fst e), o_batch (fst e), p_batch pr, surplus w_two_state 1 1 (o_odenom (fst e)))
  | _, _ => (0, 0, 0, 0, 0)
  end = (50, 2, 1, 2, 0).
Proof.
  split; [split; repeat constructor|]. split; [|vm_compute; reflexivity].
  unfold params_ok. vm_compute. repeat constructor. intros Hc; discriminate Hc.
Qed.

(* cancelling market-making orders cancels every order the owner's index lists for the pair - for every
   combination of app id and pair id - and drops the index *)
Theorem c07_mm_cancel : forall s app owner pair s' ix,
  cancel_mm s app owner pair = Ok s' -> find_mm app owner pair (mmidx s) = Some ix ->
  (forall id, In id (mi_ids ix) -> nonlive_at (app, pair, id) s') /\ find_mm app owner pair (mmidx s') = None.
Proof. exact mm_cancel_all. Qed.
Print Assumptions c07_mm_cancel.

(* replacing market-making orders: a successful MMOrder first cancels every order the owner's index
   lists for the pair (each refunded through FinishOrder, see c07_settled_on_ledger), then places the
   new ones *)
Theorem c07_mm_replace : forall s m now s',
  mm_order s m now = Ok s' ->
  exists pr s1 bt st,
    find_pair (mm_app m) (mm_pair m) (pairs s) = Some pr /\
    cancel_mm_inner s (mm_app m) (mm_owner m) pr true = Ok s1 /\
    (forall ix, find_mm (mm_app m) (mm_owner m) (mm_pair m) (mmidx s) = Some ix ->
                forall id, In id (mi_ids ix) -> nonlive_at (mm_app m, mm_pair m, id) s1) /\
    mm_tail s1 m pr bt st now = Ok s'.
Proof. exact mm_replace_cancels. Qed.
Print Assumptions c07_mm_replace.

(* the owner's index is complete - every LIVE market-making order of an owner in a pair is listed in it,
   in every reachable state - hence MsgCancelMMOrder cancels EVERY previously placed live market-making
   order of that owner in that pair, for every combination of app id and pair id ... *)
Theorem c07_mm_cancel_complete : forall setup ops app owner pair s' e, hist_ok setup ops ->
  let s := reach setup ops in
  cancel_mm s app owner pair = Ok s' ->
  In e (orders s) -> o_type (fst e) = 3 -> is_live (o_status (fst e)) = true ->
  o_app (fst e) = app -> o_owner (fst e) = owner -> o_pair (fst e) = pair ->
  nonlive_at (ekey e) s'.
Proof. exact mm_cancel_complete. Qed.
Print Assumptions c07_mm_cancel_complete.

(* ... and so does a replacing MsgMMOrder: in the state after the new orders were placed, every
   previously placed live market-making order of that owner in that pair is no longer live *)
Theorem c07_mm_replace_complete : forall setup ops m now s' e, hist_ok setup ops ->
  let s := reach setup ops in
  mm_order s m now = Ok s' ->
  In e (orders s) -> o_type (fst e) = 3 -> is_live (o_status (fst e)) = true ->
  o_app (fst e) = mm_app m -> o_owner (fst e) = mm_owner m -> o_pair (fst e) = mm_pair m ->
  nonlive_at (ekey e) s'.
Proof. exact mm_replace_complete. Qed.
Print Assumptions c07_mm_replace_complete.

Example c07_mm_complete_example :
  hist_ok (w_setup 2) w_mm_ops /\ length (orders (reach (w_setup 2) w_mm_ops)) = 10%nat /\
  forallb (fun e => (o_type (fst e) =? 3) && is_live (o_status (fst e)) && (o_app (fst e) =? 2) && (o_owner (fst e) =? 50)
                    && (o_pair (fst e) =? 1)) (orders (reach (w_setup 2) w_mm_ops)) = true /\
  is_ok (cancel_mm (reach (w_setup 2) w_mm_ops) 2 50 1) = true.
Proof. split; [split; repeat constructor|]. split; [vm_compute; reflexivity|]. split; vm_compute; reflexivity. Qed.

(* the witness of C07-F1 (fixed by the patch fixes/C07-F1): app 2 / pair 1, ten market-making sell
   ticks of 300, MsgCancelMMOrder in the next batch.  Before the repair the lookup used (pair id, app id):
   the call succeeded, refunded nothing and left the ten orders live.  Now all ten are cancelled, the
   escrow is empty and the owner has every coin back *)
Example c07_mm_cancel_witness :
  map (fun e => (o_status (fst e), o_rem (fst e))) (orders w_mm_state) = repeat (2, 300) 10 /\
  led w_mm_state (Escrow 2 1) 1 = 3000 /\ led w_mm_state (User 50) 1 = 999997000 /\
  is_ok (step w_mm_state (OCancelMM 2 50 1)) = true /\
  map (fun e => (o_status (fst e), g_ret_offer (snd e))) (orders w_mm_cancelled) = repeat (5, 300) 10 /\
  led w_mm_cancelled (Escrow 2 1) 1 = 0 /\ led w_mm_cancelled (User 50) 1 = 1000000000 /\ mmidx w_mm_cancelled = [].
Proof.
  split; [vm_compute; reflexivity|]. split; [vm_compute; reflexivity|]. split; [vm_compute; reflexivity|].
  split; [vm_compute; reflexivity|]. split; [vm_compute; reflexivity|]. split; [vm_compute; reflexivity|].
  split; vm_compute; reflexivity.
Qed.

(* an order over its whole life, across any number of batches: in every reachable state (any matching results),
   for every stored order, each recorded fill's payment was covered by what was left of the offer coin BEFORE
   that fill ([life_ok]: fills newest first), the total paid never exceeds the offer coin, and the remaining
   offer coin is the offer coin minus the total paid and is never negative *)
Theorem c07_order_life : forall setup ops e, hist_ok setup ops ->
  let s := reach setup ops in
  In e (orders s) ->
  life_ok (o_offer (fst e)) (g_fills (snd e)) /\
  0 <= fills_paid (snd e) <= o_offer (fst e) /\
  o_rem (fst e) = o_offer (fst e) - fills_paid (snd e) /\ 0 <= o_rem (fst e) <= o_offer (fst e).
Proof. intros setup ops e [Hs Ho]. exact (run_life setup ops Hs Ho e). Qed.
Print Assumptions c07_order_life.

(* non-vacuity: a buy and a sell of 1000 at 1.0 (offer 1000 each) filled 400 in one batch and 250 in a later one, still live *)
Definition w_life_ops : list op :=
  [OCreatePair 1 90 1 2; OLimit (w_buy 1 1) 10; OLimit w_sell 10;
   OEnd 2 11 [mkAppEnv 1 [mkBatch 1 true 1000000000000000000 [(1, 400, 400, 400); (2, 400, 400, 400)] [] 0] [] []]; OBegin;
   OEnd 3 21 [mkAppEnv 1 [mkBatch 1 true 1000000000000000000 [(1, 250, 250, 250); (2, 250, 250, 250)] [] 0] [] []]].
Example c07_order_life_example :
  hist_ok (w_setup 1) w_life_ops /\
  map (fun e => (o_offer (fst e), o_rem (fst e), o_status (fst e), g_fills (snd e))) (orders (reach (w_setup 1) w_life_ops))
  = [(1000, 350, 3, [(250, 250, 250); (400, 400, 400)]); (1000, 350, 3, [(250, 250, 250); (400, 400, 400)])].
Proof. split; [split; repeat constructor|vm_compute; reflexivity]. Qed.

(* the payment a batch may book on a stored order is bounded by what NewUserOrder hands to the engine for it:
   ApplyMatchResult's fill succeeds only with 0 <= paid <= remaining offer coin = the offer coin bound of the
   amm order built from the record (any larger payment is the Coin.Sub panic, which rolls the whole batch back) *)
Theorem c07_fill_within_remaining : forall s app pair id matched paid recv s' o g,
  apply_fill s app pair (id, matched, paid, recv) = Ok s' -> find_order (app, pair, id) (orders s) = Some (o, g) ->
  0 <= paid <= ai_offer (user_order_amm o) /\ ai_offer (user_order_amm o) = o_rem o /\ 0 <= recv.
Proof.
  intros s app pair id matched paid recv s' o g H Hf.
  destruct (fill_pays _ _ _ _ _ _ _ _ H) as (o' & g' & s3 & Hf' & Hp & Hr & _).
  rewrite Hf in Hf'. injection Hf' as <- <-. cbn [user_order_amm ai_offer]. repeat split; lia.
Qed.
Print Assumptions c07_fill_within_remaining.

(* the ghost trace of the end block (per app: batch executed / rolled back / not due) is an observation only: the
   state it computes is [end_block]'s, and every registered app gets exactly one flag.  The runner compares the
   flags with whether the implementation's batch ids advanced: a batch the implementation rolls back (an error
   or a swallowed panic inside ExecuteRequests) while the model executes it is a mismatch *)
Theorem c07_batch_trace : forall h now envs s,
  fst (end_block_trace h now envs s) = end_block h now envs s /\
  map fst (snd (end_block_trace h now envs s)) = map fst (apps s).
Proof. intros. split; [apply end_block_trace_fst|apply end_block_trace_apps]. Qed.
Print Assumptions c07_batch_trace.

Example c07_batch_trace_example :
  snd (end_block_trace 3 21 [mkAppEnv 1 [mkBatch 1 true 1000000000000000000 [(1, 250, 250, 250); (2, 250, 250, 250)] [] 0] [] []]
         (reach (w_setup 1) [OCreatePair 1 90 1 2; OLimit (w_buy 1 1) 10; OLimit w_sell 10; OEnd 2 11 []; OBegin])) = [(1, 1)] /\
  (* a fill that pays more than the order has left is the Coin.Sub panic: the app's batch is rolled back *)
  snd (end_block_trace 3 21 [mkAppEnv 1 [mkBatch 1 true 1000000000000000000 [(1, 1000, 1001, 1000); (2, 1000, 1000, 1000)] [] 0] [] []]
         (reach (w_setup 1) [OCreatePair 1 90 1 2; OLimit (w_buy 1 1) 10; OLimit w_sell 10; OEnd 2 11 []; OBegin])) = [(1, 0)].
Proof. split; vm_compute; reflexivity. Qed.

(* refuted on the unchanged tree (known finding C05-F2, the known finding C05-F1 reached through the keeper): a batch
   whose engine result does not conserve the base coin - here a buy of 15000 at 0.01 filled in full while the pool
   legs bring only 12000 base coins into the pair escrow ([batch_base_net] = -3000, class [kf_C05_2_stall]) - cannot
   be applied: the escrow cannot pay the buyer, ExecuteRequests panics on the error and ApplyFuncIfNoError rolls the
   whole batch of the app back.  The order stays NotExecuted and the pair's batch id stays 1, at this block and again
   at a later block that lies after the order's expiry (expiry is part of the rolled-back batch): the order is never
   settled.  With an engine result that conserves coins (here: no match) the same block advances the batch id.
   The harness reaches such books on the real keeper by a directed search (TestC05KeeperHunt) and the real EndBlocker
   shows exactly this; the runner then feeds the engine's fills to the model, which rolls back as well. *)
Definition st_buy : order_msg := mkOMsg 1 50 1 true true 2 151 1 10000000000000000 15000 100.
Definition st_ops : list op := [OCreatePair 1 90 1 2; OCreatePool 1 90 1 1000000 100000000 true 1000000; OLimit st_buy 10].
Definition st_batch : batch_env := mkBatch 1 true 10000000000000000 [(1, 15000, 150, 15000)] [(1, 150, -12000)] 0.
Definition st_env : list app_env := [mkAppEnv 1 [st_batch] [] []].
Definition st_state : state := reach (w_setup 1) st_ops.
Theorem c07_batch_stall_refuted :
  hist_ok (w_setup 1) st_ops /\
  kf_C05_2_stall [batch_base_net (fun _ => true) st_batch] = true /\
  map (fun e => (o_status (fst e), o_expire (fst e))) (orders st_state) = [(1, 110)] /\
  snd (end_block_trace 2 11 st_env st_state) = [(1, 0)] /\
  (let s1 := end_block 2 11 st_env st_state in
   map (fun e => o_status (fst e)) (orders s1) = [1] /\ map p_batch (pairs s1) = [1] /\
   let s2 := end_block 3 200 st_env (begin_block s1) in
   snd (end_block_trace 3 200 st_env (begin_block s1)) = [(1, 0)] /\
   map (fun e => o_status (fst e)) (orders s2) = [1] /\ map p_batch (pairs s2) = [1]) /\
  map p_batch (pairs (end_block 2 11 [] st_state)) = [2].
Proof.
  split; [split; repeat constructor|]. split; [vm_compute; reflexivity|]. split; [vm_compute; reflexivity|].
  split; [vm_compute; reflexivity|]. split; [|vm_compute; reflexivity].
  cbv zeta. split; [vm_compute; reflexivity|]. split; [vm_compute; reflexivity|].
  split; [vm_compute; reflexivity|]. split; vm_compute; reflexivity.
Qed.
Print Assumptions c07_batch_stall_refuted.
