(* C16 - state transitions are deterministic.
   A Gallina function is deterministic by construction; what is decided here is the one place
   where Go may be nondeterministic inside the state machine: enumeration of a map.  For every
   `for ... range <map>` found in the source by the translator (Gen/MapRangeTable.v) the site result
   is proved independent of the enumeration order - a statement over ALL orders - and the absence
   of the other ambient sources (goroutines, select, wall clock, randomness, environment) is a
   closed-world table fact re-established from the source on every check (Gen/AmbientTable.v). *)
From Coq Require Import String Permutation.
From Comdex Require Import Lib.Base Lib.DecArith Gen.MapRangeTable Gen.AmbientTable Model.MapSites Proofs.MapSitesProofs.
Local Open Scope Z_scope.

(* site 1 - app/app.go ModuleAccountAddrs: names collected from the permission map, then
   sort.Strings; for every total order [leb] on the keys *)
Theorem c16_site_1 :
  forall (K V : Type) (leb : K -> K -> bool),
  (forall a b, leb a b = true \/ leb b a = true) ->
  (forall a b, leb a b = true -> leb b a = true -> a = b) ->
  (forall a b c, leb a b = true -> leb b c = true -> leb a c = true) ->
  forall (l l' : list (K * V)), Permutation l l' -> NoDup (map fst l) ->
  sort_keys leb (fold_map collect_body l []) = sort_keys leb (fold_map collect_body l' []).
Proof. intros K V leb Ht Ha Htr l l' Hp _. exact (collect_sorted_perm K leb Ht Ha Htr l l' Hp). Qed.
Print Assumptions c16_site_1.

(* site 2 - amm/match.go:392, the fill loop over matchedAmtByOrder: every order of the book is
   filled independently, the quote-coin differences are added; a panicking fill (amount above the
   matchable amount, Dec overflow) makes the whole loop panic in every order *)
Theorem c16_site_2 :
  forall price (l l' : list (Z * Z)) (acc : option (book * Z)),
  Permutation l l' -> NoDup (map fst l) ->
  fold_map (fill_body price) l acc = fold_map (fill_body price) l' acc.
Proof. intros price l l' acc. apply fill_site_perm. Qed.
Print Assumptions c16_site_2.

(* site 3 - amm/orderbook.go String(): prices collected from priceSet (keyed by their string, so
   distinct), then sort.Slice by GT in stringRepresentation; display only *)
Theorem c16_site_3 :
  forall (Q P : Type) (leb : P -> P -> bool),
  (forall a b, leb a b = true \/ leb b a = true) ->
  (forall a b, leb a b = true -> leb b a = true -> a = b) ->
  (forall a b c, leb a b = true -> leb b c = true -> leb a c = true) ->
  forall (l l' : list (Q * P)), Permutation l l' -> NoDup (map fst l) ->
  sort_keys leb (fold_map collect_val_body l []) = sort_keys leb (fold_map collect_val_body l' []).
Proof. intros Q P leb Ht Ha Htr l l' Hp _. exact (collect_val_sorted_perm P leb Ht Ha Htr l l' Hp). Qed.
Print Assumptions c16_site_3.

(* site 4 - keeper/pool.go:736, the sum of poolLiquidityMap: Dec addition with its 315-bit
   overflow panic; every inserted value is positive (pool.go:732), the accumulator starts at 0 *)
Theorem c16_site_4 :
  forall (l l' : list (Z * Z)), Permutation l l' -> NoDup (map fst l) ->
  Forall (fun kv => 0 < snd kv) l ->
  fold_map sum_body l (Some 0) = fold_map sum_body l' (Some 0).
Proof. intros l l' Hp Hnd HP. apply sum_site_perm; try assumption. cbn. lia. Qed.
Print Assumptions c16_site_4.

(* every map enumeration found in the source today is one of the sites above (registered under
   the hash of its loop text: a new loop, or an edit of a registered loop, breaks this), there is
   no reflect / maps.Keys enumeration, and no registered hash is stale *)
Theorem c16_sites_covered :
  (forall s, In s map_range_table -> site_has_theorem s = true) /\ registry_live map_range_table = true.
Proof.
  pose proof sites_covered_table as H. apply andb_true_iff in H. destruct H as [H1 H2].
  split; [|exact H2]. intros s Hs. rewrite forallb_forall in H1. exact (H1 s Hs).
Qed.
Print Assumptions c16_sites_covered.

(* no goroutine, no select; randomness / wall clock / environment only inside the registered
   simulation helpers, which nothing else in the non-test code refers to (reference graph of the
   translator); no process-local mutable state and no dependence on the zone of the process
   outside the registered sites, no alias of a process-wide Dec / Int / Coin value handed to a decoder
   (the three theorems below say what that means per kind); a row of an unknown kind fails *)
Theorem c16_no_ambient : forall r, In r ambient_table -> ambient_row_ok r = true.
Proof. intros r Hr. pose proof ambient_table_ok as H. rewrite forallb_forall in H. exact (H r Hr). Qed.
Print Assumptions c16_no_ambient.

(* "regardless of process": every write the translator finds through a field of a state-machine
   struct (a struct with sdk.Context methods, app.App, and what they hold) or through a package-level
   variable - memory that is not rolled back with the store and not shared between processes - is a
   registered harmless site; every type of another module such a struct holds is on the closed list
   of SDK objects; the types exempted as call-local are exactly the registered ones; no alias of a
   map / slice / channel / sync field escapes the scan (a procstate-unrecognised row is never
   accepted); and nothing registered is stale *)
Theorem c16_no_process_state :
  (forall r, In r ambient_table -> is_procstate_kind (am_kind r) = true -> procstate_row_ok r = true) /\
  registries_live ambient_table = true.
Proof.
  pose proof procstate_table_ok as H. apply andb_true_iff in H. destruct H as [H1 H2]. split; [|exact H2].
  intros r Hr Hk. rewrite forallb_forall in H1. specialize (H1 r Hr). rewrite Hk in H1. exact H1.
Qed.
Print Assumptions c16_no_process_state.

(* "regardless of wall-clock / host": no Time in the zone of the process (time.Unix*, time.Parse,
   Date / ParseInLocation with a location other than time.UTC, time.Local, Time.Local, time.LoadLocation)
   reaches a zone-dependent operation or leaves its function before .UTC() / .In(time.UTC), outside
   the registered test helper *)
Theorem c16_no_local_time :
  forall r, In r ambient_table -> am_kind r = "localtime"%string -> localtime_row_ok r = true.
Proof.
  intros r Hr Hk. pose proof localtime_table_ok as H. rewrite forallb_forall in H. specialize (H r Hr).
  rewrite Hk in H. exact H.
Qed.
Print Assumptions c16_no_local_time.

(* "regardless of process", the part no write shows: a package-level variable (or a field of a state-machine
   struct) of a type around a *big.Int - sdk.Dec / Int / Uint / Coin(s) / DecCoin(s) / big.Int, structs and slices
   of them - shares its big.Int with every COPY of its value.  Every place where such a copy (followed by
   the translator through locals, fields, literals, parameters and results of all functions of the
   repository) is handed by address to a function that may decode into it (codec / json Unmarshal,
   GetParamSet, Scan ...: everything outside the repository not known to only read), or is the receiver
   of a pointer-receiver method (generated proto Unmarshal ...), of Dec / Int Unmarshal* / Set* / *Mut or of a
   mutating math/big method, is a registered site read and found harmless; nothing registered is
   stale, and the analysis ranged over at least one variable *)
Theorem c16_no_default_aliasing :
  (forall r, In r ambient_table -> is_alias_kind (am_kind r) = true -> alias_row_ok r = true) /\
  alias_registry_live ambient_table = true.
Proof.
  pose proof alias_table_ok as H. apply andb_true_iff in H. destruct H as [H1 H2]. split; [|exact H2].
  intros r Hr Hk. rewrite forallb_forall in H1. specialize (H1 r Hr). rewrite Hk in H1. exact H1.
Qed.
Print Assumptions c16_no_default_aliasing.

(* ---- non-vacuity ---- *)
(* two enumeration orders of the same three fills (a buy and two sells at price 2.5) give the same
   book and the same quote difference; the computation is not trivially None *)
Example c16_fill_example :
  let bk : book := [(1, mkOrder true 1000 0 0 100); (2, mkOrder false 50 0 0 50); (3, mkOrder false 70 0 0 70)] in
  let p := 2500000000000000000 in
  fold_map (fill_body p) [(1, 30); (2, 10); (3, 20)] (Some (bk, 0)) =
  fold_map (fill_body p) [(3, 20); (1, 30); (2, 10)] (Some (bk, 0)) /\
  exists b, fold_map (fill_body p) [(1, 30); (2, 10); (3, 20)] (Some (bk, 0)) = Some (b, 0).
Proof. cbn zeta. split; [vm_compute; reflexivity|]. eexists. vm_compute. reflexivity. Qed.

Example c16_sum_example :
  fold_map sum_body [(1, 5); (2, 7); (3, 11)] (Some 0) = Some 23 /\
  fold_map sum_body [(3, 11); (1, 5); (2, 7)] (Some 0) = Some 23.
Proof. vm_compute. split; reflexivity. Qed.

Example c16_sort_example :
  sort_keys Z.leb (fold_map (@collect_body Z unit) [(3, tt); (1, tt); (2, tt)] []) = [1; 2; 3].
Proof. vm_compute. reflexivity. Qed.

(* the order matters for the loop BEFORE sorting: the theorem is about the site result *)
Example c16_collect_is_order_sensitive :
  fold_map (@collect_body Z unit) [(3, tt); (1, tt)] [] <> fold_map (@collect_body Z unit) [(1, tt); (3, tt)] [].
Proof. vm_compute. intro H. discriminate. Qed.

(* ---- the new row kinds: rows the checker rejects (each is what the translator emits for a real
   change of that kind), and what registration can and cannot excuse ---- *)
(* a sync.Map cache in a keeper: the held type and both writes *)
Example c16_rejects_sync_map_field :
  ambient_row_ok (mkAmbient "<types>" "x/liquidity/keeper.Keeper.genericParams" "procstate-ext" "sync.Map"
                    ["x/liquidity/keeper.Keeper.genericParams"]) = false /\
  ambient_row_ok (mkAmbient "x/liquidity/keeper/params.go" "liquidity.SetGenericParams" "procstate"
                    "Store field x/liquidity/keeper.Keeper.genericParams" ["app.New"; "liquidity.MsgServer.UpdateGenericParams"]) = false.
Proof. vm_compute. split; reflexivity. Qed.

(* a plain map field written in a handler, a package-level variable assigned, an in-place Dec operation *)
Example c16_rejects_map_write_and_pkg_var :
  ambient_row_ok (mkAmbient "x/vault/keeper/vault.go" "vault.SetVault" "procstate" "assign field x/vault/keeper.Keeper.cache" []) = false /\
  ambient_row_ok (mkAmbient "x/lend/types/keys.go" "lend/types.Bump" "procstate" "incdec package variable x/lend/types.Counter" []) = false /\
  ambient_row_ok (mkAmbient "x/lend/keeper/iter.go" "lend.Accrue" "procstate" "in-place cosmossdk.io/math.LegacyDec.AddMut on package variable x/lend/types.Rate" []) = false.
Proof. vm_compute. repeat split; reflexivity. Qed.

(* an alias the scan cannot follow is never accepted, whatever is registered *)
Example c16_rejects_unrecognised :
  forall reg, procstate_row_ok_with reg (mkAmbient "x/vault/keeper/vault.go" "vault.F" "procstate-unrecognised"
                                            "copied: field x/vault/keeper.Keeper.cache" []) = false.
Proof. intro reg. reflexivity. Qed.

(* a call-local type that is not registered, and a row of an unknown kind *)
Example c16_rejects_unknown_local_type_and_kind :
  ambient_row_ok (mkAmbient "<types>" "x/vault/keeper.Scratch" "procstate-local" "" []) = false /\
  ambient_row_ok (mkAmbient "types/utils.go" "types.RandomInt" "some-new-kind" "" []) = false.
Proof. vm_compute. split; reflexivity. Qed.

(* local time: the calendar day of a time.Unix value, and time.Local itself *)
Example c16_rejects_local_time :
  ambient_row_ok (mkAmbient "x/rewards/keeper/iter.go" "rewards.DistributeExtRewardVault" "localtime"
                    "time.Unix value: zone-dependent .AddDate before a UTC conversion" ["rewards.AppModule.BeginBlock"; "rewards.BeginBlocker"]) = false /\
  ambient_row_ok (mkAmbient "x/locker/keeper/locker.go" "locker.F" "localtime" "time.Local" []) = false.
Proof. vm_compute. split; reflexivity. Qed.

(* aliasing of a process-wide default: the rows the translator emits when UnmarshalGenericLiquidityParams
   pre-seeds a field with types.DefaultSwapFeeBurnRate before cdc.Unmarshal(value, &params) (every decode
   then overwrites the default of the process), when a copy of a default is decoded into directly, and when
   the params subspace decodes into types.DefaultParams(); a registered site is accepted only with its exact
   text in its own function; the informational source rows are accepted *)
Example c16_rejects_default_aliasing :
  ambient_row_ok (mkAmbient "x/liquidity/types/request.go" "liquidity/types.UnmarshalGenericLiquidityParams" "procstate-alias"
     "passed by address to github.com/cosmos/cosmos-sdk/codec.BinaryCodec.Unmarshal: an alias of package variable x/liquidity/types.DefaultSwapFeeBurnRate"
     ["liquidity.GetGenericLiquidityParams"; "liquidity.GetGenericParams"]) = false /\
  ambient_row_ok (mkAmbient "x/liquidity/keeper/pool.go" "liquidity.F" "procstate-alias"
     "in-place cosmossdk.io/math.LegacyDec.Unmarshal on an alias of package variable x/liquidity/types.DefaultSwapFeeRate" []) = false /\
  ambient_row_ok (mkAmbient "x/asset/keeper/params.go" "asset.GetParams" "procstate-alias"
     "passed by address to github.com/cosmos/cosmos-sdk/x/params/types.Subspace.GetParamSet: an alias of package variable x/asset/types.DefaultAssetRegistrationFee" []) = false /\
  ambient_row_ok (mkAmbient "x/asset/keeper/params.go" "asset.GetParams" "procstate-alias"
     "passed by address to github.com/cosmos/cosmos-sdk/x/params/types.Subspace.SetParamSet: an alias of package variable x/asset/types.DefaultAssetRegistrationFee" []) = false /\
  ambient_row_ok (mkAmbient "x/asset/keeper/params.go" "asset.SetParams" "procstate-alias"
     "passed by address to github.com/cosmos/cosmos-sdk/x/params/types.Subspace.SetParamSet: an alias of package variable x/asset/types.DefaultAssetRegistrationFee" ["asset.InitGenesis"]) = true /\
  (forall reg, alias_row_ok_with reg (mkAmbient "x/liquidity/types/generic_params.go" "package variable x/liquidity/types.DefaultSwapFeeBurnRate"
     "procstate-alias-src" "cosmossdk.io/math.LegacyDec" []) = true) /\
  alias_row_ok_with [] (mkAmbient "x/asset/keeper/params.go" "asset.SetParams" "procstate-alias"
     "passed by address to github.com/cosmos/cosmos-sdk/x/params/types.Subspace.SetParamSet: an alias of package variable x/asset/types.DefaultAssetRegistrationFee" []) = false.
Proof. vm_compute. repeat split; reflexivity. Qed.

(* registration "set once at wiring time" holds only while every transitive caller is wiring: a hooks
   field assigned by SetHooks is accepted when only app.New reaches it, and rejected as soon as a message
   handler does; the registered test helper types.ParseTime is rejected once state-machine code calls it *)
Example c16_wiring_registration_is_checked :
  let reg := [mkEntry "liquidation.SetHooks" "assign field x/liquidation/keeper.Keeper.hooks" true] in
  procstate_row_ok_with reg (mkAmbient "x/liquidation/keeper/keeper.go" "liquidation.SetHooks" "procstate"
                               "assign field x/liquidation/keeper.Keeper.hooks" ["app.New"]) = true /\
  procstate_row_ok_with reg (mkAmbient "x/liquidation/keeper/keeper.go" "liquidation.SetHooks" "procstate"
                               "assign field x/liquidation/keeper.Keeper.hooks" ["app.New"; "liquidation.MsgServer.MsgLiquidate"]) = false /\
  ambient_row_ok (mkAmbient "types/utils.go" "types.ParseTime" "localtime" "time.Parse value returned before a UTC conversion" []) = true /\
  ambient_row_ok (mkAmbient "types/utils.go" "types.ParseTime" "localtime" "time.Parse value returned before a UTC conversion"
                    ["rewards.BeginBlocker"]) = false.
Proof. vm_compute. repeat split; reflexivity. Qed.

(* the table is not empty in any of the kinds the theorems talk about *)
Example c16_table_has_rows_of_each_kind :
  existsb (fun r => String.eqb (am_kind r) "procstate") ambient_table = true /\
  existsb (fun r => String.eqb (am_kind r) "procstate-ext") ambient_table = true /\
  existsb (fun r => String.eqb (am_kind r) "procstate-local") ambient_table = true /\
  existsb (fun r => String.eqb (am_kind r) "localtime") ambient_table = true /\
  existsb (fun r => String.eqb (am_kind r) "random") ambient_table = true /\
  existsb (fun r => String.eqb (am_kind r) "procstate-alias") ambient_table = true /\
  existsb (fun r => String.eqb (am_kind r) "procstate-alias-src" && String.eqb (am_func r) "package variable x/liquidity/types.DefaultSwapFeeBurnRate")
    ambient_table = true.
Proof. vm_compute. repeat split; reflexivity. Qed.
