(* C16 - state transitions are deterministic.
   A Gallina function is deterministic by construction; what is decided here is the one place
   where Go may be nondeterministic inside the state machine: enumeration of a map.  For every
   `for ... range <map>` found in the source by the translator (Gen/MapRangeTable.v) the site result
   is proved independent of the enumeration order - a statement over ALL orders - and the absence
   of the other ambient sources (goroutines, select, wall clock, randomness, environment) is a
   closed-world table fact re-established from the source on every check (Gen/AmbientTable.v). *)
From Coq Require Import String Permutation.
From Comdex Require Import Lib.Base Lib.DecArith Gen.MapRangeTable Gen.AmbientTable Model.MapSites Proofs.MapSitesProofs.
Local Open Scope Z_scope.

(* site 1 - app/app.go ModuleAccountAddrs: names collected from the permission map, then
   sort.Strings; for every total order [leb] on the keys *)
Theorem c16_site_1 :
  forall (K V : Type) (leb : K -> K -> bool),
  (forall a b, leb a b = true \/ leb b a = true) ->
  (forall a b, leb a b = true -> leb b a = true -> a = b) ->
  (forall a b c, leb a b = true -> leb b c = true -> leb a c = true) ->
  forall (l l' : list (K * V)), Permutation l l' -> NoDup (map fst l) ->
  sort_keys leb (fold_map collect_body l []) = sort_keys leb (fold_map collect_body l' []).
Proof. intros K V leb Ht Ha Htr l l' Hp _. exact (collect_sorted_perm K leb Ht Ha Htr l l' Hp). Qed.
Print Assumptions c16_site_1.

(* site 2 - amm/match.go:392, the fill loop over matchedAmtByOrder: every order of the book is
   filled independently, the quote-coin differences are added; a panicking fill (amount above the
   matchable amount, Dec overflow) makes the whole loop panic in every order *)
Theorem c16_site_2 :
  forall price (l l' : list (Z * Z)) (acc : option (book * Z)),
  Permutation l l' -> NoDup (map fst l) ->
  fold_map (fill_body price) l acc = fold_map (fill_body price) l' acc.
Proof. intros price l l' acc. apply fill_site_perm. Qed.
Print Assumptions c16_site_2.

(* site 3 - amm/orderbook.go String(): prices collected from priceSet (keyed by their string, so
   distinct), then sort.Slice by GT in stringRepresentation; display only *)
Theorem c16_site_3 :
  forall (Q P : Type) (leb : P -> P -> bool),
  (forall a b, leb a b = true \/ leb b a = true) ->
  (forall a b, leb a b = true -> leb b a = true -> a = b) ->
  (forall a b c, leb a b = true -> leb b c = true -> leb a c = true) ->
  forall (l l' : list (Q * P)), Permutation l l' -> NoDup (map fst l) ->
  sort_keys leb (fold_map collect_val_body l []) = sort_keys leb (fold_map collect_val_body l' []).
Proof. intros Q P leb Ht Ha Htr l l' Hp _. exact (collect_val_sorted_perm P leb Ht Ha Htr l l' Hp). Qed.
Print Assumptions c16_site_3.

(* site 4 - keeper/pool.go:736, the sum of poolLiquidityMap: Dec addition with its 315-bit
   overflow panic; every inserted value is positive (pool.go:732), the accumulator starts at 0 *)
Theorem c16_site_4 :
  forall (l l' : list (Z * Z)), Permutation l l' -> NoDup (map fst l) ->
  Forall (fun kv => 0 < snd kv) l ->
  fold_map sum_body l (Some 0) = fold_map sum_body l' (Some 0).
Proof. intros l l' Hp Hnd HP. apply sum_site_perm; try assumption. cbn. lia. Qed.
Print Assumptions c16_site_4.

(* every map enumeration found in the source today is one of the sites above (registered under
   the hash of its loop text: a new loop, or an edit of a registered loop, breaks this), there is
   no reflect / maps.Keys enumeration, and no registered hash is stale *)
Theorem c16_sites_covered :
  (forall s, In s map_range_table -> site_has_theorem s = true) /\ registry_live map_range_table = true.
Proof.
  pose proof sites_covered_table as H. apply andb_true_iff in H. destruct H as [H1 H2].
  split; [|exact H2]. intros s Hs. rewrite forallb_forall in H1. exact (H1 s Hs).
Qed.
Print Assumptions c16_sites_covered.

(* no goroutine, no select; randomness / wall clock only inside the registered simulation helpers,
   which nothing else in the non-test code refers to (reference graph of the translator) *)
Theorem c16_no_ambient : forall r, In r ambient_table -> ambient_row_ok r = true.
Proof. intros r Hr. pose proof ambient_table_ok as H. rewrite forallb_forall in H. exact (H r Hr). Qed.
Print Assumptions c16_no_ambient.

(* ---- non-vacuity ---- *)
(* two enumeration orders of the same three fills (a buy and two sells at price 2.5) give the same
   book and the same quote difference; the computation is not trivially None *)
Example c16_fill_example :
  let bk : book := [(1, mkOrder true 1000 0 0 100); (2, mkOrder false 50 0 0 50); (3, mkOrder false 70 0 0 70)] in
  let p := 2500000000000000000 in
  fold_map (fill_body p) [(1, 30); (2, 10); (3, 20)] (Some (bk, 0)) =
  fold_map (fill_body p) [(3, 20); (1, 30); (2, 10)] (Some (bk, 0)) /\
  exists b, fold_map (fill_body p) [(1, 30); (2, 10); (3, 20)] (Some (bk, 0)) = Some (b, 0).
Proof. cbn zeta. split; [vm_compute; reflexivity|]. eexists. vm_compute. reflexivity. Qed.

Example c16_sum_example :
  fold_map sum_body [(1, 5); (2, 7); (3, 11)] (Some 0) = Some 23 /\
  fold_map sum_body [(3, 11); (1, 5); (2, 7)] (Some 0) = Some 23.
Proof. vm_compute. split; reflexivity. Qed.

Example c16_sort_example :
  sort_keys Z.leb (fold_map (@collect_body Z unit) [(3, tt); (1, tt); (2, tt)] []) = [1; 2; 3].
Proof. vm_compute. reflexivity. Qed.

(* the order matters for the loop BEFORE sorting: the theorem is about the site result *)
Example c16_collect_is_order_sensitive :
  fold_map (@collect_body Z unit) [(3, tt); (1, tt)] [] <> fold_map (@collect_body Z unit) [(1, tt); (3, tt)] [].
Proof. vm_compute. intro H. discriminate. Qed.
