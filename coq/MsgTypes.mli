open Ascii
open Guards
open String

val msg_types : msg_type list
