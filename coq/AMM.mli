open Base
open BinInt
open BinNums
open Datatypes
open DecArith
open List
open Nat

type dir =
| Buy
| Sell

val dir_eqb : dir -> dir -> bool

type order = { o_id : nat; o_dir : dir; o_price : coq_Z; o_amt : coq_Z;
               o_offer : coq_Z; o_open : coq_Z; o_paid : coq_Z;
               o_recv : coq_Z; o_batch : coq_Z; o_key : coq_Z }

type fill = { f_id : nat; f_dir : dir; f_amt : coq_Z; f_price : coq_Z }

val quote_floor : coq_Z -> coq_Z -> coq_Z

val quote_ceil : coq_Z -> coq_Z -> coq_Z

val matchable_amount : order -> coq_Z -> coq_Z

val fill_order : order -> coq_Z -> coq_Z -> order option

val fill_qdiff : fill -> coq_Z

val fills_qdiff : fill list -> coq_Z

val apply_fill : order list -> fill -> order list option

val apply_fills : order list -> fill list -> order list option

val sel : order list -> nat list -> order list

val total_amount : order list -> coq_Z

val total_matchable : order list -> coq_Z -> coq_Z

val fulfill_fills : order list -> coq_Z -> fill list

val grp_pred : coq_Z -> coq_Z -> bool

val grp_append :
  coq_Z -> order -> (coq_Z * order list) list -> (coq_Z * order list) list

val grp_insert :
  coq_Z -> order -> (coq_Z * order list) list -> (coq_Z * order list) list

val grp_add : (coq_Z * order list) list -> order -> (coq_Z * order list) list

val group_by_batch : order list -> (coq_Z * order list) list

val has_priority : order -> order -> bool

val sort_insert : order -> order list -> order list

val sort_orders : order list -> order list

val dist_pass1_one : coq_Z -> coq_Z -> coq_Z -> order -> coq_Z option

val mp_val : coq_Z option -> coq_Z

val mp_sum : coq_Z option list -> coq_Z

val dist_pass2 :
  coq_Z -> order list -> coq_Z option list -> coq_Z -> coq_Z option list

val dist_is_matched : coq_Z -> order -> coq_Z option -> bool

val dist_split :
  coq_Z -> order list -> coq_Z option list -> order list * order list

val dist_fills : coq_Z -> order list -> coq_Z option list -> fill list

val distribute_to_orders :
  nat -> order list -> coq_Z -> coq_Z -> (fill list * bool) option

val fills_amt : fill list -> coq_Z

type phase = { ph_fills : fill list; ph_under : bool }

val phase_nil : phase

val phase_app : phase -> phase -> phase

val dist_groups : (coq_Z * order list) list -> coq_Z -> coq_Z -> phase option

val distribute_to_tick : order list -> coq_Z -> coq_Z -> phase option

type tick = { t_price : coq_Z; t_ids : nat list }

type book = { b_buys : tick list; b_sells : tick list }

val ticks_add : bool -> coq_Z -> nat -> tick list -> tick list

val book_add : book -> order -> book

val new_book : order list -> book

val tick_orders : order list -> tick -> order list

val tick_amt : order list -> coq_Z -> tick -> coq_Z

val build_side : bool -> coq_Z -> tick list -> tick list

type side = coq_Z list * coq_Z

val mk_side : order list -> coq_Z -> tick list -> side

val is_nil : 'a1 list -> bool

val fma_loop : nat -> coq_Z -> side -> side -> coq_Z option option

val find_matchable : order list -> book -> coq_Z -> coq_Z option option

val distribute_to_ticks :
  order list -> coq_Z -> tick list -> coq_Z -> phase option

val match_at_single_price : order list -> book -> coq_Z -> phase option option

type pdir =
| Staying
| Increasing
| Decreasing

val pd_side :
  bool -> order list -> coq_Z -> tick list -> coq_Z -> coq_Z * coq_Z

val price_direction : order list -> book -> coq_Z -> pdir

type mresult = { r_orders : order list; r_price : coq_Z; r_matched : 
                 bool; r_fills : fill list; r_under : bool }

val match_loop :
  nat -> pdir -> order list -> tick list -> tick list -> coq_Z -> bool ->
  fill list -> bool -> mresult option

val run_single : order list -> book -> coq_Z -> mresult option

val match_book : order list -> book -> coq_Z -> mresult option

val run_match : order list -> coq_Z -> mresult option

val run_single_price : order list -> coq_Z -> mresult option

val run_distribute : order list -> coq_Z -> coq_Z -> mresult option

val run_sort : order list -> nat list

val dom_order : order -> bool

val dom_ok : order list -> coq_Z -> bool

val zsum_by : (order -> coq_Z) -> dir -> order list -> coq_Z

val base_bought : order list -> order list -> coq_Z

val base_sold : order list -> order list -> coq_Z

val quote_paid : order list -> order list -> coq_Z

val quote_recv : order list -> order list -> coq_Z

val holds_C05_base : order list -> order list -> bool

val holds_C05_dust : order list -> order list -> coq_Z -> bool

val order_bounded : order -> bool

val holds_C05_bounds : order list -> bool

val count_fills : fill list -> nat -> coq_Z

val order_limit_ok : order -> order -> coq_Z -> bool

val holds_C05_limit : order list -> order list -> fill list -> bool

val order_positive : order -> bool

val holds_C05_positive : order list -> bool

val holds_C05_qdiff : order list -> order list -> coq_Z -> bool

val kf_of : mresult option -> bool

val kf_C05_1 : order list -> coq_Z -> bool

val kf_C05_1_single : order list -> coq_Z -> bool

val kf_C05_1_dist : order list -> coq_Z -> coq_Z -> bool
