open Base
open BinInt
open BinNums
open Datatypes
open DecArith
open FLedger
open List

type variant =
| V1S
| V1D
| V2S
| V2X
| V2D

val reverse : variant -> bool

val is_v1 : variant -> bool

val coq_MOD : coq_Z

val coq_COLL : coq_Z

val coq_EXT : coq_Z

val coq_TM : coq_Z

type auction = { var : variant; bid_denom : coq_Z; lot_denom : coq_Z;
                 sell : coq_Z; buy : coq_Z; bidder : coq_Z option;
                 bids : (coq_Z * coq_Z) list; bid_end : coq_Z; end_ : 
                 coq_Z; status : coq_Z; factor : coq_Z; dur : coq_Z;
                 bid_dur : coq_Z }

val set_bid : auction -> coq_Z -> coq_Z -> coq_Z -> coq_Z -> coq_Z -> auction

val set_times : auction -> coq_Z -> coq_Z -> coq_Z -> auction

val set_closed : auction -> auction

val change : coq_Z -> coq_Z -> coq_Z option

type state = auction * ledger

val err_u64 : coq_Z -> unit outcome

val lift : lres -> coq_Z -> (ledger -> state outcome) -> state outcome

val refund_prev :
  auction -> ledger -> coq_Z -> (ledger -> state outcome) -> state outcome

val bid_check :
  auction -> coq_Z -> coq_Z -> coq_Z -> coq_Z -> ((coq_Z * coq_Z) * coq_Z)
  outcome

val settle :
  auction -> ledger -> coq_Z -> coq_Z -> coq_Z -> coq_Z -> coq_Z -> coq_Z ->
  state outcome

val bid :
  auction -> ledger -> coq_Z -> coq_Z -> coq_Z -> coq_Z -> coq_Z -> coq_Z ->
  state outcome

val close : auction -> ledger -> coq_Z -> bool -> state outcome

val restart : auction -> coq_Z -> auction

val tick : auction -> ledger -> coq_Z -> bool -> state outcome

type op =
| Bid of coq_Z * coq_Z * coq_Z * coq_Z * coq_Z * coq_Z
| Tick of coq_Z * bool

val step : state -> op -> state outcome

val apply_op : state -> op -> state

val run : state -> op list -> state

val init :
  variant -> coq_Z -> coq_Z -> coq_Z -> coq_Z -> coq_Z -> coq_Z -> coq_Z ->
  coq_Z -> auction

val held : auction -> coq_Z

val holds_C11_custody : auction -> coq_Z -> coq_Z -> bool

val holds_C11_improves : auction -> coq_Z -> bool

val holds_C11_refund : auction -> coq_Z -> coq_Z -> coq_Z -> coq_Z -> bool

val holds_C11_winner :
  auction -> coq_Z -> coq_Z -> coq_Z -> coq_Z -> coq_Z -> bool

val holds_C11_open :
  auction -> coq_Z -> coq_Z -> coq_Z -> coq_Z -> coq_Z -> bool
