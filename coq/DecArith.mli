open Base
open BinInt
open BinNums
open Datatypes

val coq_P18 : coq_Z

val coq_HALF18 : coq_Z

val coq_P36 : coq_Z

val chop_round_nn : coq_Z -> coq_Z

val chop_round : coq_Z -> coq_Z

val chop_round_up : coq_Z -> coq_Z

val chop_trunc : coq_Z -> coq_Z

val dec_of_int : coq_Z -> coq_Z

val dmul : coq_Z -> coq_Z -> coq_Z

val dmul_trunc : coq_Z -> coq_Z -> coq_Z

val dmul_up : coq_Z -> coq_Z -> coq_Z

val dmul_int : coq_Z -> coq_Z -> coq_Z

val dquo : coq_Z -> coq_Z -> coq_Z

val dquo_trunc : coq_Z -> coq_Z -> coq_Z

val dquo_up : coq_Z -> coq_Z -> coq_Z

val dtrunc_int : coq_Z -> coq_Z

val dround_int : coq_Z -> coq_Z

val dceil : coq_Z -> coq_Z

val dceil_int : coq_Z -> coq_Z

val dpower_loop : nat -> coq_Z -> coq_Z -> coq_Z -> coq_Z

val dpower : coq_Z -> coq_Z -> coq_Z

val dsqrt_loop : nat -> coq_Z -> coq_Z -> coq_Z -> coq_Z

val dsqrt_nn : coq_Z -> coq_Z

val dsqrt : coq_Z -> coq_Z

val two256 : coq_Z

val two315 : coq_Z

val fits_int : coq_Z -> bool

val fits_dec : coq_Z -> bool

val chk_dec : coq_Z -> coq_Z option

val chk_int : coq_Z -> coq_Z option

val dadd_c : coq_Z -> coq_Z -> coq_Z option

val dsub_c : coq_Z -> coq_Z -> coq_Z option

val dmul_c : coq_Z -> coq_Z -> coq_Z option

val dmul_trunc_c : coq_Z -> coq_Z -> coq_Z option

val dmul_int_c : coq_Z -> coq_Z -> coq_Z option

val dquo_c : coq_Z -> coq_Z -> coq_Z option

val dquo_trunc_c : coq_Z -> coq_Z -> coq_Z option

val dquo_up_c : coq_Z -> coq_Z -> coq_Z option

val dquo_int_c : coq_Z -> coq_Z -> coq_Z option

val dtrunc_int_c : coq_Z -> coq_Z option

val dround_int_c : coq_Z -> coq_Z option

val iadd_c : coq_Z -> coq_Z -> coq_Z option

val isub_c : coq_Z -> coq_Z -> coq_Z option

val bitlen : coq_Z -> coq_Z

val imul_c : coq_Z -> coq_Z -> coq_Z option

val iquo_c : coq_Z -> coq_Z -> coq_Z option

val imod_c : coq_Z -> coq_Z -> coq_Z option

val int64_c : coq_Z -> coq_Z option

val uint64_c : coq_Z -> coq_Z option
