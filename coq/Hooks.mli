open Ascii
open BinInt
open BinNums
open Datatypes
open HookLang
open HookTable
open List
open PeanoNat
open String

val lookup : string -> (string * hook) list -> hook option

val resolve : nat -> (string * hook) list -> hook -> hook

type frame =
| FLoop of string
| FWrap

type leaf_kind =
| LCall of string * call_kind
| LRisk of string * string
| LUnrec of string

type leaf = { lf_kind : leaf_kind; lf_path : frame list }

val leaves : hook -> frame list -> leaf list

val resolved : (string * hook) list -> string -> hook

val root_leaves : (string * hook) list -> string -> leaf list

val is_wrap : frame -> bool

val under_wrap : frame list -> bool

val wrap_inside_loop : string -> frame list -> bool

val in_loop : string -> frame list -> bool

type unit_spec = { u_id : string; u_root : string; u_loop : string;
                   u_calls : string list }

val u_id : unit_spec -> string

val hook_units : unit_spec list

val leaf_is_call : string -> leaf -> bool

val path_ok : unit_spec -> frame list -> bool

val unit_is_wrapped : (string * hook) list -> unit_spec -> bool

val kf_C15_1 : string -> bool

val kf_C15_3 : string -> bool

val kf_C15_4 : bool -> bool

val holds_C15 : bool -> coq_Z -> bool -> bool

val table_says_wrapped : string -> bool
