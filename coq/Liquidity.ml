open Base
open BinInt
open BinNums
open Datatypes
open DecArith
open List

type acct =
| User of coq_Z
| Escrow of coq_Z * coq_Z
| SwapFee of coq_Z * coq_Z
| GlobalEscrow
| Module
| Reserve of coq_Z * coq_Z
| Dust of coq_Z
| FeeColl of coq_Z

(** val acct_eqb : acct -> acct -> bool **)

let acct_eqb a b =
  match a with
  | User x -> (match b with
               | User y -> Z.eqb x y
               | _ -> false)
  | Escrow (a1, p1) ->
    (match b with
     | Escrow (a2, p2) -> (&&) (Z.eqb a1 a2) (Z.eqb p1 p2)
     | _ -> false)
  | SwapFee (a1, p1) ->
    (match b with
     | SwapFee (a2, p2) -> (&&) (Z.eqb a1 a2) (Z.eqb p1 p2)
     | _ -> false)
  | GlobalEscrow -> (match b with
                     | GlobalEscrow -> true
                     | _ -> false)
  | Module -> (match b with
               | Module -> true
               | _ -> false)
  | Reserve (a1, p1) ->
    (match b with
     | Reserve (a2, p2) -> (&&) (Z.eqb a1 a2) (Z.eqb p1 p2)
     | _ -> false)
  | Dust a1 -> (match b with
                | Dust a2 -> Z.eqb a1 a2
                | _ -> false)
  | FeeColl a1 -> (match b with
                   | FeeColl a2 -> Z.eqb a1 a2
                   | _ -> false)

type ledger = acct -> coq_Z -> coq_Z

(** val ladd : ledger -> acct -> coq_Z -> coq_Z -> ledger **)

let ladd l a d x a' d' =
  if (&&) (acct_eqb a a') (Z.eqb d d') then Z.add (l a' d') x else l a' d'

(** val send : ledger -> acct -> acct -> coq_Z -> coq_Z -> ledger outcome **)

let send l from to0 d x =
  if Z.ltb x Z0
  then Panic
  else if Z.eqb x Z0
       then Ok l
       else if Z.ltb (l from d) x
            then Err (Zpos (Coq_xI (Coq_xO Coq_xH)))
            else Ok (ladd (ladd l from d (Z.opp x)) to0 d x)

(** val pool_denom : coq_Z -> coq_Z -> coq_Z **)

let pool_denom app0 pool0 =
  Z.add
    (Z.add (Zpos (Coq_xO (Coq_xO (Coq_xO (Coq_xI (Coq_xO (Coq_xI (Coq_xI
      (Coq_xI (Coq_xI Coq_xH))))))))))
      (Z.mul app0 (Zpos (Coq_xO (Coq_xO (Coq_xI (Coq_xO (Coq_xO (Coq_xI
        Coq_xH))))))))) pool0

(** val ndigits : nat -> coq_Z -> coq_Z **)

let rec ndigits fuel x =
  match fuel with
  | O -> Zpos Coq_xH
  | S f ->
    if Z.ltb x (Zpos (Coq_xO (Coq_xI (Coq_xO Coq_xH))))
    then Zpos Coq_xH
    else Z.add (Zpos Coq_xH)
           (ndigits f (Z.div x (Zpos (Coq_xO (Coq_xI (Coq_xO Coq_xH))))))

(** val char : coq_Z -> coq_Z **)

let char x =
  Z.sub
    (ndigits (S (S (S (S (S (S (S (S (S (S (S (S (S (S (S (S (S (S (S (S (S
      (S (S (S (S (S (S (S (S (S (S (S (S (S (S (S (S (S (S (S (S (S (S (S (S
      (S (S (S (S (S (S (S (S (S (S (S (S (S (S (S (S (S (S (S (S (S (S (S (S
      (S (S (S (S (S (S (S (S (S (S (S (S (S (S (S (S (S (S (S (S (S (S (S (S
      (S (S (S (S (S (S (S (S (S (S (S (S (S (S (S (S (S (S (S (S (S (S (S (S
      (S (S (S
      O))))))))))))))))))))))))))))))))))))))))))))))))))))))))))))))))))))))))))))))))))))))))))))))))))))))))))))))))))))))))
      x) (Zpos Coq_xH)

(** val pdown : coq_Z -> coq_Z -> coq_Z **)

let pdown price prec =
  let d = Z.sub (char price) prec in
  if Z.gtb d Z0
  then Z.mul (Z.div price (Z.pow (Zpos (Coq_xO (Coq_xI (Coq_xO Coq_xH)))) d))
         (Z.pow (Zpos (Coq_xO (Coq_xI (Coq_xO Coq_xH)))) d)
  else price

(** val pup : coq_Z -> coq_Z -> coq_Z **)

let pup price prec =
  let t = pdown price prec in
  if Z.eqb t price
  then t
  else Z.add t
         (Z.pow (Zpos (Coq_xO (Coq_xI (Coq_xO Coq_xH))))
           (Z.sub (char t) prec))

(** val highest_tick : coq_Z -> coq_Z **)

let highest_tick prec =
  pdown
    (Z.sub
      (Z.pow (Zpos (Coq_xO Coq_xH)) (Zpos (Coq_xO (Coq_xO (Coq_xI (Coq_xI
        (Coq_xO (Coq_xI (Coq_xO (Coq_xO Coq_xH)))))))))) (Zpos Coq_xH)) prec

(** val lowest_tick : coq_Z -> coq_Z **)

let lowest_tick prec =
  Z.pow (Zpos (Coq_xO (Coq_xI (Coq_xO Coq_xH)))) prec

(** val price_limits : coq_Z -> coq_Z -> coq_Z -> coq_Z * coq_Z **)

let price_limits last ratio prec =
  ((pup (dmul last (Z.sub coq_P18 ratio)) prec),
    (pdown (dmul last (Z.add coq_P18 ratio)) prec))

(** val min_coin : coq_Z **)

let min_coin =
  Zpos (Coq_xO (Coq_xO (Coq_xI (Coq_xO (Coq_xO (Coq_xI Coq_xH))))))

(** val max_coin : coq_Z **)

let max_coin =
  Z.pow (Zpos (Coq_xO (Coq_xI (Coq_xO Coq_xH)))) (Zpos (Coq_xO (Coq_xO
    (Coq_xO (Coq_xI (Coq_xO Coq_xH))))))

(** val offer_amt : bool -> coq_Z -> coq_Z -> coq_Z **)

let offer_amt buy price amt =
  if buy then dceil_int (dmul_int price amt) else amt

(** val too_small : coq_Z -> coq_Z -> bool **)

let too_small amt price =
  (||) (Z.ltb amt min_coin) (Z.ltb (dmul_int price amt) (dec_of_int min_coin))

(** val fee_amt : coq_Z -> coq_Z -> coq_Z **)

let fee_amt rate amt =
  dtrunc_int (dmul_trunc (dec_of_int amt) rate)

type params = { pr_fee_rate : coq_Z; pr_tick : coq_Z; pr_ratio : coq_Z;
                pr_max_life : coq_Z; pr_mm_ticks : coq_Z;
                pr_fee_denom : coq_Z; pr_pair_fee : coq_Z;
                pr_pool_fee : coq_Z; pr_min_pc : coq_Z; pr_min_dep : 
                coq_Z; pr_max_pools : coq_Z; pr_batch : coq_Z;
                pr_queue_dur : coq_Z }

type pair = { p_app : coq_Z; p_id : coq_Z; p_base : coq_Z; p_quote : 
              coq_Z; p_last_order : coq_Z; p_last_price : coq_Z option;
              p_batch : coq_Z }

type order = { o_app : coq_Z; o_pair : coq_Z; o_id : coq_Z; o_owner : 
               coq_Z; o_buy : bool; o_type : coq_Z; o_odenom : coq_Z;
               o_ddenom : coq_Z; o_offer : coq_Z; o_rem : coq_Z;
               o_recv : coq_Z; o_price : coq_Z; o_amt : coq_Z;
               o_open : coq_Z; o_batch : coq_Z; o_expire : coq_Z;
               o_status : coq_Z }

type ghost = { g_taken : coq_Z; g_ret_offer : coq_Z; g_ret_fee : coq_Z;
               g_recv : coq_Z; g_fee_fwd : coq_Z;
               g_fills : ((coq_Z * coq_Z) * coq_Z) list }

type entry = order * ghost

type mmindex = { mi_app : coq_Z; mi_owner : coq_Z; mi_pair : coq_Z;
                 mi_ids : coq_Z list }

type pool = { pl_app : coq_Z; pl_id : coq_Z; pl_pair : coq_Z;
              pl_ranged : bool; pl_disabled : bool; pl_last_dep : coq_Z;
              pl_last_wd : coq_Z }

type depreq = { d_app : coq_Z; d_pool : coq_Z; d_id : coq_Z; d_owner : 
                coq_Z; d_x : coq_Z; d_y : coq_Z; d_ax : coq_Z; d_ay : 
                coq_Z; d_pc : coq_Z; d_status : coq_Z }

type wdreq = { w_app : coq_Z; w_pool : coq_Z; w_id : coq_Z; w_owner : 
               coq_Z; w_pc : coq_Z; w_x : coq_Z; w_y : coq_Z; w_status : 
               coq_Z }

type qfarmer = { q_app : coq_Z; q_pool : coq_Z; q_owner : coq_Z;
                 q_coins : (coq_Z * coq_Z) list }

type afarmer = { a_app : coq_Z; a_pool : coq_Z; a_owner : coq_Z; a_amt : coq_Z }

type state = { apps : (coq_Z * params) list; assets : coq_Z list;
               pairs : pair list; last_pair : (coq_Z * coq_Z) list;
               orders : entry list; mmidx : mmindex list; pools : pool list;
               last_pool : (coq_Z * coq_Z) list; deps : depreq list;
               wds : wdreq list; qfs : qfarmer list; afs : afarmer list;
               led : ledger; sup : (coq_Z -> coq_Z);
               owed : (coq_Z -> coq_Z -> coq_Z -> coq_Z);
               surplus : (coq_Z -> coq_Z -> coq_Z -> coq_Z) }

(** val init : state **)

let init =
  { apps = []; assets = []; pairs = []; last_pair = []; orders = []; mmidx =
    []; pools = []; last_pool = []; deps = []; wds = []; qfs = []; afs = [];
    led = (fun _ _ -> Z0); sup = (fun _ -> Z0); owed = (fun _ _ _ -> Z0);
    surplus = (fun _ _ _ -> Z0) }

(** val set_orders : state -> entry list -> state **)

let set_orders s v =
  { apps = s.apps; assets = s.assets; pairs = s.pairs; last_pair =
    s.last_pair; orders = v; mmidx = s.mmidx; pools = s.pools; last_pool =
    s.last_pool; deps = s.deps; wds = s.wds; qfs = s.qfs; afs = s.afs; led =
    s.led; sup = s.sup; owed = s.owed; surplus = s.surplus }

(** val set_pairs : state -> pair list -> state **)

let set_pairs s v =
  { apps = s.apps; assets = s.assets; pairs = v; last_pair = s.last_pair;
    orders = s.orders; mmidx = s.mmidx; pools = s.pools; last_pool =
    s.last_pool; deps = s.deps; wds = s.wds; qfs = s.qfs; afs = s.afs; led =
    s.led; sup = s.sup; owed = s.owed; surplus = s.surplus }

(** val set_last_pair : state -> (coq_Z * coq_Z) list -> state **)

let set_last_pair s v =
  { apps = s.apps; assets = s.assets; pairs = s.pairs; last_pair = v;
    orders = s.orders; mmidx = s.mmidx; pools = s.pools; last_pool =
    s.last_pool; deps = s.deps; wds = s.wds; qfs = s.qfs; afs = s.afs; led =
    s.led; sup = s.sup; owed = s.owed; surplus = s.surplus }

(** val set_mmidx : state -> mmindex list -> state **)

let set_mmidx s v =
  { apps = s.apps; assets = s.assets; pairs = s.pairs; last_pair =
    s.last_pair; orders = s.orders; mmidx = v; pools = s.pools; last_pool =
    s.last_pool; deps = s.deps; wds = s.wds; qfs = s.qfs; afs = s.afs; led =
    s.led; sup = s.sup; owed = s.owed; surplus = s.surplus }

(** val set_pools : state -> pool list -> state **)

let set_pools s v =
  { apps = s.apps; assets = s.assets; pairs = s.pairs; last_pair =
    s.last_pair; orders = s.orders; mmidx = s.mmidx; pools = v; last_pool =
    s.last_pool; deps = s.deps; wds = s.wds; qfs = s.qfs; afs = s.afs; led =
    s.led; sup = s.sup; owed = s.owed; surplus = s.surplus }

(** val set_last_pool : state -> (coq_Z * coq_Z) list -> state **)

let set_last_pool s v =
  { apps = s.apps; assets = s.assets; pairs = s.pairs; last_pair =
    s.last_pair; orders = s.orders; mmidx = s.mmidx; pools = s.pools;
    last_pool = v; deps = s.deps; wds = s.wds; qfs = s.qfs; afs = s.afs;
    led = s.led; sup = s.sup; owed = s.owed; surplus = s.surplus }

(** val set_deps : state -> depreq list -> state **)

let set_deps s v =
  { apps = s.apps; assets = s.assets; pairs = s.pairs; last_pair =
    s.last_pair; orders = s.orders; mmidx = s.mmidx; pools = s.pools;
    last_pool = s.last_pool; deps = v; wds = s.wds; qfs = s.qfs; afs = s.afs;
    led = s.led; sup = s.sup; owed = s.owed; surplus = s.surplus }

(** val set_wds : state -> wdreq list -> state **)

let set_wds s v =
  { apps = s.apps; assets = s.assets; pairs = s.pairs; last_pair =
    s.last_pair; orders = s.orders; mmidx = s.mmidx; pools = s.pools;
    last_pool = s.last_pool; deps = s.deps; wds = v; qfs = s.qfs; afs =
    s.afs; led = s.led; sup = s.sup; owed = s.owed; surplus = s.surplus }

(** val set_qfs : state -> qfarmer list -> state **)

let set_qfs s v =
  { apps = s.apps; assets = s.assets; pairs = s.pairs; last_pair =
    s.last_pair; orders = s.orders; mmidx = s.mmidx; pools = s.pools;
    last_pool = s.last_pool; deps = s.deps; wds = s.wds; qfs = v; afs =
    s.afs; led = s.led; sup = s.sup; owed = s.owed; surplus = s.surplus }

(** val set_afs : state -> afarmer list -> state **)

let set_afs s v =
  { apps = s.apps; assets = s.assets; pairs = s.pairs; last_pair =
    s.last_pair; orders = s.orders; mmidx = s.mmidx; pools = s.pools;
    last_pool = s.last_pool; deps = s.deps; wds = s.wds; qfs = s.qfs; afs =
    v; led = s.led; sup = s.sup; owed = s.owed; surplus = s.surplus }

(** val set_led : state -> ledger -> state **)

let set_led s v =
  { apps = s.apps; assets = s.assets; pairs = s.pairs; last_pair =
    s.last_pair; orders = s.orders; mmidx = s.mmidx; pools = s.pools;
    last_pool = s.last_pool; deps = s.deps; wds = s.wds; qfs = s.qfs; afs =
    s.afs; led = v; sup = s.sup; owed = s.owed; surplus = s.surplus }

(** val set_sup : state -> (coq_Z -> coq_Z) -> state **)

let set_sup s v =
  { apps = s.apps; assets = s.assets; pairs = s.pairs; last_pair =
    s.last_pair; orders = s.orders; mmidx = s.mmidx; pools = s.pools;
    last_pool = s.last_pool; deps = s.deps; wds = s.wds; qfs = s.qfs; afs =
    s.afs; led = s.led; sup = v; owed = s.owed; surplus = s.surplus }

(** val set_owed : state -> (coq_Z -> coq_Z -> coq_Z -> coq_Z) -> state **)

let set_owed s v =
  { apps = s.apps; assets = s.assets; pairs = s.pairs; last_pair =
    s.last_pair; orders = s.orders; mmidx = s.mmidx; pools = s.pools;
    last_pool = s.last_pool; deps = s.deps; wds = s.wds; qfs = s.qfs; afs =
    s.afs; led = s.led; sup = s.sup; owed = v; surplus = s.surplus }

(** val set_surplus : state -> (coq_Z -> coq_Z -> coq_Z -> coq_Z) -> state **)

let set_surplus s v =
  { apps = s.apps; assets = s.assets; pairs = s.pairs; last_pair =
    s.last_pair; orders = s.orders; mmidx = s.mmidx; pools = s.pools;
    last_pool = s.last_pool; deps = s.deps; wds = s.wds; qfs = s.qfs; afs =
    s.afs; led = s.led; sup = s.sup; owed = s.owed; surplus = v }

(** val set_apps : state -> (coq_Z * params) list -> state **)

let set_apps s v =
  { apps = v; assets = s.assets; pairs = s.pairs; last_pair = s.last_pair;
    orders = s.orders; mmidx = s.mmidx; pools = s.pools; last_pool =
    s.last_pool; deps = s.deps; wds = s.wds; qfs = s.qfs; afs = s.afs; led =
    s.led; sup = s.sup; owed = s.owed; surplus = s.surplus }

(** val set_assets : state -> coq_Z list -> state **)

let set_assets s v =
  { apps = s.apps; assets = v; pairs = s.pairs; last_pair = s.last_pair;
    orders = s.orders; mmidx = s.mmidx; pools = s.pools; last_pool =
    s.last_pool; deps = s.deps; wds = s.wds; qfs = s.qfs; afs = s.afs; led =
    s.led; sup = s.sup; owed = s.owed; surplus = s.surplus }

(** val fadd3 :
    (coq_Z -> coq_Z -> coq_Z -> coq_Z) -> coq_Z -> coq_Z -> coq_Z -> coq_Z ->
    coq_Z -> coq_Z -> coq_Z -> coq_Z **)

let fadd3 f a p d x a' p' d' =
  if (&&) ((&&) (Z.eqb a a') (Z.eqb p p')) (Z.eqb d d')
  then Z.add (f a' p' d') x
  else f a' p' d'

(** val fadd1 : (coq_Z -> coq_Z) -> coq_Z -> coq_Z -> coq_Z -> coq_Z **)

let fadd1 f d x d' =
  if Z.eqb d d' then Z.add (f d') x else f d'

(** val ssend : state -> acct -> acct -> coq_Z -> coq_Z -> state outcome **)

let ssend s from to0 d x =
  match send s.led from to0 d x with
  | Ok l -> Ok (set_led s l)
  | Err c -> Err c
  | Panic -> Panic

(** val aget : (coq_Z * 'a1) list -> coq_Z -> 'a1 option **)

let rec aget l k =
  match l with
  | [] -> None
  | p :: r -> let (k', v) = p in if Z.eqb k' k then Some v else aget r k

(** val aset : (coq_Z * 'a1) list -> coq_Z -> 'a1 -> (coq_Z * 'a1) list **)

let rec aset l k v =
  match l with
  | [] -> (k, v) :: []
  | p :: r ->
    let (k', w) = p in
    if Z.eqb k' k
    then (k, v) :: r
    else if Z.ltb k k'
         then (k, v) :: ((k', w) :: r)
         else (k', w) :: (aset r k v)

(** val get_params : state -> coq_Z -> params option **)

let get_params s app0 =
  aget s.apps app0

type key3 = (coq_Z * coq_Z) * coq_Z

(** val k3_eqb : key3 -> key3 -> bool **)

let k3_eqb a b =
  let (p, a3) = a in
  let (a1, a2) = p in
  let (p0, b3) = b in
  let (b1, b2) = p0 in (&&) ((&&) (Z.eqb a1 b1) (Z.eqb a2 b2)) (Z.eqb a3 b3)

(** val k3_ltb : key3 -> key3 -> bool **)

let k3_ltb a b =
  let (p, a3) = a in
  let (a1, a2) = p in
  let (p0, b3) = b in
  let (b1, b2) = p0 in
  (||) (Z.ltb a1 b1)
    ((&&) (Z.eqb a1 b1)
      ((||) (Z.ltb a2 b2) ((&&) (Z.eqb a2 b2) (Z.ltb a3 b3))))

(** val okey : order -> key3 **)

let okey o =
  ((o.o_app, o.o_pair), o.o_id)

(** val ekey : entry -> key3 **)

let ekey e =
  okey (fst e)

(** val find_order : key3 -> entry list -> entry option **)

let rec find_order k = function
| [] -> None
| e :: r -> if k3_eqb (ekey e) k then Some e else find_order k r

(** val ins_order : entry -> entry list -> entry list **)

let rec ins_order e = function
| [] -> e :: []
| x :: r ->
  if k3_eqb (ekey x) (ekey e)
  then e :: r
  else if k3_ltb (ekey e) (ekey x)
       then e :: (x :: r)
       else x :: (ins_order e r)

(** val upd_order : key3 -> (entry -> entry) -> entry list -> entry list **)

let upd_order k f st =
  map (fun e -> if k3_eqb (ekey e) k then f e else e) st

(** val find_pair : coq_Z -> coq_Z -> pair list -> pair option **)

let rec find_pair app0 id = function
| [] -> None
| p :: r ->
  if (&&) (Z.eqb p.p_app app0) (Z.eqb p.p_id id)
  then Some p
  else find_pair app0 id r

(** val ins_pair : pair -> pair list -> pair list **)

let rec ins_pair p = function
| [] -> p :: []
| x :: r ->
  if (&&) (Z.eqb x.p_app p.p_app) (Z.eqb x.p_id p.p_id)
  then p :: r
  else if (||) (Z.ltb p.p_app x.p_app)
            ((&&) (Z.eqb p.p_app x.p_app) (Z.ltb p.p_id x.p_id))
       then p :: (x :: r)
       else x :: (ins_pair p r)

(** val find_pool : coq_Z -> coq_Z -> pool list -> pool option **)

let rec find_pool app0 id = function
| [] -> None
| p :: r ->
  if (&&) (Z.eqb p.pl_app app0) (Z.eqb p.pl_id id)
  then Some p
  else find_pool app0 id r

(** val ins_pool : pool -> pool list -> pool list **)

let rec ins_pool p = function
| [] -> p :: []
| x :: r ->
  if (&&) (Z.eqb x.pl_app p.pl_app) (Z.eqb x.pl_id p.pl_id)
  then p :: r
  else if (||) (Z.ltb p.pl_app x.pl_app)
            ((&&) (Z.eqb p.pl_app x.pl_app) (Z.ltb p.pl_id x.pl_id))
       then p :: (x :: r)
       else x :: (ins_pool p r)

(** val is_term : coq_Z -> bool **)

let is_term st =
  (||)
    ((||) (Z.eqb st (Zpos (Coq_xO (Coq_xO Coq_xH))))
      (Z.eqb st (Zpos (Coq_xI (Coq_xO Coq_xH)))))
    (Z.eqb st (Zpos (Coq_xO (Coq_xI Coq_xH))))

(** val is_live : coq_Z -> bool **)

let is_live st =
  (||) ((||) (Z.eqb st (Zpos Coq_xH)) (Z.eqb st (Zpos (Coq_xO Coq_xH))))
    (Z.eqb st (Zpos (Coq_xI Coq_xH)))

(** val set_status : order -> coq_Z -> order **)

let set_status o st =
  { o_app = o.o_app; o_pair = o.o_pair; o_id = o.o_id; o_owner = o.o_owner;
    o_buy = o.o_buy; o_type = o.o_type; o_odenom = o.o_odenom; o_ddenom =
    o.o_ddenom; o_offer = o.o_offer; o_rem = o.o_rem; o_recv = o.o_recv;
    o_price = o.o_price; o_amt = o.o_amt; o_open = o.o_open; o_batch =
    o.o_batch; o_expire = o.o_expire; o_status = st }

(** val fee_reserve : coq_Z -> order -> coq_Z **)

let fee_reserve rate o =
  if Z.eqb o.o_type (Zpos (Coq_xI Coq_xH)) then Z0 else fee_amt rate o.o_offer

(** val finish_calc : coq_Z -> entry -> coq_Z -> (entry * coq_Z) * coq_Z **)

let finish_calc rate e status =
  let (o, g) = e in
  if is_term o.o_status
  then ((e, Z0), Z0)
  else if Z.eqb o.o_type (Zpos (Coq_xI Coq_xH))
       then let refund = if Z.gtb o.o_rem Z0 then o.o_rem else Z0 in
            ((((set_status o status), { g_taken = g.g_taken; g_ret_offer =
            (Z.add g.g_ret_offer refund); g_ret_fee = g.g_ret_fee; g_recv =
            g.g_recv; g_fee_fwd = g.g_fee_fwd; g_fills = g.g_fills }),
            refund), Z0)
       else let collected = fee_amt rate o.o_offer in
            if Z.gtb o.o_rem Z0
            then if Z.eqb o.o_rem o.o_offer
                 then ((((set_status o status), { g_taken = g.g_taken;
                        g_ret_offer = (Z.add g.g_ret_offer o.o_rem);
                        g_ret_fee = (Z.add g.g_ret_fee collected); g_recv =
                        g.g_recv; g_fee_fwd = g.g_fee_fwd; g_fills =
                        g.g_fills }), (Z.add o.o_rem collected)), Z0)
                 else let swapfee = fee_amt rate (Z.sub o.o_offer o.o_rem) in
                      ((((set_status o status), { g_taken = g.g_taken;
                      g_ret_offer = (Z.add g.g_ret_offer o.o_rem);
                      g_ret_fee =
                      (Z.add g.g_ret_fee (Z.sub collected swapfee)); g_recv =
                      g.g_recv; g_fee_fwd = (Z.add g.g_fee_fwd swapfee);
                      g_fills = g.g_fills }),
                      (Z.add o.o_rem (Z.sub collected swapfee))), swapfee)
            else ((((set_status o status), { g_taken = g.g_taken;
                   g_ret_offer = g.g_ret_offer; g_ret_fee = g.g_ret_fee;
                   g_recv = g.g_recv; g_fee_fwd =
                   (Z.add g.g_fee_fwd collected); g_fills = g.g_fills }),
                   Z0), collected)

(** val finish_entry : state -> entry -> coq_Z -> state outcome **)

let finish_entry s e status =
  let o = fst e in
  if is_term o.o_status
  then Ok s
  else (match if Z.eqb o.o_type (Zpos (Coq_xI Coq_xH))
              then Some Z0
              else option_map (fun p -> p.pr_fee_rate) (get_params s o.o_app) with
        | Some rate ->
          let (p, fee) = finish_calc rate e status in
          let (e', refund) = p in
          let esc = Escrow (o.o_app, o.o_pair) in
          obind (ssend s esc (User o.o_owner) o.o_odenom refund) (fun s1 ->
            obind (ssend s1 esc (SwapFee (o.o_app, o.o_pair)) o.o_odenom fee)
              (fun s2 -> Ok
              (set_owed
                (set_orders s2 (upd_order (ekey e) (fun _ -> e') s2.orders))
                (fadd3 s2.owed o.o_app o.o_pair o.o_odenom
                  (Z.opp (Z.add refund fee))))))
        | None -> Err (Zpos Coq_xH))

type order_msg = { m_app : coq_Z; m_owner : coq_Z; m_pair : coq_Z;
                   m_buy : bool; m_dir_ok : bool; m_odenom : coq_Z;
                   m_oamt : coq_Z; m_ddenom : coq_Z; m_price : coq_Z;
                   m_amt : coq_Z; m_life : coq_Z }

(** val vb_limit : order_msg -> bool **)

let vb_limit m =
  (&&)
    ((&&)
      ((&&)
        ((&&)
          ((&&)
            ((&&)
              ((&&)
                ((&&) ((&&) (negb (Z.eqb m.m_pair Z0)) m.m_dir_ok)
                  (Z.gtb m.m_price Z0)) (Z.leb min_coin m.m_oamt))
              (Z.leb m.m_oamt max_coin)) (Z.leb min_coin m.m_amt))
          (Z.leb m.m_amt max_coin))
        (Z.leb (offer_amt m.m_buy m.m_price m.m_amt) m.m_oamt))
      (negb (Z.eqb m.m_odenom m.m_ddenom))) (Z.leb Z0 m.m_life)

(** val vb_market : order_msg -> bool **)

let vb_market m =
  (&&)
    ((&&)
      ((&&)
        ((&&)
          ((&&)
            ((&&) ((&&) (negb (Z.eqb m.m_pair Z0)) m.m_dir_ok)
              (Z.leb min_coin m.m_oamt)) (Z.leb m.m_oamt max_coin))
          (Z.leb min_coin m.m_amt)) (Z.leb m.m_amt max_coin))
      (negb (Z.eqb m.m_odenom m.m_ddenom))) (Z.leb Z0 m.m_life)

(** val new_ghost : coq_Z -> ghost **)

let new_ghost taken =
  { g_taken = taken; g_ret_offer = Z0; g_ret_fee = Z0; g_recv = Z0;
    g_fee_fwd = Z0; g_fills = [] }

(** val place :
    state -> order_msg -> coq_Z -> pair -> coq_Z -> coq_Z -> coq_Z -> coq_Z
    -> state outcome **)

let place s m typ pr price offer fee now =
  obind
    (ssend s (User m.m_owner) (Escrow (m.m_app, m.m_pair)) m.m_odenom
      (Z.add offer fee)) (fun s1 ->
    let id = Z.add pr.p_last_order (Zpos Coq_xH) in
    let pr' = { p_app = pr.p_app; p_id = pr.p_id; p_base = pr.p_base;
      p_quote = pr.p_quote; p_last_order = id; p_last_price =
      pr.p_last_price; p_batch = pr.p_batch }
    in
    let o = { o_app = m.m_app; o_pair = pr.p_id; o_id = id; o_owner =
      m.m_owner; o_buy = m.m_buy; o_type = typ; o_odenom = m.m_odenom;
      o_ddenom = m.m_ddenom; o_offer = offer; o_rem = offer; o_recv = Z0;
      o_price = price; o_amt = m.m_amt; o_open = m.m_amt; o_batch =
      pr.p_batch; o_expire = (Z.add now m.m_life); o_status = (Zpos Coq_xH) }
    in
    Ok
    (set_owed
      (set_orders (set_pairs s1 (ins_pair pr' s1.pairs))
        (ins_order (o, (new_ghost (Z.add offer fee))) s1.orders))
      (fadd3 s1.owed m.m_app m.m_pair m.m_odenom (Z.add offer fee))))

(** val limit_order : state -> order_msg -> coq_Z -> state outcome **)

let limit_order s m now =
  if negb (vb_limit m)
  then Err (Zpos (Coq_xI (Coq_xO (Coq_xO Coq_xH))))
  else (match get_params s m.m_app with
        | Some p ->
          if Z.ltb (s.led (User m.m_owner) m.m_odenom) m.m_oamt
          then Err (Zpos (Coq_xI (Coq_xO Coq_xH)))
          else if Z.gtb m.m_life p.pr_max_life
               then Err (Zpos (Coq_xO Coq_xH))
               else (match find_pair m.m_app m.m_pair s.pairs with
                     | Some pr ->
                       let (lo, hi) =
                         match pr.p_last_price with
                         | Some lp -> price_limits lp p.pr_ratio p.pr_tick
                         | None ->
                           ((lowest_tick p.pr_tick), (highest_tick p.pr_tick))
                       in
                       if Z.gtb m.m_price hi
                       then Err (Zpos (Coq_xO (Coq_xO Coq_xH)))
                       else if Z.ltb m.m_price lo
                            then Err (Zpos (Coq_xO (Coq_xO Coq_xH)))
                            else let denoms_ok =
                                   if m.m_buy
                                   then (&&) (Z.eqb m.m_odenom pr.p_quote)
                                          (Z.eqb m.m_ddenom pr.p_base)
                                   else (&&) (Z.eqb m.m_odenom pr.p_base)
                                          (Z.eqb m.m_ddenom pr.p_quote)
                                 in
                                 if negb denoms_ok
                                 then Err (Zpos (Coq_xO (Coq_xI Coq_xH)))
                                 else let price =
                                        if m.m_buy
                                        then pdown m.m_price p.pr_tick
                                        else pup m.m_price p.pr_tick
                                      in
                                      let offer =
                                        offer_amt m.m_buy price m.m_amt
                                      in
                                      let fee = fee_amt p.pr_fee_rate offer in
                                      if Z.ltb m.m_oamt (Z.add offer fee)
                                      then Err (Zpos (Coq_xI (Coq_xI Coq_xH)))
                                      else if too_small m.m_amt price
                                           then Err (Zpos (Coq_xO (Coq_xO
                                                  (Coq_xO Coq_xH))))
                                           else place s m (Zpos Coq_xH) pr
                                                  price offer fee now
                     | None -> Err (Zpos (Coq_xI Coq_xH)))
        | None -> Err (Zpos Coq_xH))

(** val market_order : state -> order_msg -> coq_Z -> state outcome **)

let market_order s m now =
  if negb (vb_market m)
  then Err (Zpos (Coq_xI (Coq_xO (Coq_xO Coq_xH))))
  else (match get_params s m.m_app with
        | Some p ->
          if Z.ltb (s.led (User m.m_owner) m.m_odenom) m.m_oamt
          then Err (Zpos (Coq_xI (Coq_xO Coq_xH)))
          else if Z.gtb m.m_life p.pr_max_life
               then Err (Zpos (Coq_xO Coq_xH))
               else (match find_pair m.m_app m.m_pair s.pairs with
                     | Some pr ->
                       (match pr.p_last_price with
                        | Some lp ->
                          let denoms_ok =
                            if m.m_buy
                            then (&&) (Z.eqb m.m_odenom pr.p_quote)
                                   (Z.eqb m.m_ddenom pr.p_base)
                            else (&&) (Z.eqb m.m_odenom pr.p_base)
                                   (Z.eqb m.m_ddenom pr.p_quote)
                          in
                          if negb denoms_ok
                          then Err (Zpos (Coq_xO (Coq_xI Coq_xH)))
                          else let price =
                                 if m.m_buy
                                 then pdown
                                        (dmul lp (Z.add coq_P18 p.pr_ratio))
                                        p.pr_tick
                                 else pup
                                        (dmul lp (Z.sub coq_P18 p.pr_ratio))
                                        p.pr_tick
                               in
                               let offer = offer_amt m.m_buy price m.m_amt in
                               let fee = fee_amt p.pr_fee_rate offer in
                               if Z.ltb m.m_oamt (Z.add offer fee)
                               then Err (Zpos (Coq_xI (Coq_xI Coq_xH)))
                               else if too_small m.m_amt price
                                    then Err (Zpos (Coq_xO (Coq_xO (Coq_xO
                                           Coq_xH))))
                                    else place s m (Zpos (Coq_xO Coq_xH)) pr
                                           price offer fee now
                        | None -> Err (Zpos (Coq_xO (Coq_xO Coq_xH))))
                     | None -> Err (Zpos (Coq_xI Coq_xH)))
        | None -> Err (Zpos Coq_xH))

(** val has_app : state -> coq_Z -> bool **)

let has_app s app0 =
  match get_params s app0 with
  | Some _ -> true
  | None -> false

(** val cancel_order :
    state -> coq_Z -> coq_Z -> coq_Z -> coq_Z -> state outcome **)

let cancel_order s app0 owner pair0 id =
  if (||) (Z.eqb pair0 Z0) (Z.eqb id Z0)
  then Err (Zpos (Coq_xI (Coq_xO (Coq_xO Coq_xH))))
  else if negb (has_app s app0)
       then Err (Zpos Coq_xH)
       else (match find_order ((app0, pair0), id) s.orders with
             | Some e ->
               let o = fst e in
               if negb (Z.eqb o.o_owner owner)
               then Err (Zpos (Coq_xO (Coq_xI (Coq_xO Coq_xH))))
               else if Z.eqb o.o_status (Zpos (Coq_xI (Coq_xO Coq_xH)))
                    then Err (Zpos (Coq_xI (Coq_xI (Coq_xO Coq_xH))))
                    else (match find_pair app0 pair0 s.pairs with
                          | Some pr ->
                            if Z.eqb o.o_batch pr.p_batch
                            then Err (Zpos (Coq_xO (Coq_xO (Coq_xI Coq_xH))))
                            else finish_entry s e (Zpos (Coq_xI (Coq_xO
                                   Coq_xH)))
                          | None -> Panic)
             | None -> Err (Zpos (Coq_xI Coq_xH)))

(** val nodupz : coq_Z list -> bool **)

let rec nodupz = function
| [] -> true
| x :: r -> (&&) (negb (existsb (Z.eqb x) r)) (nodupz r)

(** val fold_m :
    (state -> 'a1 -> state outcome) -> 'a1 list -> state -> state outcome **)

let rec fold_m f l s =
  match l with
  | [] -> Ok s
  | x :: r -> obind (f s x) (fun s' -> fold_m f r s')

(** val cancel_all :
    state -> coq_Z -> coq_Z -> coq_Z list -> state outcome **)

let cancel_all s app0 owner pids =
  if (||) (existsb (Z.eqb Z0) pids) (negb (nodupz pids))
  then Err (Zpos (Coq_xI (Coq_xO (Coq_xO Coq_xH))))
  else if negb (has_app s app0)
       then Err (Zpos Coq_xH)
       else if existsb (fun p ->
                 match find_pair app0 p s.pairs with
                 | Some _ -> false
                 | None -> true) pids
            then Err (Zpos (Coq_xI Coq_xH))
            else let keys =
                   map ekey
                     (filter (fun e ->
                       (&&) (Z.eqb (fst e).o_app app0)
                         (Z.eqb (fst e).o_owner owner)) s.orders)
                 in
                 fold_m (fun s0 k ->
                   match find_order k s0.orders with
                   | Some e ->
                     let o = fst e in
                     if (||) (match pids with
                              | [] -> true
                              | _ :: _ -> false)
                          (existsb (Z.eqb o.o_pair) pids)
                     then (match find_pair app0 o.o_pair s0.pairs with
                           | Some pr ->
                             if (&&)
                                  (negb
                                    (Z.eqb o.o_status (Zpos (Coq_xI (Coq_xO
                                      Coq_xH))))) (Z.ltb o.o_batch pr.p_batch)
                             then finish_entry s0 e (Zpos (Coq_xI (Coq_xO
                                    Coq_xH)))
                             else Ok s0
                           | None -> Ok s0)
                     else Ok s0
                   | None -> Ok s0) keys s

(** val find_mm :
    coq_Z -> coq_Z -> coq_Z -> mmindex list -> mmindex option **)

let rec find_mm app0 owner pair0 = function
| [] -> None
| x :: r ->
  if (&&) ((&&) (Z.eqb x.mi_app app0) (Z.eqb x.mi_owner owner))
       (Z.eqb x.mi_pair pair0)
  then Some x
  else find_mm app0 owner pair0 r

(** val del_mm : coq_Z -> coq_Z -> coq_Z -> mmindex list -> mmindex list **)

let del_mm app0 owner pair0 l =
  filter (fun x ->
    negb
      ((&&) ((&&) (Z.eqb x.mi_app app0) (Z.eqb x.mi_owner owner))
        (Z.eqb x.mi_pair pair0))) l

(** val cancel_mm_inner :
    state -> coq_Z -> coq_Z -> pair -> bool -> state outcome **)

let cancel_mm_inner s app0 owner pr skip =
  match find_mm app0 owner pr.p_id s.mmidx with
  | Some ix ->
    obind
      (fold_m (fun s0 id ->
        match find_order ((pr.p_id, app0), id) s0.orders with
        | Some e ->
          if Z.eqb (fst e).o_batch pr.p_batch
          then Err (Zpos (Coq_xO (Coq_xO (Coq_xI Coq_xH))))
          else if is_live (fst e).o_status
               then finish_entry s0 e (Zpos (Coq_xI (Coq_xO Coq_xH)))
               else Ok s0
        | None -> Ok s0) ix.mi_ids s) (fun s' -> Ok
      (set_mmidx s' (del_mm app0 owner pr.p_id s'.mmidx)))
  | None -> if skip then Ok s else Err (Zpos (Coq_xI Coq_xH))

(** val cancel_mm : state -> coq_Z -> coq_Z -> coq_Z -> state outcome **)

let cancel_mm s app0 owner pair0 =
  if Z.eqb pair0 Z0
  then Err (Zpos (Coq_xI (Coq_xO (Coq_xO Coq_xH))))
  else (match find_pair app0 pair0 s.pairs with
        | Some pr -> cancel_mm_inner s app0 owner pr false
        | None -> Err (Zpos (Coq_xI Coq_xH)))

type mm_msg = { mm_app : coq_Z; mm_owner : coq_Z; mm_pair : coq_Z;
                mm_max_sell : coq_Z; mm_min_sell : coq_Z;
                mm_sell_amt : coq_Z; mm_max_buy : coq_Z; mm_min_buy : 
                coq_Z; mm_buy_amt : coq_Z; mm_life : coq_Z }

(** val vb_mm : mm_msg -> bool **)

let vb_mm m =
  (&&)
    ((&&)
      ((&&)
        ((&&)
          ((&&) ((&&) (negb (Z.eqb m.mm_pair Z0)) (Z.leb Z0 m.mm_sell_amt))
            (Z.leb Z0 m.mm_buy_amt))
          (negb ((&&) (Z.eqb m.mm_sell_amt Z0) (Z.eqb m.mm_buy_amt Z0))))
        ((||) (Z.eqb m.mm_sell_amt Z0)
          ((&&)
            ((&&)
              ((&&) (Z.leb min_coin m.mm_sell_amt) (Z.gtb m.mm_max_sell Z0))
              (Z.gtb m.mm_min_sell Z0)) (Z.leb m.mm_min_sell m.mm_max_sell))))
      ((||) (Z.eqb m.mm_buy_amt Z0)
        ((&&)
          ((&&) ((&&) (Z.leb min_coin m.mm_buy_amt) (Z.gtb m.mm_min_buy Z0))
            (Z.gtb m.mm_max_buy Z0)) (Z.leb m.mm_min_buy m.mm_max_buy))))
    (Z.leb Z0 m.mm_life)

(** val mm_prices :
    bool -> coq_Z -> coq_Z -> coq_Z -> coq_Z -> nat -> coq_Z -> coq_Z option
    -> coq_Z list **)

let rec mm_prices buy minp maxp gap prec n i prev =
  match n with
  | O -> []
  | S k ->
    let p =
      if buy
      then pdown (Z.add minp (Z.mul gap i)) prec
      else pup (Z.sub maxp (Z.mul gap i)) prec
    in
    let rest =
      mm_prices buy minp maxp gap prec k (Z.add i (Zpos Coq_xH)) (Some p)
    in
    (match prev with
     | Some q -> if Z.eqb p q then rest else p :: rest
     | None -> p :: rest)

(** val mm_ticks :
    bool -> coq_Z -> coq_Z -> coq_Z -> coq_Z -> coq_Z ->
    ((coq_Z * coq_Z) * coq_Z) list option **)

let mm_ticks buy minp maxp amt maxn prec =
  if Z.eqb minp maxp
  then Some (((minp, amt), (offer_amt buy minp amt)) :: [])
  else if Z.eqb (Z.sub maxn (Zpos Coq_xH)) Z0
       then None
       else let gap = Z.quot (Z.sub maxp minp) (Z.sub maxn (Zpos Coq_xH)) in
            let ps =
              mm_prices buy minp maxp gap prec
                (Z.to_nat (Z.sub maxn (Zpos Coq_xH))) Z0 None
            in
            let tick_amt = Z.quot amt (Z.add (zlen ps) (Zpos Coq_xH)) in
            let rest = Z.sub amt (Z.mul tick_amt (zlen ps)) in
            let lastp = if buy then maxp else minp in
            Some
            (app
              (map (fun p -> ((p, tick_amt), (offer_amt buy p tick_amt))) ps)
              (((lastp, rest), (offer_amt buy lastp rest)) :: []))

(** val sum_offer : ((coq_Z * coq_Z) * coq_Z) list -> coq_Z **)

let sum_offer l =
  zsum (map snd l)

(** val mm_place :
    coq_Z -> coq_Z -> coq_Z -> coq_Z -> pair -> bool ->
    ((coq_Z * coq_Z) * coq_Z) list -> coq_Z -> entry list -> (entry
    list * coq_Z list) * coq_Z **)

let rec mm_place app0 owner now life pr buy ticks id st =
  match ticks with
  | [] -> ((st, []), id)
  | p :: r ->
    let (p0, off) = p in
    let (price, amt) = p0 in
    let id' = Z.add id (Zpos Coq_xH) in
    let od = if buy then pr.p_quote else pr.p_base in
    let dd = if buy then pr.p_base else pr.p_quote in
    let o = { o_app = app0; o_pair = pr.p_id; o_id = id'; o_owner = owner;
      o_buy = buy; o_type = (Zpos (Coq_xI Coq_xH)); o_odenom = od; o_ddenom =
      dd; o_offer = off; o_rem = off; o_recv = Z0; o_price = price; o_amt =
      amt; o_open = amt; o_batch = pr.p_batch; o_expire = (Z.add now life);
      o_status = (Zpos Coq_xH) }
    in
    let (p1, last) =
      mm_place app0 owner now life pr buy r id'
        (ins_order (o, (new_ghost off)) st)
    in
    let (st', ids) = p1 in ((st', (id' :: ids)), last)

(** val mm_order : state -> mm_msg -> coq_Z -> state outcome **)

let mm_order s m now =
  if negb (vb_mm m)
  then Err (Zpos (Coq_xI (Coq_xO (Coq_xO Coq_xH))))
  else (match get_params s m.mm_app with
        | Some p ->
          let prec = p.pr_tick in
          let sellp = Z.gtb m.mm_sell_amt Z0 in
          let buyp = Z.gtb m.mm_buy_amt Z0 in
          if (&&) sellp
               (negb
                 ((&&) (Z.eqb (pdown m.mm_min_sell prec) m.mm_min_sell)
                   (Z.eqb (pdown m.mm_max_sell prec) m.mm_max_sell)))
          then Err (Zpos (Coq_xI (Coq_xO (Coq_xI Coq_xH))))
          else if (&&) buyp
                    (negb
                      ((&&) (Z.eqb (pdown m.mm_min_buy prec) m.mm_min_buy)
                        (Z.eqb (pdown m.mm_max_buy prec) m.mm_max_buy)))
               then Err (Zpos (Coq_xI (Coq_xO (Coq_xI Coq_xH))))
               else (match find_pair m.mm_app m.mm_pair s.pairs with
                     | Some pr ->
                       let (lo, hi) =
                         match pr.p_last_price with
                         | Some lp -> price_limits lp p.pr_ratio prec
                         | None -> ((lowest_tick prec), (highest_tick prec))
                       in
                       let inr = fun x -> (&&) (Z.leb lo x) (Z.leb x hi) in
                       if (&&) sellp
                            (negb
                              ((&&) (inr m.mm_min_sell) (inr m.mm_max_sell)))
                       then Err (Zpos (Coq_xO (Coq_xO Coq_xH)))
                       else if (&&) buyp
                                 (negb
                                   ((&&) (inr m.mm_min_buy)
                                     (inr m.mm_max_buy)))
                            then Err (Zpos (Coq_xO (Coq_xO Coq_xH)))
                            else (match if buyp
                                        then mm_ticks true m.mm_min_buy
                                               m.mm_max_buy m.mm_buy_amt
                                               p.pr_mm_ticks prec
                                        else Some [] with
                                  | Some bt ->
                                    (match if sellp
                                           then mm_ticks false m.mm_min_sell
                                                  m.mm_max_sell m.mm_sell_amt
                                                  p.pr_mm_ticks prec
                                           else Some [] with
                                     | Some st ->
                                       let oq = sum_offer bt in
                                       let ob = sum_offer st in
                                       if Z.ltb
                                            (s.led (User m.mm_owner)
                                              pr.p_base) ob
                                       then Err (Zpos (Coq_xI (Coq_xO
                                              Coq_xH)))
                                       else if Z.ltb
                                                 (s.led (User m.mm_owner)
                                                   pr.p_quote) oq
                                            then Err (Zpos (Coq_xI (Coq_xO
                                                   Coq_xH)))
                                            else if Z.gtb m.mm_life
                                                      p.pr_max_life
                                                 then Err (Zpos (Coq_xO
                                                        Coq_xH))
                                                 else obind
                                                        (cancel_mm_inner s
                                                          m.mm_app m.mm_owner
                                                          pr true) (fun s1 ->
                                                        obind
                                                          (ssend s1 (User
                                                            m.mm_owner)
                                                            (Escrow
                                                            (m.mm_app,
                                                            pr.p_id))
                                                            pr.p_base ob)
                                                          (fun s2 ->
                                                          obind
                                                            (ssend s2 (User
                                                              m.mm_owner)
                                                              (Escrow
                                                              (m.mm_app,
                                                              pr.p_id))
                                                              pr.p_quote oq)
                                                            (fun s3 ->
                                                            let (p0, last1) =
                                                              mm_place
                                                                m.mm_app
                                                                m.mm_owner
                                                                now m.mm_life
                                                                pr true bt
                                                                pr.p_last_order
                                                                s3.orders
                                                            in
                                                            let (st1, ids1) =
                                                              p0
                                                            in
                                                            let (p1, last2) =
                                                              mm_place
                                                                m.mm_app
                                                                m.mm_owner
                                                                now m.mm_life
                                                                pr false st
                                                                last1 st1
                                                            in
                                                            let (st2, ids2) =
                                                              p1
                                                            in
                                                            let pr' =
                                                              { p_app =
                                                              pr.p_app;
                                                              p_id = pr.p_id;
                                                              p_base =
                                                              pr.p_base;
                                                              p_quote =
                                                              pr.p_quote;
                                                              p_last_order =
                                                              last2;
                                                              p_last_price =
                                                              pr.p_last_price;
                                                              p_batch =
                                                              pr.p_batch }
                                                            in
                                                            let s4 =
                                                              set_pairs
                                                                (set_orders
                                                                  s3 st2)
                                                                (ins_pair pr'
                                                                  s3.pairs)
                                                            in
                                                            let s5 =
                                                              set_owed s4
                                                                (fadd3
                                                                  (fadd3
                                                                    s4.owed
                                                                    m.mm_app
                                                                    pr.p_id
                                                                    pr.p_base
                                                                    ob)
                                                                  m.mm_app
                                                                  pr.p_id
                                                                  pr.p_quote
                                                                  oq)
                                                            in
                                                            Ok
                                                            (set_mmidx s5
                                                              ({ mi_app =
                                                              m.mm_app;
                                                              mi_owner =
                                                              m.mm_owner;
                                                              mi_pair =
                                                              pr.p_id;
                                                              mi_ids =
                                                              (app ids1 ids2) } :: 
                                                              (del_mm
                                                                m.mm_app
                                                                m.mm_owner
                                                                pr.p_id
                                                                s5.mmidx))))))
                                     | None -> Panic)
                                  | None -> Panic)
                     | None -> Err (Zpos (Coq_xI Coq_xH)))
        | None -> Err (Zpos Coq_xH))

type batch_env = { b_pair : coq_Z; b_matched : bool; b_price : coq_Z;
                   b_fills : (((coq_Z * coq_Z) * coq_Z) * coq_Z) list;
                   b_pools : ((coq_Z * coq_Z) * coq_Z) list; b_dust : 
                   coq_Z }

(** val set_fill : order -> coq_Z -> coq_Z -> coq_Z -> coq_Z -> order **)

let set_fill o matched paid recv st =
  { o_app = o.o_app; o_pair = o.o_pair; o_id = o.o_id; o_owner = o.o_owner;
    o_buy = o.o_buy; o_type = o.o_type; o_odenom = o.o_odenom; o_ddenom =
    o.o_ddenom; o_offer = o.o_offer; o_rem = (Z.sub o.o_rem paid); o_recv =
    (Z.add o.o_recv recv); o_price = o.o_price; o_amt = o.o_amt; o_open =
    (Z.sub o.o_open matched); o_batch = o.o_batch; o_expire = o.o_expire;
    o_status = st }

(** val apply_fill :
    state -> coq_Z -> coq_Z -> (((coq_Z * coq_Z) * coq_Z) * coq_Z) -> state
    outcome **)

let apply_fill s app0 pair0 = function
| (p, recv) ->
  let (p0, paid) = p in
  let (id, matched) = p0 in
  (match find_order ((app0, pair0), id) s.orders with
   | Some e ->
     let (o, g) = e in
     if (||) ((||) (Z.ltb (Z.sub o.o_rem paid) Z0) (Z.ltb paid Z0))
          (Z.ltb recv Z0)
     then Panic
     else let o1 = set_fill o matched paid recv o.o_status in
          let g1 = { g_taken = g.g_taken; g_ret_offer = g.g_ret_offer;
            g_ret_fee = g.g_ret_fee; g_recv = (Z.add g.g_recv recv);
            g_fee_fwd = g.g_fee_fwd; g_fills = (((matched, paid),
            recv) :: g.g_fills) }
          in
          let s1 =
            set_orders s
              (upd_order ((app0, pair0), id) (fun _ -> (o1, g1)) s.orders)
          in
          let s2 =
            set_surplus
              (set_owed s1 (fadd3 s1.owed app0 pair0 o.o_odenom (Z.opp paid)))
              (fadd3 (fadd3 s1.surplus app0 pair0 o.o_odenom paid) app0 pair0
                o.o_ddenom (Z.opp recv))
          in
          obind
            (if Z.eqb o1.o_open Z0
             then finish_entry s2 (o1, g1) (Zpos (Coq_xO (Coq_xO Coq_xH)))
             else Ok
                    (set_orders s2
                      (upd_order ((app0, pair0), id) (fun _ ->
                        ((set_status o1 (Zpos (Coq_xI Coq_xH))), g1))
                        s2.orders))) (fun s3 ->
            ssend s3 (Escrow (app0, pair0)) (User o.o_owner) o.o_ddenom recv)
   | None -> Panic)

(** val apply_pool_flow :
    bool -> coq_Z -> pair -> state -> ((coq_Z * coq_Z) * coq_Z) -> state
    outcome **)

let apply_pool_flow credit app0 pr s = function
| (p, db) ->
  let (pid, dq) = p in
  let mv = fun s0 d x ->
    if Z.ltb x Z0
    then if credit
         then obind
                (ssend s0 (Reserve (app0, pid)) (Escrow (app0, pr.p_id)) d
                  (Z.opp x)) (fun s' -> Ok
                (set_surplus s' (fadd3 s'.surplus app0 pr.p_id d (Z.opp x))))
         else Ok s0
    else if credit
         then Ok s0
         else obind
                (ssend s0 (Escrow (app0, pr.p_id)) (Reserve (app0, pid)) d x)
                (fun s' -> Ok
                (set_surplus s' (fadd3 s'.surplus app0 pr.p_id d (Z.opp x))))
  in
  obind (mv s pr.p_quote dq) (fun s1 -> mv s1 pr.p_base db)

(** val is_depleted : bool -> coq_Z -> coq_Z -> coq_Z -> bool **)

let is_depleted ranged rx ry ps =
  if ranged
  then (||) (Z.eqb ps Z0) ((&&) (Z.eqb rx Z0) (Z.eqb ry Z0))
  else (||) ((||) (Z.eqb ps Z0) (Z.eqb rx Z0)) (Z.eqb ry Z0)

(** val pool_depleted : state -> pair -> pool -> bool **)

let pool_depleted s pr pl =
  is_depleted pl.pl_ranged (s.led (Reserve (pl.pl_app, pl.pl_id)) pr.p_quote)
    (s.led (Reserve (pl.pl_app, pl.pl_id)) pr.p_base)
    (s.sup (pool_denom pl.pl_app pl.pl_id))

(** val disable : pool -> pool **)

let disable pl =
  { pl_app = pl.pl_app; pl_id = pl.pl_id; pl_pair = pl.pl_pair; pl_ranged =
    pl.pl_ranged; pl_disabled = true; pl_last_dep = pl.pl_last_dep;
    pl_last_wd = pl.pl_last_wd }

(** val execute_matching :
    coq_Z -> state -> pair -> batch_env -> state outcome **)

let execute_matching now s pr env =
  let app0 = pr.p_app in
  let keys =
    map ekey
      (filter (fun e ->
        (&&) (Z.eqb (fst e).o_app app0) (Z.eqb (fst e).o_pair pr.p_id))
        s.orders)
  in
  obind
    (fold_m (fun s0 k ->
      match find_order k s0.orders with
      | Some e ->
        let (o, g) = e in
        if is_live o.o_status
        then if (&&) (negb (Z.eqb o.o_status (Zpos Coq_xH)))
                  (Z.leb o.o_expire now)
             then finish_entry s0 (o, g) (Zpos (Coq_xO (Coq_xI Coq_xH)))
             else if Z.eqb o.o_status (Zpos Coq_xH)
                  then Ok
                         (set_orders s0
                           (upd_order k (fun _ ->
                             ((set_status o (Zpos (Coq_xO Coq_xH))), g))
                             s0.orders))
                  else Ok s0
        else if Z.eqb o.o_status (Zpos (Coq_xI (Coq_xO Coq_xH)))
             then Ok s0
             else Err (Zpos (Coq_xO (Coq_xI (Coq_xI Coq_xH))))
      | None -> Ok s0) keys s) (fun s1 ->
    let s2 =
      set_pools s1
        (map (fun pl ->
          if (&&)
               ((&&) ((&&) (Z.eqb pl.pl_app app0) (Z.eqb pl.pl_pair pr.p_id))
                 (negb pl.pl_disabled)) (pool_depleted s1 pr pl)
          then disable pl
          else pl) s1.pools)
    in
    obind
      (if env.b_matched
       then obind (fold_m (apply_pool_flow true app0 pr) env.b_pools s2)
              (fun a ->
              obind
                (fold_m (fun s0 f -> apply_fill s0 app0 pr.p_id f)
                  env.b_fills a) (fun b ->
                obind (fold_m (apply_pool_flow false app0 pr) env.b_pools b)
                  (fun c ->
                  obind
                    (ssend c (Escrow (app0, pr.p_id)) (Dust app0) pr.p_quote
                      env.b_dust) (fun d -> Ok
                    (set_surplus d
                      (fadd3 d.surplus app0 pr.p_id pr.p_quote
                        (Z.opp env.b_dust)))))))
       else Ok s2) (fun s3 ->
      let pr' = { p_app = pr.p_app; p_id = pr.p_id; p_base = pr.p_base;
        p_quote = pr.p_quote; p_last_order = pr.p_last_order; p_last_price =
        (if env.b_matched then Some env.b_price else pr.p_last_price);
        p_batch = (Z.add pr.p_batch (Zpos Coq_xH)) }
      in
      Ok (set_pairs s3 (ins_pair pr' s3.pairs))))

(** val no_batch : coq_Z -> batch_env **)

let no_batch pid =
  { b_pair = pid; b_matched = false; b_price = Z0; b_fills = []; b_pools =
    []; b_dust = Z0 }

(** val find_batch : coq_Z -> batch_env list -> batch_env **)

let rec find_batch pid = function
| [] -> no_batch pid
| b :: r -> if Z.eqb b.b_pair pid then b else find_batch pid r

(** val sweep_orders : coq_Z -> coq_Z -> state -> state outcome **)

let sweep_orders now app0 s =
  let keys = map ekey (filter (fun e -> Z.eqb (fst e).o_app app0) s.orders) in
  fold_m (fun s0 k ->
    match find_order k s0.orders with
    | Some e ->
      let (o, g) = e in
      if (&&) (is_live o.o_status) (Z.leb o.o_expire now)
      then finish_entry s0 (o, g) (Zpos (Coq_xO (Coq_xI Coq_xH)))
      else if too_small o.o_open o.o_price
           then finish_entry s0 (o, g) (Zpos (Coq_xO (Coq_xI Coq_xH)))
           else Ok s0
    | None -> Ok s0) keys s

(** val pool_pair : state -> pool -> pair option **)

let pool_pair s pl =
  find_pair pl.pl_app pl.pl_pair s.pairs

(** val mint : state -> coq_Z -> coq_Z -> state **)

let mint s d x =
  set_sup (set_led s (ladd s.led Module d x)) (fadd1 s.sup d x)

(** val create_pair :
    state -> coq_Z -> coq_Z -> coq_Z -> coq_Z -> state outcome **)

let create_pair s app0 creator base quote =
  if Z.eqb base quote
  then Err (Zpos (Coq_xI (Coq_xO (Coq_xO Coq_xH))))
  else (match get_params s app0 with
        | Some p ->
          if negb (existsb (Z.eqb base) s.assets)
          then Err (Zpos (Coq_xI (Coq_xI (Coq_xI Coq_xH))))
          else if negb (existsb (Z.eqb quote) s.assets)
               then Err (Zpos (Coq_xI (Coq_xI (Coq_xI Coq_xH))))
               else if existsb (fun p0 ->
                         (&&)
                           ((&&) (Z.eqb p0.p_app app0) (Z.eqb p0.p_base base))
                           (Z.eqb p0.p_quote quote)) s.pairs
                    then Err (Zpos (Coq_xO (Coq_xO (Coq_xO (Coq_xO Coq_xH)))))
                    else obind
                           (ssend s (User creator) (FeeColl app0)
                             p.pr_fee_denom p.pr_pair_fee) (fun s1 ->
                           let id =
                             Z.add
                               (match aget s1.last_pair app0 with
                                | Some i -> i
                                | None -> Z0) (Zpos Coq_xH)
                           in
                           Ok
                           (set_pairs
                             (set_last_pair s1 (aset s1.last_pair app0 id))
                             (ins_pair { p_app = app0; p_id = id; p_base =
                               base; p_quote = quote; p_last_order = Z0;
                               p_last_price = None; p_batch = (Zpos Coq_xH) }
                               s1.pairs)))
        | None -> Err (Zpos Coq_xH))

(** val active_pools : state -> coq_Z -> coq_Z -> pool list **)

let active_pools s app0 pair0 =
  filter (fun pl ->
    (&&) ((&&) (Z.eqb pl.pl_app app0) (Z.eqb pl.pl_pair pair0))
      (negb pl.pl_disabled)) s.pools

(** val new_pool :
    state -> params -> coq_Z -> coq_Z -> pair -> bool -> coq_Z -> coq_Z ->
    coq_Z -> state outcome **)

let new_pool s p app0 creator pr ranged ax ay ps =
  let id =
    Z.add (match aget s.last_pool app0 with
           | Some i -> i
           | None -> Z0) (Zpos Coq_xH)
  in
  let s0 =
    set_pools (set_last_pool s (aset s.last_pool app0 id))
      (ins_pool { pl_app = app0; pl_id = id; pl_pair = pr.p_id; pl_ranged =
        ranged; pl_disabled = false; pl_last_dep = Z0; pl_last_wd = Z0 }
        s.pools)
  in
  obind (ssend s0 (User creator) (Reserve (app0, id)) pr.p_base ay)
    (fun s1 ->
    obind (ssend s1 (User creator) (Reserve (app0, id)) pr.p_quote ax)
      (fun s2 ->
      obind
        (ssend s2 (User creator) (FeeColl app0) p.pr_fee_denom p.pr_pool_fee)
        (fun s3 ->
        let pc = Z.max ps p.pr_min_pc in
        ssend (mint s3 (pool_denom app0 id) pc) Module (User creator)
          (pool_denom app0 id) pc)))

(** val create_pool :
    state -> coq_Z -> coq_Z -> coq_Z -> coq_Z -> coq_Z -> bool -> coq_Z ->
    state outcome **)

let create_pool s app0 creator pair0 x y amm_ok ps =
  if (||)
       ((||) ((||) ((||) (Z.eqb pair0 Z0) (Z.leb x Z0)) (Z.leb y Z0))
         (Z.gtb x max_coin)) (Z.gtb y max_coin)
  then Err (Zpos (Coq_xI (Coq_xO (Coq_xO Coq_xH))))
  else (match get_params s app0 with
        | Some p ->
          (match find_pair app0 pair0 s.pairs with
           | Some pr ->
             if (||) (Z.ltb x p.pr_min_dep) (Z.ltb y p.pr_min_dep)
             then Err (Zpos (Coq_xI (Coq_xO (Coq_xO (Coq_xO Coq_xH)))))
             else if existsb (fun pl -> negb pl.pl_ranged)
                       (active_pools s app0 pair0)
                  then Err (Zpos (Coq_xO (Coq_xO (Coq_xO (Coq_xO Coq_xH)))))
                  else if Z.geb (zlen (active_pools s app0 pair0))
                            p.pr_max_pools
                       then Err (Zpos (Coq_xO (Coq_xI (Coq_xO (Coq_xO
                              Coq_xH)))))
                       else if negb amm_ok
                            then Err (Zpos (Coq_xI (Coq_xI (Coq_xO (Coq_xO
                                   Coq_xH)))))
                            else new_pool s p app0 creator pr false x y ps
           | None -> Err (Zpos (Coq_xI Coq_xH)))
        | None -> Err (Zpos Coq_xH))

(** val create_ranged :
    state -> coq_Z -> coq_Z -> coq_Z -> coq_Z -> coq_Z -> bool -> coq_Z ->
    coq_Z -> coq_Z -> state outcome **)

let create_ranged s app0 creator pair0 x y pre_ok ax ay ps =
  if (||)
       ((||)
         ((||) ((||) ((||) (Z.eqb pair0 Z0) (Z.ltb x Z0)) (Z.ltb y Z0))
           ((&&) (Z.eqb x Z0) (Z.eqb y Z0))) (Z.gtb x max_coin))
       (Z.gtb y max_coin)
  then Err (Zpos (Coq_xI (Coq_xO (Coq_xO Coq_xH))))
  else (match get_params s app0 with
        | Some p ->
          (match find_pair app0 pair0 s.pairs with
           | Some pr ->
             if Z.geb (zlen (active_pools s app0 pair0)) p.pr_max_pools
             then Err (Zpos (Coq_xO (Coq_xI (Coq_xO (Coq_xO Coq_xH)))))
             else if negb pre_ok
                  then Err (Zpos (Coq_xI (Coq_xI (Coq_xO (Coq_xO Coq_xH)))))
                  else if (&&) (Z.ltb ax p.pr_min_dep) (Z.ltb ay p.pr_min_dep)
                       then Err (Zpos (Coq_xI (Coq_xO (Coq_xO (Coq_xO
                              Coq_xH)))))
                       else new_pool s p app0 creator pr true ax ay ps
           | None -> Err (Zpos (Coq_xI Coq_xH)))
        | None -> Err (Zpos Coq_xH))

(** val deposit_req :
    state -> coq_Z -> coq_Z -> coq_Z -> coq_Z -> coq_Z -> (state * depreq)
    outcome **)

let deposit_req s app0 owner pid x y =
  if (||) ((||) ((||) (Z.eqb pid Z0) (Z.ltb x Z0)) (Z.ltb y Z0))
       ((&&) (Z.eqb x Z0) (Z.eqb y Z0))
  then Err (Zpos (Coq_xI (Coq_xO (Coq_xO Coq_xH))))
  else if negb (has_app s app0)
       then Err (Zpos Coq_xH)
       else (match find_pool app0 pid s.pools with
             | Some pl ->
               if pl.pl_disabled
               then Err (Zpos (Coq_xO (Coq_xO (Coq_xI (Coq_xO Coq_xH)))))
               else (match pool_pair s pl with
                     | Some pr ->
                       if Z.gtb
                            (Z.add (s.led (Reserve (app0, pid)) pr.p_quote) x)
                            max_coin
                       then Err (Zpos (Coq_xI (Coq_xO (Coq_xI (Coq_xO
                              Coq_xH)))))
                       else if Z.gtb
                                 (Z.add
                                   (s.led (Reserve (app0, pid)) pr.p_base) y)
                                 max_coin
                            then Err (Zpos (Coq_xI (Coq_xO (Coq_xI (Coq_xO
                                   Coq_xH)))))
                            else obind
                                   (ssend s (User owner) GlobalEscrow
                                     pr.p_base y) (fun s1 ->
                                   obind
                                     (ssend s1 (User owner) GlobalEscrow
                                       pr.p_quote x) (fun s2 ->
                                     let id =
                                       Z.add pl.pl_last_dep (Zpos Coq_xH)
                                     in
                                     let pl' = { pl_app = pl.pl_app; pl_id =
                                       pl.pl_id; pl_pair = pl.pl_pair;
                                       pl_ranged = pl.pl_ranged;
                                       pl_disabled = pl.pl_disabled;
                                       pl_last_dep = id; pl_last_wd =
                                       pl.pl_last_wd }
                                     in
                                     let r = { d_app = app0; d_pool = pid;
                                       d_id = id; d_owner = owner; d_x = x;
                                       d_y = y; d_ax = Z0; d_ay = Z0; d_pc =
                                       Z0; d_status = (Zpos Coq_xH) }
                                     in
                                     Ok
                                     ((set_deps
                                        (set_pools s2 (ins_pool pl' s2.pools))
                                        (app s2.deps (r :: []))), r)))
                     | None -> Panic)
             | None -> Err (Zpos (Coq_xI Coq_xH)))

(** val withdraw_req :
    state -> coq_Z -> coq_Z -> coq_Z -> coq_Z -> (state * wdreq) outcome **)

let withdraw_req s app0 owner pid pc =
  if (||) (Z.eqb pid Z0) (Z.leb pc Z0)
  then Err (Zpos (Coq_xI (Coq_xO (Coq_xO Coq_xH))))
  else if negb (has_app s app0)
       then Err (Zpos Coq_xH)
       else (match find_pool app0 pid s.pools with
             | Some pl ->
               if pl.pl_disabled
               then Err (Zpos (Coq_xO (Coq_xO (Coq_xI (Coq_xO Coq_xH)))))
               else obind
                      (ssend s (User owner) GlobalEscrow
                        (pool_denom app0 pid) pc) (fun s1 ->
                      let id = Z.add pl.pl_last_wd (Zpos Coq_xH) in
                      let pl' = { pl_app = pl.pl_app; pl_id = pl.pl_id;
                        pl_pair = pl.pl_pair; pl_ranged = pl.pl_ranged;
                        pl_disabled = pl.pl_disabled; pl_last_dep =
                        pl.pl_last_dep; pl_last_wd = id }
                      in
                      let r = { w_app = app0; w_pool = pid; w_id = id;
                        w_owner = owner; w_pc = pc; w_x = Z0; w_y = Z0;
                        w_status = (Zpos Coq_xH) }
                      in
                      Ok
                      ((set_wds (set_pools s1 (ins_pool pl' s1.pools))
                         (app s1.wds (r :: []))), r))
             | None -> Err (Zpos (Coq_xI Coq_xH)))

(** val dep_eqb : depreq -> depreq -> bool **)

let dep_eqb a b =
  (&&) ((&&) (Z.eqb a.d_app b.d_app) (Z.eqb a.d_pool b.d_pool))
    (Z.eqb a.d_id b.d_id)

(** val wd_eqb : wdreq -> wdreq -> bool **)

let wd_eqb a b =
  (&&) ((&&) (Z.eqb a.w_app b.w_app) (Z.eqb a.w_pool b.w_pool))
    (Z.eqb a.w_id b.w_id)

(** val put_dep : state -> depreq -> state **)

let put_dep s r =
  set_deps s (map (fun x -> if dep_eqb x r then r else x) s.deps)

(** val put_wd : state -> wdreq -> state **)

let put_wd s r =
  set_wds s (map (fun x -> if wd_eqb x r then r else x) s.wds)

(** val fail_dep : state -> pair -> depreq -> state outcome **)

let fail_dep s pr r =
  obind (ssend s GlobalEscrow (User r.d_owner) pr.p_base r.d_y) (fun s1 ->
    obind (ssend s1 GlobalEscrow (User r.d_owner) pr.p_quote r.d_x)
      (fun s2 -> Ok
      (put_dep s2 { d_app = r.d_app; d_pool = r.d_pool; d_id = r.d_id;
        d_owner = r.d_owner; d_x = r.d_x; d_y = r.d_y; d_ax = Z0; d_ay = Z0;
        d_pc = Z0; d_status = (Zpos (Coq_xI Coq_xH)) })))

(** val exec_deposit :
    state -> depreq -> coq_Z -> coq_Z -> coq_Z -> state outcome **)

let exec_deposit s r ax ay pc =
  match find_pool r.d_app r.d_pool s.pools with
  | Some pl ->
    (match pool_pair s pl with
     | Some pr ->
       if pl.pl_disabled
       then fail_dep s pr r
       else if pool_depleted s pr pl
            then fail_dep (set_pools s (ins_pool (disable pl) s.pools)) pr r
            else if Z.eqb pc Z0
                 then fail_dep s pr r
                 else if (||)
                           ((||)
                             ((||) ((||) (Z.ltb pc Z0) (Z.ltb ax Z0))
                               (Z.ltb ay Z0)) (Z.ltb (Z.sub r.d_x ax) Z0))
                           (Z.ltb (Z.sub r.d_y ay) Z0)
                      then Panic
                      else let pd = pool_denom r.d_app r.d_pool in
                           let s0 = mint s pd pc in
                           obind
                             (ssend s0 GlobalEscrow (Reserve (r.d_app,
                               r.d_pool)) pr.p_base ay) (fun s1 ->
                             obind
                               (ssend s1 GlobalEscrow (Reserve (r.d_app,
                                 r.d_pool)) pr.p_quote ax) (fun s2 ->
                               obind (ssend s2 Module (User r.d_owner) pd pc)
                                 (fun s3 ->
                                 obind
                                   (ssend s3 GlobalEscrow (User r.d_owner)
                                     pr.p_base (Z.sub r.d_y ay)) (fun s4 ->
                                   obind
                                     (ssend s4 GlobalEscrow (User r.d_owner)
                                       pr.p_quote (Z.sub r.d_x ax))
                                     (fun s5 -> Ok
                                     (put_dep s5 { d_app = r.d_app; d_pool =
                                       r.d_pool; d_id = r.d_id; d_owner =
                                       r.d_owner; d_x = r.d_x; d_y = r.d_y;
                                       d_ax = ax; d_ay = ay; d_pc = pc;
                                       d_status = (Zpos (Coq_xO Coq_xH)) }))))))
     | None -> Panic)
  | None -> Panic

(** val fail_wd : state -> wdreq -> state outcome **)

let fail_wd s r =
  obind
    (ssend s GlobalEscrow (User r.w_owner) (pool_denom r.w_app r.w_pool)
      r.w_pc) (fun s1 -> Ok
    (put_wd s1 { w_app = r.w_app; w_pool = r.w_pool; w_id = r.w_id; w_owner =
      r.w_owner; w_pc = r.w_pc; w_x = Z0; w_y = Z0; w_status = (Zpos (Coq_xI
      Coq_xH)) }))

(** val exec_withdraw : state -> wdreq -> coq_Z -> coq_Z -> state outcome **)

let exec_withdraw s r x y =
  if negb (has_app s r.w_app)
  then Err (Zpos Coq_xH)
  else (match find_pool r.w_app r.w_pool s.pools with
        | Some pl ->
          (match pool_pair s pl with
           | Some pr ->
             if pl.pl_disabled
             then fail_wd s r
             else if pool_depleted s pr pl
                  then fail_wd (set_pools s (ins_pool (disable pl) s.pools)) r
                  else if (&&) (Z.eqb x Z0) (Z.eqb y Z0)
                       then fail_wd s r
                       else let pd = pool_denom r.w_app r.w_pool in
                            let ps = s.sup pd in
                            obind (ssend s GlobalEscrow Module pd r.w_pc)
                              (fun s1 ->
                              obind
                                (ssend s1 (Reserve (r.w_app, r.w_pool)) (User
                                  r.w_owner) pr.p_base y) (fun s2 ->
                                obind
                                  (ssend s2 (Reserve (r.w_app, r.w_pool))
                                    (User r.w_owner) pr.p_quote x) (fun s3 ->
                                  if Z.ltb (s3.led Module pd) r.w_pc
                                  then Err (Zpos (Coq_xI (Coq_xO Coq_xH)))
                                  else let s4 =
                                         set_sup
                                           (set_led s3
                                             (ladd s3.led Module pd
                                               (Z.opp r.w_pc)))
                                           (fadd1 s3.sup pd (Z.opp r.w_pc))
                                       in
                                       let s5 =
                                         if Z.eqb r.w_pc ps
                                         then set_pools s4
                                                (ins_pool (disable pl)
                                                  s4.pools)
                                         else s4
                                       in
                                       Ok
                                       (put_wd s5 { w_app = r.w_app; w_pool =
                                         r.w_pool; w_id = r.w_id; w_owner =
                                         r.w_owner; w_pc = r.w_pc; w_x = x;
                                         w_y = y; w_status = (Zpos (Coq_xO
                                         Coq_xH)) }))))
           | None -> Panic)
        | None -> Panic)

(** val find_qf :
    coq_Z -> coq_Z -> coq_Z -> qfarmer list -> qfarmer option **)

let rec find_qf app0 pid owner = function
| [] -> None
| x :: r ->
  if (&&) ((&&) (Z.eqb x.q_app app0) (Z.eqb x.q_pool pid))
       (Z.eqb x.q_owner owner)
  then Some x
  else find_qf app0 pid owner r

(** val find_af :
    coq_Z -> coq_Z -> coq_Z -> afarmer list -> afarmer option **)

let rec find_af app0 pid owner = function
| [] -> None
| x :: r ->
  if (&&) ((&&) (Z.eqb x.a_app app0) (Z.eqb x.a_pool pid))
       (Z.eqb x.a_owner owner)
  then Some x
  else find_af app0 pid owner r

(** val put_qf : qfarmer -> qfarmer list -> qfarmer list **)

let put_qf q l =
  q :: (filter (fun x ->
         negb
           ((&&) ((&&) (Z.eqb x.q_app q.q_app) (Z.eqb x.q_pool q.q_pool))
             (Z.eqb x.q_owner q.q_owner))) l)

(** val del_af : coq_Z -> coq_Z -> coq_Z -> afarmer list -> afarmer list **)

let del_af app0 pid owner l =
  filter (fun x ->
    negb
      ((&&) ((&&) (Z.eqb x.a_app app0) (Z.eqb x.a_pool pid))
        (Z.eqb x.a_owner owner))) l

(** val put_af : afarmer -> afarmer list -> afarmer list **)

let put_af a l =
  a :: (del_af a.a_app a.a_pool a.a_owner l)

(** val farm :
    state -> coq_Z -> coq_Z -> coq_Z -> coq_Z -> coq_Z -> state outcome **)

let farm s app0 owner pid amt now =
  if (||) ((||) (Z.eqb pid Z0) (Z.eqb app0 Z0)) (Z.leb amt Z0)
  then Err (Zpos (Coq_xI (Coq_xO (Coq_xO Coq_xH))))
  else if negb (has_app s app0)
       then Err (Zpos Coq_xH)
       else (match find_pool app0 pid s.pools with
             | Some _ ->
               obind (ssend s (User owner) Module (pool_denom app0 pid) amt)
                 (fun s1 ->
                 let q =
                   match find_qf app0 pid owner s1.qfs with
                   | Some q -> q
                   | None ->
                     { q_app = app0; q_pool = pid; q_owner = owner; q_coins =
                       [] }
                 in
                 Ok
                 (set_qfs s1
                   (put_qf { q_app = app0; q_pool = pid; q_owner = owner;
                     q_coins = (app q.q_coins ((amt, now) :: [])) } s1.qfs)))
             | None -> Err (Zpos (Coq_xI Coq_xH)))

(** val unfarm_queue :
    (coq_Z * coq_Z) list -> coq_Z -> (coq_Z * coq_Z) list * coq_Z **)

let rec unfarm_queue rq amt =
  match rq with
  | [] -> ([], amt)
  | p :: r ->
    let (a, t) = p in
    if Z.geb a amt
    then ((((Z.sub a amt), t) :: r), Z0)
    else let (r', lft) = unfarm_queue r (Z.sub amt a) in
         (((Z0, t) :: r'), lft)

(** val take_nonzero : (coq_Z * coq_Z) list -> (coq_Z * coq_Z) list **)

let rec take_nonzero = function
| [] -> []
| p :: r ->
  let (a, t) = p in if Z.eqb a Z0 then [] else (a, t) :: (take_nonzero r)

(** val unfarm :
    state -> coq_Z -> coq_Z -> coq_Z -> coq_Z -> state outcome **)

let unfarm s app0 owner pid amt =
  if (||) ((||) (Z.eqb pid Z0) (Z.eqb app0 Z0)) (Z.leb amt Z0)
  then Err (Zpos (Coq_xI (Coq_xO (Coq_xO Coq_xH))))
  else if negb (has_app s app0)
       then Err (Zpos Coq_xH)
       else (match find_pool app0 pid s.pools with
             | Some _ ->
               let af = find_af app0 pid owner s.afs in
               let qf = find_qf app0 pid owner s.qfs in
               (match af with
                | Some _ ->
                  let qsum =
                    match qf with
                    | Some q -> zsum (map fst q.q_coins)
                    | None -> Z0
                  in
                  let asum = match af with
                             | Some a -> a.a_amt
                             | None -> Z0 in
                  if Z.ltb (Z.add qsum asum) amt
                  then Err (Zpos (Coq_xI (Coq_xI (Coq_xI (Coq_xO Coq_xH)))))
                  else let (rq, lft) =
                         match qf with
                         | Some q -> unfarm_queue (rev q.q_coins) amt
                         | None -> ([], amt)
                       in
                       let newq = take_nonzero (rev rq) in
                       (match af with
                        | Some _ ->
                          obind
                            (ssend s Module (User owner)
                              (pool_denom app0 pid) amt) (fun s1 ->
                            let s2 =
                              if negb (Z.eqb lft Z0)
                              then (match af with
                                    | Some a ->
                                      if Z.eqb (Z.sub a.a_amt lft) Z0
                                      then set_afs s1
                                             (del_af app0 pid owner s1.afs)
                                      else set_afs s1
                                             (put_af { a_app = app0; a_pool =
                                               pid; a_owner = owner; a_amt =
                                               (Z.sub a.a_amt lft) } s1.afs)
                                    | None -> s1)
                              else s1
                            in
                            (match qf with
                             | Some _ ->
                               Ok
                                 (set_qfs s2
                                   (put_qf { q_app = app0; q_pool = pid;
                                     q_owner = owner; q_coins = newq } s2.qfs))
                             | None -> Panic))
                        | None ->
                          if negb (Z.eqb lft Z0)
                          then Panic
                          else obind
                                 (ssend s Module (User owner)
                                   (pool_denom app0 pid) amt) (fun s1 ->
                                 let s2 =
                                   if negb (Z.eqb lft Z0)
                                   then (match af with
                                         | Some a ->
                                           if Z.eqb (Z.sub a.a_amt lft) Z0
                                           then set_afs s1
                                                  (del_af app0 pid owner
                                                    s1.afs)
                                           else set_afs s1
                                                  (put_af { a_app = app0;
                                                    a_pool = pid; a_owner =
                                                    owner; a_amt =
                                                    (Z.sub a.a_amt lft) }
                                                    s1.afs)
                                         | None -> s1)
                                   else s1
                                 in
                                 (match qf with
                                  | Some _ ->
                                    Ok
                                      (set_qfs s2
                                        (put_qf { q_app = app0; q_pool = pid;
                                          q_owner = owner; q_coins = newq }
                                          s2.qfs))
                                  | None -> Panic)))
                | None ->
                  (match qf with
                   | Some _ ->
                     let qsum =
                       match qf with
                       | Some q -> zsum (map fst q.q_coins)
                       | None -> Z0
                     in
                     let asum = match af with
                                | Some a -> a.a_amt
                                | None -> Z0
                     in
                     if Z.ltb (Z.add qsum asum) amt
                     then Err (Zpos (Coq_xI (Coq_xI (Coq_xI (Coq_xO
                            Coq_xH)))))
                     else let (rq, lft) =
                            match qf with
                            | Some q -> unfarm_queue (rev q.q_coins) amt
                            | None -> ([], amt)
                          in
                          let newq = take_nonzero (rev rq) in
                          (match af with
                           | Some _ ->
                             obind
                               (ssend s Module (User owner)
                                 (pool_denom app0 pid) amt) (fun s1 ->
                               let s2 =
                                 if negb (Z.eqb lft Z0)
                                 then (match af with
                                       | Some a ->
                                         if Z.eqb (Z.sub a.a_amt lft) Z0
                                         then set_afs s1
                                                (del_af app0 pid owner s1.afs)
                                         else set_afs s1
                                                (put_af { a_app = app0;
                                                  a_pool = pid; a_owner =
                                                  owner; a_amt =
                                                  (Z.sub a.a_amt lft) }
                                                  s1.afs)
                                       | None -> s1)
                                 else s1
                               in
                               (match qf with
                                | Some _ ->
                                  Ok
                                    (set_qfs s2
                                      (put_qf { q_app = app0; q_pool = pid;
                                        q_owner = owner; q_coins = newq }
                                        s2.qfs))
                                | None -> Panic))
                           | None ->
                             if negb (Z.eqb lft Z0)
                             then Panic
                             else obind
                                    (ssend s Module (User owner)
                                      (pool_denom app0 pid) amt) (fun s1 ->
                                    let s2 =
                                      if negb (Z.eqb lft Z0)
                                      then (match af with
                                            | Some a ->
                                              if Z.eqb (Z.sub a.a_amt lft) Z0
                                              then set_afs s1
                                                     (del_af app0 pid owner
                                                       s1.afs)
                                              else set_afs s1
                                                     (put_af { a_app = app0;
                                                       a_pool = pid;
                                                       a_owner = owner;
                                                       a_amt =
                                                       (Z.sub a.a_amt lft) }
                                                       s1.afs)
                                            | None -> s1)
                                      else s1
                                    in
                                    (match qf with
                                     | Some _ ->
                                       Ok
                                         (set_qfs s2
                                           (put_qf { q_app = app0; q_pool =
                                             pid; q_owner = owner; q_coins =
                                             newq } s2.qfs))
                                     | None -> Panic)))
                   | None ->
                     Err (Zpos (Coq_xO (Coq_xI (Coq_xI (Coq_xO Coq_xH)))))))
             | None -> Err (Zpos (Coq_xI Coq_xH)))

(** val process_qf : coq_Z -> coq_Z -> state -> qfarmer -> state **)

let process_qf now dur s q =
  let keep = filter (fun c -> Z.ltb now (Z.add (snd c) dur)) q.q_coins in
  let moved = filter (fun c -> negb (Z.ltb now (Z.add (snd c) dur))) q.q_coins
  in
  (match moved with
   | [] -> s
   | _ :: _ ->
     let cur =
       match find_af q.q_app q.q_pool q.q_owner s.afs with
       | Some a -> a.a_amt
       | None -> Z0
     in
     set_qfs
       (set_afs s
         (put_af { a_app = q.q_app; a_pool = q.q_pool; a_owner = q.q_owner;
           a_amt = (Z.add cur (zsum (map fst moved))) } s.afs))
       (put_qf { q_app = q.q_app; q_pool = q.q_pool; q_owner = q.q_owner;
         q_coins = keep } s.qfs))

(** val process_queued : coq_Z -> coq_Z -> state -> state **)

let process_queued now app0 s =
  match get_params s app0 with
  | Some p ->
    fold_left (process_qf now p.pr_queue_dur)
      (filter (fun q -> Z.eqb q.q_app app0) s.qfs) s
  | None -> s

type app_env = { e_app : coq_Z; e_batches : batch_env list;
                 e_deps : ((((coq_Z * coq_Z) * coq_Z) * coq_Z) * coq_Z) list;
                 e_wds : (((coq_Z * coq_Z) * coq_Z) * coq_Z) list }

(** val find_dep_env :
    coq_Z -> coq_Z -> ((((coq_Z * coq_Z) * coq_Z) * coq_Z) * coq_Z) list ->
    (coq_Z * coq_Z) * coq_Z **)

let rec find_dep_env pid id = function
| [] -> ((Z0, Z0), Z0)
| p0 :: r ->
  let (p1, pc) = p0 in
  let (p2, ay) = p1 in
  let (p3, ax) = p2 in
  let (p, i) = p3 in
  if (&&) (Z.eqb p pid) (Z.eqb i id)
  then ((ax, ay), pc)
  else find_dep_env pid id r

(** val find_wd_env :
    coq_Z -> coq_Z -> (((coq_Z * coq_Z) * coq_Z) * coq_Z) list ->
    coq_Z * coq_Z **)

let rec find_wd_env pid id = function
| [] -> (Z0, Z0)
| p0 :: r ->
  let (p1, y) = p0 in
  let (p2, x) = p1 in
  let (p, i) = p2 in
  if (&&) (Z.eqb p pid) (Z.eqb i id) then (x, y) else find_wd_env pid id r

(** val end_app : coq_Z -> state -> app_env -> state outcome **)

let end_app now s env =
  let app0 = env.e_app in
  obind
    (fold_m (fun s0 pr ->
      execute_matching now s0 pr (find_batch pr.p_id env.e_batches))
      (filter (fun p -> Z.eqb p.p_app app0) s.pairs) s) (fun s1 ->
    obind (sweep_orders now app0 s1) (fun s2 ->
      obind
        (fold_m (fun s0 r ->
          if Z.eqb r.d_status (Zpos Coq_xH)
          then let (p, pc) = find_dep_env r.d_pool r.d_id env.e_deps in
               let (ax, ay) = p in exec_deposit s0 r ax ay pc
          else Ok s0) (filter (fun r -> Z.eqb r.d_app app0) s2.deps) s2)
        (fun s3 ->
        obind
          (fold_m (fun s0 r ->
            if Z.eqb r.w_status (Zpos Coq_xH)
            then let (x, y) = find_wd_env r.w_pool r.w_id env.e_wds in
                 exec_withdraw s0 r x y
            else Ok s0) (filter (fun r -> Z.eqb r.w_app app0) s3.wds) s3)
          (fun s4 -> Ok (process_queued now app0 s4)))))

(** val find_app_env : coq_Z -> app_env list -> app_env **)

let rec find_app_env app0 = function
| [] -> { e_app = app0; e_batches = []; e_deps = []; e_wds = [] }
| e :: r -> if Z.eqb e.e_app app0 then e else find_app_env app0 r

(** val atomic : state -> state outcome -> state **)

let atomic s = function
| Ok s' -> s'
| _ -> s

(** val end_block : coq_Z -> coq_Z -> app_env list -> state -> state **)

let end_block height now envs s =
  fold_left (fun s0 ap ->
    let (app0, p) = ap in
    if Z.eqb p.pr_batch Z0
    then s0
    else if Z.eqb (Z.modulo height p.pr_batch) Z0
         then atomic s0 (end_app now s0 (find_app_env app0 envs))
         else s0) s.apps s

(** val begin_app : coq_Z -> state -> state **)

let begin_app app0 s =
  set_orders
    (set_wds
      (set_deps s
        (filter (fun r ->
          negb
            ((&&) (Z.eqb r.d_app app0)
              (negb (Z.eqb r.d_status (Zpos Coq_xH))))) s.deps))
      (filter (fun r ->
        negb
          ((&&) (Z.eqb r.w_app app0) (negb (Z.eqb r.w_status (Zpos Coq_xH)))))
        s.wds))
    (filter (fun e ->
      negb ((&&) (Z.eqb (fst e).o_app app0) (is_term (fst e).o_status)))
      s.orders)

(** val begin_block : state -> state **)

let begin_block s =
  fold_left (fun s0 ap -> begin_app (fst ap) s0) s.apps s

type op =
| OAddApp of coq_Z * params
| OAddAsset of coq_Z
| OFund of coq_Z * coq_Z * coq_Z
| OCreatePair of coq_Z * coq_Z * coq_Z * coq_Z
| OCreatePool of coq_Z * coq_Z * coq_Z * coq_Z * coq_Z * bool * coq_Z
| OCreateRanged of coq_Z * coq_Z * coq_Z * coq_Z * coq_Z * bool * coq_Z
   * coq_Z * coq_Z
| OLimit of order_msg * coq_Z
| OMarket of order_msg * coq_Z
| OMM of mm_msg * coq_Z
| OCancel of coq_Z * coq_Z * coq_Z * coq_Z
| OCancelAll of coq_Z * coq_Z * coq_Z list
| OCancelMM of coq_Z * coq_Z * coq_Z
| ODeposit of coq_Z * coq_Z * coq_Z * coq_Z * coq_Z
| OWithdraw of coq_Z * coq_Z * coq_Z * coq_Z
| OFarm of coq_Z * coq_Z * coq_Z * coq_Z * coq_Z
| OUnfarm of coq_Z * coq_Z * coq_Z * coq_Z
| ODepositAndFarm of coq_Z * coq_Z * coq_Z * coq_Z * coq_Z * coq_Z * 
   coq_Z * coq_Z * coq_Z
| OUnfarmAndWithdraw of coq_Z * coq_Z * coq_Z * coq_Z * coq_Z * coq_Z
| OBegin
| OEnd of coq_Z * coq_Z * app_env list

(** val deposit_and_farm :
    state -> coq_Z -> coq_Z -> coq_Z -> coq_Z -> coq_Z -> coq_Z -> coq_Z ->
    coq_Z -> coq_Z -> state outcome **)

let deposit_and_farm s app0 owner pid x y now ax ay pc =
  obind (deposit_req s app0 owner pid x y) (fun sr ->
    let (s1, r) = sr in
    obind (exec_deposit s1 r ax ay pc) (fun s2 ->
      match find (fun x0 -> dep_eqb x0 r) s2.deps with
      | Some r' ->
        if (||) (negb (Z.eqb r'.d_status (Zpos (Coq_xO Coq_xH))))
             (negb (Z.gtb r'.d_pc Z0))
        then Err (Zpos (Coq_xO (Coq_xO (Coq_xO (Coq_xI Coq_xH)))))
        else farm s2 app0 owner pid r'.d_pc now
      | None -> Err (Zpos (Coq_xO (Coq_xO (Coq_xO (Coq_xI Coq_xH)))))))

(** val unfarm_and_withdraw :
    state -> coq_Z -> coq_Z -> coq_Z -> coq_Z -> coq_Z -> coq_Z -> state
    outcome **)

let unfarm_and_withdraw s app0 owner pid pc x y =
  if (||) ((||) (Z.eqb pid Z0) (Z.eqb app0 Z0)) (Z.leb pc Z0)
  then Err (Zpos (Coq_xI (Coq_xO (Coq_xO Coq_xH))))
  else obind (unfarm s app0 owner pid pc) (fun s1 ->
         obind (withdraw_req s1 app0 owner pid pc) (fun sr ->
           let (s2, r) = sr in exec_withdraw s2 r x y))

(** val step : state -> op -> state outcome **)

let step s = function
| OAddApp (app0, p) -> Ok (set_apps s (aset s.apps app0 p))
| OAddAsset d -> Ok (set_assets s (d :: s.assets))
| OFund (who, d, amt) -> Ok (set_led s (ladd s.led (User who) d amt))
| OCreatePair (app0, c, b, q) -> create_pair s app0 c b q
| OCreatePool (app0, c, p, x, y, ok, ps) -> create_pool s app0 c p x y ok ps
| OCreateRanged (app0, c, p, x, y, ok, ax, ay, ps) ->
  create_ranged s app0 c p x y ok ax ay ps
| OLimit (m, now) -> limit_order s m now
| OMarket (m, now) -> market_order s m now
| OMM (m, now) -> mm_order s m now
| OCancel (app0, owner, pair0, id) -> cancel_order s app0 owner pair0 id
| OCancelAll (app0, owner, pids) -> cancel_all s app0 owner pids
| OCancelMM (app0, owner, pair0) -> cancel_mm s app0 owner pair0
| ODeposit (app0, owner, pid, x, y) ->
  obind (deposit_req s app0 owner pid x y) (fun sr -> Ok (fst sr))
| OWithdraw (app0, owner, pid, pc) ->
  obind (withdraw_req s app0 owner pid pc) (fun sr -> Ok (fst sr))
| OFarm (app0, owner, pid, amt, now) -> farm s app0 owner pid amt now
| OUnfarm (app0, owner, pid, amt) -> unfarm s app0 owner pid amt
| ODepositAndFarm (app0, owner, pid, x, y, now, ax, ay, pc) ->
  deposit_and_farm s app0 owner pid x y now ax ay pc
| OUnfarmAndWithdraw (app0, owner, pid, pc, x, y) ->
  unfarm_and_withdraw s app0 owner pid pc x y
| OBegin -> Ok (begin_block s)
| OEnd (h, now, envs) -> Ok (end_block h now envs s)

(** val apply_op : state -> op -> state **)

let apply_op s o =
  atomic s (step s o)

(** val order_net_spent : coq_Z -> order -> coq_Z **)

let order_net_spent rate o =
  if is_term o.o_status
  then Z.add (Z.sub o.o_offer o.o_rem)
         (if Z.eqb o.o_type (Zpos (Coq_xI Coq_xH))
          then Z0
          else fee_amt rate (Z.sub o.o_offer o.o_rem))
  else Z.add o.o_offer (fee_reserve rate o)

(** val holds_C07_order :
    coq_Z -> order -> coq_Z -> coq_Z -> coq_Z -> bool **)

let holds_C07_order rate o spent got fills_recv =
  (&&) ((&&) (Z.eqb got o.o_recv) (Z.eqb fills_recv o.o_recv))
    (Z.eqb spent (order_net_spent rate o))

(** val holds_C07_account :
    (coq_Z -> coq_Z) -> order list -> coq_Z -> coq_Z -> bool **)

let holds_C07_account rate_of os d net_spent =
  Z.eqb net_spent
    (zsum
      (map (fun o ->
        Z.sub
          (if Z.eqb o.o_odenom d
           then order_net_spent (rate_of o.o_app) o
           else Z0) (if Z.eqb o.o_ddenom d then o.o_recv else Z0)) os))

(** val escrow_share : coq_Z -> order -> coq_Z **)

let escrow_share rate o =
  if is_term o.o_status then Z0 else Z.add o.o_rem (fee_reserve rate o)

(** val holds_C07_escrow :
    coq_Z -> order list -> coq_Z -> coq_Z -> coq_Z -> bool **)

let holds_C07_escrow rate os d balance fills_net =
  Z.eqb balance
    (Z.add
      (zsum
        (map (fun o ->
          if Z.eqb o.o_odenom d then escrow_share rate o else Z0) os))
      fills_net)

(** val exec_fee : coq_Z -> order -> coq_Z **)

let exec_fee rate o =
  if (&&) (is_term o.o_status) (negb (Z.eqb o.o_type (Zpos (Coq_xI Coq_xH))))
  then fee_amt rate (Z.sub o.o_offer o.o_rem)
  else Z0

(** val holds_C07_mm : coq_Z list -> bool **)

let holds_C07_mm statuses_after =
  forallb (fun st -> negb (is_live st)) statuses_after

(** val kf_C07_1 : coq_Z -> coq_Z -> bool **)

let kf_C07_1 app0 pair0 =
  negb (Z.eqb app0 pair0)

(** val holds_C07_feecoll : coq_Z -> order list -> coq_Z -> coq_Z -> bool **)

let holds_C07_feecoll rate os d balance =
  Z.eqb balance
    (zsum
      (map (fun o -> if Z.eqb o.o_odenom d then exec_fee rate o else Z0) os))

(** val batch_base_net : (coq_Z -> bool) -> batch_env -> coq_Z **)

let batch_base_net buy_of b =
  Z.sub
    (zsum
      (map (fun f ->
        let (y, recv) = f in
        let (y0, paid) = y in
        let (id, _) = y0 in if buy_of id then Z.opp recv else paid) b.b_fills))
    (zsum (map (fun f -> let (_, db) = f in db) b.b_pools))

(** val batch_quote_net : (coq_Z -> bool) -> batch_env -> coq_Z **)

let batch_quote_net buy_of b =
  Z.sub
    (Z.sub
      (zsum
        (map (fun f ->
          let (y, recv) = f in
          let (y0, paid) = y in
          let (id, _) = y0 in if buy_of id then paid else Z.opp recv)
          b.b_fills))
      (zsum
        (map (fun f -> let (y, _) = f in let (_, dq) = y in dq) b.b_pools)))
    b.b_dust

(** val kf_C05_1_via_fills : coq_Z -> bool **)

let kf_C05_1_via_fills base_net =
  negb (Z.eqb base_net Z0)

(** val holds_C04_escrow : coq_Z -> coq_Z -> bool **)

let holds_C04_escrow balance required =
  Z.leb required balance

(** val holds_C04_farmed : coq_Z -> coq_Z -> coq_Z -> bool **)

let holds_C04_farmed module_balance queued active =
  Z.eqb module_balance (Z.add queued active)

(** val holds_C04_disabled : coq_Z -> bool -> bool **)

let holds_C04_disabled supply disabled =
  (||) (negb (Z.eqb supply Z0)) disabled

(** val holds_C04_supply :
    coq_Z -> coq_Z -> coq_Z -> coq_Z -> coq_Z -> bool **)

let holds_C04_supply before after created minted burned =
  Z.eqb after (Z.sub (Z.add (Z.add before created) minted) burned)
