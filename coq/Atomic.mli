open BinNums

type 'store run_result =
| RunOk of 'store
| RunErr of 'store * coq_Z
| RunPanic of 'store

type 'store unit_of_work = 'store -> 'store run_result

val apply : 'a1 unit_of_work -> 'a1 -> 'a1
