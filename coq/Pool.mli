open Base
open BinInt
open BinNums
open Datatypes
open DecArith
open List

val lift_ovf : coq_Z option -> coq_Z outcome

val quo_trunc_s : coq_Z -> coq_Z -> coq_Z outcome

val quo_s : coq_Z -> coq_Z -> coq_Z outcome

val ceil_int_s : coq_Z -> coq_Z outcome

val deposit_body :
  coq_Z -> coq_Z -> coq_Z -> coq_Z -> coq_Z -> ((coq_Z * coq_Z) * coq_Z)
  outcome

val deposit :
  coq_Z -> coq_Z -> coq_Z -> coq_Z -> coq_Z -> ((coq_Z * coq_Z) * coq_Z)
  outcome

val withdraw_one : coq_Z -> coq_Z -> coq_Z -> coq_Z outcome

val withdraw_body :
  coq_Z -> coq_Z -> coq_Z -> coq_Z -> coq_Z -> (coq_Z * coq_Z) outcome

val withdraw :
  coq_Z -> coq_Z -> coq_Z -> coq_Z -> coq_Z -> (coq_Z * coq_Z) outcome

val ndigits_loop : nat -> coq_Z -> coq_Z

val text_len : coq_Z -> coq_Z

val initial_pool_coin_supply : coq_Z -> coq_Z -> coq_Z

val coq_MinPoolPrice : coq_Z

val coq_MaxPoolPrice : coq_Z

val coq_MinGapRatio : coq_Z

val coq_MaxCoinAmount : coq_Z

val create_basic_pool : coq_Z -> coq_Z -> ((coq_Z * coq_Z) * coq_Z) outcome

val ob : 'a1 option -> ('a1 -> 'a2 option) -> 'a2 option

val sqrt_d : coq_Z -> coq_Z option

val inv_d : coq_Z -> coq_Z option

val validate_ranged : coq_Z -> coq_Z -> coq_Z -> unit outcome

val derive_translation :
  coq_Z -> coq_Z -> coq_Z -> coq_Z -> (coq_Z * coq_Z) option

type rpool = { r_rx : coq_Z; r_ry : coq_Z; r_ps : coq_Z; r_min : coq_Z;
               r_max : coq_Z; r_tx : coq_Z; r_ty : coq_Z; r_xc : coq_Z;
               r_yc : coq_Z }

val new_ranged_pool :
  coq_Z -> coq_Z -> coq_Z -> coq_Z -> coq_Z -> rpool option

val ranged_price : rpool -> coq_Z option

val create_ranged_amounts :
  coq_Z -> coq_Z -> coq_Z -> coq_Z -> coq_Z -> (coq_Z * coq_Z) outcome

val create_ranged_pool :
  coq_Z -> coq_Z -> coq_Z -> coq_Z -> coq_Z -> rpool outcome

val ranged_buy_amount_over : rpool -> coq_Z -> coq_Z option

val ranged_sell_amount_under : rpool -> coq_Z -> coq_Z option

type pstate = { p_rx : coq_Z; p_ry : coq_Z; p_ps : coq_Z }

type pop =
| Dep of coq_Z * coq_Z
| Wd of coq_Z * coq_Z

val depleted : bool -> pstate -> bool

val op_admissible : pstate -> pop -> bool

val pstep : bool -> pstate -> pop -> pstate

val prun : bool -> pstate -> pop list -> pstate

val holds_C06_deposit :
  coq_Z -> coq_Z -> coq_Z -> coq_Z -> coq_Z -> coq_Z -> coq_Z -> coq_Z -> bool

val holds_C06_withdraw :
  coq_Z -> coq_Z -> coq_Z -> coq_Z -> coq_Z -> coq_Z -> coq_Z -> bool

val holds_C06_value : pstate -> pstate -> bool

val holds_C06_clamp_buy : coq_Z -> coq_Z -> coq_Z -> bool

val holds_C06_clamp_sell : coq_Z -> coq_Z -> bool

val price_excursion : coq_Z -> coq_Z -> coq_Z -> coq_Z

val holds_C06_price_range : coq_Z -> coq_Z -> coq_Z -> bool

val kf_C06_1 : coq_Z -> coq_Z -> bool

val kf_C06_2 : coq_Z -> coq_Z -> bool

val kf_C06_3 : coq_Z -> coq_Z -> coq_Z -> bool
