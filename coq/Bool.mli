
val eqb : bool -> bool -> bool
