open Ascii
open Atomic
open BinInt
open BinNums
open Datatypes
open GuardTable
open Guards
open List
open MsgTypes
open String
open SweepGuards
open WasmTable

val mem : string -> string list -> bool

val find_handler : string -> handler option

val mt_qname : msg_type -> string

val position_id_fields : string list

val signer_keyed_msgs : string list

val owner_exempt : (string * string) list

val names_position : msg_type -> bool

val is_exempt : msg_type -> bool

val position_msgs : msg_type list

val has_owner_guard_items : item list -> bool

val owner_ok_items : bool -> item list -> bool

val has_owner_guard : msg_type -> bool

val find_wasm : string -> wasm_row option

val kill_switch_ok : bool

val breaker_scope : string list

val rejects_under_breaker : string -> bool

val esm_mint_scope : handler list

val esm_guarded : handler -> bool

val price_fail_closed : handler -> bool

val ctrl_ctx : bool -> coq_Z -> coq_Z -> bool -> octx

val nonowner_ctx : octx

val unit_wr : string -> unit -> unit

val predict : octx -> string -> coq_Z

val predict_ctrl : string -> bool -> coq_Z -> coq_Z -> bool -> coq_Z

val predict_full : string -> bool -> coq_Z -> coq_Z -> bool -> bool -> coq_Z

val sweep_group : string -> string list

val sweep_group_known : string -> bool

val sweep_group_starts : string -> bool -> bool

val handler_known : string -> bool

val handler_position_msg : string -> bool

val handler_exempt : string -> bool

val handler_owner_guarded : string -> bool

val position_handler_names : string list

val handler_signer_keyed : string -> bool

val holds_C12_owner : string -> bool -> bool -> bool -> bool

val holds_C12_wasm : string -> string -> string -> bool -> bool -> bool

val holds_C12_kill : bool -> bool -> bool -> bool

val wasm_model_accepts : string -> string -> string -> bool option

val in_esm_mint_scope : string -> bool

val holds_C14 : string -> bool -> coq_Z -> bool -> bool -> bool

val holds_C14_price : bool -> bool -> bool -> bool -> bool -> bool

val holds_C14_sweep : bool -> bool -> bool
