open BinInt
open BinNums
open Datatypes
open DecArith

(** val obindr : coq_Z option -> (coq_Z -> 'a1 option) -> 'a1 option **)

let obindr x f =
  match x with
  | Some v -> f v
  | None -> None

(** val utilisation : coq_Z -> coq_Z -> coq_Z option **)

let utilisation mod_bal borrowed =
  match int64_c mod_bal with
  | Some m ->
    (match int64_c borrowed with
     | Some b ->
       let den = dadd (dec_of_int m) (dec_of_int b) in
       if Z.eqb den Z0 then Some Z0 else dquo_c (dec_of_int b) den
     | None -> None)
  | None -> None

(** val kink_apr :
    coq_Z -> coq_Z -> coq_Z -> coq_Z -> coq_Z -> coq_Z option **)

let kink_apr u uopt base s1 s2 =
  if Z.ltb u uopt
  then obindr (dquo_c u uopt) (fun ratio ->
         obindr (dmul_c ratio s1) (fun mf -> dadd_c base mf))
  else obindr (dsub_c u uopt) (fun num ->
         obindr (dsub_c coq_P18 uopt) (fun den ->
           obindr (dquo_c num den) (fun ratio ->
             obindr (dmul_c ratio s2) (fun mf ->
               obindr (dadd_c base s1) (fun b1 -> dadd_c b1 mf)))))

(** val lend_apr : coq_Z -> coq_Z -> coq_Z -> coq_Z option **)

let lend_apr borrow u rf =
  obindr (dsub_c coq_P18 rf) (fun mf ->
    obindr (dmul_c borrow u) (fun x -> dmul_c x mf))

(** val kf_C18_1 : coq_Z -> bool **)

let kf_C18_1 uopt =
  Z.leb coq_P18 uopt

(** val holds_C18_rate_base : coq_Z -> coq_Z -> coq_Z -> bool **)

let holds_C18_rate_base u base apr =
  (||) (negb (Z.eqb u Z0)) (Z.eqb apr base)

(** val holds_C18_rate_monotone : coq_Z -> coq_Z -> coq_Z -> coq_Z -> bool **)

let holds_C18_rate_monotone u1 apr1 u2 apr2 =
  (||) (negb (Z.leb u1 u2)) (Z.leb apr1 apr2)

(** val holds_C18_rate_kink : coq_Z -> coq_Z -> coq_Z -> coq_Z -> bool **)

let holds_C18_rate_kink uopt s1 apr_at apr_below =
  (&&) (Z.leb apr_below apr_at)
    (Z.leb (Z.mul (Z.sub apr_at apr_below) uopt)
      (Z.add (Z.mul (Zpos (Coq_xO Coq_xH)) s1) uopt))

(** val holds_C18_lend_le_borrow : coq_Z -> coq_Z -> bool **)

let holds_C18_lend_le_borrow lend borrow =
  (&&) (Z.leb Z0 lend) (Z.leb lend borrow)
