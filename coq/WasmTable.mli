open Ascii
open Datatypes
open Guards
open String

val wasm_table : wasm_row list
