open Datatypes

(** val rev : 'a1 list -> 'a1 list **)

let rec rev = function
| [] -> []
| x :: l' -> app (rev l') (x :: [])

(** val map : ('a1 -> 'a2) -> 'a1 list -> 'a2 list **)

let rec map f = function
| [] -> []
| a :: t -> (f a) :: (map f t)

(** val fold_left : ('a1 -> 'a2 -> 'a1) -> 'a2 list -> 'a1 -> 'a1 **)

let rec fold_left f l a0 =
  match l with
  | [] -> a0
  | b :: t -> fold_left f t (f a0 b)

(** val existsb : ('a1 -> bool) -> 'a1 list -> bool **)

let rec existsb f = function
| [] -> false
| a :: l0 -> (||) (f a) (existsb f l0)

(** val forallb : ('a1 -> bool) -> 'a1 list -> bool **)

let rec forallb f = function
| [] -> true
| a :: l0 -> (&&) (f a) (forallb f l0)

(** val filter : ('a1 -> bool) -> 'a1 list -> 'a1 list **)

let rec filter f = function
| [] -> []
| x :: l0 -> if f x then x :: (filter f l0) else filter f l0

(** val find : ('a1 -> bool) -> 'a1 list -> 'a1 option **)

let rec find f = function
| [] -> None
| x :: tl -> if f x then Some x else find f tl

(** val firstn : nat -> 'a1 list -> 'a1 list **)

let rec firstn n l =
  match n with
  | O -> []
  | S n0 -> (match l with
             | [] -> []
             | a :: l0 -> a :: (firstn n0 l0))
