open BinInt
open BinNums

type ledger = coq_Z -> coq_Z -> coq_Z

val lupd : ledger -> coq_Z -> coq_Z -> coq_Z -> ledger

type lres =
| LOk of ledger
| LErr
| LPanic

val send : ledger -> coq_Z -> coq_Z -> coq_Z -> coq_Z -> lres

val mint_to : ledger -> coq_Z -> coq_Z -> coq_Z -> ledger

val burn_from : ledger -> coq_Z -> coq_Z -> coq_Z -> lres
