open Ascii
open Atomic
open BinInt
open BinNums
open Datatypes
open List
open String

type guard =
| GEsm
| GEsmCoolOff
| GEsmCoolOffRemains
| GBreaker of string
| GEsmOrBreaker
| GExists of string
| GOwnerEq of string * string
| GKeyedBySigner of string
| GAdmin of string
| GPrice of string
| GPriceCond of string
| GCallErr of string
| GOther of string

type item =
| IGuard of guard
| IWrite of string
| IWriteSigner of string
| IPriceUnchecked of string
| ICallSub of string * bool
| IEarlyOkVia of string
| IEarlyOk of string
| IUnrecognised of string

type price_handling =
| PChecked
| PIgnored
| POther

type price_use = { pu_in : string; pu_callee : string;
                   pu_handling : price_handling }

type handler = { h_module : string; h_name : string; h_msg : string;
                 h_mints : bool; h_ctl_opaque : bool; h_items : item list;
                 h_price : price_use list }

type msg_type = { mt_module : string; mt_name : string;
                  mt_signer : string option; mt_ids : string list;
                  mt_handler : string }

type rung = { r_chain : string; r_addr : string; r_index : nat }

type wasm_row = { w_variant : string; w_handler : string;
                  w_recognised : bool; w_note : string; w_ladder : rung list }

type sweep_gate =
| SkipIfBreaker
| StartOnlyIfNotBreaker
| GateNone
| GateUnrecognised

type sweep_row = { s_name : string; s_gate : sweep_gate; s_esm : bool;
                   s_write_before : bool }

type err_class =
| EUnauthorized
| EBreaker
| EEsm
| ECoolOff
| EControl
| EPrice
| ENotFound
| EOther

(** val err_code : err_class -> coq_Z **)

let err_code = function
| EUnauthorized -> Zpos Coq_xH
| EBreaker -> Zpos (Coq_xO Coq_xH)
| EEsm -> Zpos (Coq_xI Coq_xH)
| ECoolOff -> Zpos (Coq_xO (Coq_xO Coq_xH))
| EControl -> Zpos (Coq_xI (Coq_xO Coq_xH))
| EPrice -> Zpos (Coq_xO (Coq_xI Coq_xH))
| ENotFound -> Zpos (Coq_xI (Coq_xI Coq_xH))
| EOther -> Zpos (Coq_xO (Coq_xO (Coq_xO Coq_xH)))

type octx = { c_esm : bool; c_now : coq_Z; c_end : coq_Z; c_breaker : 
              bool; c_owner_ok : (string -> bool);
              c_keyed_found : (string -> bool); c_exists : (string -> bool);
              c_admin : bool; c_price_ok : bool;
              c_call_ok : (string -> bool); c_other_fires : (string -> bool);
              c_branch : (string -> bool) }

(** val guard_fails : octx -> guard -> err_class option **)

let guard_fails c = function
| GEsm -> if c.c_esm then Some EEsm else None
| GEsmCoolOff ->
  if (&&) c.c_esm (Z.gtb c.c_now c.c_end) then Some ECoolOff else None
| GEsmCoolOffRemains ->
  if (&&) c.c_esm (Z.ltb c.c_now c.c_end) then Some ECoolOff else None
| GBreaker _ -> if c.c_breaker then Some EBreaker else None
| GEsmOrBreaker -> if (||) c.c_esm c.c_breaker then Some EControl else None
| GExists l -> if c.c_exists l then None else Some ENotFound
| GOwnerEq (r, _) -> if c.c_owner_ok r then None else Some EUnauthorized
| GKeyedBySigner l -> if c.c_keyed_found l then None else Some ENotFound
| GAdmin _ -> if c.c_admin then None else Some EUnauthorized
| GPrice _ -> if c.c_price_ok then None else Some EPrice
| GPriceCond f ->
  if c.c_price_ok
  then None
  else if c.c_other_fires f then Some EPrice else None
| GCallErr f -> if c.c_call_ok f then None else Some EOther
| GOther t -> if c.c_other_fires t then Some EOther else None

(** val lookup_row :
    string -> (string * item list) list -> item list option **)

let rec lookup_row n = function
| [] -> None
| p :: r -> let (m, its) = p in if eqb m n then Some its else lookup_row n r

(** val exec :
    (string -> 'a1 -> 'a1) -> (string * item list) list -> nat -> octx ->
    item list -> 'a1 -> 'a1 run_result **)

let rec exec wr helpers fuel c =
  let rec go items s =
    match items with
    | [] -> RunOk s
    | i :: r ->
      (match i with
       | IGuard g ->
         (match guard_fails c g with
          | Some e -> RunErr (s, (err_code e))
          | None -> go r s)
       | IWrite w -> go r (wr w s)
       | IWriteSigner w -> go r (wr w s)
       | ICallSub (h, _) ->
         (match fuel with
          | O -> RunPanic s
          | S f ->
            (match lookup_row h helpers with
             | Some hi ->
               (match exec wr helpers f c hi s with
                | RunOk s1 -> go r s1
                | x -> x)
             | None -> RunPanic s))
       | IEarlyOkVia h ->
         if c.c_branch h
         then (match fuel with
               | O -> RunPanic s
               | S f ->
                 (match lookup_row h helpers with
                  | Some hi -> exec wr helpers f c hi s
                  | None -> RunPanic s))
         else go r s
       | IEarlyOk b -> if c.c_branch b then RunOk s else go r s
       | _ -> go r s)
  in go

(** val scan :
    (string * item list) list -> bool -> (guard -> bool) -> nat -> item list
    -> bool **)

let rec scan helpers strict p fuel =
  let rec go = function
  | [] -> false
  | i :: r ->
    (match i with
     | IGuard g -> if p g then true else go r
     | IWrite _ -> if strict then false else go r
     | IWriteSigner _ -> if strict then false else go r
     | IPriceUnchecked _ -> go r
     | ICallSub (h, _) ->
       (match fuel with
        | O -> false
        | S f ->
          (match lookup_row h helpers with
           | Some hi ->
             if scan helpers strict p f hi
             then true
             else if strict then false else go r
           | None -> false))
     | IEarlyOkVia h ->
       (match fuel with
        | O -> false
        | S f ->
          (match lookup_row h helpers with
           | Some hi -> (&&) (scan helpers strict p f hi) (go r)
           | None -> false))
     | _ -> false)
  in go

(** val scan_fuel : nat **)

let scan_fuel =
  S (S (S (S O)))

(** val is_owner_guard : guard -> bool **)

let is_owner_guard = function
| GOwnerEq (_, _) -> true
| GKeyedBySigner _ -> true
| _ -> false

(** val is_breaker_guard : guard -> bool **)

let is_breaker_guard = function
| GBreaker _ -> true
| GEsmOrBreaker -> true
| _ -> false

(** val is_esm_guard : guard -> bool **)

let is_esm_guard = function
| GEsm -> true
| GEsmOrBreaker -> true
| _ -> false

(** val is_admin_guard : guard -> bool **)

let is_admin_guard = function
| GAdmin _ -> true
| _ -> false

(** val first_write_signer : item list -> bool **)

let rec first_write_signer = function
| [] -> false
| i :: r ->
  (match i with
   | IGuard _ -> first_write_signer r
   | IWriteSigner _ -> true
   | IPriceUnchecked _ -> first_write_signer r
   | ICallSub (_, b) -> b
   | _ -> false)

(** val price_all_checked : handler -> bool **)

let price_all_checked h =
  forallb (fun u -> match u.pu_handling with
                    | PChecked -> true
                    | _ -> false) h.h_price

(** val no_unchecked_price : item list -> bool **)

let rec no_unchecked_price = function
| [] -> true
| i :: r ->
  (match i with
   | IPriceUnchecked _ -> false
   | _ -> no_unchecked_price r)

(** val ladder_accepts : rung list -> string -> string -> bool **)

let rec ladder_accepts l chain sender =
  match l with
  | [] -> true
  | r :: rest ->
    if eqb chain r.r_chain
    then eqb sender r.r_addr
    else ladder_accepts rest chain sender

(** val gov_contracts : string -> string list **)

let gov_contracts chain =
  if eqb chain (String ((Ascii (true, true, false, false, false, true, true,
       false)), (String ((Ascii (true, true, true, true, false, true, true,
       false)), (String ((Ascii (true, false, true, true, false, true, true,
       false)), (String ((Ascii (false, false, true, false, false, true,
       true, false)), (String ((Ascii (true, false, true, false, false, true,
       true, false)), (String ((Ascii (false, false, false, true, true, true,
       true, false)), (String ((Ascii (true, false, true, true, false, true,
       false, false)), (String ((Ascii (true, false, false, false, true,
       true, false, false)), EmptyString))))))))))))))))
  then (String ((Ascii (true, true, false, false, false, true, true, false)),
         (String ((Ascii (true, true, true, true, false, true, true, false)),
         (String ((Ascii (true, false, true, true, false, true, true,
         false)), (String ((Ascii (false, false, true, false, false, true,
         true, false)), (String ((Ascii (true, false, true, false, false,
         true, true, false)), (String ((Ascii (false, false, false, true,
         true, true, true, false)), (String ((Ascii (true, false, false,
         false, true, true, false, false)), (String ((Ascii (true, true,
         true, false, true, true, false, false)), (String ((Ascii (false,
         false, false, false, true, true, true, false)), (String ((Ascii
         (true, false, false, true, true, true, false, false)), (String
         ((Ascii (false, true, false, false, true, true, true, false)),
         (String ((Ascii (false, true, false, true, true, true, true,
         false)), (String ((Ascii (true, true, true, false, true, true, true,
         false)), (String ((Ascii (false, true, true, true, false, true,
         true, false)), (String ((Ascii (false, true, true, true, false,
         true, true, false)), (String ((Ascii (false, true, true, false,
         false, true, true, false)), (String ((Ascii (false, false, false,
         true, true, true, true, false)), (String ((Ascii (true, true, false,
         false, false, true, true, false)), (String ((Ascii (false, true,
         false, true, false, true, true, false)), (String ((Ascii (false,
         false, false, false, true, true, true, false)), (String ((Ascii
         (true, true, false, false, true, true, false, false)), (String
         ((Ascii (false, true, false, false, true, true, false, false)),
         (String ((Ascii (true, false, true, false, true, true, true,
         false)), (String ((Ascii (false, true, true, true, false, true,
         true, false)), (String ((Ascii (true, false, false, true, true,
         true, false, false)), (String ((Ascii (true, false, true, false,
         true, true, true, false)), (String ((Ascii (true, true, true, false,
         false, true, true, false)), (String ((Ascii (true, true, true,
         false, true, true, false, false)), (String ((Ascii (true, false,
         false, true, true, true, true, false)), (String ((Ascii (false,
         false, false, true, false, true, true, false)), (String ((Ascii
         (false, false, false, true, false, true, true, false)), (String
         ((Ascii (false, true, false, true, true, true, true, false)),
         (String ((Ascii (true, true, true, false, false, true, true,
         false)), (String ((Ascii (false, false, true, false, true, true,
         true, false)), (String ((Ascii (true, true, false, true, false,
         true, true, false)), (String ((Ascii (false, false, false, true,
         false, true, true, false)), (String ((Ascii (false, true, true,
         false, true, true, true, false)), (String ((Ascii (false, false,
         true, true, false, true, true, false)), (String ((Ascii (true,
         false, false, true, true, true, false, false)), (String ((Ascii
         (false, true, false, true, false, true, true, false)), (String
         ((Ascii (false, true, true, false, false, true, true, false)),
         (String ((Ascii (true, true, false, true, false, true, true,
         false)), (String ((Ascii (true, true, false, false, true, true,
         true, false)), (String ((Ascii (false, true, false, true, true,
         true, true, false)), (String ((Ascii (false, false, true, false,
         true, true, true, false)), (String ((Ascii (true, true, true, false,
         false, true, true, false)), (String ((Ascii (true, true, true,
         false, true, true, true, false)), (String ((Ascii (true, false,
         true, false, true, true, false, false)), (String ((Ascii (true,
         false, true, false, true, true, true, false)), (String ((Ascii
         (false, false, false, true, false, true, true, false)), (String
         ((Ascii (false, true, true, false, true, true, false, false)),
         (String ((Ascii (true, false, false, true, true, true, false,
         false)), (String ((Ascii (true, true, true, false, true, true, true,
         false)), (String ((Ascii (true, false, false, false, false, true,
         true, false)), (String ((Ascii (true, true, false, false, false,
         true, true, false)), (String ((Ascii (false, true, false, false,
         true, true, false, false)), (String ((Ascii (false, false, false,
         false, true, true, true, false)), (String ((Ascii (true, true, true,
         false, false, true, true, false)), (String ((Ascii (true, true,
         false, false, true, true, true, false)), (String ((Ascii (false,
         false, true, false, true, true, false, false)), (String ((Ascii
         (false, true, false, true, false, true, true, false)), (String
         ((Ascii (true, true, true, false, false, true, true, false)),
         (String ((Ascii (false, true, true, false, true, true, false,
         false)), (String ((Ascii (false, false, true, false, false, true,
         true, false)), (String ((Ascii (false, false, false, true, true,
         true, true, false)),
         EmptyString)))))))))))))))))))))))))))))))))))))))))))))))))))))))))))))))))))))))))))))))))))))))))))))))))))))))))))))))))))))))))))))))))) :: ((String
         ((Ascii (true, true, false, false, false, true, true, false)),
         (String ((Ascii (true, true, true, true, false, true, true, false)),
         (String ((Ascii (true, false, true, true, false, true, true,
         false)), (String ((Ascii (false, false, true, false, false, true,
         true, false)), (String ((Ascii (true, false, true, false, false,
         true, true, false)), (String ((Ascii (false, false, false, true,
         true, true, true, false)), (String ((Ascii (true, false, false,
         false, true, true, false, false)), (String ((Ascii (false, true,
         true, true, false, true, true, false)), (String ((Ascii (true, true,
         false, false, false, true, true, false)), (String ((Ascii (true,
         false, true, false, true, true, false, false)), (String ((Ascii
         (false, false, true, false, true, true, true, false)), (String
         ((Ascii (true, false, false, false, false, true, true, false)),
         (String ((Ascii (false, false, true, false, true, true, true,
         false)), (String ((Ascii (true, false, false, false, false, true,
         true, false)), (String ((Ascii (false, true, true, false, false,
         true, true, false)), (String ((Ascii (false, true, true, false,
         true, true, true, false)), (String ((Ascii (false, true, true,
         false, true, true, false, false)), (String ((Ascii (true, false,
         true, false, false, true, true, false)), (String ((Ascii (true,
         false, false, true, true, true, true, false)), (String ((Ascii
         (true, false, false, false, true, true, true, false)), (String
         ((Ascii (true, true, true, false, true, true, false, false)),
         (String ((Ascii (false, false, true, true, false, true, true,
         false)), (String ((Ascii (false, false, true, true, false, true,
         true, false)), (String ((Ascii (true, true, false, true, false,
         true, true, false)), (String ((Ascii (false, true, false, false,
         true, true, true, false)), (String ((Ascii (false, true, false,
         false, true, true, false, false)), (String ((Ascii (true, true,
         true, false, false, true, true, false)), (String ((Ascii (false,
         true, true, false, true, true, true, false)), (String ((Ascii (true,
         false, true, false, true, true, false, false)), (String ((Ascii
         (false, false, false, false, true, true, false, false)), (String
         ((Ascii (false, true, true, false, false, true, true, false)),
         (String ((Ascii (false, true, true, false, false, true, true,
         false)), (String ((Ascii (true, false, false, true, true, true,
         false, false)), (String ((Ascii (true, false, true, false, false,
         true, true, false)), (String ((Ascii (false, true, false, false,
         true, true, false, false)), (String ((Ascii (false, true, false,
         false, true, true, false, false)), (String ((Ascii (true, false,
         true, true, false, true, true, false)), (String ((Ascii (false,
         true, true, true, false, true, true, false)), (String ((Ascii
         (false, true, true, false, false, true, true, false)), (String
         ((Ascii (true, true, true, false, true, true, false, false)),
         (String ((Ascii (false, false, false, false, true, true, false,
         false)), (String ((Ascii (true, false, false, false, true, true,
         true, false)), (String ((Ascii (true, true, true, false, false,
         true, true, false)), (String ((Ascii (false, true, false, true,
         false, true, true, false)), (String ((Ascii (false, false, true,
         true, false, true, true, false)), (String ((Ascii (false, true,
         true, false, true, true, true, false)), (String ((Ascii (true, true,
         true, false, true, true, false, false)), (String ((Ascii (true,
         true, false, false, true, true, false, false)), (String ((Ascii
         (true, true, true, false, true, true, false, false)), (String
         ((Ascii (true, true, false, true, false, true, true, false)),
         (String ((Ascii (false, false, true, false, true, true, true,
         false)), (String ((Ascii (true, false, true, true, false, true,
         true, false)), (String ((Ascii (false, false, true, false, true,
         true, true, false)), (String ((Ascii (false, false, true, false,
         true, true, false, false)), (String ((Ascii (true, false, true,
         false, false, true, true, false)), (String ((Ascii (true, true,
         false, false, true, true, true, false)), (String ((Ascii (true,
         true, true, false, true, true, true, false)), (String ((Ascii
         (false, true, false, false, true, true, true, false)), (String
         ((Ascii (true, false, false, false, true, true, true, false)),
         (String ((Ascii (false, false, true, false, false, true, true,
         false)), (String ((Ascii (false, true, true, false, false, true,
         true, false)), (String ((Ascii (true, true, false, true, false,
         true, true, false)), (String ((Ascii (false, false, true, true,
         false, true, true, false)), (String ((Ascii (true, false, false,
         true, true, true, true, false)), (String ((Ascii (false, true,
         false, true, true, true, true, false)),
         EmptyString)))))))))))))))))))))))))))))))))))))))))))))))))))))))))))))))))))))))))))))))))))))))))))))))))))))))))))))))))))))))))))))))))) :: [])
  else if eqb chain (String ((Ascii (true, true, false, false, false, true,
            true, false)), (String ((Ascii (true, true, true, true, false,
            true, true, false)), (String ((Ascii (true, false, true, true,
            false, true, true, false)), (String ((Ascii (false, false, true,
            false, false, true, true, false)), (String ((Ascii (true, false,
            true, false, false, true, true, false)), (String ((Ascii (false,
            false, false, true, true, true, true, false)), (String ((Ascii
            (true, false, true, true, false, true, false, false)), (String
            ((Ascii (false, false, true, false, true, true, true, false)),
            (String ((Ascii (true, false, true, false, false, true, true,
            false)), (String ((Ascii (true, true, false, false, true, true,
            true, false)), (String ((Ascii (false, false, true, false, true,
            true, true, false)), (String ((Ascii (true, true, false, false,
            true, true, false, false)), EmptyString))))))))))))))))))))))))
       then (String ((Ascii (true, true, false, false, false, true, true,
              false)), (String ((Ascii (true, true, true, true, false, true,
              true, false)), (String ((Ascii (true, false, true, true, false,
              true, true, false)), (String ((Ascii (false, false, true,
              false, false, true, true, false)), (String ((Ascii (true,
              false, true, false, false, true, true, false)), (String ((Ascii
              (false, false, false, true, true, true, true, false)), (String
              ((Ascii (true, false, false, false, true, true, false, false)),
              (String ((Ascii (true, false, false, false, true, true, true,
              false)), (String ((Ascii (true, true, true, false, true, true,
              true, false)), (String ((Ascii (false, false, true, true,
              false, true, true, false)), (String ((Ascii (true, true, true,
              false, false, true, true, false)), (String ((Ascii (false,
              false, true, false, true, true, true, false)), (String ((Ascii
              (false, false, false, true, true, true, true, false)), (String
              ((Ascii (true, false, true, false, true, true, false, false)),
              (String ((Ascii (false, true, false, false, true, true, false,
              false)), (String ((Ascii (true, true, true, false, false, true,
              true, false)), (String ((Ascii (true, true, false, false, true,
              true, true, false)), (String ((Ascii (false, false, true,
              false, false, true, true, false)), (String ((Ascii (true,
              false, true, false, true, true, true, false)), (String ((Ascii
              (true, true, true, false, true, true, false, false)), (String
              ((Ascii (false, false, true, false, false, true, true, false)),
              (String ((Ascii (false, false, true, false, true, true, true,
              false)), (String ((Ascii (false, false, false, false, true,
              true, true, false)), (String ((Ascii (false, false, false,
              false, true, true, false, false)), (String ((Ascii (true, true,
              false, false, false, true, true, false)), (String ((Ascii
              (true, false, true, false, false, true, true, false)), (String
              ((Ascii (true, true, false, true, false, true, true, false)),
              (String ((Ascii (true, true, false, true, false, true, true,
              false)), (String ((Ascii (true, false, false, false, false,
              true, true, false)), (String ((Ascii (true, false, true, false,
              true, true, false, false)), (String ((Ascii (false, true,
              false, true, true, true, true, false)), (String ((Ascii (true,
              false, true, false, false, true, true, false)), (String ((Ascii
              (false, false, false, true, false, true, true, false)), (String
              ((Ascii (false, false, true, false, false, true, true, false)),
              (String ((Ascii (false, false, true, true, false, true, true,
              false)), (String ((Ascii (false, false, false, false, true,
              true, false, false)), (String ((Ascii (true, false, true,
              false, true, true, true, false)), (String ((Ascii (false, true,
              false, true, false, true, true, false)), (String ((Ascii (true,
              true, false, false, true, true, false, false)), (String ((Ascii
              (false, true, true, false, false, true, true, false)), (String
              ((Ascii (false, false, false, true, false, true, true, false)),
              (String ((Ascii (false, false, false, false, true, true, true,
              false)), (String ((Ascii (true, false, false, true, true, true,
              false, false)), (String ((Ascii (true, false, false, false,
              false, true, true, false)), (String ((Ascii (true, true, false,
              false, false, true, true, false)), (String ((Ascii (true, true,
              true, false, false, true, true, false)), (String ((Ascii (true,
              true, false, false, true, true, false, false)), (String ((Ascii
              (false, true, false, false, true, true, false, false)), (String
              ((Ascii (true, false, true, false, true, true, false, false)),
              (String ((Ascii (false, true, true, false, false, true, true,
              false)), (String ((Ascii (false, true, true, false, true, true,
              true, false)), (String ((Ascii (true, true, true, false, false,
              true, true, false)), (String ((Ascii (true, true, false, false,
              true, true, true, false)), (String ((Ascii (false, false,
              false, true, true, true, false, false)), (String ((Ascii
              (false, true, false, true, false, true, true, false)), (String
              ((Ascii (false, false, true, false, false, true, true, false)),
              (String ((Ascii (false, true, false, true, true, true, true,
              false)), (String ((Ascii (true, true, false, true, false, true,
              true, false)), (String ((Ascii (true, true, false, false, true,
              true, true, false)), (String ((Ascii (false, true, false, true,
              false, true, true, false)), (String ((Ascii (false, true, true,
              false, true, true, true, false)), (String ((Ascii (true, true,
              true, false, false, true, true, false)), (String ((Ascii (true,
              false, false, false, true, true, true, false)), (String ((Ascii
              (false, true, true, false, true, true, false, false)), (String
              ((Ascii (true, false, false, false, true, true, true, false)),
              EmptyString)))))))))))))))))))))))))))))))))))))))))))))))))))))))))))))))))))))))))))))))))))))))))))))))))))))))))))))))))))))))))))))))))) :: ((String
              ((Ascii (true, true, false, false, false, true, true, false)),
              (String ((Ascii (true, true, true, true, false, true, true,
              false)), (String ((Ascii (true, false, true, true, false, true,
              true, false)), (String ((Ascii (false, false, true, false,
              false, true, true, false)), (String ((Ascii (true, false, true,
              false, false, true, true, false)), (String ((Ascii (false,
              false, false, true, true, true, true, false)), (String ((Ascii
              (true, false, false, false, true, true, false, false)), (String
              ((Ascii (true, true, true, false, false, true, true, false)),
              (String ((Ascii (false, false, false, true, false, true, true,
              false)), (String ((Ascii (false, false, true, false, false,
              true, true, false)), (String ((Ascii (true, true, true, false,
              true, true, false, false)), (String ((Ascii (true, false, true,
              false, true, true, false, false)), (String ((Ascii (true, true,
              false, false, true, true, false, false)), (String ((Ascii
              (true, true, false, false, true, true, true, false)), (String
              ((Ascii (false, false, false, true, false, true, true, false)),
              (String ((Ascii (false, true, false, true, false, true, true,
              false)), (String ((Ascii (true, false, true, false, true, true,
              true, false)), (String ((Ascii (true, true, true, false, true,
              true, true, false)), (String ((Ascii (true, false, true, false,
              false, true, true, false)), (String ((Ascii (false, false,
              false, true, true, true, true, false)), (String ((Ascii (false,
              false, false, true, true, true, true, false)), (String ((Ascii
              (true, false, false, true, true, true, true, false)), (String
              ((Ascii (true, true, true, false, true, true, true, false)),
              (String ((Ascii (true, false, true, true, false, true, true,
              false)), (String ((Ascii (true, true, true, false, false, true,
              true, false)), (String ((Ascii (true, true, false, false, true,
              true, true, false)), (String ((Ascii (false, false, true,
              false, true, true, false, false)), (String ((Ascii (false,
              false, false, true, true, true, true, false)), (String ((Ascii
              (false, true, false, true, true, true, true, false)), (String
              ((Ascii (true, true, true, false, true, true, false, false)),
              (String ((Ascii (false, false, false, true, true, true, true,
              false)), (String ((Ascii (false, true, false, false, true,
              true, false, false)), (String ((Ascii (true, false, false,
              false, true, true, true, false)), (String ((Ascii (true, true,
              true, false, true, true, false, false)), (String ((Ascii (true,
              true, false, false, true, true, false, false)), (String ((Ascii
              (false, true, false, false, true, true, false, false)), (String
              ((Ascii (false, true, true, false, true, true, true, false)),
              (String ((Ascii (true, true, false, false, false, true, true,
              false)), (String ((Ascii (false, true, true, true, false, true,
              true, false)), (String ((Ascii (true, true, false, true, false,
              true, true, false)), (String ((Ascii (true, false, true, true,
              false, true, true, false)), (String ((Ascii (false, true, true,
              false, true, true, false, false)), (String ((Ascii (false,
              false, false, true, false, true, true, false)), (String ((Ascii
              (false, true, false, false, true, true, false, false)), (String
              ((Ascii (false, false, false, false, true, true, true, false)),
              (String ((Ascii (true, false, false, true, true, true, true,
              false)), (String ((Ascii (false, true, true, false, true, true,
              true, false)), (String ((Ascii (true, false, false, true, true,
              true, false, false)), (String ((Ascii (true, true, false,
              false, true, true, true, false)), (String ((Ascii (false, true,
              true, false, true, true, false, false)), (String ((Ascii (true,
              false, false, false, false, true, true, false)), (String
              ((Ascii (false, false, false, true, false, true, true, false)),
              (String ((Ascii (true, true, false, false, true, true, false,
              false)), (String ((Ascii (false, false, false, true, false,
              true, true, false)), (String ((Ascii (true, false, false, true,
              true, true, true, false)), (String ((Ascii (false, false, true,
              true, false, true, true, false)), (String ((Ascii (false, true,
              true, false, true, true, true, false)), (String ((Ascii (false,
              true, false, false, true, true, true, false)), (String ((Ascii
              (true, false, false, false, true, true, true, false)), (String
              ((Ascii (false, true, true, false, false, true, true, false)),
              (String ((Ascii (true, false, false, true, true, true, true,
              false)), (String ((Ascii (true, false, false, true, true, true,
              false, false)), (String ((Ascii (false, true, false, false,
              true, true, true, false)), (String ((Ascii (false, false, true,
              false, false, true, true, false)), (String ((Ascii (false,
              false, false, true, true, true, false, false)),
              EmptyString)))))))))))))))))))))))))))))))))))))))))))))))))))))))))))))))))))))))))))))))))))))))))))))))))))))))))))))))))))))))))))))))))) :: [])
       else []

(** val named_networks : string list **)

let named_networks =
  (String ((Ascii (true, true, false, false, false, true, true, false)),
    (String ((Ascii (true, true, true, true, false, true, true, false)),
    (String ((Ascii (true, false, true, true, false, true, true, false)),
    (String ((Ascii (false, false, true, false, false, true, true, false)),
    (String ((Ascii (true, false, true, false, false, true, true, false)),
    (String ((Ascii (false, false, false, true, true, true, true, false)),
    (String ((Ascii (true, false, true, true, false, true, false, false)),
    (String ((Ascii (true, false, false, false, true, true, false, false)),
    EmptyString)))))))))))))))) :: ((String ((Ascii (true, true, false,
    false, false, true, true, false)), (String ((Ascii (true, true, true,
    true, false, true, true, false)), (String ((Ascii (true, false, true,
    true, false, true, true, false)), (String ((Ascii (false, false, true,
    false, false, true, true, false)), (String ((Ascii (true, false, true,
    false, false, true, true, false)), (String ((Ascii (false, false, false,
    true, true, true, true, false)), (String ((Ascii (true, false, true,
    true, false, true, false, false)), (String ((Ascii (false, false, true,
    false, true, true, true, false)), (String ((Ascii (true, false, true,
    false, false, true, true, false)), (String ((Ascii (true, true, false,
    false, true, true, true, false)), (String ((Ascii (false, false, true,
    false, true, true, true, false)), (String ((Ascii (true, true, false,
    false, true, true, false, false)),
    EmptyString)))))))))))))))))))))))) :: [])

(** val wasm_role : string -> nat option **)

let wasm_role variant =
  if existsb (eqb variant) ((String ((Ascii (true, false, true, true, false,
       false, true, false)), (String ((Ascii (true, true, false, false, true,
       true, true, false)), (String ((Ascii (true, true, true, false, false,
       true, true, false)), (String ((Ascii (true, true, true, false, true,
       false, true, false)), (String ((Ascii (false, false, false, true,
       false, true, true, false)), (String ((Ascii (true, false, false, true,
       false, true, true, false)), (String ((Ascii (false, false, true,
       false, true, true, true, false)), (String ((Ascii (true, false, true,
       false, false, true, true, false)), (String ((Ascii (false, false,
       true, true, false, false, true, false)), (String ((Ascii (true, false,
       false, true, false, true, true, false)), (String ((Ascii (true, true,
       false, false, true, true, true, false)), (String ((Ascii (false,
       false, true, false, true, true, true, false)), (String ((Ascii (true,
       false, false, false, false, false, true, false)), (String ((Ascii
       (true, true, false, false, true, true, true, false)), (String ((Ascii
       (true, true, false, false, true, true, true, false)), (String ((Ascii
       (true, false, true, false, false, true, true, false)), (String ((Ascii
       (false, false, true, false, true, true, true, false)), (String ((Ascii
       (false, false, true, true, false, false, true, false)), (String
       ((Ascii (true, true, true, true, false, true, true, false)), (String
       ((Ascii (true, true, false, false, false, true, true, false)), (String
       ((Ascii (true, true, false, true, false, true, true, false)), (String
       ((Ascii (true, false, true, false, false, true, true, false)), (String
       ((Ascii (false, true, false, false, true, true, true, false)),
       EmptyString)))))))))))))))))))))))))))))))))))))))))))))) :: ((String
       ((Ascii (true, false, true, true, false, false, true, false)), (String
       ((Ascii (true, true, false, false, true, true, true, false)), (String
       ((Ascii (true, true, true, false, false, true, true, false)), (String
       ((Ascii (true, true, true, false, true, false, true, false)), (String
       ((Ascii (false, false, false, true, false, true, true, false)),
       (String ((Ascii (true, false, false, true, false, true, true, false)),
       (String ((Ascii (false, false, true, false, true, true, true, false)),
       (String ((Ascii (true, false, true, false, false, true, true, false)),
       (String ((Ascii (false, false, true, true, false, true, true, false)),
       (String ((Ascii (true, false, false, true, false, true, true, false)),
       (String ((Ascii (true, true, false, false, true, true, true, false)),
       (String ((Ascii (false, false, true, false, true, true, true, false)),
       (String ((Ascii (true, false, false, false, false, false, true,
       false)), (String ((Ascii (false, false, false, false, true, true,
       true, false)), (String ((Ascii (false, false, false, false, true,
       true, true, false)), (String ((Ascii (true, false, false, true, false,
       false, true, false)), (String ((Ascii (false, false, true, false,
       false, false, true, false)), (String ((Ascii (false, true, true,
       false, true, false, true, false)), (String ((Ascii (true, false,
       false, false, false, true, true, false)), (String ((Ascii (true,
       false, true, false, true, true, true, false)), (String ((Ascii (false,
       false, true, true, false, true, true, false)), (String ((Ascii (false,
       false, true, false, true, true, true, false)), (String ((Ascii (true,
       false, false, true, false, false, true, false)), (String ((Ascii
       (false, true, true, true, false, true, true, false)), (String ((Ascii
       (false, false, true, false, true, true, true, false)), (String ((Ascii
       (true, false, true, false, false, true, true, false)), (String ((Ascii
       (false, true, false, false, true, true, true, false)), (String ((Ascii
       (true, false, true, false, false, true, true, false)), (String ((Ascii
       (true, true, false, false, true, true, true, false)), (String ((Ascii
       (false, false, true, false, true, true, true, false)),
       EmptyString)))))))))))))))))))))))))))))))))))))))))))))))))))))))))))) :: ((String
       ((Ascii (true, false, true, true, false, false, true, false)), (String
       ((Ascii (true, true, false, false, true, true, true, false)), (String
       ((Ascii (true, true, true, false, false, true, true, false)), (String
       ((Ascii (true, true, true, false, true, false, true, false)), (String
       ((Ascii (false, false, false, true, false, true, true, false)),
       (String ((Ascii (true, false, false, true, false, true, true, false)),
       (String ((Ascii (false, false, true, false, true, true, true, false)),
       (String ((Ascii (true, false, true, false, false, true, true, false)),
       (String ((Ascii (false, false, true, true, false, true, true, false)),
       (String ((Ascii (true, false, false, true, false, true, true, false)),
       (String ((Ascii (true, true, false, false, true, true, true, false)),
       (String ((Ascii (false, false, true, false, true, true, true, false)),
       (String ((Ascii (true, false, false, false, false, false, true,
       false)), (String ((Ascii (false, false, false, false, true, true,
       true, false)), (String ((Ascii (false, false, false, false, true,
       true, true, false)), (String ((Ascii (true, false, false, true, false,
       false, true, false)), (String ((Ascii (false, false, true, false,
       false, false, true, false)), (String ((Ascii (false, false, true,
       true, false, false, true, false)), (String ((Ascii (true, true, true,
       true, false, true, true, false)), (String ((Ascii (true, true, false,
       false, false, true, true, false)), (String ((Ascii (true, true, false,
       true, false, true, true, false)), (String ((Ascii (true, false, true,
       false, false, true, true, false)), (String ((Ascii (false, true,
       false, false, true, true, true, false)), (String ((Ascii (false, true,
       false, false, true, false, true, false)), (String ((Ascii (true,
       false, true, false, false, true, true, false)), (String ((Ascii (true,
       true, true, false, true, true, true, false)), (String ((Ascii (true,
       false, false, false, false, true, true, false)), (String ((Ascii
       (false, true, false, false, true, true, true, false)), (String ((Ascii
       (false, false, true, false, false, true, true, false)), (String
       ((Ascii (true, true, false, false, true, true, true, false)),
       EmptyString)))))))))))))))))))))))))))))))))))))))))))))))))))))))))))) :: ((String
       ((Ascii (true, false, true, true, false, false, true, false)), (String
       ((Ascii (true, true, false, false, true, true, true, false)), (String
       ((Ascii (true, true, true, false, false, true, true, false)), (String
       ((Ascii (true, false, false, false, false, false, true, false)),
       (String ((Ascii (false, false, true, false, false, true, true,
       false)), (String ((Ascii (false, false, true, false, false, true,
       true, false)), (String ((Ascii (true, false, true, false, false,
       false, true, false)), (String ((Ascii (false, false, false, true,
       true, true, true, false)), (String ((Ascii (false, false, true, false,
       true, true, true, false)), (String ((Ascii (true, false, true, false,
       false, true, true, false)), (String ((Ascii (false, true, true, true,
       false, true, true, false)), (String ((Ascii (false, false, true,
       false, false, true, true, false)), (String ((Ascii (true, false, true,
       false, false, true, true, false)), (String ((Ascii (false, false,
       true, false, false, true, true, false)), (String ((Ascii (false,
       false, false, false, true, false, true, false)), (String ((Ascii
       (true, false, false, false, false, true, true, false)), (String
       ((Ascii (true, false, false, true, false, true, true, false)), (String
       ((Ascii (false, true, false, false, true, true, true, false)), (String
       ((Ascii (true, true, false, false, true, true, true, false)), (String
       ((Ascii (false, true, true, false, true, false, true, false)), (String
       ((Ascii (true, false, false, false, false, true, true, false)),
       (String ((Ascii (true, false, true, false, true, true, true, false)),
       (String ((Ascii (false, false, true, true, false, true, true, false)),
       (String ((Ascii (false, false, true, false, true, true, true, false)),
       EmptyString)))))))))))))))))))))))))))))))))))))))))))))))) :: ((String
       ((Ascii (true, false, true, true, false, false, true, false)), (String
       ((Ascii (true, true, false, false, true, true, true, false)), (String
       ((Ascii (true, true, true, false, false, true, true, false)), (String
       ((Ascii (true, true, false, false, true, false, true, false)), (String
       ((Ascii (true, false, true, false, false, true, true, false)), (String
       ((Ascii (false, false, true, false, true, true, true, false)), (String
       ((Ascii (true, true, false, false, false, false, true, false)),
       (String ((Ascii (true, true, true, true, false, true, true, false)),
       (String ((Ascii (false, false, true, true, false, true, true, false)),
       (String ((Ascii (false, false, true, true, false, true, true, false)),
       (String ((Ascii (true, false, true, false, false, true, true, false)),
       (String ((Ascii (true, true, false, false, false, true, true, false)),
       (String ((Ascii (false, false, true, false, true, true, true, false)),
       (String ((Ascii (true, true, true, true, false, true, true, false)),
       (String ((Ascii (false, true, false, false, true, true, true, false)),
       (String ((Ascii (false, false, true, true, false, false, true,
       false)), (String ((Ascii (true, true, true, true, false, true, true,
       false)), (String ((Ascii (true, true, true, true, false, true, true,
       false)), (String ((Ascii (true, true, false, true, false, true, true,
       false)), (String ((Ascii (true, false, true, false, true, true, true,
       false)), (String ((Ascii (false, false, false, false, true, true,
       true, false)), (String ((Ascii (false, false, true, false, true,
       false, true, false)), (String ((Ascii (true, false, false, false,
       false, true, true, false)), (String ((Ascii (false, true, false,
       false, false, true, true, false)), (String ((Ascii (false, false,
       true, true, false, true, true, false)), (String ((Ascii (true, false,
       true, false, false, true, true, false)),
       EmptyString)))))))))))))))))))))))))))))))))))))))))))))))))))) :: ((String
       ((Ascii (true, false, true, true, false, false, true, false)), (String
       ((Ascii (true, true, false, false, true, true, true, false)), (String
       ((Ascii (true, true, true, false, false, true, true, false)), (String
       ((Ascii (true, true, false, false, true, false, true, false)), (String
       ((Ascii (true, false, true, false, false, true, true, false)), (String
       ((Ascii (false, false, true, false, true, true, true, false)), (String
       ((Ascii (true, false, false, false, false, false, true, false)),
       (String ((Ascii (true, false, true, false, true, true, true, false)),
       (String ((Ascii (true, true, false, false, false, true, true, false)),
       (String ((Ascii (false, false, true, false, true, true, true, false)),
       (String ((Ascii (true, false, false, true, false, true, true, false)),
       (String ((Ascii (true, true, true, true, false, true, true, false)),
       (String ((Ascii (false, true, true, true, false, true, true, false)),
       (String ((Ascii (true, false, true, true, false, false, true, false)),
       (String ((Ascii (true, false, false, false, false, true, true,
       false)), (String ((Ascii (false, false, false, false, true, true,
       true, false)), (String ((Ascii (false, false, false, false, true,
       true, true, false)), (String ((Ascii (true, false, false, true, false,
       true, true, false)), (String ((Ascii (false, true, true, true, false,
       true, true, false)), (String ((Ascii (true, true, true, false, false,
       true, true, false)), (String ((Ascii (false, true, true, false, false,
       false, true, false)), (String ((Ascii (true, true, true, true, false,
       true, true, false)), (String ((Ascii (false, true, false, false, true,
       true, true, false)), (String ((Ascii (true, false, false, false,
       false, false, true, false)), (String ((Ascii (false, false, false,
       false, true, true, true, false)), (String ((Ascii (false, false,
       false, false, true, true, true, false)),
       EmptyString)))))))))))))))))))))))))))))))))))))))))))))))))))) :: ((String
       ((Ascii (true, false, true, true, false, false, true, false)), (String
       ((Ascii (true, true, false, false, true, true, true, false)), (String
       ((Ascii (true, true, true, false, false, true, true, false)), (String
       ((Ascii (true, false, true, false, true, false, true, false)), (String
       ((Ascii (false, false, false, false, true, true, true, false)),
       (String ((Ascii (false, false, true, false, false, true, true,
       false)), (String ((Ascii (true, false, false, false, false, true,
       true, false)), (String ((Ascii (false, false, true, false, true, true,
       true, false)), (String ((Ascii (true, false, true, false, false, true,
       true, false)), (String ((Ascii (false, false, false, false, true,
       false, true, false)), (String ((Ascii (true, false, false, false,
       false, true, true, false)), (String ((Ascii (true, false, false, true,
       false, true, true, false)), (String ((Ascii (false, true, false,
       false, true, true, true, false)), (String ((Ascii (true, true, false,
       false, true, true, true, false)), (String ((Ascii (false, true, true,
       false, true, false, true, false)), (String ((Ascii (true, false,
       false, false, false, true, true, false)), (String ((Ascii (true,
       false, true, false, true, true, true, false)), (String ((Ascii (false,
       false, true, true, false, true, true, false)), (String ((Ascii (false,
       false, true, false, true, true, true, false)),
       EmptyString)))))))))))))))))))))))))))))))))))))) :: ((String ((Ascii
       (true, false, true, true, false, false, true, false)), (String ((Ascii
       (true, true, false, false, true, true, true, false)), (String ((Ascii
       (true, true, true, false, false, true, true, false)), (String ((Ascii
       (true, false, true, false, true, false, true, false)), (String ((Ascii
       (false, false, false, false, true, true, true, false)), (String
       ((Ascii (false, false, true, false, false, true, true, false)),
       (String ((Ascii (true, false, false, false, false, true, true,
       false)), (String ((Ascii (false, false, true, false, true, true, true,
       false)), (String ((Ascii (true, false, true, false, false, true, true,
       false)), (String ((Ascii (true, true, false, false, false, false,
       true, false)), (String ((Ascii (true, true, true, true, false, true,
       true, false)), (String ((Ascii (false, false, true, true, false, true,
       true, false)), (String ((Ascii (false, false, true, true, false, true,
       true, false)), (String ((Ascii (true, false, true, false, false, true,
       true, false)), (String ((Ascii (true, true, false, false, false, true,
       true, false)), (String ((Ascii (false, false, true, false, true, true,
       true, false)), (String ((Ascii (true, true, true, true, false, true,
       true, false)), (String ((Ascii (false, true, false, false, true, true,
       true, false)), (String ((Ascii (false, false, true, true, false,
       false, true, false)), (String ((Ascii (true, true, true, true, false,
       true, true, false)), (String ((Ascii (true, true, true, true, false,
       true, true, false)), (String ((Ascii (true, true, false, true, false,
       true, true, false)), (String ((Ascii (true, false, true, false, true,
       true, true, false)), (String ((Ascii (false, false, false, false,
       true, true, true, false)), (String ((Ascii (false, false, true, false,
       true, false, true, false)), (String ((Ascii (true, false, false,
       false, false, true, true, false)), (String ((Ascii (false, true,
       false, false, false, true, true, false)), (String ((Ascii (false,
       false, true, true, false, true, true, false)), (String ((Ascii (true,
       false, true, false, false, true, true, false)),
       EmptyString)))))))))))))))))))))))))))))))))))))))))))))))))))))))))) :: ((String
       ((Ascii (true, false, true, true, false, false, true, false)), (String
       ((Ascii (true, true, false, false, true, true, true, false)), (String
       ((Ascii (true, true, true, false, false, true, true, false)), (String
       ((Ascii (false, true, false, false, true, false, true, false)),
       (String ((Ascii (true, false, true, false, false, true, true, false)),
       (String ((Ascii (true, false, true, true, false, true, true, false)),
       (String ((Ascii (true, true, true, true, false, true, true, false)),
       (String ((Ascii (false, true, true, false, true, true, true, false)),
       (String ((Ascii (true, false, true, false, false, true, true, false)),
       (String ((Ascii (true, true, true, false, true, false, true, false)),
       (String ((Ascii (false, false, false, true, false, true, true,
       false)), (String ((Ascii (true, false, false, true, false, true, true,
       false)), (String ((Ascii (false, false, true, false, true, true, true,
       false)), (String ((Ascii (true, false, true, false, false, true, true,
       false)), (String ((Ascii (false, false, true, true, false, true, true,
       false)), (String ((Ascii (true, false, false, true, false, true, true,
       false)), (String ((Ascii (true, true, false, false, true, true, true,
       false)), (String ((Ascii (false, false, true, false, true, true, true,
       false)), (String ((Ascii (true, false, false, false, false, false,
       true, false)), (String ((Ascii (true, true, false, false, true, true,
       true, false)), (String ((Ascii (true, true, false, false, true, true,
       true, false)), (String ((Ascii (true, false, true, false, false, true,
       true, false)), (String ((Ascii (false, false, true, false, true, true,
       true, false)), (String ((Ascii (false, false, true, true, false,
       false, true, false)), (String ((Ascii (true, true, true, true, false,
       true, true, false)), (String ((Ascii (true, true, false, false, false,
       true, true, false)), (String ((Ascii (true, true, false, true, false,
       true, true, false)), (String ((Ascii (true, false, true, false, false,
       true, true, false)), (String ((Ascii (false, true, false, false, true,
       true, true, false)),
       EmptyString)))))))))))))))))))))))))))))))))))))))))))))))))))))))))) :: ((String
       ((Ascii (true, false, true, true, false, false, true, false)), (String
       ((Ascii (true, true, false, false, true, true, true, false)), (String
       ((Ascii (true, true, true, false, false, true, true, false)), (String
       ((Ascii (false, true, false, false, true, false, true, false)),
       (String ((Ascii (true, false, true, false, false, true, true, false)),
       (String ((Ascii (true, false, true, true, false, true, true, false)),
       (String ((Ascii (true, true, true, true, false, true, true, false)),
       (String ((Ascii (false, true, true, false, true, true, true, false)),
       (String ((Ascii (true, false, true, false, false, true, true, false)),
       (String ((Ascii (true, true, true, false, true, false, true, false)),
       (String ((Ascii (false, false, false, true, false, true, true,
       false)), (String ((Ascii (true, false, false, true, false, true, true,
       false)), (String ((Ascii (false, false, true, false, true, true, true,
       false)), (String ((Ascii (true, false, true, false, false, true, true,
       false)), (String ((Ascii (false, false, true, true, false, true, true,
       false)), (String ((Ascii (true, false, false, true, false, true, true,
       false)), (String ((Ascii (true, true, false, false, true, true, true,
       false)), (String ((Ascii (false, false, true, false, true, true, true,
       false)), (String ((Ascii (true, false, false, false, false, false,
       true, false)), (String ((Ascii (false, false, false, false, true,
       true, true, false)), (String ((Ascii (false, false, false, false,
       true, true, true, false)), (String ((Ascii (true, false, false, true,
       false, false, true, false)), (String ((Ascii (false, false, true,
       false, false, false, true, false)), (String ((Ascii (false, true,
       true, false, true, false, true, false)), (String ((Ascii (true, false,
       false, false, false, true, true, false)), (String ((Ascii (true,
       false, true, false, true, true, true, false)), (String ((Ascii (false,
       false, true, true, false, true, true, false)), (String ((Ascii (false,
       false, true, false, true, true, true, false)), (String ((Ascii (true,
       false, false, true, false, false, true, false)), (String ((Ascii
       (false, true, true, true, false, true, true, false)), (String ((Ascii
       (false, false, true, false, true, true, true, false)), (String ((Ascii
       (true, false, true, false, false, true, true, false)), (String ((Ascii
       (false, true, false, false, true, true, true, false)), (String ((Ascii
       (true, false, true, false, false, true, true, false)), (String ((Ascii
       (true, true, false, false, true, true, true, false)), (String ((Ascii
       (false, false, true, false, true, true, true, false)),
       EmptyString)))))))))))))))))))))))))))))))))))))))))))))))))))))))))))))))))))))))) :: ((String
       ((Ascii (true, false, true, true, false, false, true, false)), (String
       ((Ascii (true, true, false, false, true, true, true, false)), (String
       ((Ascii (true, true, true, false, false, true, true, false)), (String
       ((Ascii (true, true, true, false, true, false, true, false)), (String
       ((Ascii (false, false, false, true, false, true, true, false)),
       (String ((Ascii (true, false, false, true, false, true, true, false)),
       (String ((Ascii (false, false, true, false, true, true, true, false)),
       (String ((Ascii (true, false, true, false, false, true, true, false)),
       (String ((Ascii (false, false, true, true, false, true, true, false)),
       (String ((Ascii (true, false, false, true, false, true, true, false)),
       (String ((Ascii (true, true, false, false, true, true, true, false)),
       (String ((Ascii (false, false, true, false, true, true, true, false)),
       (String ((Ascii (true, false, false, false, false, false, true,
       false)), (String ((Ascii (false, false, false, false, true, true,
       true, false)), (String ((Ascii (false, false, false, false, true,
       true, true, false)), (String ((Ascii (true, false, false, true, false,
       false, true, false)), (String ((Ascii (false, false, true, false,
       false, false, true, false)), (String ((Ascii (false, false, true,
       true, false, false, true, false)), (String ((Ascii (true, false,
       false, true, false, true, true, false)), (String ((Ascii (true, false,
       false, false, true, true, true, false)), (String ((Ascii (true, false,
       true, false, true, true, true, false)), (String ((Ascii (true, false,
       false, true, false, true, true, false)), (String ((Ascii (false,
       false, true, false, false, true, true, false)), (String ((Ascii (true,
       false, false, false, false, true, true, false)), (String ((Ascii
       (false, false, true, false, true, true, true, false)), (String ((Ascii
       (true, false, false, true, false, true, true, false)), (String ((Ascii
       (true, true, true, true, false, true, true, false)), (String ((Ascii
       (false, true, true, true, false, true, true, false)),
       EmptyString)))))))))))))))))))))))))))))))))))))))))))))))))))))))) :: ((String
       ((Ascii (true, false, true, true, false, false, true, false)), (String
       ((Ascii (true, true, false, false, true, true, true, false)), (String
       ((Ascii (true, true, true, false, false, true, true, false)), (String
       ((Ascii (false, true, false, false, true, false, true, false)),
       (String ((Ascii (true, false, true, false, false, true, true, false)),
       (String ((Ascii (true, false, true, true, false, true, true, false)),
       (String ((Ascii (true, true, true, true, false, true, true, false)),
       (String ((Ascii (false, true, true, false, true, true, true, false)),
       (String ((Ascii (true, false, true, false, false, true, true, false)),
       (String ((Ascii (true, true, true, false, true, false, true, false)),
       (String ((Ascii (false, false, false, true, false, true, true,
       false)), (String ((Ascii (true, false, false, true, false, true, true,
       false)), (String ((Ascii (false, false, true, false, true, true, true,
       false)), (String ((Ascii (true, false, true, false, false, true, true,
       false)), (String ((Ascii (false, false, true, true, false, true, true,
       false)), (String ((Ascii (true, false, false, true, false, true, true,
       false)), (String ((Ascii (true, true, false, false, true, true, true,
       false)), (String ((Ascii (false, false, true, false, true, true, true,
       false)), (String ((Ascii (true, false, false, false, false, false,
       true, false)), (String ((Ascii (false, false, false, false, true,
       true, true, false)), (String ((Ascii (false, false, false, false,
       true, true, true, false)), (String ((Ascii (true, false, false, true,
       false, false, true, false)), (String ((Ascii (false, false, true,
       false, false, false, true, false)), (String ((Ascii (false, false,
       true, true, false, false, true, false)), (String ((Ascii (true, false,
       false, true, false, true, true, false)), (String ((Ascii (true, false,
       false, false, true, true, true, false)), (String ((Ascii (true, false,
       true, false, true, true, true, false)), (String ((Ascii (true, false,
       false, true, false, true, true, false)), (String ((Ascii (false,
       false, true, false, false, true, true, false)), (String ((Ascii (true,
       false, false, false, false, true, true, false)), (String ((Ascii
       (false, false, true, false, true, true, true, false)), (String ((Ascii
       (true, false, false, true, false, true, true, false)), (String ((Ascii
       (true, true, true, true, false, true, true, false)), (String ((Ascii
       (false, true, true, true, false, true, true, false)),
       EmptyString)))))))))))))))))))))))))))))))))))))))))))))))))))))))))))))))))))) :: ((String
       ((Ascii (true, false, true, true, false, false, true, false)), (String
       ((Ascii (true, true, false, false, true, true, true, false)), (String
       ((Ascii (true, true, true, false, false, true, true, false)), (String
       ((Ascii (true, false, false, false, false, false, true, false)),
       (String ((Ascii (false, false, true, false, false, true, true,
       false)), (String ((Ascii (false, false, true, false, false, true,
       true, false)), (String ((Ascii (true, false, false, false, false,
       false, true, false)), (String ((Ascii (true, false, true, false, true,
       true, true, false)), (String ((Ascii (true, true, false, false, false,
       true, true, false)), (String ((Ascii (false, false, true, false, true,
       true, true, false)), (String ((Ascii (true, false, false, true, false,
       true, true, false)), (String ((Ascii (true, true, true, true, false,
       true, true, false)), (String ((Ascii (false, true, true, true, false,
       true, true, false)), (String ((Ascii (false, false, false, false,
       true, false, true, false)), (String ((Ascii (true, false, false,
       false, false, true, true, false)), (String ((Ascii (false, true,
       false, false, true, true, true, false)), (String ((Ascii (true, false,
       false, false, false, true, true, false)), (String ((Ascii (true,
       false, true, true, false, true, true, false)), (String ((Ascii (true,
       true, false, false, true, true, true, false)),
       EmptyString)))))))))))))))))))))))))))))))))))))) :: ((String ((Ascii
       (true, false, true, true, false, false, true, false)), (String ((Ascii
       (true, true, false, false, true, true, true, false)), (String ((Ascii
       (true, true, true, false, false, true, true, false)), (String ((Ascii
       (false, true, false, false, false, false, true, false)), (String
       ((Ascii (true, false, true, false, true, true, true, false)), (String
       ((Ascii (false, true, false, false, true, true, true, false)), (String
       ((Ascii (false, true, true, true, false, true, true, false)), (String
       ((Ascii (true, true, true, false, false, false, true, false)), (String
       ((Ascii (true, true, true, true, false, true, true, false)), (String
       ((Ascii (false, true, true, false, true, true, true, false)), (String
       ((Ascii (false, false, true, false, true, false, true, false)),
       (String ((Ascii (true, true, true, true, false, true, true, false)),
       (String ((Ascii (true, true, false, true, false, true, true, false)),
       (String ((Ascii (true, false, true, false, false, true, true, false)),
       (String ((Ascii (false, true, true, true, false, true, true, false)),
       (String ((Ascii (true, true, false, false, true, true, true, false)),
       (String ((Ascii (false, true, true, false, false, false, true,
       false)), (String ((Ascii (true, true, true, true, false, true, true,
       false)), (String ((Ascii (false, true, false, false, true, true, true,
       false)), (String ((Ascii (true, false, false, false, false, false,
       true, false)), (String ((Ascii (false, false, false, false, true,
       true, true, false)), (String ((Ascii (false, false, false, false,
       true, true, true, false)),
       EmptyString)))))))))))))))))))))))))))))))))))))))))))) :: ((String
       ((Ascii (true, false, true, true, false, false, true, false)), (String
       ((Ascii (true, true, false, false, true, true, true, false)), (String
       ((Ascii (true, true, true, false, false, true, true, false)), (String
       ((Ascii (true, false, false, false, false, false, true, false)),
       (String ((Ascii (false, false, true, false, false, true, true,
       false)), (String ((Ascii (false, false, true, false, false, true,
       true, false)), (String ((Ascii (true, false, true, false, false,
       false, true, false)), (String ((Ascii (true, true, false, false, true,
       false, true, false)), (String ((Ascii (true, false, true, true, false,
       false, true, false)), (String ((Ascii (false, false, true, false,
       true, false, true, false)), (String ((Ascii (false, true, false,
       false, true, true, true, false)), (String ((Ascii (true, false, false,
       true, false, true, true, false)), (String ((Ascii (true, true, true,
       false, false, true, true, false)), (String ((Ascii (true, true, true,
       false, false, true, true, false)), (String ((Ascii (true, false, true,
       false, false, true, true, false)), (String ((Ascii (false, true,
       false, false, true, true, true, false)), (String ((Ascii (false,
       false, false, false, true, false, true, false)), (String ((Ascii
       (true, false, false, false, false, true, true, false)), (String
       ((Ascii (false, true, false, false, true, true, true, false)), (String
       ((Ascii (true, false, false, false, false, true, true, false)),
       (String ((Ascii (true, false, true, true, false, true, true, false)),
       (String ((Ascii (true, true, false, false, true, true, true, false)),
       EmptyString)))))))))))))))))))))))))))))))))))))))))))) :: [])))))))))))))))
  then Some O
  else if existsb (eqb variant) ((String ((Ascii (true, false, true, true,
            false, false, true, false)), (String ((Ascii (true, true, false,
            false, true, true, true, false)), (String ((Ascii (true, true,
            true, false, false, true, true, false)), (String ((Ascii (true,
            false, true, false, false, false, true, false)), (String ((Ascii
            (true, false, true, true, false, true, true, false)), (String
            ((Ascii (true, false, false, true, false, true, true, false)),
            (String ((Ascii (true, true, false, false, true, true, true,
            false)), (String ((Ascii (true, true, false, false, true, true,
            true, false)), (String ((Ascii (true, false, false, true, false,
            true, true, false)), (String ((Ascii (true, true, true, true,
            false, true, true, false)), (String ((Ascii (false, true, true,
            true, false, true, true, false)), (String ((Ascii (false, true,
            false, false, true, false, true, false)), (String ((Ascii (true,
            false, true, false, false, true, true, false)), (String ((Ascii
            (true, true, true, false, true, true, true, false)), (String
            ((Ascii (true, false, false, false, false, true, true, false)),
            (String ((Ascii (false, true, false, false, true, true, true,
            false)), (String ((Ascii (false, false, true, false, false, true,
            true, false)), (String ((Ascii (true, true, false, false, true,
            true, true, false)),
            EmptyString)))))))))))))))))))))))))))))))))))) :: ((String
            ((Ascii (true, false, true, true, false, false, true, false)),
            (String ((Ascii (true, true, false, false, true, true, true,
            false)), (String ((Ascii (true, true, true, false, false, true,
            true, false)), (String ((Ascii (false, true, true, false, false,
            false, true, false)), (String ((Ascii (true, true, true, true,
            false, true, true, false)), (String ((Ascii (true, false, true,
            false, true, true, true, false)), (String ((Ascii (false, true,
            true, true, false, true, true, false)), (String ((Ascii (false,
            false, true, false, false, true, true, false)), (String ((Ascii
            (true, false, false, false, false, true, true, false)), (String
            ((Ascii (false, false, true, false, true, true, true, false)),
            (String ((Ascii (true, false, false, true, false, true, true,
            false)), (String ((Ascii (true, true, true, true, false, true,
            true, false)), (String ((Ascii (false, true, true, true, false,
            true, true, false)), (String ((Ascii (true, false, true, false,
            false, false, true, false)), (String ((Ascii (true, false, true,
            true, false, true, true, false)), (String ((Ascii (true, false,
            false, true, false, true, true, false)), (String ((Ascii (true,
            true, false, false, true, true, true, false)), (String ((Ascii
            (true, true, false, false, true, true, true, false)), (String
            ((Ascii (true, false, false, true, false, true, true, false)),
            (String ((Ascii (true, true, true, true, false, true, true,
            false)), (String ((Ascii (false, true, true, true, false, true,
            true, false)),
            EmptyString)))))))))))))))))))))))))))))))))))))))))) :: ((String
            ((Ascii (true, false, true, true, false, false, true, false)),
            (String ((Ascii (true, true, false, false, true, true, true,
            false)), (String ((Ascii (true, true, true, false, false, true,
            true, false)), (String ((Ascii (false, true, false, false, true,
            false, true, false)), (String ((Ascii (true, false, true, false,
            false, true, true, false)), (String ((Ascii (false, true, false,
            false, false, true, true, false)), (String ((Ascii (true, false,
            false, false, false, true, true, false)), (String ((Ascii (true,
            true, false, false, true, true, true, false)), (String ((Ascii
            (true, false, true, false, false, true, true, false)), (String
            ((Ascii (true, false, true, true, false, false, true, false)),
            (String ((Ascii (true, false, false, true, false, true, true,
            false)), (String ((Ascii (false, true, true, true, false, true,
            true, false)), (String ((Ascii (false, false, true, false, true,
            true, true, false)),
            EmptyString)))))))))))))))))))))))))) :: ((String ((Ascii (true,
            false, true, true, false, false, true, false)), (String ((Ascii
            (true, true, false, false, true, true, true, false)), (String
            ((Ascii (true, true, true, false, false, true, true, false)),
            (String ((Ascii (true, true, true, false, false, false, true,
            false)), (String ((Ascii (true, false, true, false, false, true,
            true, false)), (String ((Ascii (false, false, true, false, true,
            true, true, false)), (String ((Ascii (true, true, false, false,
            true, false, true, false)), (String ((Ascii (true, false, true,
            false, true, true, true, false)), (String ((Ascii (false, true,
            false, false, true, true, true, false)), (String ((Ascii (false,
            false, false, false, true, true, true, false)), (String ((Ascii
            (false, false, true, true, false, true, true, false)), (String
            ((Ascii (true, false, true, false, true, true, true, false)),
            (String ((Ascii (true, true, false, false, true, true, true,
            false)), (String ((Ascii (false, true, true, false, false, false,
            true, false)), (String ((Ascii (true, false, true, false, true,
            true, true, false)), (String ((Ascii (false, true, true, true,
            false, true, true, false)), (String ((Ascii (false, false, true,
            false, false, true, true, false)),
            EmptyString)))))))))))))))))))))))))))))))))) :: ((String ((Ascii
            (true, false, true, true, false, false, true, false)), (String
            ((Ascii (true, true, false, false, true, true, true, false)),
            (String ((Ascii (true, true, true, false, false, true, true,
            false)), (String ((Ascii (true, false, true, false, false, false,
            true, false)), (String ((Ascii (true, false, true, true, false,
            true, true, false)), (String ((Ascii (true, false, false, true,
            false, true, true, false)), (String ((Ascii (true, true, false,
            false, true, true, true, false)), (String ((Ascii (true, true,
            false, false, true, true, true, false)), (String ((Ascii (true,
            false, false, true, false, true, true, false)), (String ((Ascii
            (true, true, true, true, false, true, true, false)), (String
            ((Ascii (false, true, true, true, false, true, true, false)),
            (String ((Ascii (false, false, false, false, true, false, true,
            false)), (String ((Ascii (true, true, true, true, false, true,
            true, false)), (String ((Ascii (true, true, true, true, false,
            true, true, false)), (String ((Ascii (false, false, true, true,
            false, true, true, false)), (String ((Ascii (false, true, false,
            false, true, false, true, false)), (String ((Ascii (true, false,
            true, false, false, true, true, false)), (String ((Ascii (true,
            true, true, false, true, true, true, false)), (String ((Ascii
            (true, false, false, false, false, true, true, false)), (String
            ((Ascii (false, true, false, false, true, true, true, false)),
            (String ((Ascii (false, false, true, false, false, true, true,
            false)), (String ((Ascii (true, true, false, false, true, true,
            true, false)),
            EmptyString)))))))))))))))))))))))))))))))))))))))))))) :: [])))))
       then Some (S O)
       else None

(** val designated : string -> string -> string option **)

let designated chain variant =
  match wasm_role variant with
  | Some i -> nth_error (gov_contracts chain) i
  | None -> None

(** val sweep_starts : sweep_row -> bool -> bool **)

let sweep_starts r breaker =
  match r.s_gate with
  | SkipIfBreaker -> negb breaker
  | StartOnlyIfNotBreaker -> negb breaker
  | _ -> true
