open Ascii

type string =
| EmptyString
| String of ascii * string

(** val eqb : string -> string -> bool **)

let rec eqb s1 s2 =
  match s1 with
  | EmptyString ->
    (match s2 with
     | EmptyString -> true
     | String (_, _) -> false)
  | String (c1, s1') ->
    (match s2 with
     | EmptyString -> false
     | String (c2, s2') -> if Ascii.eqb c1 c2 then eqb s1' s2' else false)

(** val append : string -> string -> string **)

let rec append s1 s2 =
  match s1 with
  | EmptyString -> s2
  | String (c, s1') -> String (c, (append s1' s2))
