open Base
open BinInt
open BinNums
open Datatypes
open List

type twa = { vals : coq_Z list; idx : coq_Z; avg : coq_Z; active : bool;
             disc : coq_Z }

val calc_twa : coq_Z list -> coq_Z -> coq_Z option

val wrap_idx : coq_Z -> coq_Z -> coq_Z

val update_tail : coq_Z -> coq_Z -> twa option -> twa option outcome

val update :
  coq_Z -> coq_Z -> coq_Z -> coq_Z -> twa option -> twa option outcome

val discard_reset : twa -> twa

val invalidate : twa -> twa

val get_latest : twa option -> coq_Z outcome

val price_in_force : twa option -> coq_Z outcome

type mop =
| Sample of coq_Z * coq_Z
| DiscardReset
| Invalidate

val mstep : coq_Z -> coq_Z -> twa option -> mop -> twa option outcome

val mrun : coq_Z -> coq_Z -> twa option -> mop list -> twa option outcome

type mstore = (coq_Z * twa) list

val sget : mstore -> coq_Z -> twa option

val sset : mstore -> coq_Z -> twa -> mstore

val sput : mstore -> coq_Z -> twa option -> mstore

val rate_loop :
  coq_Z -> coq_Z -> coq_Z -> coq_Z list -> (coq_Z * bool) list -> coq_Z ->
  mstore -> mstore outcome

type bb_env = { bb_valid : bool; bb_last : coq_Z; bb_height : coq_Z;
                bb_discard : bool; bb_rates : coq_Z list; bb_n : coq_Z;
                bb_gap : coq_Z }

val begin_block :
  bb_env -> (coq_Z * bool) list -> mstore -> (mstore * bool) outcome

type ghost = { g_hist : coq_Z list; g_disc : coq_Z; g_exists : bool }

val ghost0 : ghost

val ghost_step : coq_Z -> ghost -> mop -> ghost

val bb_samples :
  coq_Z -> coq_Z list -> (coq_Z * bool) list -> coq_Z -> (coq_Z * mop) list

val bb_ops : bb_env -> (coq_Z * bool) list -> coq_Z list -> (coq_Z * mop) list

val holds_C17_state : coq_Z -> ghost -> bool -> twa option -> bool
