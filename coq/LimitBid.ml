open Base
open BinInt
open BinNums
open Datatypes
open DecArith
open FLedger
open List

(** val aget :
    ('a1 -> 'a1 -> bool) -> 'a1 -> ('a1 * 'a2) list -> 'a2 option **)

let rec aget eqb0 k = function
| [] -> None
| p :: r -> let (k', v) = p in if eqb0 k k' then Some v else aget eqb0 k r

(** val aset :
    ('a1 -> 'a1 -> bool) -> 'a1 -> 'a2 -> ('a1 * 'a2) list -> ('a1 * 'a2) list **)

let rec aset eqb0 k v = function
| [] -> (k, v) :: []
| p :: r ->
  let (k', v') = p in
  if eqb0 k k' then (k, v) :: r else (k', v') :: (aset eqb0 k v r)

(** val adel :
    ('a1 -> 'a1 -> bool) -> 'a1 -> ('a1 * 'a2) list -> ('a1 * 'a2) list **)

let rec adel eqb0 k = function
| [] -> []
| p :: r ->
  let (k', v') = p in if eqb0 k k' then r else (k', v') :: (adel eqb0 k r)

(** val asum :
    ('a1 -> 'a2 -> bool) -> ('a2 -> coq_Z) -> ('a1 * 'a2) list -> coq_Z **)

let rec asum p val0 = function
| [] -> Z0
| p0 :: r ->
  let (k, v) = p0 in Z.add (if p k v then val0 v else Z0) (asum p val0 r)

type key = { k_debt : coq_Z; k_coll : coq_Z; k_prem : coq_Z; k_who : coq_Z }

(** val keq : key -> key -> bool **)

let keq a b =
  (&&)
    ((&&) ((&&) (Z.eqb a.k_debt b.k_debt) (Z.eqb a.k_coll b.k_coll))
      (Z.eqb a.k_prem b.k_prem)) (Z.eqb a.k_who b.k_who)

type mkt = coq_Z * coq_Z

(** val meq : mkt -> mkt -> bool **)

let meq a b =
  (&&) (Z.eqb (fst a) (fst b)) (Z.eqb (snd a) (snd b))

(** val market : key -> mkt **)

let market k =
  (k.k_debt, k.k_coll)

type lrec = { r_amt : coq_Z; r_denom : coq_Z }

type cfg = { assets : (coq_Z * coq_Z) list; closing_fee : coq_Z;
             withdrawal_fee : coq_Z }

type lstate = { recs : (key * lrec) list; totals : (mkt * coq_Z) list;
                led : ledger }

(** val coq_MOD : coq_Z **)

let coq_MOD =
  Zneg Coq_xH

(** val coq_MAX_PREMIUM : coq_Z **)

let coq_MAX_PREMIUM =
  Zpos (Coq_xO (Coq_xI (Coq_xI (Coq_xI Coq_xH))))

(** val denom_of : cfg -> coq_Z -> coq_Z option **)

let denom_of c asset =
  aget Z.eqb asset c.assets

(** val tot : mkt -> lstate -> coq_Z **)

let tot m s =
  match aget meq m s.totals with
  | Some v -> v
  | None -> Z0

(** val dep : key -> lstate -> coq_Z **)

let dep k s =
  match aget keq k s.recs with
  | Some r -> r.r_amt
  | None -> Z0

(** val fee_of : coq_Z -> coq_Z -> coq_Z option **)

let fee_of rate x =
  match dmul_c rate (dec_of_int x) with
  | Some p -> dtrunc_int_c p
  | None -> None

type lop =
| Deposit of coq_Z * coq_Z * coq_Z * coq_Z * coq_Z * coq_Z
| Cancel of coq_Z * coq_Z * coq_Z * coq_Z
| Withdraw of coq_Z * coq_Z * coq_Z * coq_Z * coq_Z * coq_Z
| AutoFill of key * coq_Z * coq_Z * bool

(** val lift : lres -> coq_Z -> (ledger -> 'a1 outcome) -> 'a1 outcome **)

let lift r code k =
  match r with
  | LOk l -> k l
  | LErr -> Err code
  | LPanic -> Panic

(** val cancel :
    cfg -> lstate -> coq_Z -> coq_Z -> coq_Z -> coq_Z -> lstate outcome **)

let cancel c s who coll debt prem =
  if Z.ltb prem Z0
  then Panic
  else let k = { k_debt = debt; k_coll = coll; k_prem = prem; k_who = who } in
       (match aget keq k s.recs with
        | Some r ->
          let amount = r.r_amt in
          (match if Z.gtb r.r_amt Z0
                 then (match fee_of c.closing_fee r.r_amt with
                       | Some fee ->
                         lift
                           (send s.led coq_MOD who r.r_denom
                             (Z.sub r.r_amt fee)) (Zpos (Coq_xO Coq_xH))
                           (fun l -> Ok l)
                       | None -> Panic)
                 else Ok s.led with
           | Ok l' ->
             Ok { recs = (adel keq k s.recs); totals =
               (aset meq (debt, coll) (Z.sub (tot (debt, coll) s) amount)
                 s.totals); led = l' }
           | Err e -> Err e
           | Panic -> Panic)
        | None -> Err (Zpos Coq_xH))

(** val lstep : cfg -> lstate -> lop -> lstate outcome **)

let lstep c s = function
| Deposit (who, coll, debt, prem, denom, amt) ->
  if (||) ((||) (Z.eqb coll Z0) (Z.eqb debt Z0)) (Z.leb amt Z0)
  then Err (Zpos (Coq_xO (Coq_xO (Coq_xI (Coq_xO Coq_xH)))))
  else if Z.gtb prem coq_MAX_PREMIUM
       then Err (Zpos (Coq_xI Coq_xH))
       else (match denom_of c coll with
             | Some _ ->
               (match denom_of c debt with
                | Some dd ->
                  if negb (Z.eqb dd denom)
                  then Err (Zpos (Coq_xI (Coq_xO Coq_xH)))
                  else if Z.ltb prem Z0
                       then Panic
                       else let k = { k_debt = debt; k_coll = coll; k_prem =
                              prem; k_who = who }
                            in
                            (match aget keq k s.recs with
                             | Some r ->
                               if Z.eqb r.r_denom denom
                               then let r' = { r_amt = (Z.add r.r_amt amt);
                                      r_denom = denom }
                                    in
                                    lift (send s.led who coq_MOD denom amt)
                                      (Zpos (Coq_xO (Coq_xI Coq_xH)))
                                      (fun l' -> Ok { recs =
                                      (aset keq k r' s.recs); totals =
                                      (aset meq (debt, coll)
                                        (Z.add (tot (debt, coll) s) amt)
                                        s.totals); led = l' })
                               else Panic
                             | None ->
                               let r' = { r_amt = amt; r_denom = denom } in
                               lift (send s.led who coq_MOD denom amt) (Zpos
                                 (Coq_xO (Coq_xI Coq_xH))) (fun l' -> Ok
                                 { recs = (aset keq k r' s.recs); totals =
                                 (aset meq (debt, coll)
                                   (Z.add (tot (debt, coll) s) amt) s.totals);
                                 led = l' }))
                | None -> Err (Zpos (Coq_xO (Coq_xO Coq_xH))))
             | None -> Err (Zpos (Coq_xO (Coq_xO Coq_xH))))
| Cancel (who, coll, debt, prem) ->
  if (||) (Z.eqb coll Z0) (Z.eqb debt Z0)
  then Err (Zpos (Coq_xO (Coq_xO (Coq_xI (Coq_xO Coq_xH)))))
  else cancel c s who coll debt prem
| Withdraw (who, coll, debt, prem, denom, amt) ->
  if (||) ((||) (Z.eqb coll Z0) (Z.eqb debt Z0)) (Z.leb amt Z0)
  then Err (Zpos (Coq_xO (Coq_xO (Coq_xI (Coq_xO Coq_xH)))))
  else if Z.ltb prem Z0
       then Panic
       else let k = { k_debt = debt; k_coll = coll; k_prem = prem; k_who =
              who }
            in
            (match aget keq k s.recs with
             | Some r ->
               if Z.eqb amt r.r_amt
               then cancel c s who coll debt prem
               else (match if Z.gtb r.r_amt Z0
                           then (match fee_of c.withdrawal_fee amt with
                                 | Some fee ->
                                   lift
                                     (send s.led coq_MOD who denom
                                       (Z.sub amt fee)) (Zpos (Coq_xO
                                     Coq_xH)) (fun l -> Ok l)
                                 | None -> Panic)
                           else Ok s.led with
                     | Ok l' ->
                       Ok { recs =
                         (aset keq k { r_amt = (Z.sub r.r_amt amt); r_denom =
                           r.r_denom } s.recs); totals =
                         (aset meq (debt, coll)
                           (Z.sub (tot (debt, coll) s) amt) s.totals); led =
                         l' }
                     | Err e -> Err e
                     | Panic -> Panic)
             | None -> Err (Zpos Coq_xH))
| AutoFill (k, d, spent, dutch_ok) ->
  (match aget keq k s.recs with
   | Some r ->
     if negb dutch_ok
     then Err (Zpos (Coq_xO (Coq_xI (Coq_xI (Coq_xI Coq_xH)))))
     else lift (burn_from s.led coq_MOD r.r_denom spent) (Zpos (Coq_xI
            (Coq_xI (Coq_xI (Coq_xI Coq_xH))))) (fun l' ->
            if Z.geb r.r_amt d
            then if Z.eqb r.r_amt d
                 then Ok { recs = (adel keq k s.recs); totals = s.totals;
                        led = l' }
                 else Ok { recs =
                        (aset keq k { r_amt = (Z.sub r.r_amt d); r_denom =
                          r.r_denom } s.recs); totals =
                        (aset meq (market k) (Z.sub (tot (market k) s) d)
                          s.totals); led = l' }
            else Ok { recs = (adel keq k s.recs); totals =
                   (aset meq (market k) (Z.sub (tot (market k) s) r.r_amt)
                     s.totals); led = l' })
   | None -> Ok s)

(** val lapply : cfg -> lstate -> lop -> lstate **)

let lapply c s o =
  match lstep c s o with
  | Ok s' -> s'
  | _ -> s

(** val lrun : cfg -> lstate -> lop list -> lstate **)

let lrun c s ops =
  fold_left (lapply c) ops s

(** val lempty : ledger -> lstate **)

let lempty l =
  { recs = []; totals = []; led = l }

(** val sum_market : mkt -> lstate -> coq_Z **)

let sum_market m s =
  asum (fun k _ -> meq (market k) m) (fun l -> l.r_amt) s.recs

(** val sum_denom : coq_Z -> lstate -> coq_Z **)

let sum_denom d s =
  asum (fun _ r -> Z.eqb r.r_denom d) (fun l -> l.r_amt) s.recs

(** val kf_C11_1 : lstate -> lop -> bool **)

let kf_C11_1 s = function
| Withdraw (who, coll, debt, prem, denom, amt) ->
  (match aget keq { k_debt = debt; k_coll = coll; k_prem = prem; k_who =
           who } s.recs with
   | Some r ->
     (||) (Z.gtb amt r.r_amt)
       ((&&) (negb (Z.eqb amt r.r_amt)) (negb (Z.eqb denom r.r_denom)))
   | None -> false)
| _ -> false

(** val kf_C11_2 : lstate -> lop -> bool **)

let kf_C11_2 s = function
| AutoFill (k, d, _, dutch_ok) ->
  (match aget keq k s.recs with
   | Some r -> (&&) dutch_ok (Z.eqb r.r_amt d)
   | None -> false)
| _ -> false

(** val holds_C11_limit_total : lstate -> mkt -> bool **)

let holds_C11_limit_total s m =
  Z.eqb (tot m s) (sum_market m s)

(** val nonneg_denom : coq_Z -> lstate -> bool **)

let nonneg_denom d s =
  forallb (fun kr ->
    (||) (negb (Z.eqb (snd kr).r_denom d)) (Z.leb Z0 (snd kr).r_amt)) s.recs

(** val holds_C11_limit_custody : lstate -> coq_Z -> coq_Z -> bool **)

let holds_C11_limit_custody s d base =
  (&&) (nonneg_denom d s)
    (Z.leb (sum_denom d s) (Z.sub (s.led coq_MOD d) base))

(** val holds_C11_limit_own : lstate -> lop -> coq_Z -> coq_Z -> bool **)

let holds_C11_limit_own pre o d delta =
  match o with
  | Cancel (who, coll, debt, prem) ->
    (match aget keq { k_debt = debt; k_coll = coll; k_prem = prem; k_who =
             who } pre.recs with
     | Some r ->
       if Z.eqb d r.r_denom
       then Z.leb delta (Z.max Z0 r.r_amt)
       else Z.leb delta Z0
     | None -> Z.leb delta Z0)
  | Withdraw (who, coll, debt, prem, _, _) ->
    (match aget keq { k_debt = debt; k_coll = coll; k_prem = prem; k_who =
             who } pre.recs with
     | Some r ->
       if Z.eqb d r.r_denom
       then Z.leb delta (Z.max Z0 r.r_amt)
       else Z.leb delta Z0
     | None -> Z.leb delta Z0)
  | _ -> true
