open BinInt
open BinNums

val coq_F_ONE : coq_Z

val coq_F_P53 : coq_Z

val rne : coq_Z -> coq_Z -> coq_Z

val spacing : coq_Z -> coq_Z

val rnd64_nn : coq_Z -> coq_Z -> coq_Z

val rnd64 : coq_Z -> coq_Z -> coq_Z

val f_finite : coq_Z -> bool

val coq_P18f : coq_Z

val to64 : coq_Z -> coq_Z

val sub64 : coq_Z -> coq_Z -> coq_Z

val mul64 : coq_Z -> coq_Z -> coq_Z

val fmt18 : coq_Z -> coq_Z

val floor64 : coq_Z -> coq_Z
