open Base
open BinInt
open BinNums
open Datatypes
open DecArith
open List

type acct =
| User of coq_Z
| Escrow of coq_Z * coq_Z
| SwapFee of coq_Z * coq_Z
| GlobalEscrow
| Module
| Reserve of coq_Z * coq_Z
| Dust of coq_Z
| FeeColl of coq_Z

val acct_eqb : acct -> acct -> bool

type ledger = acct -> coq_Z -> coq_Z

val ladd : ledger -> acct -> coq_Z -> coq_Z -> ledger

val send : ledger -> acct -> acct -> coq_Z -> coq_Z -> ledger outcome

val pool_denom : coq_Z -> coq_Z -> coq_Z

val ndigits : nat -> coq_Z -> coq_Z

val char : coq_Z -> coq_Z

val pdown : coq_Z -> coq_Z -> coq_Z

val pup : coq_Z -> coq_Z -> coq_Z

val highest_tick : coq_Z -> coq_Z

val lowest_tick : coq_Z -> coq_Z

val price_limits : coq_Z -> coq_Z -> coq_Z -> coq_Z * coq_Z

val min_coin : coq_Z

val max_coin : coq_Z

val offer_amt : bool -> coq_Z -> coq_Z -> coq_Z

val too_small : coq_Z -> coq_Z -> bool

val fee_amt : coq_Z -> coq_Z -> coq_Z

type params = { pr_fee_rate : coq_Z; pr_tick : coq_Z; pr_ratio : coq_Z;
                pr_max_life : coq_Z; pr_mm_ticks : coq_Z;
                pr_fee_denom : coq_Z; pr_pair_fee : coq_Z;
                pr_pool_fee : coq_Z; pr_min_pc : coq_Z; pr_min_dep : 
                coq_Z; pr_max_pools : coq_Z; pr_batch : coq_Z;
                pr_queue_dur : coq_Z }

type pair = { p_app : coq_Z; p_id : coq_Z; p_base : coq_Z; p_quote : 
              coq_Z; p_last_order : coq_Z; p_last_price : coq_Z option;
              p_batch : coq_Z }

type order = { o_app : coq_Z; o_pair : coq_Z; o_id : coq_Z; o_owner : 
               coq_Z; o_buy : bool; o_type : coq_Z; o_odenom : coq_Z;
               o_ddenom : coq_Z; o_offer : coq_Z; o_rem : coq_Z;
               o_recv : coq_Z; o_price : coq_Z; o_amt : coq_Z;
               o_open : coq_Z; o_batch : coq_Z; o_expire : coq_Z;
               o_status : coq_Z }

type ghost = { g_taken : coq_Z; g_ret_offer : coq_Z; g_ret_fee : coq_Z;
               g_recv : coq_Z; g_fee_fwd : coq_Z;
               g_fills : ((coq_Z * coq_Z) * coq_Z) list }

type entry = order * ghost

type mmindex = { mi_app : coq_Z; mi_owner : coq_Z; mi_pair : coq_Z;
                 mi_ids : coq_Z list }

type pool = { pl_app : coq_Z; pl_id : coq_Z; pl_pair : coq_Z;
              pl_ranged : bool; pl_disabled : bool; pl_last_dep : coq_Z;
              pl_last_wd : coq_Z }

type depreq = { d_app : coq_Z; d_pool : coq_Z; d_id : coq_Z; d_owner : 
                coq_Z; d_x : coq_Z; d_y : coq_Z; d_ax : coq_Z; d_ay : 
                coq_Z; d_pc : coq_Z; d_status : coq_Z }

type wdreq = { w_app : coq_Z; w_pool : coq_Z; w_id : coq_Z; w_owner : 
               coq_Z; w_pc : coq_Z; w_x : coq_Z; w_y : coq_Z; w_status : 
               coq_Z }

type qfarmer = { q_app : coq_Z; q_pool : coq_Z; q_owner : coq_Z;
                 q_coins : (coq_Z * coq_Z) list }

type afarmer = { a_app : coq_Z; a_pool : coq_Z; a_owner : coq_Z; a_amt : coq_Z }

type state = { apps : (coq_Z * params) list; assets : coq_Z list;
               pairs : pair list; last_pair : (coq_Z * coq_Z) list;
               orders : entry list; mmidx : mmindex list; pools : pool list;
               last_pool : (coq_Z * coq_Z) list; deps : depreq list;
               wds : wdreq list; qfs : qfarmer list; afs : afarmer list;
               led : ledger; sup : (coq_Z -> coq_Z);
               owed : (coq_Z -> coq_Z -> coq_Z -> coq_Z);
               surplus : (coq_Z -> coq_Z -> coq_Z -> coq_Z) }

val init : state

val set_orders : state -> entry list -> state

val set_pairs : state -> pair list -> state

val set_last_pair : state -> (coq_Z * coq_Z) list -> state

val set_mmidx : state -> mmindex list -> state

val set_pools : state -> pool list -> state

val set_last_pool : state -> (coq_Z * coq_Z) list -> state

val set_deps : state -> depreq list -> state

val set_wds : state -> wdreq list -> state

val set_qfs : state -> qfarmer list -> state

val set_afs : state -> afarmer list -> state

val set_led : state -> ledger -> state

val set_sup : state -> (coq_Z -> coq_Z) -> state

val set_owed : state -> (coq_Z -> coq_Z -> coq_Z -> coq_Z) -> state

val set_surplus : state -> (coq_Z -> coq_Z -> coq_Z -> coq_Z) -> state

val set_apps : state -> (coq_Z * params) list -> state

val set_assets : state -> coq_Z list -> state

val fadd3 :
  (coq_Z -> coq_Z -> coq_Z -> coq_Z) -> coq_Z -> coq_Z -> coq_Z -> coq_Z ->
  coq_Z -> coq_Z -> coq_Z -> coq_Z

val fadd1 : (coq_Z -> coq_Z) -> coq_Z -> coq_Z -> coq_Z -> coq_Z

val ssend : state -> acct -> acct -> coq_Z -> coq_Z -> state outcome

val aget : (coq_Z * 'a1) list -> coq_Z -> 'a1 option

val aset : (coq_Z * 'a1) list -> coq_Z -> 'a1 -> (coq_Z * 'a1) list

val get_params : state -> coq_Z -> params option

type key3 = (coq_Z * coq_Z) * coq_Z

val k3_eqb : key3 -> key3 -> bool

val k3_ltb : key3 -> key3 -> bool

val okey : order -> key3

val ekey : entry -> key3

val find_order : key3 -> entry list -> entry option

val ins_order : entry -> entry list -> entry list

val upd_order : key3 -> (entry -> entry) -> entry list -> entry list

val find_pair : coq_Z -> coq_Z -> pair list -> pair option

val ins_pair : pair -> pair list -> pair list

val find_pool : coq_Z -> coq_Z -> pool list -> pool option

val ins_pool : pool -> pool list -> pool list

val is_term : coq_Z -> bool

val is_live : coq_Z -> bool

val set_status : order -> coq_Z -> order

val fee_reserve : coq_Z -> order -> coq_Z

val finish_calc : coq_Z -> entry -> coq_Z -> (entry * coq_Z) * coq_Z

val finish_entry : state -> entry -> coq_Z -> state outcome

type order_msg = { m_app : coq_Z; m_owner : coq_Z; m_pair : coq_Z;
                   m_buy : bool; m_dir_ok : bool; m_odenom : coq_Z;
                   m_oamt : coq_Z; m_ddenom : coq_Z; m_price : coq_Z;
                   m_amt : coq_Z; m_life : coq_Z }

val vb_limit : order_msg -> bool

val vb_market : order_msg -> bool

val new_ghost : coq_Z -> ghost

val place :
  state -> order_msg -> coq_Z -> pair -> coq_Z -> coq_Z -> coq_Z -> coq_Z ->
  state outcome

val limit_order : state -> order_msg -> coq_Z -> state outcome

val market_order : state -> order_msg -> coq_Z -> state outcome

val has_app : state -> coq_Z -> bool

val cancel_order : state -> coq_Z -> coq_Z -> coq_Z -> coq_Z -> state outcome

val nodupz : coq_Z list -> bool

val fold_m :
  (state -> 'a1 -> state outcome) -> 'a1 list -> state -> state outcome

val cancel_all : state -> coq_Z -> coq_Z -> coq_Z list -> state outcome

val find_mm : coq_Z -> coq_Z -> coq_Z -> mmindex list -> mmindex option

val del_mm : coq_Z -> coq_Z -> coq_Z -> mmindex list -> mmindex list

val cancel_mm_inner : state -> coq_Z -> coq_Z -> pair -> bool -> state outcome

val cancel_mm : state -> coq_Z -> coq_Z -> coq_Z -> state outcome

type mm_msg = { mm_app : coq_Z; mm_owner : coq_Z; mm_pair : coq_Z;
                mm_max_sell : coq_Z; mm_min_sell : coq_Z;
                mm_sell_amt : coq_Z; mm_max_buy : coq_Z; mm_min_buy : 
                coq_Z; mm_buy_amt : coq_Z; mm_life : coq_Z }

val vb_mm : mm_msg -> bool

val mm_prices :
  bool -> coq_Z -> coq_Z -> coq_Z -> coq_Z -> nat -> coq_Z -> coq_Z option ->
  coq_Z list

val mm_ticks :
  bool -> coq_Z -> coq_Z -> coq_Z -> coq_Z -> coq_Z ->
  ((coq_Z * coq_Z) * coq_Z) list option

val sum_offer : ((coq_Z * coq_Z) * coq_Z) list -> coq_Z

val mm_place :
  coq_Z -> coq_Z -> coq_Z -> coq_Z -> pair -> bool ->
  ((coq_Z * coq_Z) * coq_Z) list -> coq_Z -> entry list -> (entry
  list * coq_Z list) * coq_Z

val mm_order : state -> mm_msg -> coq_Z -> state outcome

type batch_env = { b_pair : coq_Z; b_matched : bool; b_price : coq_Z;
                   b_fills : (((coq_Z * coq_Z) * coq_Z) * coq_Z) list;
                   b_pools : ((coq_Z * coq_Z) * coq_Z) list; b_dust : 
                   coq_Z }

val set_fill : order -> coq_Z -> coq_Z -> coq_Z -> coq_Z -> order

val apply_fill :
  state -> coq_Z -> coq_Z -> (((coq_Z * coq_Z) * coq_Z) * coq_Z) -> state
  outcome

val apply_pool_flow :
  bool -> coq_Z -> pair -> state -> ((coq_Z * coq_Z) * coq_Z) -> state outcome

val is_depleted : bool -> coq_Z -> coq_Z -> coq_Z -> bool

val pool_depleted : state -> pair -> pool -> bool

val disable : pool -> pool

val execute_matching : coq_Z -> state -> pair -> batch_env -> state outcome

val no_batch : coq_Z -> batch_env

val find_batch : coq_Z -> batch_env list -> batch_env

val sweep_orders : coq_Z -> coq_Z -> state -> state outcome

val pool_pair : state -> pool -> pair option

val mint : state -> coq_Z -> coq_Z -> state

val create_pair : state -> coq_Z -> coq_Z -> coq_Z -> coq_Z -> state outcome

val active_pools : state -> coq_Z -> coq_Z -> pool list

val new_pool :
  state -> params -> coq_Z -> coq_Z -> pair -> bool -> coq_Z -> coq_Z ->
  coq_Z -> state outcome

val create_pool :
  state -> coq_Z -> coq_Z -> coq_Z -> coq_Z -> coq_Z -> bool -> coq_Z ->
  state outcome

val create_ranged :
  state -> coq_Z -> coq_Z -> coq_Z -> coq_Z -> coq_Z -> bool -> coq_Z ->
  coq_Z -> coq_Z -> state outcome

val deposit_req :
  state -> coq_Z -> coq_Z -> coq_Z -> coq_Z -> coq_Z -> (state * depreq)
  outcome

val withdraw_req :
  state -> coq_Z -> coq_Z -> coq_Z -> coq_Z -> (state * wdreq) outcome

val dep_eqb : depreq -> depreq -> bool

val wd_eqb : wdreq -> wdreq -> bool

val put_dep : state -> depreq -> state

val put_wd : state -> wdreq -> state

val fail_dep : state -> pair -> depreq -> state outcome

val exec_deposit : state -> depreq -> coq_Z -> coq_Z -> coq_Z -> state outcome

val fail_wd : state -> wdreq -> state outcome

val exec_withdraw : state -> wdreq -> coq_Z -> coq_Z -> state outcome

val find_qf : coq_Z -> coq_Z -> coq_Z -> qfarmer list -> qfarmer option

val find_af : coq_Z -> coq_Z -> coq_Z -> afarmer list -> afarmer option

val put_qf : qfarmer -> qfarmer list -> qfarmer list

val del_af : coq_Z -> coq_Z -> coq_Z -> afarmer list -> afarmer list

val put_af : afarmer -> afarmer list -> afarmer list

val farm : state -> coq_Z -> coq_Z -> coq_Z -> coq_Z -> coq_Z -> state outcome

val unfarm_queue :
  (coq_Z * coq_Z) list -> coq_Z -> (coq_Z * coq_Z) list * coq_Z

val take_nonzero : (coq_Z * coq_Z) list -> (coq_Z * coq_Z) list

val unfarm : state -> coq_Z -> coq_Z -> coq_Z -> coq_Z -> state outcome

val process_qf : coq_Z -> coq_Z -> state -> qfarmer -> state

val process_queued : coq_Z -> coq_Z -> state -> state

type app_env = { e_app : coq_Z; e_batches : batch_env list;
                 e_deps : ((((coq_Z * coq_Z) * coq_Z) * coq_Z) * coq_Z) list;
                 e_wds : (((coq_Z * coq_Z) * coq_Z) * coq_Z) list }

val find_dep_env :
  coq_Z -> coq_Z -> ((((coq_Z * coq_Z) * coq_Z) * coq_Z) * coq_Z) list ->
  (coq_Z * coq_Z) * coq_Z

val find_wd_env :
  coq_Z -> coq_Z -> (((coq_Z * coq_Z) * coq_Z) * coq_Z) list -> coq_Z * coq_Z

val end_app : coq_Z -> state -> app_env -> state outcome

val find_app_env : coq_Z -> app_env list -> app_env

val atomic : state -> state outcome -> state

val end_block : coq_Z -> coq_Z -> app_env list -> state -> state

val begin_app : coq_Z -> state -> state

val begin_block : state -> state

type op =
| OAddApp of coq_Z * params
| OAddAsset of coq_Z
| OFund of coq_Z * coq_Z * coq_Z
| OCreatePair of coq_Z * coq_Z * coq_Z * coq_Z
| OCreatePool of coq_Z * coq_Z * coq_Z * coq_Z * coq_Z * bool * coq_Z
| OCreateRanged of coq_Z * coq_Z * coq_Z * coq_Z * coq_Z * bool * coq_Z
   * coq_Z * coq_Z
| OLimit of order_msg * coq_Z
| OMarket of order_msg * coq_Z
| OMM of mm_msg * coq_Z
| OCancel of coq_Z * coq_Z * coq_Z * coq_Z
| OCancelAll of coq_Z * coq_Z * coq_Z list
| OCancelMM of coq_Z * coq_Z * coq_Z
| ODeposit of coq_Z * coq_Z * coq_Z * coq_Z * coq_Z
| OWithdraw of coq_Z * coq_Z * coq_Z * coq_Z
| OFarm of coq_Z * coq_Z * coq_Z * coq_Z * coq_Z
| OUnfarm of coq_Z * coq_Z * coq_Z * coq_Z
| ODepositAndFarm of coq_Z * coq_Z * coq_Z * coq_Z * coq_Z * coq_Z * 
   coq_Z * coq_Z * coq_Z
| OUnfarmAndWithdraw of coq_Z * coq_Z * coq_Z * coq_Z * coq_Z * coq_Z
| OBegin
| OEnd of coq_Z * coq_Z * app_env list

val deposit_and_farm :
  state -> coq_Z -> coq_Z -> coq_Z -> coq_Z -> coq_Z -> coq_Z -> coq_Z ->
  coq_Z -> coq_Z -> state outcome

val unfarm_and_withdraw :
  state -> coq_Z -> coq_Z -> coq_Z -> coq_Z -> coq_Z -> coq_Z -> state outcome

val step : state -> op -> state outcome

val apply_op : state -> op -> state

val order_net_spent : coq_Z -> order -> coq_Z

val holds_C07_order : coq_Z -> order -> coq_Z -> coq_Z -> coq_Z -> bool

val holds_C07_account :
  (coq_Z -> coq_Z) -> order list -> coq_Z -> coq_Z -> bool

val escrow_share : coq_Z -> order -> coq_Z

val holds_C07_escrow : coq_Z -> order list -> coq_Z -> coq_Z -> coq_Z -> bool

val exec_fee : coq_Z -> order -> coq_Z

val holds_C07_mm : coq_Z list -> bool

val kf_C07_1 : coq_Z -> coq_Z -> bool

val holds_C07_feecoll : coq_Z -> order list -> coq_Z -> coq_Z -> bool

val batch_base_net : (coq_Z -> bool) -> batch_env -> coq_Z

val batch_quote_net : (coq_Z -> bool) -> batch_env -> coq_Z

val kf_C05_1_via_fills : coq_Z -> bool

val holds_C04_escrow : coq_Z -> coq_Z -> bool

val holds_C04_farmed : coq_Z -> coq_Z -> coq_Z -> bool

val holds_C04_disabled : coq_Z -> bool -> bool

val holds_C04_supply : coq_Z -> coq_Z -> coq_Z -> coq_Z -> coq_Z -> bool
