open BinNums
open BinPos
open Datatypes

module N =
 struct
  (** val succ_double : coq_N -> coq_N **)

  let succ_double = function
  | N0 -> Npos Coq_xH
  | Npos p -> Npos (Coq_xI p)

  (** val double : coq_N -> coq_N **)

  let double = function
  | N0 -> N0
  | Npos p -> Npos (Coq_xO p)

  (** val sub : coq_N -> coq_N -> coq_N **)

  let sub n m =
    match n with
    | N0 -> N0
    | Npos n' ->
      (match m with
       | N0 -> n
       | Npos m' ->
         (match Pos.sub_mask n' m' with
          | Pos.IsPos p -> Npos p
          | _ -> N0))

  (** val compare : coq_N -> coq_N -> comparison **)

  let compare n m =
    match n with
    | N0 -> (match m with
             | N0 -> Eq
             | Npos _ -> Lt)
    | Npos n' -> (match m with
                  | N0 -> Gt
                  | Npos m' -> Pos.compare n' m')

  (** val leb : coq_N -> coq_N -> bool **)

  let leb x y =
    match compare x y with
    | Gt -> false
    | _ -> true

  (** val pos_div_eucl : positive -> coq_N -> coq_N * coq_N **)

  let rec pos_div_eucl a b =
    match a with
    | Coq_xI a' ->
      let (q, r) = pos_div_eucl a' b in
      let r' = succ_double r in
      if leb b r' then ((succ_double q), (sub r' b)) else ((double q), r')
    | Coq_xO a' ->
      let (q, r) = pos_div_eucl a' b in
      let r' = double r in
      if leb b r' then ((succ_double q), (sub r' b)) else ((double q), r')
    | Coq_xH ->
      (match b with
       | N0 -> (N0, (Npos Coq_xH))
       | Npos p ->
         (match p with
          | Coq_xH -> ((Npos Coq_xH), N0)
          | _ -> (N0, (Npos Coq_xH))))
 end
