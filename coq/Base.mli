open BinInt
open BinNums
open Datatypes

type 'a outcome =
| Ok of 'a
| Err of coq_Z
| Panic

val obind : 'a1 outcome -> ('a1 -> 'a2 outcome) -> 'a2 outcome

val nth_z : 'a1 list -> nat -> 'a1 option

val set_nth : 'a1 list -> nat -> 'a1 -> 'a1 list option

val zlen : 'a1 list -> coq_Z

val zsum : coq_Z list -> coq_Z

val two64 : coq_Z
