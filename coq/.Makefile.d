Lib/Atomic.vo Lib/Atomic.glob Lib/Atomic.v.beautified Lib/Atomic.required_vo: Lib/Atomic.v Lib/Base.vo
Lib/Atomic.vio: Lib/Atomic.v Lib/Base.vio
Lib/Atomic.vos Lib/Atomic.vok Lib/Atomic.required_vos: Lib/Atomic.v Lib/Base.vos
Lib/Base.vo Lib/Base.glob Lib/Base.v.beautified Lib/Base.required_vo: Lib/Base.v 
Lib/Base.vio: Lib/Base.v 
Lib/Base.vos Lib/Base.vok Lib/Base.required_vos: Lib/Base.v 
Lib/DecArith.vo Lib/DecArith.glob Lib/DecArith.v.beautified Lib/DecArith.required_vo: Lib/DecArith.v Lib/Base.vo
Lib/DecArith.vio: Lib/DecArith.v Lib/Base.vio
Lib/DecArith.vos Lib/DecArith.vok Lib/DecArith.required_vos: Lib/DecArith.v Lib/Base.vos
Lib/DecFacts.vo Lib/DecFacts.glob Lib/DecFacts.v.beautified Lib/DecFacts.required_vo: Lib/DecFacts.v Lib/Base.vo Lib/DecArith.vo
Lib/DecFacts.vio: Lib/DecFacts.v Lib/Base.vio Lib/DecArith.vio
Lib/DecFacts.vos Lib/DecFacts.vok Lib/DecFacts.required_vos: Lib/DecFacts.v Lib/Base.vos Lib/DecArith.vos
Lib/DecFacts2.vo Lib/DecFacts2.glob Lib/DecFacts2.v.beautified Lib/DecFacts2.required_vo: Lib/DecFacts2.v Lib/Base.vo Lib/DecArith.vo Lib/DecFacts.vo
Lib/DecFacts2.vio: Lib/DecFacts2.v Lib/Base.vio Lib/DecArith.vio Lib/DecFacts.vio
Lib/DecFacts2.vos Lib/DecFacts2.vok Lib/DecFacts2.required_vos: Lib/DecFacts2.v Lib/Base.vos Lib/DecArith.vos Lib/DecFacts.vos
Lib/F64.vo Lib/F64.glob Lib/F64.v.beautified Lib/F64.required_vo: Lib/F64.v Lib/Base.vo
Lib/F64.vio: Lib/F64.v Lib/Base.vio
Lib/F64.vos Lib/F64.vok Lib/F64.required_vos: Lib/F64.v Lib/Base.vos
Model/Accrual.vo Model/Accrual.glob Model/Accrual.v.beautified Model/Accrual.required_vo: Model/Accrual.v Lib/Base.vo Lib/DecArith.vo Lib/F64.vo
Model/Accrual.vio: Model/Accrual.v Lib/Base.vio Lib/DecArith.vio Lib/F64.vio
Model/Accrual.vos Model/Accrual.vok Model/Accrual.required_vos: Model/Accrual.v Lib/Base.vos Lib/DecArith.vos Lib/F64.vos
Model/Gauge.vo Model/Gauge.glob Model/Gauge.v.beautified Model/Gauge.required_vo: Model/Gauge.v Lib/Base.vo Lib/DecArith.vo Lib/F64.vo
Model/Gauge.vio: Model/Gauge.v Lib/Base.vio Lib/DecArith.vio Lib/F64.vio
Model/Gauge.vos Model/Gauge.vok Model/Gauge.required_vos: Model/Gauge.v Lib/Base.vos Lib/DecArith.vos Lib/F64.vos
Model/Market.vo Model/Market.glob Model/Market.v.beautified Model/Market.required_vo: Model/Market.v Lib/Base.vo
Model/Market.vio: Model/Market.v Lib/Base.vio
Model/Market.vos Model/Market.vok Model/Market.required_vos: Model/Market.v Lib/Base.vos
Model/Rates.vo Model/Rates.glob Model/Rates.v.beautified Model/Rates.required_vo: Model/Rates.v Lib/Base.vo Lib/DecArith.vo
Model/Rates.vio: Model/Rates.v Lib/Base.vio Lib/DecArith.vio
Model/Rates.vos Model/Rates.vok Model/Rates.required_vos: Model/Rates.v Lib/Base.vos Lib/DecArith.vos
Proofs/AccrualProofs.vo Proofs/AccrualProofs.glob Proofs/AccrualProofs.v.beautified Proofs/AccrualProofs.required_vo: Proofs/AccrualProofs.v Lib/Base.vo Lib/DecArith.vo Lib/DecFacts.vo Lib/DecFacts2.vo Lib/F64.vo Model/Accrual.vo
Proofs/AccrualProofs.vio: Proofs/AccrualProofs.v Lib/Base.vio Lib/DecArith.vio Lib/DecFacts.vio Lib/DecFacts2.vio Lib/F64.vio Model/Accrual.vio
Proofs/AccrualProofs.vos Proofs/AccrualProofs.vok Proofs/AccrualProofs.required_vos: Proofs/AccrualProofs.v Lib/Base.vos Lib/DecArith.vos Lib/DecFacts.vos Lib/DecFacts2.vos Lib/F64.vos Model/Accrual.vos
Proofs/GaugeProofs.vo Proofs/GaugeProofs.glob Proofs/GaugeProofs.v.beautified Proofs/GaugeProofs.required_vo: Proofs/GaugeProofs.v Lib/Base.vo Lib/DecArith.vo Lib/DecFacts.vo Lib/DecFacts2.vo Lib/F64.vo Model/Gauge.vo
Proofs/GaugeProofs.vio: Proofs/GaugeProofs.v Lib/Base.vio Lib/DecArith.vio Lib/DecFacts.vio Lib/DecFacts2.vio Lib/F64.vio Model/Gauge.vio
Proofs/GaugeProofs.vos Proofs/GaugeProofs.vok Proofs/GaugeProofs.required_vos: Proofs/GaugeProofs.v Lib/Base.vos Lib/DecArith.vos Lib/DecFacts.vos Lib/DecFacts2.vos Lib/F64.vos Model/Gauge.vos
Proofs/MarketProofs.vo Proofs/MarketProofs.glob Proofs/MarketProofs.v.beautified Proofs/MarketProofs.required_vo: Proofs/MarketProofs.v Lib/Base.vo Model/Market.vo
Proofs/MarketProofs.vio: Proofs/MarketProofs.v Lib/Base.vio Model/Market.vio
Proofs/MarketProofs.vos Proofs/MarketProofs.vok Proofs/MarketProofs.required_vos: Proofs/MarketProofs.v Lib/Base.vos Model/Market.vos
Proofs/RatesProofs.vo Proofs/RatesProofs.glob Proofs/RatesProofs.v.beautified Proofs/RatesProofs.required_vo: Proofs/RatesProofs.v Lib/Base.vo Lib/DecArith.vo Lib/DecFacts.vo Lib/DecFacts2.vo Model/Rates.vo
Proofs/RatesProofs.vio: Proofs/RatesProofs.v Lib/Base.vio Lib/DecArith.vio Lib/DecFacts.vio Lib/DecFacts2.vio Model/Rates.vio
Proofs/RatesProofs.vos Proofs/RatesProofs.vok Proofs/RatesProofs.required_vos: Proofs/RatesProofs.v Lib/Base.vos Lib/DecArith.vos Lib/DecFacts.vos Lib/DecFacts2.vos Model/Rates.vos
Properties/C17.vo Properties/C17.glob Properties/C17.v.beautified Properties/C17.required_vo: Properties/C17.v Lib/Base.vo Model/Market.vo Proofs/MarketProofs.vo
Properties/C17.vio: Properties/C17.v Lib/Base.vio Model/Market.vio Proofs/MarketProofs.vio
Properties/C17.vos Properties/C17.vok Properties/C17.required_vos: Properties/C17.v Lib/Base.vos Model/Market.vos Proofs/MarketProofs.vos
Properties/C18.vo Properties/C18.glob Properties/C18.v.beautified Properties/C18.required_vo: Properties/C18.v Lib/Base.vo Lib/DecArith.vo Lib/F64.vo Model/Accrual.vo Model/Rates.vo Proofs/AccrualProofs.vo Proofs/RatesProofs.vo
Properties/C18.vio: Properties/C18.v Lib/Base.vio Lib/DecArith.vio Lib/F64.vio Model/Accrual.vio Model/Rates.vio Proofs/AccrualProofs.vio Proofs/RatesProofs.vio
Properties/C18.vos Properties/C18.vok Properties/C18.required_vos: Properties/C18.v Lib/Base.vos Lib/DecArith.vos Lib/F64.vos Model/Accrual.vos Model/Rates.vos Proofs/AccrualProofs.vos Proofs/RatesProofs.vos
Properties/C19.vo Properties/C19.glob Properties/C19.v.beautified Properties/C19.required_vo: Properties/C19.v Lib/Base.vo Lib/DecArith.vo Lib/F64.vo Model/Gauge.vo Proofs/GaugeProofs.vo
Properties/C19.vio: Properties/C19.v Lib/Base.vio Lib/DecArith.vio Lib/F64.vio Model/Gauge.vio Proofs/GaugeProofs.vio
Properties/C19.vos Properties/C19.vok Properties/C19.required_vos: Properties/C19.v Lib/Base.vos Lib/DecArith.vos Lib/F64.vos Model/Gauge.vos Proofs/GaugeProofs.vos
Extract/Extract.vo Extract/Extract.glob Extract/Extract.v.beautified Extract/Extract.required_vo: Extract/Extract.v Model/Accrual.vo Lib/Base.vo Lib/DecArith.vo Lib/F64.vo Model/Gauge.vo Model/Market.vo Model/Rates.vo
Extract/Extract.vio: Extract/Extract.v Model/Accrual.vio Lib/Base.vio Lib/DecArith.vio Lib/F64.vio Model/Gauge.vio Model/Market.vio Model/Rates.vio
Extract/Extract.vos Extract/Extract.vok Extract/Extract.required_vos: Extract/Extract.v Model/Accrual.vos Lib/Base.vos Lib/DecArith.vos Lib/F64.vos Model/Gauge.vos Model/Market.vos Model/Rates.vos
