Lib/Atomic.vo Lib/Atomic.glob Lib/Atomic.v.beautified Lib/Atomic.required_vo: Lib/Atomic.v Lib/Base.vo
Lib/Atomic.vio: Lib/Atomic.v Lib/Base.vio
Lib/Atomic.vos Lib/Atomic.vok Lib/Atomic.required_vos: Lib/Atomic.v Lib/Base.vos
Lib/Base.vo Lib/Base.glob Lib/Base.v.beautified Lib/Base.required_vo: Lib/Base.v 
Lib/Base.vio: Lib/Base.v 
Lib/Base.vos Lib/Base.vok Lib/Base.required_vos: Lib/Base.v 
Lib/DecArith.vo Lib/DecArith.glob Lib/DecArith.v.beautified Lib/DecArith.required_vo: Lib/DecArith.v Lib/Base.vo
Lib/DecArith.vio: Lib/DecArith.v Lib/Base.vio
Lib/DecArith.vos Lib/DecArith.vok Lib/DecArith.required_vos: Lib/DecArith.v Lib/Base.vos
Lib/DecFacts.vo Lib/DecFacts.glob Lib/DecFacts.v.beautified Lib/DecFacts.required_vo: Lib/DecFacts.v Lib/Base.vo Lib/DecArith.vo
Lib/DecFacts.vio: Lib/DecFacts.v Lib/Base.vio Lib/DecArith.vio
Lib/DecFacts.vos Lib/DecFacts.vok Lib/DecFacts.required_vos: Lib/DecFacts.v Lib/Base.vos Lib/DecArith.vos
Lib/DecFacts2.vo Lib/DecFacts2.glob Lib/DecFacts2.v.beautified Lib/DecFacts2.required_vo: Lib/DecFacts2.v Lib/Base.vo Lib/DecArith.vo Lib/DecFacts.vo
Lib/DecFacts2.vio: Lib/DecFacts2.v Lib/Base.vio Lib/DecArith.vio Lib/DecFacts.vio
Lib/DecFacts2.vos Lib/DecFacts2.vok Lib/DecFacts2.required_vos: Lib/DecFacts2.v Lib/Base.vos Lib/DecArith.vos Lib/DecFacts.vos
Model/Market.vo Model/Market.glob Model/Market.v.beautified Model/Market.required_vo: Model/Market.v Lib/Base.vo
Model/Market.vio: Model/Market.v Lib/Base.vio
Model/Market.vos Model/Market.vok Model/Market.required_vos: Model/Market.v Lib/Base.vos
Model/Pool.vo Model/Pool.glob Model/Pool.v.beautified Model/Pool.required_vo: Model/Pool.v Lib/Base.vo Lib/DecArith.vo
Model/Pool.vio: Model/Pool.v Lib/Base.vio Lib/DecArith.vio
Model/Pool.vos Model/Pool.vok Model/Pool.required_vos: Model/Pool.v Lib/Base.vos Lib/DecArith.vos
Proofs/MarketProofs.vo Proofs/MarketProofs.glob Proofs/MarketProofs.v.beautified Proofs/MarketProofs.required_vo: Proofs/MarketProofs.v Lib/Base.vo Model/Market.vo
Proofs/MarketProofs.vio: Proofs/MarketProofs.v Lib/Base.vio Model/Market.vio
Proofs/MarketProofs.vos Proofs/MarketProofs.vok Proofs/MarketProofs.required_vos: Proofs/MarketProofs.v Lib/Base.vos Model/Market.vos
Proofs/PoolProofs.vo Proofs/PoolProofs.glob Proofs/PoolProofs.v.beautified Proofs/PoolProofs.required_vo: Proofs/PoolProofs.v Lib/Base.vo Lib/DecArith.vo Lib/DecFacts.vo Lib/DecFacts2.vo Model/Pool.vo
Proofs/PoolProofs.vio: Proofs/PoolProofs.v Lib/Base.vio Lib/DecArith.vio Lib/DecFacts.vio Lib/DecFacts2.vio Model/Pool.vio
Proofs/PoolProofs.vos Proofs/PoolProofs.vok Proofs/PoolProofs.required_vos: Proofs/PoolProofs.v Lib/Base.vos Lib/DecArith.vos Lib/DecFacts.vos Lib/DecFacts2.vos Model/Pool.vos
Properties/C06.vo Properties/C06.glob Properties/C06.v.beautified Properties/C06.required_vo: Properties/C06.v Lib/Base.vo Lib/DecArith.vo Lib/DecFacts.vo Model/Pool.vo Proofs/PoolProofs.vo
Properties/C06.vio: Properties/C06.v Lib/Base.vio Lib/DecArith.vio Lib/DecFacts.vio Model/Pool.vio Proofs/PoolProofs.vio
Properties/C06.vos Properties/C06.vok Properties/C06.required_vos: Properties/C06.v Lib/Base.vos Lib/DecArith.vos Lib/DecFacts.vos Model/Pool.vos Proofs/PoolProofs.vos
Properties/C17.vo Properties/C17.glob Properties/C17.v.beautified Properties/C17.required_vo: Properties/C17.v Lib/Base.vo Model/Market.vo Proofs/MarketProofs.vo
Properties/C17.vio: Properties/C17.v Lib/Base.vio Model/Market.vio Proofs/MarketProofs.vio
Properties/C17.vos Properties/C17.vok Properties/C17.required_vos: Properties/C17.v Lib/Base.vos Model/Market.vos Proofs/MarketProofs.vos
Extract/Extract.vo Extract/Extract.glob Extract/Extract.v.beautified Extract/Extract.required_vo: Extract/Extract.v Lib/Base.vo Lib/DecArith.vo Model/Market.vo Model/Pool.vo
Extract/Extract.vio: Extract/Extract.v Lib/Base.vio Lib/DecArith.vio Model/Market.vio Model/Pool.vio
Extract/Extract.vos Extract/Extract.vok Extract/Extract.required_vos: Extract/Extract.v Lib/Base.vos Lib/DecArith.vos Model/Market.vos Model/Pool.vos
