Lib/Atomic.vo Lib/Atomic.glob Lib/Atomic.v.beautified Lib/Atomic.required_vo: Lib/Atomic.v Lib/Base.vo
Lib/Atomic.vio: Lib/Atomic.v Lib/Base.vio
Lib/Atomic.vos Lib/Atomic.vok Lib/Atomic.required_vos: Lib/Atomic.v Lib/Base.vos
Lib/Base.vo Lib/Base.glob Lib/Base.v.beautified Lib/Base.required_vo: Lib/Base.v 
Lib/Base.vio: Lib/Base.v 
Lib/Base.vos Lib/Base.vok Lib/Base.required_vos: Lib/Base.v 
Lib/DecArith.vo Lib/DecArith.glob Lib/DecArith.v.beautified Lib/DecArith.required_vo: Lib/DecArith.v Lib/Base.vo
Lib/DecArith.vio: Lib/DecArith.v Lib/Base.vio
Lib/DecArith.vos Lib/DecArith.vok Lib/DecArith.required_vos: Lib/DecArith.v Lib/Base.vos
Lib/DecFacts.vo Lib/DecFacts.glob Lib/DecFacts.v.beautified Lib/DecFacts.required_vo: Lib/DecFacts.v Lib/Base.vo Lib/DecArith.vo
Lib/DecFacts.vio: Lib/DecFacts.v Lib/Base.vio Lib/DecArith.vio
Lib/DecFacts.vos Lib/DecFacts.vok Lib/DecFacts.required_vos: Lib/DecFacts.v Lib/Base.vos Lib/DecArith.vos
Model/Liquidity.vo Model/Liquidity.glob Model/Liquidity.v.beautified Model/Liquidity.required_vo: Model/Liquidity.v Lib/Base.vo Lib/DecArith.vo
Model/Liquidity.vio: Model/Liquidity.v Lib/Base.vio Lib/DecArith.vio
Model/Liquidity.vos Model/Liquidity.vok Model/Liquidity.required_vos: Model/Liquidity.v Lib/Base.vos Lib/DecArith.vos
Model/Market.vo Model/Market.glob Model/Market.v.beautified Model/Market.required_vo: Model/Market.v Lib/Base.vo
Model/Market.vio: Model/Market.v Lib/Base.vio
Model/Market.vos Model/Market.vok Model/Market.required_vos: Model/Market.v Lib/Base.vos
Proofs/MarketProofs.vo Proofs/MarketProofs.glob Proofs/MarketProofs.v.beautified Proofs/MarketProofs.required_vo: Proofs/MarketProofs.v Lib/Base.vo Model/Market.vo
Proofs/MarketProofs.vio: Proofs/MarketProofs.v Lib/Base.vio Model/Market.vio
Proofs/MarketProofs.vos Proofs/MarketProofs.vok Proofs/MarketProofs.required_vos: Proofs/MarketProofs.v Lib/Base.vos Model/Market.vos
Properties/C17.vo Properties/C17.glob Properties/C17.v.beautified Properties/C17.required_vo: Properties/C17.v Lib/Base.vo Model/Market.vo Proofs/MarketProofs.vo
Properties/C17.vio: Properties/C17.v Lib/Base.vio Model/Market.vio Proofs/MarketProofs.vio
Properties/C17.vos Properties/C17.vok Properties/C17.required_vos: Properties/C17.v Lib/Base.vos Model/Market.vos Proofs/MarketProofs.vos
Extract/Extract.vo Extract/Extract.glob Extract/Extract.v.beautified Extract/Extract.required_vo: Extract/Extract.v Lib/Base.vo Lib/DecArith.vo Model/Liquidity.vo Model/Market.vo
Extract/Extract.vio: Extract/Extract.v Lib/Base.vio Lib/DecArith.vio Model/Liquidity.vio Model/Market.vio
Extract/Extract.vos Extract/Extract.vok Extract/Extract.required_vos: Extract/Extract.v Lib/Base.vos Lib/DecArith.vos Model/Liquidity.vos Model/Market.vos
