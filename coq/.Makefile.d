Lib/Atomic.vo Lib/Atomic.glob Lib/Atomic.v.beautified Lib/Atomic.required_vo: Lib/Atomic.v Lib/Base.vo
Lib/Atomic.vio: Lib/Atomic.v Lib/Base.vio
Lib/Atomic.vos Lib/Atomic.vok Lib/Atomic.required_vos: Lib/Atomic.v Lib/Base.vos
Lib/Base.vo Lib/Base.glob Lib/Base.v.beautified Lib/Base.required_vo: Lib/Base.v 
Lib/Base.vio: Lib/Base.v 
Lib/Base.vos Lib/Base.vok Lib/Base.required_vos: Lib/Base.v 
Lib/DecArith.vo Lib/DecArith.glob Lib/DecArith.v.beautified Lib/DecArith.required_vo: Lib/DecArith.v Lib/Base.vo
Lib/DecArith.vio: Lib/DecArith.v Lib/Base.vio
Lib/DecArith.vos Lib/DecArith.vok Lib/DecArith.required_vos: Lib/DecArith.v Lib/Base.vos
Lib/DecFacts.vo Lib/DecFacts.glob Lib/DecFacts.v.beautified Lib/DecFacts.required_vo: Lib/DecFacts.v Lib/Base.vo Lib/DecArith.vo
Lib/DecFacts.vio: Lib/DecFacts.v Lib/Base.vio Lib/DecArith.vio
Lib/DecFacts.vos Lib/DecFacts.vok Lib/DecFacts.required_vos: Lib/DecFacts.v Lib/Base.vos Lib/DecArith.vos
Model/Guards.vo Model/Guards.glob Model/Guards.v.beautified Model/Guards.required_vo: Model/Guards.v Lib/Base.vo Lib/Atomic.vo
Model/Guards.vio: Model/Guards.v Lib/Base.vio Lib/Atomic.vio
Model/Guards.vos Model/Guards.vok Model/Guards.required_vos: Model/Guards.v Lib/Base.vos Lib/Atomic.vos
Model/GuardsCheck.vo Model/GuardsCheck.glob Model/GuardsCheck.v.beautified Model/GuardsCheck.required_vo: Model/GuardsCheck.v Lib/Base.vo Lib/Atomic.vo Model/Guards.vo Gen/GuardTable.vo Gen/MsgTypes.vo Gen/WasmTable.vo Gen/SweepGuards.vo
Model/GuardsCheck.vio: Model/GuardsCheck.v Lib/Base.vio Lib/Atomic.vio Model/Guards.vio Gen/GuardTable.vio Gen/MsgTypes.vio Gen/WasmTable.vio Gen/SweepGuards.vio
Model/GuardsCheck.vos Model/GuardsCheck.vok Model/GuardsCheck.required_vos: Model/GuardsCheck.v Lib/Base.vos Lib/Atomic.vos Model/Guards.vos Gen/GuardTable.vos Gen/MsgTypes.vos Gen/WasmTable.vos Gen/SweepGuards.vos
Model/Market.vo Model/Market.glob Model/Market.v.beautified Model/Market.required_vo: Model/Market.v Lib/Base.vo
Model/Market.vio: Model/Market.v Lib/Base.vio
Model/Market.vos Model/Market.vok Model/Market.required_vos: Model/Market.v Lib/Base.vos
Proofs/GuardsProofs.vo Proofs/GuardsProofs.glob Proofs/GuardsProofs.v.beautified Proofs/GuardsProofs.required_vo: Proofs/GuardsProofs.v Lib/Base.vo Lib/Atomic.vo Model/Guards.vo
Proofs/GuardsProofs.vio: Proofs/GuardsProofs.v Lib/Base.vio Lib/Atomic.vio Model/Guards.vio
Proofs/GuardsProofs.vos Proofs/GuardsProofs.vok Proofs/GuardsProofs.required_vos: Proofs/GuardsProofs.v Lib/Base.vos Lib/Atomic.vos Model/Guards.vos
Proofs/MarketProofs.vo Proofs/MarketProofs.glob Proofs/MarketProofs.v.beautified Proofs/MarketProofs.required_vo: Proofs/MarketProofs.v Lib/Base.vo Model/Market.vo
Proofs/MarketProofs.vio: Proofs/MarketProofs.v Lib/Base.vio Model/Market.vio
Proofs/MarketProofs.vos Proofs/MarketProofs.vok Proofs/MarketProofs.required_vos: Proofs/MarketProofs.v Lib/Base.vos Model/Market.vos
Gen/GuardTable.vo Gen/GuardTable.glob Gen/GuardTable.v.beautified Gen/GuardTable.required_vo: Gen/GuardTable.v Model/Guards.vo
Gen/GuardTable.vio: Gen/GuardTable.v Model/Guards.vio
Gen/GuardTable.vos Gen/GuardTable.vok Gen/GuardTable.required_vos: Gen/GuardTable.v Model/Guards.vos
Gen/MsgTypes.vo Gen/MsgTypes.glob Gen/MsgTypes.v.beautified Gen/MsgTypes.required_vo: Gen/MsgTypes.v Model/Guards.vo
Gen/MsgTypes.vio: Gen/MsgTypes.v Model/Guards.vio
Gen/MsgTypes.vos Gen/MsgTypes.vok Gen/MsgTypes.required_vos: Gen/MsgTypes.v Model/Guards.vos
Gen/SweepGuards.vo Gen/SweepGuards.glob Gen/SweepGuards.v.beautified Gen/SweepGuards.required_vo: Gen/SweepGuards.v Model/Guards.vo
Gen/SweepGuards.vio: Gen/SweepGuards.v Model/Guards.vio
Gen/SweepGuards.vos Gen/SweepGuards.vok Gen/SweepGuards.required_vos: Gen/SweepGuards.v Model/Guards.vos
Gen/WasmTable.vo Gen/WasmTable.glob Gen/WasmTable.v.beautified Gen/WasmTable.required_vo: Gen/WasmTable.v Model/Guards.vo
Gen/WasmTable.vio: Gen/WasmTable.v Model/Guards.vio
Gen/WasmTable.vos Gen/WasmTable.vok Gen/WasmTable.required_vos: Gen/WasmTable.v Model/Guards.vos
Properties/C12.vo Properties/C12.glob Properties/C12.v.beautified Properties/C12.required_vo: Properties/C12.v Lib/Base.vo Lib/Atomic.vo Model/Guards.vo Model/GuardsCheck.vo Proofs/GuardsProofs.vo Gen/GuardTable.vo Gen/MsgTypes.vo Gen/WasmTable.vo
Properties/C12.vio: Properties/C12.v Lib/Base.vio Lib/Atomic.vio Model/Guards.vio Model/GuardsCheck.vio Proofs/GuardsProofs.vio Gen/GuardTable.vio Gen/MsgTypes.vio Gen/WasmTable.vio
Properties/C12.vos Properties/C12.vok Properties/C12.required_vos: Properties/C12.v Lib/Base.vos Lib/Atomic.vos Model/Guards.vos Model/GuardsCheck.vos Proofs/GuardsProofs.vos Gen/GuardTable.vos Gen/MsgTypes.vos Gen/WasmTable.vos
Properties/C14.vo Properties/C14.glob Properties/C14.v.beautified Properties/C14.required_vo: Properties/C14.v Lib/Base.vo Lib/Atomic.vo Model/Guards.vo Model/GuardsCheck.vo Proofs/GuardsProofs.vo Model/Market.vo Gen/GuardTable.vo Gen/MsgTypes.vo Gen/SweepGuards.vo
Properties/C14.vio: Properties/C14.v Lib/Base.vio Lib/Atomic.vio Model/Guards.vio Model/GuardsCheck.vio Proofs/GuardsProofs.vio Model/Market.vio Gen/GuardTable.vio Gen/MsgTypes.vio Gen/SweepGuards.vio
Properties/C14.vos Properties/C14.vok Properties/C14.required_vos: Properties/C14.v Lib/Base.vos Lib/Atomic.vos Model/Guards.vos Model/GuardsCheck.vos Proofs/GuardsProofs.vos Model/Market.vos Gen/GuardTable.vos Gen/MsgTypes.vos Gen/SweepGuards.vos
Properties/C17.vo Properties/C17.glob Properties/C17.v.beautified Properties/C17.required_vo: Properties/C17.v Lib/Base.vo Model/Market.vo Proofs/MarketProofs.vo
Properties/C17.vio: Properties/C17.v Lib/Base.vio Model/Market.vio Proofs/MarketProofs.vio
Properties/C17.vos Properties/C17.vok Properties/C17.required_vos: Properties/C17.v Lib/Base.vos Model/Market.vos Proofs/MarketProofs.vos
Extract/Extract.vo Extract/Extract.glob Extract/Extract.v.beautified Extract/Extract.required_vo: Extract/Extract.v Lib/Base.vo Lib/DecArith.vo Model/GuardsCheck.vo Model/Market.vo
Extract/Extract.vio: Extract/Extract.v Lib/Base.vio Lib/DecArith.vio Model/GuardsCheck.vio Model/Market.vio
Extract/Extract.vos Extract/Extract.vok Extract/Extract.required_vos: Extract/Extract.v Lib/Base.vos Lib/DecArith.vos Model/GuardsCheck.vos Model/Market.vos
