Lib/Atomic.vo Lib/Atomic.glob Lib/Atomic.v.beautified Lib/Atomic.required_vo: Lib/Atomic.v Lib/Base.vo
Lib/Atomic.vio: Lib/Atomic.v Lib/Base.vio
Lib/Atomic.vos Lib/Atomic.vok Lib/Atomic.required_vos: Lib/Atomic.v Lib/Base.vos
Lib/Base.vo Lib/Base.glob Lib/Base.v.beautified Lib/Base.required_vo: Lib/Base.v 
Lib/Base.vio: Lib/Base.v 
Lib/Base.vos Lib/Base.vok Lib/Base.required_vos: Lib/Base.v 
Lib/DecArith.vo Lib/DecArith.glob Lib/DecArith.v.beautified Lib/DecArith.required_vo: Lib/DecArith.v Lib/Base.vo
Lib/DecArith.vio: Lib/DecArith.v Lib/Base.vio
Lib/DecArith.vos Lib/DecArith.vok Lib/DecArith.required_vos: Lib/DecArith.v Lib/Base.vos
Lib/DecFacts.vo Lib/DecFacts.glob Lib/DecFacts.v.beautified Lib/DecFacts.required_vo: Lib/DecFacts.v Lib/Base.vo Lib/DecArith.vo
Lib/DecFacts.vio: Lib/DecFacts.v Lib/Base.vio Lib/DecArith.vio
Lib/DecFacts.vos Lib/DecFacts.vok Lib/DecFacts.required_vos: Lib/DecFacts.v Lib/Base.vos Lib/DecArith.vos
Model/HookLang.vo Model/HookLang.glob Model/HookLang.v.beautified Model/HookLang.required_vo: Model/HookLang.v 
Model/HookLang.vio: Model/HookLang.v 
Model/HookLang.vos Model/HookLang.vok Model/HookLang.required_vos: Model/HookLang.v 
Model/Hooks.vo Model/Hooks.glob Model/Hooks.v.beautified Model/Hooks.required_vo: Model/Hooks.v Lib/Base.vo Lib/Atomic.vo Model/HookLang.vo Gen/HookTable.vo
Model/Hooks.vio: Model/Hooks.v Lib/Base.vio Lib/Atomic.vio Model/HookLang.vio Gen/HookTable.vio
Model/Hooks.vos Model/Hooks.vok Model/Hooks.required_vos: Model/Hooks.v Lib/Base.vos Lib/Atomic.vos Model/HookLang.vos Gen/HookTable.vos
Model/MapSites.vo Model/MapSites.glob Model/MapSites.v.beautified Model/MapSites.required_vo: Model/MapSites.v Lib/Base.vo Lib/DecArith.vo Gen/MapRangeTable.vo Gen/AmbientTable.vo
Model/MapSites.vio: Model/MapSites.v Lib/Base.vio Lib/DecArith.vio Gen/MapRangeTable.vio Gen/AmbientTable.vio
Model/MapSites.vos Model/MapSites.vok Model/MapSites.required_vos: Model/MapSites.v Lib/Base.vos Lib/DecArith.vos Gen/MapRangeTable.vos Gen/AmbientTable.vos
Model/Market.vo Model/Market.glob Model/Market.v.beautified Model/Market.required_vo: Model/Market.v Lib/Base.vo
Model/Market.vio: Model/Market.v Lib/Base.vio
Model/Market.vos Model/Market.vok Model/Market.required_vos: Model/Market.v Lib/Base.vos
Model/Sweep.vo Model/Sweep.glob Model/Sweep.v.beautified Model/Sweep.required_vo: Model/Sweep.v Lib/Base.vo
Model/Sweep.vio: Model/Sweep.v Lib/Base.vio
Model/Sweep.vos Model/Sweep.vok Model/Sweep.required_vos: Model/Sweep.v Lib/Base.vos
Proofs/HooksProofs.vo Proofs/HooksProofs.glob Proofs/HooksProofs.v.beautified Proofs/HooksProofs.required_vo: Proofs/HooksProofs.v Lib/Base.vo Lib/Atomic.vo Model/HookLang.vo Gen/HookTable.vo Model/Hooks.vo Model/Sweep.vo
Proofs/HooksProofs.vio: Proofs/HooksProofs.v Lib/Base.vio Lib/Atomic.vio Model/HookLang.vio Gen/HookTable.vio Model/Hooks.vio Model/Sweep.vio
Proofs/HooksProofs.vos Proofs/HooksProofs.vok Proofs/HooksProofs.required_vos: Proofs/HooksProofs.v Lib/Base.vos Lib/Atomic.vos Model/HookLang.vos Gen/HookTable.vos Model/Hooks.vos Model/Sweep.vos
Proofs/MapSitesProofs.vo Proofs/MapSitesProofs.glob Proofs/MapSitesProofs.v.beautified Proofs/MapSitesProofs.required_vo: Proofs/MapSitesProofs.v Lib/Base.vo Lib/DecArith.vo Gen/MapRangeTable.vo Gen/AmbientTable.vo Model/MapSites.vo
Proofs/MapSitesProofs.vio: Proofs/MapSitesProofs.v Lib/Base.vio Lib/DecArith.vio Gen/MapRangeTable.vio Gen/AmbientTable.vio Model/MapSites.vio
Proofs/MapSitesProofs.vos Proofs/MapSitesProofs.vok Proofs/MapSitesProofs.required_vos: Proofs/MapSitesProofs.v Lib/Base.vos Lib/DecArith.vos Gen/MapRangeTable.vos Gen/AmbientTable.vos Model/MapSites.vos
Proofs/MarketProofs.vo Proofs/MarketProofs.glob Proofs/MarketProofs.v.beautified Proofs/MarketProofs.required_vo: Proofs/MarketProofs.v Lib/Base.vo Model/Market.vo
Proofs/MarketProofs.vio: Proofs/MarketProofs.v Lib/Base.vio Model/Market.vio
Proofs/MarketProofs.vos Proofs/MarketProofs.vok Proofs/MarketProofs.required_vos: Proofs/MarketProofs.v Lib/Base.vos Model/Market.vos
Gen/AmbientTable.vo Gen/AmbientTable.glob Gen/AmbientTable.v.beautified Gen/AmbientTable.required_vo: Gen/AmbientTable.v 
Gen/AmbientTable.vio: Gen/AmbientTable.v 
Gen/AmbientTable.vos Gen/AmbientTable.vok Gen/AmbientTable.required_vos: Gen/AmbientTable.v 
Gen/HookTable.vo Gen/HookTable.glob Gen/HookTable.v.beautified Gen/HookTable.required_vo: Gen/HookTable.v Model/HookLang.vo
Gen/HookTable.vio: Gen/HookTable.v Model/HookLang.vio
Gen/HookTable.vos Gen/HookTable.vok Gen/HookTable.required_vos: Gen/HookTable.v Model/HookLang.vos
Gen/MapRangeTable.vo Gen/MapRangeTable.glob Gen/MapRangeTable.v.beautified Gen/MapRangeTable.required_vo: Gen/MapRangeTable.v 
Gen/MapRangeTable.vio: Gen/MapRangeTable.v 
Gen/MapRangeTable.vos Gen/MapRangeTable.vok Gen/MapRangeTable.required_vos: Gen/MapRangeTable.v 
Properties/C15.vo Properties/C15.glob Properties/C15.v.beautified Properties/C15.required_vo: Properties/C15.v Lib/Base.vo Lib/Atomic.vo Model/HookLang.vo Gen/HookTable.vo Model/Hooks.vo Model/Sweep.vo Model/Market.vo Proofs/HooksProofs.vo Proofs/MarketProofs.vo
Properties/C15.vio: Properties/C15.v Lib/Base.vio Lib/Atomic.vio Model/HookLang.vio Gen/HookTable.vio Model/Hooks.vio Model/Sweep.vio Model/Market.vio Proofs/HooksProofs.vio Proofs/MarketProofs.vio
Properties/C15.vos Properties/C15.vok Properties/C15.required_vos: Properties/C15.v Lib/Base.vos Lib/Atomic.vos Model/HookLang.vos Gen/HookTable.vos Model/Hooks.vos Model/Sweep.vos Model/Market.vos Proofs/HooksProofs.vos Proofs/MarketProofs.vos
Properties/C16.vo Properties/C16.glob Properties/C16.v.beautified Properties/C16.required_vo: Properties/C16.v Lib/Base.vo Lib/DecArith.vo Gen/MapRangeTable.vo Gen/AmbientTable.vo Model/MapSites.vo Proofs/MapSitesProofs.vo
Properties/C16.vio: Properties/C16.v Lib/Base.vio Lib/DecArith.vio Gen/MapRangeTable.vio Gen/AmbientTable.vio Model/MapSites.vio Proofs/MapSitesProofs.vio
Properties/C16.vos Properties/C16.vok Properties/C16.required_vos: Properties/C16.v Lib/Base.vos Lib/DecArith.vos Gen/MapRangeTable.vos Gen/AmbientTable.vos Model/MapSites.vos Proofs/MapSitesProofs.vos
Properties/C17.vo Properties/C17.glob Properties/C17.v.beautified Properties/C17.required_vo: Properties/C17.v Lib/Base.vo Model/Market.vo Proofs/MarketProofs.vo
Properties/C17.vio: Properties/C17.v Lib/Base.vio Model/Market.vio Proofs/MarketProofs.vio
Properties/C17.vos Properties/C17.vok Properties/C17.required_vos: Properties/C17.v Lib/Base.vos Model/Market.vos Proofs/MarketProofs.vos
Extract/Extract.vo Extract/Extract.glob Extract/Extract.v.beautified Extract/Extract.required_vo: Extract/Extract.v Lib/Base.vo Lib/DecArith.vo Model/Hooks.vo Model/MapSites.vo Model/Market.vo Model/Sweep.vo
Extract/Extract.vio: Extract/Extract.v Lib/Base.vio Lib/DecArith.vio Model/Hooks.vio Model/MapSites.vio Model/Market.vio Model/Sweep.vio
Extract/Extract.vos Extract/Extract.vok Extract/Extract.required_vos: Extract/Extract.v Lib/Base.vos Lib/DecArith.vos Model/Hooks.vos Model/MapSites.vos Model/Market.vos Model/Sweep.vos
