Lib/Atomic.vo Lib/Atomic.glob Lib/Atomic.v.beautified Lib/Atomic.required_vo: Lib/Atomic.v Lib/Base.vo
Lib/Atomic.vio: Lib/Atomic.v Lib/Base.vio
Lib/Atomic.vos Lib/Atomic.vok Lib/Atomic.required_vos: Lib/Atomic.v Lib/Base.vos
Lib/Base.vo Lib/Base.glob Lib/Base.v.beautified Lib/Base.required_vo: Lib/Base.v 
Lib/Base.vio: Lib/Base.v 
Lib/Base.vos Lib/Base.vok Lib/Base.required_vos: Lib/Base.v 
Lib/DecArith.vo Lib/DecArith.glob Lib/DecArith.v.beautified Lib/DecArith.required_vo: Lib/DecArith.v Lib/Base.vo
Lib/DecArith.vio: Lib/DecArith.v Lib/Base.vio
Lib/DecArith.vos Lib/DecArith.vok Lib/DecArith.required_vos: Lib/DecArith.v Lib/Base.vos
Lib/DecFacts.vo Lib/DecFacts.glob Lib/DecFacts.v.beautified Lib/DecFacts.required_vo: Lib/DecFacts.v Lib/Base.vo Lib/DecArith.vo
Lib/DecFacts.vio: Lib/DecFacts.v Lib/Base.vio Lib/DecArith.vio
Lib/DecFacts.vos Lib/DecFacts.vok Lib/DecFacts.required_vos: Lib/DecFacts.v Lib/Base.vos Lib/DecArith.vos
Lib/FLedger.vo Lib/FLedger.glob Lib/FLedger.v.beautified Lib/FLedger.required_vo: Lib/FLedger.v Lib/Base.vo
Lib/FLedger.vio: Lib/FLedger.v Lib/Base.vio
Lib/FLedger.vos Lib/FLedger.vok Lib/FLedger.required_vos: Lib/FLedger.v Lib/Base.vos
Model/English.vo Model/English.glob Model/English.v.beautified Model/English.required_vo: Model/English.v Lib/Base.vo Lib/DecArith.vo Lib/FLedger.vo
Model/English.vio: Model/English.v Lib/Base.vio Lib/DecArith.vio Lib/FLedger.vio
Model/English.vos Model/English.vok Model/English.required_vos: Model/English.v Lib/Base.vos Lib/DecArith.vos Lib/FLedger.vos
Model/LimitBid.vo Model/LimitBid.glob Model/LimitBid.v.beautified Model/LimitBid.required_vo: Model/LimitBid.v Lib/Base.vo Lib/DecArith.vo Lib/FLedger.vo
Model/LimitBid.vio: Model/LimitBid.v Lib/Base.vio Lib/DecArith.vio Lib/FLedger.vio
Model/LimitBid.vos Model/LimitBid.vok Model/LimitBid.required_vos: Model/LimitBid.v Lib/Base.vos Lib/DecArith.vos Lib/FLedger.vos
Model/Market.vo Model/Market.glob Model/Market.v.beautified Model/Market.required_vo: Model/Market.v Lib/Base.vo
Model/Market.vio: Model/Market.v Lib/Base.vio
Model/Market.vos Model/Market.vok Model/Market.required_vos: Model/Market.v Lib/Base.vos
Proofs/EnglishProofs.vo Proofs/EnglishProofs.glob Proofs/EnglishProofs.v.beautified Proofs/EnglishProofs.required_vo: Proofs/EnglishProofs.v Lib/Base.vo Lib/DecArith.vo Lib/DecFacts.vo Lib/FLedger.vo Model/English.vo
Proofs/EnglishProofs.vio: Proofs/EnglishProofs.v Lib/Base.vio Lib/DecArith.vio Lib/DecFacts.vio Lib/FLedger.vio Model/English.vio
Proofs/EnglishProofs.vos Proofs/EnglishProofs.vok Proofs/EnglishProofs.required_vos: Proofs/EnglishProofs.v Lib/Base.vos Lib/DecArith.vos Lib/DecFacts.vos Lib/FLedger.vos Model/English.vos
Proofs/LimitBidProofs.vo Proofs/LimitBidProofs.glob Proofs/LimitBidProofs.v.beautified Proofs/LimitBidProofs.required_vo: Proofs/LimitBidProofs.v Lib/Base.vo Lib/DecArith.vo Lib/DecFacts.vo Lib/FLedger.vo Model/LimitBid.vo
Proofs/LimitBidProofs.vio: Proofs/LimitBidProofs.v Lib/Base.vio Lib/DecArith.vio Lib/DecFacts.vio Lib/FLedger.vio Model/LimitBid.vio
Proofs/LimitBidProofs.vos Proofs/LimitBidProofs.vok Proofs/LimitBidProofs.required_vos: Proofs/LimitBidProofs.v Lib/Base.vos Lib/DecArith.vos Lib/DecFacts.vos Lib/FLedger.vos Model/LimitBid.vos
Proofs/MarketProofs.vo Proofs/MarketProofs.glob Proofs/MarketProofs.v.beautified Proofs/MarketProofs.required_vo: Proofs/MarketProofs.v Lib/Base.vo Model/Market.vo
Proofs/MarketProofs.vio: Proofs/MarketProofs.v Lib/Base.vio Model/Market.vio
Proofs/MarketProofs.vos Proofs/MarketProofs.vok Proofs/MarketProofs.required_vos: Proofs/MarketProofs.v Lib/Base.vos Model/Market.vos
Properties/C11.vo Properties/C11.glob Properties/C11.v.beautified Properties/C11.required_vo: Properties/C11.v Lib/Base.vo Lib/DecArith.vo Lib/DecFacts.vo Lib/FLedger.vo Model/English.vo Model/LimitBid.vo Proofs/EnglishProofs.vo Proofs/LimitBidProofs.vo
Properties/C11.vio: Properties/C11.v Lib/Base.vio Lib/DecArith.vio Lib/DecFacts.vio Lib/FLedger.vio Model/English.vio Model/LimitBid.vio Proofs/EnglishProofs.vio Proofs/LimitBidProofs.vio
Properties/C11.vos Properties/C11.vok Properties/C11.required_vos: Properties/C11.v Lib/Base.vos Lib/DecArith.vos Lib/DecFacts.vos Lib/FLedger.vos Model/English.vos Model/LimitBid.vos Proofs/EnglishProofs.vos Proofs/LimitBidProofs.vos
Properties/C17.vo Properties/C17.glob Properties/C17.v.beautified Properties/C17.required_vo: Properties/C17.v Lib/Base.vo Model/Market.vo Proofs/MarketProofs.vo
Properties/C17.vio: Properties/C17.v Lib/Base.vio Model/Market.vio Proofs/MarketProofs.vio
Properties/C17.vos Properties/C17.vok Properties/C17.required_vos: Properties/C17.v Lib/Base.vos Model/Market.vos Proofs/MarketProofs.vos
Extract/Extract.vo Extract/Extract.glob Extract/Extract.v.beautified Extract/Extract.required_vo: Extract/Extract.v Lib/Base.vo Lib/DecArith.vo Model/English.vo Lib/FLedger.vo Model/LimitBid.vo Model/Market.vo
Extract/Extract.vio: Extract/Extract.v Lib/Base.vio Lib/DecArith.vio Model/English.vio Lib/FLedger.vio Model/LimitBid.vio Model/Market.vio
Extract/Extract.vos Extract/Extract.vok Extract/Extract.required_vos: Extract/Extract.v Lib/Base.vos Lib/DecArith.vos Model/English.vos Lib/FLedger.vos Model/LimitBid.vos Model/Market.vos
