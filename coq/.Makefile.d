Lib/Atomic.vo Lib/Atomic.glob Lib/Atomic.v.beautified Lib/Atomic.required_vo: Lib/Atomic.v Lib/Base.vo
Lib/Atomic.vio: Lib/Atomic.v Lib/Base.vio
Lib/Atomic.vos Lib/Atomic.vok Lib/Atomic.required_vos: Lib/Atomic.v Lib/Base.vos
Lib/Base.vo Lib/Base.glob Lib/Base.v.beautified Lib/Base.required_vo: Lib/Base.v 
Lib/Base.vio: Lib/Base.v 
Lib/Base.vos Lib/Base.vok Lib/Base.required_vos: Lib/Base.v 
Lib/DecArith.vo Lib/DecArith.glob Lib/DecArith.v.beautified Lib/DecArith.required_vo: Lib/DecArith.v Lib/Base.vo
Lib/DecArith.vio: Lib/DecArith.v Lib/Base.vio
Lib/DecArith.vos Lib/DecArith.vok Lib/DecArith.required_vos: Lib/DecArith.v Lib/Base.vos
Lib/DecFacts.vo Lib/DecFacts.glob Lib/DecFacts.v.beautified Lib/DecFacts.required_vo: Lib/DecFacts.v Lib/Base.vo Lib/DecArith.vo
Lib/DecFacts.vio: Lib/DecFacts.v Lib/Base.vio Lib/DecArith.vio
Lib/DecFacts.vos Lib/DecFacts.vok Lib/DecFacts.required_vos: Lib/DecFacts.v Lib/Base.vos Lib/DecArith.vos
Model/DutchV1.vo Model/DutchV1.glob Model/DutchV1.v.beautified Model/DutchV1.required_vo: Model/DutchV1.v Lib/Base.vo Lib/DecArith.vo
Model/DutchV1.vio: Model/DutchV1.v Lib/Base.vio Lib/DecArith.vio
Model/DutchV1.vos Model/DutchV1.vok Model/DutchV1.required_vos: Model/DutchV1.v Lib/Base.vos Lib/DecArith.vos
Model/DutchV2.vo Model/DutchV2.glob Model/DutchV2.v.beautified Model/DutchV2.required_vo: Model/DutchV2.v Lib/Base.vo Lib/DecArith.vo
Model/DutchV2.vio: Model/DutchV2.v Lib/Base.vio Lib/DecArith.vio
Model/DutchV2.vos Model/DutchV2.vok Model/DutchV2.required_vos: Model/DutchV2.v Lib/Base.vos Lib/DecArith.vos
Model/Market.vo Model/Market.glob Model/Market.v.beautified Model/Market.required_vo: Model/Market.v Lib/Base.vo
Model/Market.vio: Model/Market.v Lib/Base.vio
Model/Market.vos Model/Market.vok Model/Market.required_vos: Model/Market.v Lib/Base.vos
Proofs/DutchProofsBid.vo Proofs/DutchProofsBid.glob Proofs/DutchProofsBid.v.beautified Proofs/DutchProofsBid.required_vo: Proofs/DutchProofsBid.v Lib/Base.vo Lib/DecArith.vo Lib/DecFacts.vo Model/DutchV2.vo Proofs/DutchProofsPrice.vo
Proofs/DutchProofsBid.vio: Proofs/DutchProofsBid.v Lib/Base.vio Lib/DecArith.vio Lib/DecFacts.vio Model/DutchV2.vio Proofs/DutchProofsPrice.vio
Proofs/DutchProofsBid.vos Proofs/DutchProofsBid.vok Proofs/DutchProofsBid.required_vos: Proofs/DutchProofsBid.v Lib/Base.vos Lib/DecArith.vos Lib/DecFacts.vos Model/DutchV2.vos Proofs/DutchProofsPrice.vos
Proofs/DutchProofsClose.vo Proofs/DutchProofsClose.glob Proofs/DutchProofsClose.v.beautified Proofs/DutchProofsClose.required_vo: Proofs/DutchProofsClose.v Lib/Base.vo Lib/DecArith.vo Lib/DecFacts.vo Model/DutchV2.vo Proofs/DutchProofsPrice.vo Proofs/DutchProofsBid.vo
Proofs/DutchProofsClose.vio: Proofs/DutchProofsClose.v Lib/Base.vio Lib/DecArith.vio Lib/DecFacts.vio Model/DutchV2.vio Proofs/DutchProofsPrice.vio Proofs/DutchProofsBid.vio
Proofs/DutchProofsClose.vos Proofs/DutchProofsClose.vok Proofs/DutchProofsClose.required_vos: Proofs/DutchProofsClose.v Lib/Base.vos Lib/DecArith.vos Lib/DecFacts.vos Model/DutchV2.vos Proofs/DutchProofsPrice.vos Proofs/DutchProofsBid.vos
Proofs/DutchProofsPrice.vo Proofs/DutchProofsPrice.glob Proofs/DutchProofsPrice.v.beautified Proofs/DutchProofsPrice.required_vo: Proofs/DutchProofsPrice.v Lib/Base.vo Lib/DecArith.vo Lib/DecFacts.vo Model/DutchV2.vo
Proofs/DutchProofsPrice.vio: Proofs/DutchProofsPrice.v Lib/Base.vio Lib/DecArith.vio Lib/DecFacts.vio Model/DutchV2.vio
Proofs/DutchProofsPrice.vos Proofs/DutchProofsPrice.vok Proofs/DutchProofsPrice.required_vos: Proofs/DutchProofsPrice.v Lib/Base.vos Lib/DecArith.vos Lib/DecFacts.vos Model/DutchV2.vos
Proofs/DutchProofsV1.vo Proofs/DutchProofsV1.glob Proofs/DutchProofsV1.v.beautified Proofs/DutchProofsV1.required_vo: Proofs/DutchProofsV1.v Lib/Base.vo Lib/DecArith.vo Lib/DecFacts.vo Model/DutchV1.vo Model/DutchV2.vo Proofs/DutchProofsPrice.vo
Proofs/DutchProofsV1.vio: Proofs/DutchProofsV1.v Lib/Base.vio Lib/DecArith.vio Lib/DecFacts.vio Model/DutchV1.vio Model/DutchV2.vio Proofs/DutchProofsPrice.vio
Proofs/DutchProofsV1.vos Proofs/DutchProofsV1.vok Proofs/DutchProofsV1.required_vos: Proofs/DutchProofsV1.v Lib/Base.vos Lib/DecArith.vos Lib/DecFacts.vos Model/DutchV1.vos Model/DutchV2.vos Proofs/DutchProofsPrice.vos
Proofs/MarketProofs.vo Proofs/MarketProofs.glob Proofs/MarketProofs.v.beautified Proofs/MarketProofs.required_vo: Proofs/MarketProofs.v Lib/Base.vo Model/Market.vo
Proofs/MarketProofs.vio: Proofs/MarketProofs.v Lib/Base.vio Model/Market.vio
Proofs/MarketProofs.vos Proofs/MarketProofs.vok Proofs/MarketProofs.required_vos: Proofs/MarketProofs.v Lib/Base.vos Model/Market.vos
Properties/C10.vo Properties/C10.glob Properties/C10.v.beautified Properties/C10.required_vo: Properties/C10.v Lib/Base.vo Lib/DecArith.vo Model/DutchV2.vo Proofs/DutchProofsPrice.vo Proofs/DutchProofsBid.vo Proofs/DutchProofsClose.vo Model/DutchV1.vo Proofs/DutchProofsV1.vo
Properties/C10.vio: Properties/C10.v Lib/Base.vio Lib/DecArith.vio Model/DutchV2.vio Proofs/DutchProofsPrice.vio Proofs/DutchProofsBid.vio Proofs/DutchProofsClose.vio Model/DutchV1.vio Proofs/DutchProofsV1.vio
Properties/C10.vos Properties/C10.vok Properties/C10.required_vos: Properties/C10.v Lib/Base.vos Lib/DecArith.vos Model/DutchV2.vos Proofs/DutchProofsPrice.vos Proofs/DutchProofsBid.vos Proofs/DutchProofsClose.vos Model/DutchV1.vos Proofs/DutchProofsV1.vos
Properties/C17.vo Properties/C17.glob Properties/C17.v.beautified Properties/C17.required_vo: Properties/C17.v Lib/Base.vo Model/Market.vo Proofs/MarketProofs.vo
Properties/C17.vio: Properties/C17.v Lib/Base.vio Model/Market.vio Proofs/MarketProofs.vio
Properties/C17.vos Properties/C17.vok Properties/C17.required_vos: Properties/C17.v Lib/Base.vos Model/Market.vos Proofs/MarketProofs.vos
Extract/Extract.vo Extract/Extract.glob Extract/Extract.v.beautified Extract/Extract.required_vo: Extract/Extract.v Lib/Base.vo Lib/DecArith.vo Model/DutchV1.vo Model/DutchV2.vo Model/Market.vo
Extract/Extract.vio: Extract/Extract.v Lib/Base.vio Lib/DecArith.vio Model/DutchV1.vio Model/DutchV2.vio Model/Market.vio
Extract/Extract.vos Extract/Extract.vok Extract/Extract.required_vos: Extract/Extract.v Lib/Base.vos Lib/DecArith.vos Model/DutchV1.vos Model/DutchV2.vos Model/Market.vos
