open Base
open BinInt
open BinNums
open Datatypes

(** val coq_P18 : coq_Z **)

let coq_P18 =
  Zpos (Coq_xO (Coq_xO (Coq_xO (Coq_xO (Coq_xO (Coq_xO (Coq_xO (Coq_xO
    (Coq_xO (Coq_xO (Coq_xO (Coq_xO (Coq_xO (Coq_xO (Coq_xO (Coq_xO (Coq_xO
    (Coq_xO (Coq_xI (Coq_xO (Coq_xO (Coq_xI (Coq_xI (Coq_xO (Coq_xI (Coq_xI
    (Coq_xI (Coq_xO (Coq_xO (Coq_xI (Coq_xO (Coq_xI (Coq_xI (Coq_xI (Coq_xO
    (Coq_xO (Coq_xI (Coq_xI (Coq_xO (Coq_xI (Coq_xO (Coq_xI (Coq_xI (Coq_xO
    (Coq_xI (Coq_xI (Coq_xO (Coq_xI (Coq_xO (Coq_xO (Coq_xO (Coq_xO (Coq_xO
    (Coq_xI (Coq_xI (Coq_xI (Coq_xI (Coq_xO (Coq_xI
    Coq_xH)))))))))))))))))))))))))))))))))))))))))))))))))))))))))))

(** val coq_HALF18 : coq_Z **)

let coq_HALF18 =
  Zpos (Coq_xO (Coq_xO (Coq_xO (Coq_xO (Coq_xO (Coq_xO (Coq_xO (Coq_xO
    (Coq_xO (Coq_xO (Coq_xO (Coq_xO (Coq_xO (Coq_xO (Coq_xO (Coq_xO (Coq_xO
    (Coq_xI (Coq_xO (Coq_xO (Coq_xI (Coq_xI (Coq_xO (Coq_xI (Coq_xI (Coq_xI
    (Coq_xO (Coq_xO (Coq_xI (Coq_xO (Coq_xI (Coq_xI (Coq_xI (Coq_xO (Coq_xO
    (Coq_xI (Coq_xI (Coq_xO (Coq_xI (Coq_xO (Coq_xI (Coq_xI (Coq_xO (Coq_xI
    (Coq_xI (Coq_xO (Coq_xI (Coq_xO (Coq_xO (Coq_xO (Coq_xO (Coq_xO (Coq_xI
    (Coq_xI (Coq_xI (Coq_xI (Coq_xO (Coq_xI
    Coq_xH))))))))))))))))))))))))))))))))))))))))))))))))))))))))))

(** val coq_P36 : coq_Z **)

let coq_P36 =
  Z.mul coq_P18 coq_P18

(** val chop_round_nn : coq_Z -> coq_Z **)

let chop_round_nn x =
  let q = Z.div x coq_P18 in
  let r = Z.modulo x coq_P18 in
  if Z.eqb r Z0
  then q
  else if Z.ltb r coq_HALF18
       then q
       else if Z.gtb r coq_HALF18
            then Z.add q (Zpos Coq_xH)
            else if Z.even q then q else Z.add q (Zpos Coq_xH)

(** val chop_round : coq_Z -> coq_Z **)

let chop_round x =
  if Z.ltb x Z0 then Z.opp (chop_round_nn (Z.opp x)) else chop_round_nn x

(** val chop_round_up : coq_Z -> coq_Z **)

let chop_round_up x =
  if Z.ltb x Z0
  then Z.opp (Z.div (Z.opp x) coq_P18)
  else let q = Z.div x coq_P18 in
       if Z.eqb (Z.modulo x coq_P18) Z0 then q else Z.add q (Zpos Coq_xH)

(** val chop_trunc : coq_Z -> coq_Z **)

let chop_trunc x =
  Z.quot x coq_P18

(** val dec_of_int : coq_Z -> coq_Z **)

let dec_of_int i =
  Z.mul i coq_P18

(** val dmul : coq_Z -> coq_Z -> coq_Z **)

let dmul a b =
  chop_round (Z.mul a b)

(** val dmul_trunc : coq_Z -> coq_Z -> coq_Z **)

let dmul_trunc a b =
  chop_trunc (Z.mul a b)

(** val dmul_up : coq_Z -> coq_Z -> coq_Z **)

let dmul_up a b =
  chop_round_up (Z.mul a b)

(** val dmul_int : coq_Z -> coq_Z -> coq_Z **)

let dmul_int =
  Z.mul

(** val dquo : coq_Z -> coq_Z -> coq_Z **)

let dquo a b =
  chop_round (Z.quot (Z.mul a coq_P36) b)

(** val dquo_trunc : coq_Z -> coq_Z -> coq_Z **)

let dquo_trunc a b =
  chop_trunc (Z.quot (Z.mul a coq_P36) b)

(** val dquo_up : coq_Z -> coq_Z -> coq_Z **)

let dquo_up a b =
  chop_round_up (Z.quot (Z.mul a coq_P36) b)

(** val dtrunc_int : coq_Z -> coq_Z **)

let dtrunc_int a =
  Z.quot a coq_P18

(** val dround_int : coq_Z -> coq_Z **)

let dround_int =
  chop_round

(** val dceil : coq_Z -> coq_Z **)

let dceil a =
  let q = Z.quot a coq_P18 in
  let r = Z.rem a coq_P18 in
  Z.mul
    (if Z.eqb r Z0 then q else if Z.ltb r Z0 then q else Z.add q (Zpos Coq_xH))
    coq_P18

(** val dceil_int : coq_Z -> coq_Z **)

let dceil_int a =
  Z.div (dceil a) coq_P18

(** val dpower_loop : nat -> coq_Z -> coq_Z -> coq_Z -> coq_Z **)

let rec dpower_loop fuel d tmp i =
  match fuel with
  | O -> dmul d tmp
  | S f ->
    if Z.gtb i (Zpos Coq_xH)
    then let tmp' = if Z.odd i then dmul tmp d else tmp in
         dpower_loop f (dmul d d) tmp' (Z.div i (Zpos (Coq_xO Coq_xH)))
    else dmul d tmp

(** val dpower : coq_Z -> coq_Z -> coq_Z **)

let dpower d power =
  if Z.eqb power Z0
  then coq_P18
  else dpower_loop (S (S (S (S (S (S (S (S (S (S (S (S (S (S (S (S (S (S (S
         (S (S (S (S (S (S (S (S (S (S (S (S (S (S (S (S (S (S (S (S (S (S (S
         (S (S (S (S (S (S (S (S (S (S (S (S (S (S (S (S (S (S (S (S (S (S
         O)))))))))))))))))))))))))))))))))))))))))))))))))))))))))))))))) d
         coq_P18 power

(** val dsqrt_loop : nat -> coq_Z -> coq_Z -> coq_Z -> coq_Z **)

let rec dsqrt_loop fuel d guess delta =
  match fuel with
  | O -> guess
  | S f ->
    if Z.gtb (Z.abs delta) (Zpos Coq_xH)
    then let prev = if Z.eqb guess Z0 then Zpos Coq_xH else guess in
         let delta1 = Z.sub (dquo d prev) guess in
         let delta2 = Z.shiftr delta1 (Zpos Coq_xH) in
         dsqrt_loop f d (Z.add guess delta2) delta2
    else guess

(** val dsqrt_nn : coq_Z -> coq_Z **)

let dsqrt_nn d =
  if (||) (Z.eqb d Z0) (Z.eqb d coq_P18)
  then d
  else dsqrt_loop (S (S (S (S (S (S (S (S (S (S (S (S (S (S (S (S (S (S (S (S
         (S (S (S (S (S (S (S (S (S (S (S (S (S (S (S (S (S (S (S (S (S (S (S
         (S (S (S (S (S (S (S (S (S (S (S (S (S (S (S (S (S (S (S (S (S (S (S
         (S (S (S (S (S (S (S (S (S (S (S (S (S (S (S (S (S (S (S (S (S (S (S
         (S (S (S (S (S (S (S (S (S (S (S (S (S (S (S (S (S (S (S (S (S (S (S
         (S (S (S (S (S (S (S (S (S (S (S (S (S (S (S (S (S (S (S (S (S (S (S
         (S (S (S (S (S (S (S (S (S (S (S (S (S (S (S (S (S (S (S (S (S (S (S
         (S (S (S (S (S (S (S (S (S (S (S (S (S (S (S (S (S (S (S (S (S (S (S
         (S (S (S (S (S (S (S (S (S (S (S (S (S (S (S (S (S (S (S (S (S (S (S
         (S (S (S (S (S (S (S (S (S (S (S (S (S (S (S (S (S (S (S (S (S (S (S
         (S (S (S (S (S (S (S (S (S (S (S (S (S (S (S (S (S (S (S (S (S (S (S
         (S (S (S (S (S (S (S (S (S (S (S (S (S (S (S (S (S (S (S (S (S (S (S
         (S (S (S (S (S (S (S (S (S (S (S (S (S (S (S (S (S (S (S (S (S (S (S
         (S (S (S (S
         O))))))))))))))))))))))))))))))))))))))))))))))))))))))))))))))))))))))))))))))))))))))))))))))))))))))))))))))))))))))))))))))))))))))))))))))))))))))))))))))))))))))))))))))))))))))))))))))))))))))))))))))))))))))))))))))))))))))))))))))))))))))))))))))))))))))))))))))))))))))))))))))))))))))))))))
         d coq_P18 coq_P18

(** val dsqrt : coq_Z -> coq_Z **)

let dsqrt d =
  if Z.ltb d Z0 then Z.opp (dsqrt_nn (Z.opp d)) else dsqrt_nn d

(** val two256 : coq_Z **)

let two256 =
  Z.pow (Zpos (Coq_xO Coq_xH)) (Zpos (Coq_xO (Coq_xO (Coq_xO (Coq_xO (Coq_xO
    (Coq_xO (Coq_xO (Coq_xO Coq_xH)))))))))

(** val two315 : coq_Z **)

let two315 =
  Z.pow (Zpos (Coq_xO Coq_xH)) (Zpos (Coq_xI (Coq_xI (Coq_xO (Coq_xI (Coq_xI
    (Coq_xI (Coq_xO (Coq_xO Coq_xH)))))))))

(** val fits_int : coq_Z -> bool **)

let fits_int x =
  Z.ltb (Z.abs x) two256

(** val fits_dec : coq_Z -> bool **)

let fits_dec x =
  Z.ltb (Z.abs x) two315

(** val chk_dec : coq_Z -> coq_Z option **)

let chk_dec x =
  if fits_dec x then Some x else None

(** val chk_int : coq_Z -> coq_Z option **)

let chk_int x =
  if fits_int x then Some x else None

(** val dadd_c : coq_Z -> coq_Z -> coq_Z option **)

let dadd_c a b =
  chk_dec (Z.add a b)

(** val dsub_c : coq_Z -> coq_Z -> coq_Z option **)

let dsub_c a b =
  chk_dec (Z.sub a b)

(** val dmul_c : coq_Z -> coq_Z -> coq_Z option **)

let dmul_c a b =
  chk_dec (dmul a b)

(** val dmul_trunc_c : coq_Z -> coq_Z -> coq_Z option **)

let dmul_trunc_c a b =
  chk_dec (dmul_trunc a b)

(** val dmul_int_c : coq_Z -> coq_Z -> coq_Z option **)

let dmul_int_c a i =
  chk_dec (Z.mul a i)

(** val dquo_c : coq_Z -> coq_Z -> coq_Z option **)

let dquo_c a b =
  if Z.eqb b Z0 then None else chk_dec (dquo a b)

(** val dquo_trunc_c : coq_Z -> coq_Z -> coq_Z option **)

let dquo_trunc_c a b =
  if Z.eqb b Z0 then None else chk_dec (dquo_trunc a b)

(** val dquo_up_c : coq_Z -> coq_Z -> coq_Z option **)

let dquo_up_c a b =
  if Z.eqb b Z0 then None else chk_dec (dquo_up a b)

(** val dquo_int_c : coq_Z -> coq_Z -> coq_Z option **)

let dquo_int_c a i =
  if Z.eqb i Z0 then None else Some (Z.quot a i)

(** val dtrunc_int_c : coq_Z -> coq_Z option **)

let dtrunc_int_c a =
  chk_int (dtrunc_int a)

(** val dround_int_c : coq_Z -> coq_Z option **)

let dround_int_c a =
  chk_int (dround_int a)

(** val iadd_c : coq_Z -> coq_Z -> coq_Z option **)

let iadd_c a b =
  chk_int (Z.add a b)

(** val isub_c : coq_Z -> coq_Z -> coq_Z option **)

let isub_c a b =
  chk_int (Z.sub a b)

(** val bitlen : coq_Z -> coq_Z **)

let bitlen x =
  match Z.abs x with
  | Z0 -> Z0
  | x0 -> Z.add (Z.log2 x0) (Zpos Coq_xH)

(** val imul_c : coq_Z -> coq_Z -> coq_Z option **)

let imul_c a b =
  if Z.gtb (Z.sub (Z.add (bitlen a) (bitlen b)) (Zpos Coq_xH)) (Zpos (Coq_xO
       (Coq_xO (Coq_xO (Coq_xO (Coq_xO (Coq_xO (Coq_xO (Coq_xO Coq_xH)))))))))
  then None
  else chk_int (Z.mul a b)

(** val iquo_c : coq_Z -> coq_Z -> coq_Z option **)

let iquo_c a b =
  if Z.eqb b Z0 then None else Some (Z.quot a b)

(** val imod_c : coq_Z -> coq_Z -> coq_Z option **)

let imod_c a b =
  if Z.eqb b Z0 then None else Some (Z.modulo a (Z.abs b))

(** val int64_c : coq_Z -> coq_Z option **)

let int64_c a =
  if (&&)
       (Z.leb (Zneg (Coq_xO (Coq_xO (Coq_xO (Coq_xO (Coq_xO (Coq_xO (Coq_xO
         (Coq_xO (Coq_xO (Coq_xO (Coq_xO (Coq_xO (Coq_xO (Coq_xO (Coq_xO
         (Coq_xO (Coq_xO (Coq_xO (Coq_xO (Coq_xO (Coq_xO (Coq_xO (Coq_xO
         (Coq_xO (Coq_xO (Coq_xO (Coq_xO (Coq_xO (Coq_xO (Coq_xO (Coq_xO
         (Coq_xO (Coq_xO (Coq_xO (Coq_xO (Coq_xO (Coq_xO (Coq_xO (Coq_xO
         (Coq_xO (Coq_xO (Coq_xO (Coq_xO (Coq_xO (Coq_xO (Coq_xO (Coq_xO
         (Coq_xO (Coq_xO (Coq_xO (Coq_xO (Coq_xO (Coq_xO (Coq_xO (Coq_xO
         (Coq_xO (Coq_xO (Coq_xO (Coq_xO (Coq_xO (Coq_xO (Coq_xO (Coq_xO
         Coq_xH))))))))))))))))))))))))))))))))))))))))))))))))))))))))))))))))
         a)
       (Z.leb a (Zpos (Coq_xI (Coq_xI (Coq_xI (Coq_xI (Coq_xI (Coq_xI (Coq_xI
         (Coq_xI (Coq_xI (Coq_xI (Coq_xI (Coq_xI (Coq_xI (Coq_xI (Coq_xI
         (Coq_xI (Coq_xI (Coq_xI (Coq_xI (Coq_xI (Coq_xI (Coq_xI (Coq_xI
         (Coq_xI (Coq_xI (Coq_xI (Coq_xI (Coq_xI (Coq_xI (Coq_xI (Coq_xI
         (Coq_xI (Coq_xI (Coq_xI (Coq_xI (Coq_xI (Coq_xI (Coq_xI (Coq_xI
         (Coq_xI (Coq_xI (Coq_xI (Coq_xI (Coq_xI (Coq_xI (Coq_xI (Coq_xI
         (Coq_xI (Coq_xI (Coq_xI (Coq_xI (Coq_xI (Coq_xI (Coq_xI (Coq_xI
         (Coq_xI (Coq_xI (Coq_xI (Coq_xI (Coq_xI (Coq_xI (Coq_xI
         Coq_xH))))))))))))))))))))))))))))))))))))))))))))))))))))))))))))))))
  then Some a
  else None

(** val uint64_c : coq_Z -> coq_Z option **)

let uint64_c a =
  if (&&) (Z.leb Z0 a) (Z.ltb a two64) then Some a else None
