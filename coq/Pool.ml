open Base
open BinInt
open BinNums
open Datatypes
open DecArith
open List

(** val lift_ovf : coq_Z option -> coq_Z outcome **)

let lift_ovf = function
| Some v -> Ok v
| None -> Err Z0

(** val quo_trunc_s : coq_Z -> coq_Z -> coq_Z outcome **)

let quo_trunc_s a b =
  if Z.eqb b Z0 then Panic else lift_ovf (chk_dec (dquo_trunc a b))

(** val quo_s : coq_Z -> coq_Z -> coq_Z outcome **)

let quo_s a b =
  if Z.eqb b Z0 then Panic else lift_ovf (chk_dec (dquo a b))

(** val ceil_int_s : coq_Z -> coq_Z outcome **)

let ceil_int_s d =
  lift_ovf (dtrunc_int_c (dceil d))

(** val deposit_body :
    coq_Z -> coq_Z -> coq_Z -> coq_Z -> coq_Z -> ((coq_Z * coq_Z) * coq_Z)
    outcome **)

let deposit_body rx ry ps x y =
  let rxd = dec_of_int rx in
  let ryd = dec_of_int ry in
  let psd = dec_of_int ps in
  obind
    (if Z.eqb rxd Z0
     then quo_trunc_s (dec_of_int y) ryd
     else if Z.eqb ryd Z0
          then quo_trunc_s (dec_of_int x) rxd
          else obind (quo_trunc_s (dec_of_int x) rxd) (fun a ->
                 obind (quo_trunc_s (dec_of_int y) ryd) (fun b -> Ok
                   (if Z.ltb a b then a else b)))) (fun ratio ->
    obind (lift_ovf (dmul_trunc_c psd ratio)) (fun t ->
      obind (lift_ovf (dtrunc_int_c t)) (fun pc ->
        obind (quo_s (dec_of_int pc) psd) (fun mp ->
          obind (lift_ovf (dmul_c rxd mp)) (fun mx ->
            obind (ceil_int_s mx) (fun ax ->
              obind (lift_ovf (dmul_c ryd mp)) (fun my ->
                obind (ceil_int_s my) (fun ay -> Ok ((ax, ay), pc)))))))))

(** val deposit :
    coq_Z -> coq_Z -> coq_Z -> coq_Z -> coq_Z -> ((coq_Z * coq_Z) * coq_Z)
    outcome **)

let deposit rx ry ps x y =
  match deposit_body rx ry ps x y with
  | Err _ -> Ok ((Z0, Z0), Z0)
  | x0 -> x0

(** val withdraw_one : coq_Z -> coq_Z -> coq_Z -> coq_Z outcome **)

let withdraw_one r prop mult =
  obind (lift_ovf (dmul_trunc_c (dec_of_int r) prop)) (fun a ->
    obind (lift_ovf (dmul_trunc_c a mult)) (fun b ->
      lift_ovf (dtrunc_int_c b)))

(** val withdraw_body :
    coq_Z -> coq_Z -> coq_Z -> coq_Z -> coq_Z -> (coq_Z * coq_Z) outcome **)

let withdraw_body rx ry ps pc fee =
  obind (quo_trunc_s (dec_of_int pc) (dec_of_int ps)) (fun prop ->
    obind (lift_ovf (dsub_c coq_P18 fee)) (fun mult ->
      obind (withdraw_one rx prop mult) (fun x ->
        obind (withdraw_one ry prop mult) (fun y -> Ok (x, y)))))

(** val withdraw :
    coq_Z -> coq_Z -> coq_Z -> coq_Z -> coq_Z -> (coq_Z * coq_Z) outcome **)

let withdraw rx ry ps pc fee =
  if Z.eqb pc ps
  then Ok (rx, ry)
  else (match withdraw_body rx ry ps pc fee with
        | Err _ -> Ok (Z0, Z0)
        | x -> x)

(** val ndigits_loop : nat -> coq_Z -> coq_Z **)

let rec ndigits_loop fuel z =
  match fuel with
  | O -> Zpos Coq_xH
  | S f ->
    if Z.ltb z (Zpos (Coq_xO (Coq_xI (Coq_xO Coq_xH))))
    then Zpos Coq_xH
    else Z.add (Zpos Coq_xH)
           (ndigits_loop f (Z.div z (Zpos (Coq_xO (Coq_xI (Coq_xO Coq_xH))))))

(** val text_len : coq_Z -> coq_Z **)

let text_len z =
  Z.add (if Z.ltb z Z0 then Zpos Coq_xH else Z0)
    (ndigits_loop (S (S (S (S (S (S (S (S (S (S (S (S (S (S (S (S (S (S (S (S
      (S (S (S (S (S (S (S (S (S (S (S (S (S (S (S (S (S (S (S (S (S (S (S (S
      (S (S (S (S (S (S (S (S (S (S (S (S (S (S (S (S (S (S (S (S (S (S (S (S
      (S (S (S (S (S (S (S (S (S (S (S (S (S (S (S (S (S (S (S (S (S (S (S (S
      (S (S (S (S (S (S (S (S
      O))))))))))))))))))))))))))))))))))))))))))))))))))))))))))))))))))))))))))))))))))))))))))))))))))))
      (Z.abs z))

(** val initial_pool_coin_supply : coq_Z -> coq_Z -> coq_Z **)

let initial_pool_coin_supply x y =
  let cx = Z.sub (text_len x) (Zpos Coq_xH) in
  let cy = Z.sub (text_len y) (Zpos Coq_xH) in
  let c =
    Z.quot
      (Z.add (Z.add (Z.add cx (Zpos Coq_xH)) (Z.add cy (Zpos Coq_xH))) (Zpos
        Coq_xH)) (Zpos (Coq_xO Coq_xH))
  in
  Z.pow (Zpos (Coq_xO (Coq_xI (Coq_xO Coq_xH)))) c

(** val coq_MinPoolPrice : coq_Z **)

let coq_MinPoolPrice =
  Zpos (Coq_xO (Coq_xO (Coq_xO (Coq_xI (Coq_xO (Coq_xI (Coq_xI (Coq_xI
    (Coq_xI Coq_xH)))))))))

(** val coq_MaxPoolPrice : coq_Z **)

let coq_MaxPoolPrice =
  Z.mul (Zpos (Coq_xO (Coq_xO (Coq_xO (Coq_xO (Coq_xO (Coq_xO (Coq_xO (Coq_xO
    (Coq_xO (Coq_xO (Coq_xO (Coq_xO (Coq_xO (Coq_xO (Coq_xO (Coq_xO (Coq_xO
    (Coq_xO (Coq_xO (Coq_xO (Coq_xI (Coq_xO (Coq_xO (Coq_xO (Coq_xI (Coq_xI
    (Coq_xO (Coq_xO (Coq_xO (Coq_xI (Coq_xI (Coq_xO (Coq_xI (Coq_xO (Coq_xI
    (Coq_xI (Coq_xO (Coq_xI (Coq_xO (Coq_xO (Coq_xO (Coq_xI (Coq_xI (Coq_xI
    (Coq_xI (Coq_xO (Coq_xI (Coq_xO (Coq_xI (Coq_xI (Coq_xI (Coq_xO (Coq_xO
    (Coq_xO (Coq_xI (Coq_xI (Coq_xI (Coq_xI (Coq_xO (Coq_xI (Coq_xO (Coq_xI
    (Coq_xI (Coq_xO (Coq_xI (Coq_xO
    Coq_xH)))))))))))))))))))))))))))))))))))))))))))))))))))))))))))))))))))
    coq_P18

(** val coq_MinGapRatio : coq_Z **)

let coq_MinGapRatio =
  Zpos (Coq_xO (Coq_xO (Coq_xO (Coq_xO (Coq_xO (Coq_xO (Coq_xO (Coq_xO
    (Coq_xO (Coq_xO (Coq_xO (Coq_xO (Coq_xO (Coq_xO (Coq_xO (Coq_xI (Coq_xO
    (Coq_xI (Coq_xI (Coq_xO (Coq_xO (Coq_xO (Coq_xI (Coq_xI (Coq_xO (Coq_xO
    (Coq_xI (Coq_xO (Coq_xO (Coq_xI (Coq_xO (Coq_xI (Coq_xO (Coq_xI (Coq_xI
    (Coq_xI (Coq_xI (Coq_xI (Coq_xI (Coq_xO (Coq_xI (Coq_xO (Coq_xI (Coq_xI
    (Coq_xO (Coq_xO (Coq_xO (Coq_xI (Coq_xI
    Coq_xH)))))))))))))))))))))))))))))))))))))))))))))))))

(** val coq_MaxCoinAmount : coq_Z **)

let coq_MaxCoinAmount =
  Z.pow (Zpos (Coq_xO (Coq_xI (Coq_xO Coq_xH)))) (Zpos (Coq_xO (Coq_xO
    (Coq_xO (Coq_xI (Coq_xO Coq_xH))))))

(** val create_basic_pool :
    coq_Z -> coq_Z -> ((coq_Z * coq_Z) * coq_Z) outcome **)

let create_basic_pool rx ry =
  if (||) (Z.eqb rx Z0) (Z.eqb ry Z0)
  then Err (Zpos Coq_xH)
  else (match dquo_c (dec_of_int rx) (dec_of_int ry) with
        | Some p ->
          if Z.ltb p coq_MinPoolPrice
          then Err (Zpos (Coq_xO Coq_xH))
          else if Z.gtb p coq_MaxPoolPrice
               then Err (Zpos (Coq_xI Coq_xH))
               else Ok ((rx, ry), (initial_pool_coin_supply rx ry))
        | None -> Panic)

(** val ob : 'a1 option -> ('a1 -> 'a2 option) -> 'a2 option **)

let ob x f =
  match x with
  | Some a -> f a
  | None -> None

(** val sqrt_d : coq_Z -> coq_Z option **)

let sqrt_d x =
  chk_dec (dsqrt x)

(** val inv_d : coq_Z -> coq_Z option **)

let inv_d x =
  dquo_c coq_P18 x

(** val validate_ranged : coq_Z -> coq_Z -> coq_Z -> unit outcome **)

let validate_ranged minP maxP initP =
  if negb (Z.gtb initP Z0)
  then Err (Zpos Coq_xH)
  else if Z.ltb minP coq_MinPoolPrice
       then Err (Zpos (Coq_xO Coq_xH))
       else if negb (Z.gtb maxP Z0)
            then Err (Zpos (Coq_xI Coq_xH))
            else if Z.gtb maxP coq_MaxPoolPrice
                 then Err (Zpos (Coq_xO (Coq_xO Coq_xH)))
                 else if negb (Z.gtb maxP minP)
                      then Err (Zpos (Coq_xI (Coq_xO Coq_xH)))
                      else (match ob (dsub_c maxP minP) (fun d ->
                                    dquo_c d minP) with
                            | Some g ->
                              if Z.ltb g coq_MinGapRatio
                              then Err (Zpos (Coq_xO (Coq_xI Coq_xH)))
                              else if Z.ltb initP minP
                                   then Err (Zpos (Coq_xI (Coq_xI Coq_xH)))
                                   else if Z.gtb initP maxP
                                        then Err (Zpos (Coq_xO (Coq_xO
                                               (Coq_xO Coq_xH))))
                                        else Ok ()
                            | None -> Panic)

(** val derive_translation :
    coq_Z -> coq_Z -> coq_Z -> coq_Z -> (coq_Z * coq_Z) option **)

let derive_translation rx ry minP maxP =
  let rxd = dec_of_int rx in
  let ryd = dec_of_int ry in
  ob (sqrt_d minP) (fun sqrtM ->
    ob (sqrt_d maxP) (fun sqrtL ->
      ob
        (if Z.eqb rxd Z0
         then Some sqrtM
         else if Z.eqb ryd Z0
              then Some sqrtL
              else ob (dquo_c rxd ryd) (fun xy ->
                     if Z.eqb xy Z0
                     then Some sqrtM
                     else ob (dquo_c ryd rxd) (fun yx ->
                            if Z.eqb yx Z0
                            then Some sqrtL
                            else ob (sqrt_d xy) (fun sxy ->
                                   ob (dquo_c sqrtM sxy) (fun a1 ->
                                     ob (dquo_c sxy sqrtL) (fun a2 ->
                                       ob (dsub_c a1 a2) (fun alpha ->
                                         ob
                                           (chk_dec
                                             (dpower alpha (Zpos (Coq_xO
                                               Coq_xH)))) (fun al2 ->
                                           ob
                                             (dadd_c al2
                                               (Z.mul (Zpos (Coq_xO (Coq_xO
                                                 Coq_xH))) coq_P18))
                                             (fun al24 ->
                                             ob (sqrt_d al24) (fun sq ->
                                               ob (dadd_c alpha sq)
                                                 (fun s1 ->
                                                 dmul_c
                                                   (Z.quot s1 (Zpos (Coq_xO
                                                     Coq_xH))) sxy)))))))))))
        (fun sqrtP ->
        ob
          (if negb (Z.eqb sqrtP sqrtM)
           then ob (dsub_c sqrtP sqrtM) (fun d ->
                  ob (dquo_c rxd d) (fun k -> Some (Some k)))
           else Some None) (fun sqrtK0 ->
          ob
            (if negb (Z.eqb sqrtP sqrtL)
             then ob (inv_d sqrtP) (fun ip ->
                    ob (inv_d sqrtL) (fun il ->
                      ob (dsub_c ip il) (fun d ->
                        ob (dquo_c ryd d) (fun sqrtK2 ->
                          match sqrtK0 with
                          | Some sqrtK ->
                            ob
                              (chk_dec (dpower sqrtP (Zpos (Coq_xO Coq_xH))))
                              (fun p ->
                              ob (dmul_c sqrtK sqrtM) (fun n1 ->
                                ob (dadd_c rxd n1) (fun num1 ->
                                  ob (dquo_c sqrtK sqrtL) (fun d1 ->
                                    ob (dadd_c ryd d1) (fun den1 ->
                                      ob (dquo_c num1 den1) (fun p1 ->
                                        ob (dmul_c sqrtK2 sqrtM) (fun n2 ->
                                          ob (dadd_c rxd n2) (fun num2 ->
                                            ob (dquo_c sqrtK2 sqrtL)
                                              (fun d2 ->
                                              ob (dadd_c ryd d2) (fun den2 ->
                                                ob (dquo_c num2 den2)
                                                  (fun p2 ->
                                                  if Z.gtb
                                                       (Z.abs (Z.sub p p1))
                                                       (Z.abs (Z.sub p p2))
                                                  then Some (Some sqrtK2)
                                                  else Some (Some sqrtK))))))))))))
                          | None -> Some (Some sqrtK2)))))
             else Some sqrtK0) (fun sqrtKo ->
            match sqrtKo with
            | Some sqrtK ->
              ob (dmul_c sqrtK sqrtM) (fun tx ->
                ob (dquo_c sqrtK sqrtL) (fun ty -> Some (tx, ty)))
            | None -> None)))))

type rpool = { r_rx : coq_Z; r_ry : coq_Z; r_ps : coq_Z; r_min : coq_Z;
               r_max : coq_Z; r_tx : coq_Z; r_ty : coq_Z; r_xc : coq_Z;
               r_yc : coq_Z }

(** val new_ranged_pool :
    coq_Z -> coq_Z -> coq_Z -> coq_Z -> coq_Z -> rpool option **)

let new_ranged_pool rx ry ps minP maxP =
  ob (derive_translation rx ry minP maxP) (fun t ->
    ob (dadd_c (dec_of_int rx) (fst t)) (fun xc ->
      ob (dadd_c (dec_of_int ry) (snd t)) (fun yc -> Some { r_rx = rx; r_ry =
        ry; r_ps = ps; r_min = minP; r_max = maxP; r_tx = (fst t); r_ty =
        (snd t); r_xc = xc; r_yc = yc })))

(** val ranged_price : rpool -> coq_Z option **)

let ranged_price p =
  if (&&) (Z.eqb p.r_rx Z0) (Z.eqb p.r_ry Z0)
  then None
  else dquo_c p.r_xc p.r_yc

(** val create_ranged_amounts :
    coq_Z -> coq_Z -> coq_Z -> coq_Z -> coq_Z -> (coq_Z * coq_Z) outcome **)

let create_ranged_amounts x y minP maxP initP =
  if (&&) (negb (Z.gtb x Z0)) (negb (Z.gtb y Z0))
  then Err (Zpos (Coq_xI (Coq_xO (Coq_xO Coq_xH))))
  else obind (validate_ranged minP maxP initP) (fun _ ->
         if Z.eqb initP minP
         then Ok (Z0, y)
         else if Z.eqb initP maxP
              then Ok (x, Z0)
              else let r =
                     ob (sqrt_d initP) (fun sqrtP ->
                       ob (sqrt_d minP) (fun sqrtM ->
                         ob (sqrt_d maxP) (fun sqrtL ->
                           ob (dsub_c sqrtP sqrtM) (fun dpm ->
                             ob (dquo_c (dec_of_int x) dpm) (fun q1 ->
                               ob (inv_d sqrtP) (fun ip ->
                                 ob (inv_d sqrtL) (fun il ->
                                   ob (dsub_c ip il) (fun dinv ->
                                     ob (dmul_c q1 dinv) (fun m1 ->
                                       ob (dtrunc_int_c (dceil m1))
                                         (fun ay ->
                                         if Z.gtb ay y
                                         then ob (dquo_c (dec_of_int y) dinv)
                                                (fun q2 ->
                                                ob (dmul_c q2 dpm) (fun m2 ->
                                                  ob
                                                    (dtrunc_int_c (dceil m2))
                                                    (fun ax -> Some (ax, y))))
                                         else Some (x, ay)))))))))))
                   in
                   (match r with
                    | Some v -> Ok v
                    | None -> Panic))

(** val create_ranged_pool :
    coq_Z -> coq_Z -> coq_Z -> coq_Z -> coq_Z -> rpool outcome **)

let create_ranged_pool x y minP maxP initP =
  obind (create_ranged_amounts x y minP maxP initP) (fun a ->
    match new_ranged_pool (fst a) (snd a)
            (initial_pool_coin_supply (fst a) (snd a)) minP maxP with
    | Some p -> Ok p
    | None -> Panic)

(** val ranged_buy_amount_over : rpool -> coq_Z -> coq_Z option **)

let ranged_buy_amount_over p price =
  let price0 = if Z.ltb price p.r_min then p.r_min else price in
  ob (ranged_price p) (fun pp ->
    if Z.geb price0 pp
    then Some Z0
    else ob (dmul_c price0 p.r_yc) (fun m ->
           ob (dsub_c p.r_xc m) (fun dx0 ->
             if negb (Z.gtb dx0 Z0)
             then Some Z0
             else let dx =
                    if Z.gtb dx0 (dec_of_int p.r_rx)
                    then dec_of_int p.r_rx
                    else dx0
                  in
                  if Z.eqb price Z0
                  then None
                  else (match ob (chk_dec (dquo_trunc dx price)) dtrunc_int_c with
                        | Some amt ->
                          Some
                            (if Z.gtb amt coq_MaxCoinAmount
                             then coq_MaxCoinAmount
                             else amt)
                        | None -> Some coq_MaxCoinAmount))))

(** val ranged_sell_amount_under : rpool -> coq_Z -> coq_Z option **)

let ranged_sell_amount_under p price =
  let price0 = if Z.gtb price p.r_max then p.r_max else price in
  ob (ranged_price p) (fun pp ->
    if Z.leb price0 pp
    then Some Z0
    else ob (dquo_up_c p.r_xc price0) (fun q ->
           ob (dsub_c p.r_yc q) (fun d ->
             ob (dtrunc_int_c d) (fun amt0 ->
               let amt = if Z.gtb amt0 p.r_ry then p.r_ry else amt0 in
               if negb (Z.gtb amt Z0) then Some Z0 else Some amt))))

type pstate = { p_rx : coq_Z; p_ry : coq_Z; p_ps : coq_Z }

type pop =
| Dep of coq_Z * coq_Z
| Wd of coq_Z * coq_Z

(** val depleted : bool -> pstate -> bool **)

let depleted ranged s =
  if ranged
  then (||) (Z.eqb s.p_ps Z0) ((&&) (Z.eqb s.p_rx Z0) (Z.eqb s.p_ry Z0))
  else (||) ((||) (Z.eqb s.p_ps Z0) (Z.eqb s.p_rx Z0)) (Z.eqb s.p_ry Z0)

(** val op_admissible : pstate -> pop -> bool **)

let op_admissible s = function
| Dep (x, y) -> (&&) (Z.leb Z0 x) (Z.leb Z0 y)
| Wd (pc, fee) ->
  (&&) ((&&) ((&&) (Z.ltb Z0 pc) (Z.leb pc s.p_ps)) (Z.leb Z0 fee))
    (Z.leb fee coq_P18)

(** val pstep : bool -> pstate -> pop -> pstate **)

let pstep ranged s o =
  if depleted ranged s
  then s
  else if negb (op_admissible s o)
       then s
       else (match o with
             | Dep (x, y) ->
               (match deposit s.p_rx s.p_ry s.p_ps x y with
                | Ok a ->
                  let (p, pc) = a in
                  let (ax, ay) = p in
                  if Z.eqb pc Z0
                  then s
                  else { p_rx = (Z.add s.p_rx ax); p_ry = (Z.add s.p_ry ay);
                         p_ps = (Z.add s.p_ps pc) }
                | _ -> s)
             | Wd (pc, fee) ->
               (match withdraw s.p_rx s.p_ry s.p_ps pc fee with
                | Ok a ->
                  let (x, y) = a in
                  if (&&) (Z.eqb x Z0) (Z.eqb y Z0)
                  then s
                  else { p_rx = (Z.sub s.p_rx x); p_ry = (Z.sub s.p_ry y);
                         p_ps = (Z.sub s.p_ps pc) }
                | _ -> s))

(** val prun : bool -> pstate -> pop list -> pstate **)

let prun ranged s ops =
  fold_left (pstep ranged) ops s

(** val holds_C06_deposit :
    coq_Z -> coq_Z -> coq_Z -> coq_Z -> coq_Z -> coq_Z -> coq_Z -> coq_Z ->
    bool **)

let holds_C06_deposit rx ry ps x y ax ay pc =
  (&&)
    ((&&)
      ((&&)
        ((&&)
          ((&&)
            ((&&) ((&&) ((&&) (Z.leb Z0 ax) (Z.leb ax x)) (Z.leb Z0 ay))
              (Z.leb ay y)) (Z.leb Z0 pc)) (Z.leb (Z.mul pc rx) (Z.mul x ps)))
        (Z.leb (Z.mul pc ry) (Z.mul y ps)))
      (Z.leb (Z.mul (Z.sub (Z.mul pc rx) (Z.mul ax ps)) coq_P18)
        (Z.mul rx ps)))
    (Z.leb (Z.mul (Z.sub (Z.mul pc ry) (Z.mul ay ps)) coq_P18) (Z.mul ry ps))

(** val holds_C06_withdraw :
    coq_Z -> coq_Z -> coq_Z -> coq_Z -> coq_Z -> coq_Z -> coq_Z -> bool **)

let holds_C06_withdraw rx ry ps pc fee x y =
  if Z.eqb pc ps
  then (&&) (Z.eqb x rx) (Z.eqb y ry)
  else (&&)
         ((&&) ((&&) (Z.leb Z0 x) (Z.leb Z0 y))
           (Z.leb (Z.mul (Z.mul x ps) coq_P18)
             (Z.mul (Z.mul rx pc) (Z.sub coq_P18 fee))))
         (Z.leb (Z.mul (Z.mul y ps) coq_P18)
           (Z.mul (Z.mul ry pc) (Z.sub coq_P18 fee)))

(** val holds_C06_value : pstate -> pstate -> bool **)

let holds_C06_value s s' =
  (&&) ((&&) ((&&) (Z.leb Z0 s'.p_rx) (Z.leb Z0 s'.p_ry)) (Z.leb Z0 s'.p_ps))
    (if Z.eqb s'.p_ps Z0
     then (&&) (Z.eqb s'.p_rx Z0) (Z.eqb s'.p_ry Z0)
     else (&&)
            (Z.leb
              (Z.mul (Z.mul s.p_rx s'.p_ps) (Z.sub coq_P18 (Zpos Coq_xH)))
              (Z.mul (Z.mul s'.p_rx s.p_ps) coq_P18))
            (Z.leb
              (Z.mul (Z.mul s.p_ry s'.p_ps) (Z.sub coq_P18 (Zpos Coq_xH)))
              (Z.mul (Z.mul s'.p_ry s.p_ps) coq_P18)))

(** val holds_C06_clamp_buy : coq_Z -> coq_Z -> coq_Z -> bool **)

let holds_C06_clamp_buy rx price amt =
  (&&) (Z.leb Z0 amt)
    ((||) (Z.eqb amt coq_MaxCoinAmount)
      (Z.leb (Z.mul price amt) (Z.mul rx coq_P18)))

(** val holds_C06_clamp_sell : coq_Z -> coq_Z -> bool **)

let holds_C06_clamp_sell ry amt =
  (&&) (Z.leb Z0 amt) (Z.leb amt ry)

(** val price_excursion : coq_Z -> coq_Z -> coq_Z -> coq_Z **)

let price_excursion minP maxP price =
  if Z.ltb price minP
  then Z.sub minP price
  else if Z.gtb price maxP then Z.sub price maxP else Z0

(** val holds_C06_price_range : coq_Z -> coq_Z -> coq_Z -> bool **)

let holds_C06_price_range minP maxP price =
  Z.eqb (price_excursion minP maxP price) Z0

(** val kf_C06_1 : coq_Z -> coq_Z -> bool **)

let kf_C06_1 rx ry =
  (&&) ((&&) (Z.ltb Z0 rx) (Z.ltb Z0 ry))
    ((||) (Z.eqb (dquo (dec_of_int rx) (dec_of_int ry)) Z0)
      (Z.eqb (dquo (dec_of_int ry) (dec_of_int rx)) Z0))

(** val kf_C06_2 : coq_Z -> coq_Z -> bool **)

let kf_C06_2 rx ry =
  (||) (Z.eqb rx Z0) (Z.eqb ry Z0)

(** val kf_C06_3 : coq_Z -> coq_Z -> coq_Z -> bool **)

let kf_C06_3 minP maxP price =
  let e = price_excursion minP maxP price in
  (&&) (Z.ltb Z0 e)
    (Z.leb
      (Z.mul e (Zpos (Coq_xO (Coq_xO (Coq_xO (Coq_xO (Coq_xO (Coq_xO (Coq_xI
        (Coq_xO (Coq_xO (Coq_xI (Coq_xO (Coq_xO (Coq_xO (Coq_xO (Coq_xI
        (Coq_xO (Coq_xI (Coq_xI (Coq_xI Coq_xH)))))))))))))))))))))
      (if Z.ltb price minP then minP else maxP))
