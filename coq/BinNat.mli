open BinNums
open BinPos
open Datatypes

module N :
 sig
  val succ_double : coq_N -> coq_N

  val double : coq_N -> coq_N

  val sub : coq_N -> coq_N -> coq_N

  val compare : coq_N -> coq_N -> comparison

  val leb : coq_N -> coq_N -> bool

  val pos_div_eucl : positive -> coq_N -> coq_N * coq_N
 end
