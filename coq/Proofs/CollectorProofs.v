(* Lemmas about the collector primitives of Model/Collector.v: what each does to the net-fee book
   and to the bank, non-negativity of net fees, and the backing invariant
   "collector custody >= every finite duplicate-free sum over apps of net fees". *)
From Comdex Require Import Lib.Base Lib.DecArith Model.Collector.
From Coq Require Import ZifyBool.

(* ---- keys ---- *)
Lemma keq_spec a b : keq a b = true <-> a = b.
Proof.
  destruct a as [a1 a2], b as [b1 b2]. unfold keq. cbn [fst snd].
  rewrite andb_true_iff, !Z.eqb_eq. split; [intros [-> ->]; reflexivity|intros H; injection H; auto].
Qed.
Lemma keq_refl a : keq a a = true. Proof. apply keq_spec. reflexivity. Qed.
Lemma keq_neq a b : a <> b -> keq a b = false.
Proof. intros H. destruct (keq a b) eqn:E; [apply keq_spec in E; contradiction|reflexivity]. Qed.
Lemma kupd_same {V} (m : key -> V) k v : kupd m k v k = v.
Proof. unfold kupd. rewrite keq_refl. reflexivity. Qed.
Lemma kupd_other {V} (m : key -> V) k v k' : k' <> k -> kupd m k v k' = m k'.
Proof. intros H. unfold kupd. rewrite keq_neq by exact H. reflexivity. Qed.

(* ---- bank ---- *)
Lemma bsend_spec b from to d amt b' :
  bsend b from to d amt = Ok b' ->
  0 <= amt /\
  (forall k, b' k = b k + (if keq k (to, d) then amt else 0) - (if keq k (from, d) then amt else 0)) /\
  (0 < amt -> from = A_EXT \/ amt <= b (from, d)).
Proof.
  unfold bsend. destruct (amt <? 0) eqn:E1; [discriminate|].
  destruct (amt =? 0) eqn:E2.
  - intros H. injection H as <-. split; [lia|]. split; [|lia].
    intros k. assert (amt = 0) by lia. subst. destruct (keq k (to, d)), (keq k (from, d)); lia.
  - destruct ((from =? A_EXT) || (amt <=? b (from, d))) eqn:E3; [|discriminate].
    intros H. injection H as <-. split; [lia|]. split; [|intros _; lia].
    intros k. unfold kupd.
    destruct (keq k (to, d)) eqn:K1, (keq k (from, d)) eqn:K2; cbn.
    + apply keq_spec in K1, K2. subst k. injection K2 as ->. rewrite keq_refl. lia.
    + apply keq_spec in K1. subst k. rewrite K2. lia.
    + apply keq_spec in K2. subst k. lia.
    + lia.
Qed.

(* the view of a collector state that the invariants talk about *)
Definition cbal (c : cstate) (d : Z) : Z := bnk c (A_COLLECTOR, d).

Lemma csend_spec c from to d amt c' :
  csend c from to d amt = Ok c' ->
  0 <= amt /\ nf c' = nf c /\ clk c' = clk c /\ amp c' = amp c /\ has_asset c' = has_asset c /\ has_app c' = has_app c /\
  esm_on c' = esm_on c /\ brk_on c' = brk_on c /\
  (forall k, bnk c' k = bnk c k + (if keq k (to, d) then amt else 0) - (if keq k (from, d) then amt else 0)) /\
  (0 < amt -> from = A_EXT \/ amt <= bnk c (from, d)).
Proof.
  unfold csend. destruct (bsend (bnk c) from to d amt) eqn:E; try discriminate.
  intros H. injection H as <-. destruct (bsend_spec _ _ _ _ _ _ E) as (H1 & H2 & H3).
  cbn. repeat split; auto.
Qed.

Lemma set_net_fee_spec c app asset fee c' :
  set_net_fee c app asset fee = Ok c' ->
  0 <= fee /\ nf c' = kupd (nf c) (app, asset) (Some (nf_val c app asset + fee)) /\ bnk c' = bnk c /\
  clk c' = clk c /\ amp c' = amp c /\ has_asset c' = has_asset c /\ has_app c' = has_app c /\
  esm_on c' = esm_on c /\ brk_on c' = brk_on c.
Proof.
  unfold set_net_fee, nf_val. destruct (fee <? 0) eqn:E; [discriminate|].
  destruct (nf c (app, asset)) eqn:F; intros H; injection H as <-; cbn; repeat split; auto; lia.
Qed.

Lemma decrease_net_fee_spec c app asset amt c' :
  decrease_net_fee c app asset amt = Ok c' ->
  amt <= nf_val c app asset /\ nf c (app, asset) <> None /\
  nf c' = kupd (nf c) (app, asset) (Some (nf_val c app asset - amt)) /\ bnk c' = bnk c /\
  clk c' = clk c /\ amp c' = amp c /\ has_asset c' = has_asset c /\ has_app c' = has_app c /\
  esm_on c' = esm_on c /\ brk_on c' = brk_on c.
Proof.
  unfold decrease_net_fee, nf_val. destruct (nf c (app, asset)) eqn:F; [|discriminate].
  destruct (z - amt <? 0) eqn:E; [discriminate|].
  intros H; injection H as <-; cbn; repeat split; auto; try lia. discriminate.
Qed.

Lemma set_auction_mapping_spec c app asset f c' :
  set_auction_mapping c app asset f = Ok c' ->
  nf c' = nf c /\ bnk c' = bnk c /\ clk c' = clk c /\ has_asset c' = has_asset c /\ has_app c' = has_app c /\
  esm_on c' = esm_on c /\ brk_on c' = brk_on c /\ amp c' = kupd (amp c) (app, asset) (Some f).
Proof.
  unfold set_auction_mapping.
  destruct (negb (has_app c app)); [discriminate|]. destruct (negb (has_asset c asset)); [discriminate|].
  destruct (af_surplus f && af_distributor f); [discriminate|]. destruct (af_surplus f && af_debt f); [discriminate|].
  intros H; injection H as <-. cbn. repeat split; auto.
Qed.

(* ---- net fees never negative ---- *)
Definition NfNonneg (c : cstate) : Prop := forall k x, nf c k = Some x -> 0 <= x.

Lemma nf_val_nonneg c app asset : NfNonneg c -> 0 <= nf_val c app asset.
Proof. intros H. unfold nf_val. destruct (nf c (app, asset)) eqn:E; [exact (H _ _ E)|lia]. Qed.

Lemma nfnonneg_upd c c' k v :
  NfNonneg c -> nf c' = kupd (nf c) k (Some v) -> 0 <= v -> NfNonneg c'.
Proof.
  intros H E Hv k' x. rewrite E. unfold kupd. destruct (keq k' k).
  - intros H1; injection H1 as <-. exact Hv.
  - apply H.
Qed.

Lemma nfnonneg_same c c' : NfNonneg c -> nf c' = nf c -> NfNonneg c'.
Proof. intros H E k x. rewrite E. apply H. Qed.

Lemma set_net_fee_nonneg c app asset fee c' :
  set_net_fee c app asset fee = Ok c' -> NfNonneg c -> NfNonneg c'.
Proof.
  intros H Hn. destruct (set_net_fee_spec _ _ _ _ _ H) as (H1 & H2 & _).
  eapply nfnonneg_upd; [exact Hn|exact H2|]. pose proof (nf_val_nonneg c app asset Hn). lia.
Qed.

Lemma decrease_net_fee_nonneg c app asset amt c' :
  decrease_net_fee c app asset amt = Ok c' -> NfNonneg c -> NfNonneg c'.
Proof.
  intros H Hn. destruct (decrease_net_fee_spec _ _ _ _ _ H) as (H1 & _ & H2 & _).
  eapply nfnonneg_upd; [exact Hn|exact H2|lia].
Qed.

(* ---- sums over duplicate-free app lists ---- *)
Lemma sum_over_ext l f g : (forall a, In a l -> f a = g a) -> sum_over l f = sum_over l g.
Proof.
  induction l as [|a r IH]; intros H; cbn; [reflexivity|].
  rewrite (H a) by (left; reflexivity). rewrite IH; [reflexivity|]. intros b Hb. apply H. right. exact Hb.
Qed.

Lemma sum_over_bump l f g a0 dl :
  NoDup l -> (forall a, g a = f a + (if a =? a0 then dl else 0)) ->
  sum_over l g = sum_over l f + (if existsb (Z.eqb a0) l then dl else 0).
Proof.
  intros Hnd Hg. induction Hnd as [|a r Hni Hnd IH]; cbn; [lia|].
  rewrite Hg, IH. destruct (Z.eqb_spec a a0) as [->|Hne].
  - rewrite Z.eqb_refl. cbn.
    assert (existsb (Z.eqb a0) r = false) as ->.
    { destruct (existsb (Z.eqb a0) r) eqn:E; [|reflexivity]. apply existsb_exists in E. destruct E as (x & Hx & Hx').
      apply Z.eqb_eq in Hx'. subst x. contradiction. }
    lia.
  - destruct (Z.eqb_spec a0 a); [congruence|]. cbn. lia.
Qed.

Lemma existsb_false_notin a0 l : existsb (Z.eqb a0) l = false -> ~ In a0 l.
Proof.
  intros E Hin. assert (existsb (Z.eqb a0) l = true); [|congruence].
  apply existsb_exists. exists a0. split; [exact Hin|apply Z.eqb_refl].
Qed.

(* ---- the backing invariant ---- *)
Definition Backed (c : cstate) : Prop :=
  forall d l, NoDup l -> nf_total c l d <= cbal c d.

Lemma nf_val_upd c c' app asset v a d :
  nf c' = kupd (nf c) (app, asset) (Some v) ->
  nf_val c' a d = if (a =? app) && (d =? asset) then v else nf_val c a d.
Proof.
  intros E. unfold nf_val. rewrite E. unfold kupd, keq. cbn [fst snd]. destruct ((a =? app) && (d =? asset)); reflexivity.
Qed.

(* the one place where the shape of the invariant is used: a book entry moves by [dl] and the
   custody balance of that asset by at least [dl]; for an outflow the entry itself stays >= 0 *)
Lemma backed_upd c c' app asset dl :
  NfNonneg c -> Backed c ->
  nf c' = kupd (nf c) (app, asset) (Some (nf_val c app asset + dl)) ->
  0 <= nf_val c app asset + dl ->
  (forall d, cbal c d + (if d =? asset then dl else 0) <= cbal c' d) ->
  Backed c'.
Proof.
  intros Hn Hb Hnf Hv Hbal d l Hnd.
  specialize (Hbal d). unfold nf_total.
  destruct (Z.eqb_spec d asset) as [Heq|Hne].
  - subst d. rewrite (sum_over_bump l (fun a => nf_val c a asset) (fun a => nf_val c' a asset) app dl Hnd).
    2:{ intros a. rewrite (nf_val_upd c c' app asset _ a asset Hnf). rewrite Z.eqb_refl, andb_true_r.
        destruct (Z.eqb_spec a app) as [->|]; lia. }
    destruct (existsb (Z.eqb app) l) eqn:E.
    + pose proof (Hb asset l Hnd) as H1. unfold nf_total in H1. lia.
    + pose proof (Hb asset l Hnd) as H1. unfold nf_total in H1.
      destruct (Z_le_gt_dec 0 dl); [lia|].
      assert (Hnd' : NoDup (app :: l)) by (constructor; [apply existsb_false_notin; exact E|exact Hnd]).
      pose proof (Hb asset (app :: l) Hnd') as H2. unfold nf_total in H2. cbn [sum_over] in H2. lia.
  - rewrite (sum_over_ext l (fun a => nf_val c' a d) (fun a => nf_val c a d)).
    + pose proof (Hb d l Hnd) as H1. unfold nf_total in H1. lia.
    + intros a _. rewrite (nf_val_upd c c' app asset _ a d Hnf).
      destruct (Z.eqb_spec d asset); [contradiction|]. rewrite andb_false_r. reflexivity.
Qed.

Lemma backed_same c c' :
  Backed c -> nf c' = nf c -> (forall d, cbal c d <= cbal c' d) -> Backed c'.
Proof.
  intros Hb Hnf Hbal d l Hnd. specialize (Hb d l Hnd). specialize (Hbal d).
  unfold nf_total in *. rewrite (sum_over_ext l (fun a => nf_val c' a d) (fun a => nf_val c a d)); [lia|].
  intros a _. unfold nf_val. rewrite Hnf. reflexivity.
Qed.

(* collector balance after a send *)
Lemma cbal_csend c from to d amt c' d' :
  csend c from to d amt = Ok c' ->
  cbal c' d' = cbal c d' + (if (to =? A_COLLECTOR) && (d' =? d) then amt else 0)
                         - (if (from =? A_COLLECTOR) && (d' =? d) then amt else 0).
Proof.
  intros H. destruct (csend_spec _ _ _ _ _ _ H) as (_ & _ & _ & _ & _ & _ & _ & _ & Hb & _).
  unfold cbal. rewrite Hb. unfold keq. cbn [fst snd].
  rewrite (Z.eqb_sym A_COLLECTOR to), (Z.eqb_sym A_COLLECTOR from). reflexivity.
Qed.

(* coins in, then booked (UpdateCollector, penalties, auction closes) *)
Lemma backed_in c c1 c2 from app asset amt :
  from <> A_COLLECTOR ->
  csend c from A_COLLECTOR asset amt = Ok c1 -> set_net_fee c1 app asset amt = Ok c2 ->
  NfNonneg c -> Backed c -> Backed c2.
Proof.
  intros Hf H1 H2 Hn Hb.
  destruct (csend_spec _ _ _ _ _ _ H1) as (Ha & Hnf1 & _).
  destruct (set_net_fee_spec _ _ _ _ _ H2) as (_ & Hnf2 & Hb2 & _).
  assert (Hv : nf_val c1 app asset = nf_val c app asset) by (unfold nf_val; rewrite Hnf1; reflexivity).
  apply (backed_upd c c2 app asset amt Hn Hb).
  - rewrite Hnf2, Hnf1, Hv. reflexivity.
  - pose proof (nf_val_nonneg c app asset Hn). lia.
  - intros d. unfold cbal at 2. rewrite Hb2. fold (cbal c1 d). rewrite (cbal_csend _ _ _ _ _ _ d H1).
    rewrite Z.eqb_refl. cbn [andb]. destruct (Z.eqb_spec from A_COLLECTOR); [contradiction|]. cbn [andb]. lia.
Qed.

(* coins out, then the book lowered (GetAmountFromCollector, WasmMsgGetSurplusFund) *)
Lemma backed_out c c1 c2 to app asset amt :
  to <> A_COLLECTOR ->
  csend c A_COLLECTOR to asset amt = Ok c1 -> decrease_net_fee c1 app asset amt = Ok c2 ->
  NfNonneg c -> Backed c -> Backed c2.
Proof.
  intros Hf H1 H2 Hn Hb.
  destruct (csend_spec _ _ _ _ _ _ H1) as (Ha & Hnf1 & _).
  destruct (decrease_net_fee_spec _ _ _ _ _ H2) as (Hle & _ & Hnf2 & Hb2 & _).
  assert (Hv : nf_val c1 app asset = nf_val c app asset) by (unfold nf_val; rewrite Hnf1; reflexivity).
  apply (backed_upd c c2 app asset (- amt) Hn Hb).
  - rewrite Hnf2, Hnf1, Hv. repeat f_equal; try lia.
  - lia.
  - intros d. unfold cbal at 2. rewrite Hb2. fold (cbal c1 d). rewrite (cbal_csend _ _ _ _ _ _ d H1).
    rewrite Z.eqb_refl. cbn [andb]. destruct (Z.eqb_spec to A_COLLECTOR); [contradiction|]. cbn [andb].
    destruct (d =? asset); lia.
Qed.

(* the book lowered, then coins out (locker rewards) *)
Lemma backed_out' c c1 c2 to app asset amt :
  to <> A_COLLECTOR -> 0 <= amt ->
  decrease_net_fee c app asset amt = Ok c1 -> csend c1 A_COLLECTOR to asset amt = Ok c2 ->
  NfNonneg c -> Backed c -> Backed c2.
Proof.
  intros Hf Ha H1 H2 Hn Hb.
  destruct (decrease_net_fee_spec _ _ _ _ _ H1) as (Hle & _ & Hnf1 & Hb1 & _).
  destruct (csend_spec _ _ _ _ _ _ H2) as (_ & Hnf2 & _).
  apply (backed_upd c c2 app asset (- amt) Hn Hb).
  - rewrite Hnf2, Hnf1. repeat f_equal; try lia.
  - lia.
  - intros d. rewrite (cbal_csend _ _ _ _ _ _ d H2). unfold cbal at 2. rewrite Hb1. fold (cbal c d).
    rewrite Z.eqb_refl. cbn [andb]. destruct (Z.eqb_spec to A_COLLECTOR); [contradiction|]. cbn [andb].
    destruct (d =? asset); lia.
Qed.

(* the book lowered alone (ESM, a skipped transfer) *)
Lemma backed_dec c c1 app asset amt :
  0 <= amt -> decrease_net_fee c app asset amt = Ok c1 -> NfNonneg c -> Backed c -> Backed c1.
Proof.
  intros Ha H1 Hn Hb.
  destruct (decrease_net_fee_spec _ _ _ _ _ H1) as (Hle & _ & Hnf1 & Hb1 & _).
  apply (backed_upd c c1 app asset (- amt) Hn Hb).
  - rewrite Hnf1. repeat f_equal; try lia.
  - lia.
  - intros d. unfold cbal. rewrite Hb1. destruct (d =? asset); lia.
Qed.

(* a transfer that does not leave the collector *)
Lemma backed_send_other c c1 from to d amt :
  from <> A_COLLECTOR -> csend c from to d amt = Ok c1 -> Backed c -> Backed c1.
Proof.
  intros Hf H1 Hb. destruct (csend_spec _ _ _ _ _ _ H1) as (Ha & Hnf1 & _).
  apply (backed_same c c1 Hb Hnf1). intros d'. rewrite (cbal_csend _ _ _ _ _ _ d' H1).
  destruct (Z.eqb_spec from A_COLLECTOR); [contradiction|]. cbn [andb].
  destruct ((to =? A_COLLECTOR) && (d' =? d)); lia.
Qed.
