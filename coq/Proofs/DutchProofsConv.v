(* C10: numeric bounds of vault.GetAmountOfOtherToken ([conv]) against the exact rational
     amt1 * r1 * d2 / (d1 * r2)
   The code rounds twice to 10^-18 (two Quo) and truncates once to an integer; with asset Decimals
   d2 <= 10^18 and a rate r2 of at least 10^-18 uusd per smallest unit (d2 <= r2) the result is at
   most one unit above and less than three units below the exact value. *)
From Comdex Require Import Lib.Base Lib.DecArith Lib.DecFacts Model.DutchV2 Proofs.DutchProofsPrice Proofs.DutchProofsBid.
From Coq Require Import ZifyBool.

(* Quo rounds to nearest: the upper error is half a unit *)
Lemma dquo_upper_half a b : 0 <= a -> 0 < b -> 2 * (dquo a b * b - a * P18) <= b.
Proof.
  intros Ha Hb. dec_consts. pose proof P36_eq.
  pose proof (quo_raw_bounds a b Ha Hb) as (Ht0 & Ht1 & Ht2). cbv zeta in *.
  unfold dquo. set (t := Z.quot (a * P36) b) in *.
  pose proof (chop_round_bounds t) as Hr. set (q := chop_round t) in *.
  assert (2 * (q * P18 * b) <= 2 * (a * P36) + P18 * b) by nia.
  assert ((2 * (q * b - a * P18) - b) * P18 <= 0) by nia. nia.
Qed.

Section Conv.
  Variables d1 r1 a d2 r2 : Z.
  Hypothesis Hd1 : 0 < d1.
  Hypothesis Hr1 : 0 <= r1.
  Hypothesis Ha : 0 <= a.
  Hypothesis Hd2 : 0 < d2 <= P18.
  Hypothesis Hr2 : d2 <= r2.

  Let t1 := dquo (a * r1) (dec_of_int d1).
  Let na := dquo t1 r2.

  Lemma conv_unfold : conv d1 r1 a d2 r2 = dtrunc_int (na * d2).
  Proof. rewrite conv_eq. reflexivity. Qed.

  Lemma conv_t1_nonneg : 0 <= t1.
  Proof. dec_consts. apply dquo_nonneg; [nia | unfold dec_of_int; nia]. Qed.

  Lemma conv_na_nonneg : 0 <= na.
  Proof. apply dquo_nonneg; [apply conv_t1_nonneg | lia]. Qed.

  (* received <= exact + 1 *)
  Lemma conv_upper : conv d1 r1 a d2 r2 * (d1 * r2) <= a * r1 * d2 + d1 * r2.
  Proof.
    dec_consts. pose proof conv_t1_nonneg as Ht. pose proof conv_na_nonneg as Hn.
    rewrite conv_unfold.
    assert (T1 : 2 * (t1 * d1 - a * r1) <= d1).
    { pose proof (dquo_upper_half (a * r1) (dec_of_int d1) ltac:(nia) ltac:(unfold dec_of_int; nia)) as U.
      fold t1 in U. unfold dec_of_int in U. clear - U H.
      assert ((2 * (t1 * d1 - a * r1) - d1) * P18 <= 0) by lia. nia. }
    assert (T2 : 2 * (na * r2 - t1 * P18) <= r2).
    { pose proof (dquo_upper_half t1 r2 Ht ltac:(lia)) as U. fold na in U. exact U. }
    assert (Hnd : 0 <= na * d2) by nia.
    pose proof (dtrunc_int_bounds (na * d2) Hnd) as (R0 & R1 & _). set (res := dtrunc_int (na * d2)) in *.
    clearbody t1 na res.
    (* res*S <= na*d2;  2*na*r2 <= 2*t1*S + r2;  2*t1*d1 <= 2*a*r1 + d1 *)
    assert (A : 2 * (res * P18) * r2 <= d2 * (2 * t1 * P18 + r2)).
    { pose proof (Z.mul_le_mono_nonneg_r _ _ (2 * r2) ltac:(lia) R1).
      pose proof (Z.mul_le_mono_nonneg_l _ _ d2 ltac:(lia) T2). lia. }
    assert (B : 2 * (res * P18) * r2 * d1 <= d2 * (P18 * (2 * a * r1 + d1) + r2 * d1)).
    { pose proof (Z.mul_le_mono_nonneg_r _ _ d1 ltac:(lia) A).
      pose proof (Z.mul_le_mono_nonneg_l _ _ (d2 * P18) ltac:(nia) T1). lia. }
    assert (C1 : d2 * (P18 * d1) <= r2 * (P18 * d1)) by (apply Z.mul_le_mono_nonneg_r; nia).
    assert (C2 : d2 * (r2 * d1) <= P18 * (r2 * d1)) by (apply Z.mul_le_mono_nonneg_r; nia).
    assert (E : (res * (d1 * r2) - (a * r1 * d2 + d1 * r2)) * P18 <= 0) by lia.
    clear - E H. nia.
  Qed.

  (* paid > exact - 3 *)
  Lemma conv_lower : a * r1 * d2 < (conv d1 r1 a d2 r2 + 3) * (d1 * r2).
  Proof.
    dec_consts. pose proof conv_t1_nonneg as Ht. pose proof conv_na_nonneg as Hn.
    rewrite conv_unfold.
    assert (T1 : a * r1 - t1 * d1 <= d1).
    { pose proof (dquo_bounds (a * r1) (dec_of_int d1) ltac:(nia) ltac:(unfold dec_of_int; nia)) as (L & _).
      fold t1 in L. unfold dec_of_int in L. clear - L H.
      assert ((a * r1 - t1 * d1 - d1) * P18 <= 0) by lia. nia. }
    assert (T2 : t1 * P18 - na * r2 <= r2).
    { pose proof (dquo_bounds t1 r2 Ht ltac:(lia)) as (L & _). fold na in L. lia. }
    assert (Hnd : 0 <= na * d2) by nia.
    pose proof (dtrunc_int_bounds (na * d2) Hnd) as (R0 & _ & R2). set (res := dtrunc_int (na * d2)) in *.
    clearbody t1 na res.
    (* na*d2 < (res+1)*S ;  t1*S <= na*r2 + r2 ; a*r1 <= t1*d1 + d1 *)
    assert (A : t1 * P18 * d2 < (res + 1) * P18 * r2 + r2 * d2).
    { pose proof (Z.mul_le_mono_nonneg_r _ _ d2 ltac:(lia) T2).
      assert (na * d2 * r2 < (res + 1) * P18 * r2) by (apply Z.mul_lt_mono_pos_r; lia). lia. }
    assert (B : a * r1 * (P18 * d2) <= t1 * d1 * (P18 * d2) + d1 * (P18 * d2)).
    { pose proof (Z.mul_le_mono_nonneg_r _ _ (P18 * d2) ltac:(nia) T1). lia. }
    assert (C : t1 * P18 * d2 * d1 < ((res + 1) * P18 * r2 + r2 * d2) * d1) by (apply Z.mul_lt_mono_pos_r; lia).
    assert (D : r2 * d2 * d1 <= P18 * r2 * d1).
    { assert (d2 * (r2 * d1) <= P18 * (r2 * d1)) by (apply Z.mul_le_mono_nonneg_r; nia). lia. }
    assert (E : d1 * (P18 * d2) <= P18 * r2 * d1).
    { assert (d2 * (P18 * d1) <= r2 * (P18 * d1)) by (apply Z.mul_le_mono_nonneg_r; nia). lia. }
    assert (G : (a * r1 * d2 - (res + 3) * (d1 * r2)) * P18 < 0) by lia.
    clear - G H. nia.
  Qed.
End Conv.

(* ------------------------------------------------------------------------------------------ *)
(* every successful generation-2 bid satisfies the extracted price predicate                   *)
Lemma bid_price_holds_gen auto cf lk a s who amt0 wd twa s' a' r :
  good_cfg cf lk -> good_auction cf lk a -> 0 <= twa < 9223372036854775808 ->
  c_dc cf <= P18 -> c_dc cf <= a_price a -> c_dd cf <= P18 -> c_dd cf <= dp_of lk twa ->
  place_bid_gen auto cf lk a s who amt0 wd twa = Ok (s', a', r) ->
  holds_C10_bid (c_dc cf) (c_dd cf) (a_price a) (dp_of lk twa) (a_coll a) (a_debt a) (a_bonus a)
                (r_paid r) (r_recv r) (r_closed r) = true.
Proof.
  intros GC GA Htwa Hdc1 Hdc2 Hdd1 Hdd2 H.
  pose proof (place_bid_amounts_gen _ _ _ _ _ _ _ _ _ _ _ _ GC GA Htwa H) as (Hpaid & Hrecv & Hrest).
  pose proof (dp_nonneg lk twa Htwa) as Hdp.
  destruct GC as [gdd gdc _ _ _ gbon], GA as [gdebt gcoll gbonus gprice _ _].
  set (dc := c_dc cf) in *. set (dd := c_dd cf) in *. set (pc := a_price a) in *. set (pd := dp_of lk twa) in *.
  unfold holds_C10_bid.
  assert (Hb0 : 0 <= a_bonus a) by lia.
  destruct a' as [b|].
  - destruct Hrest as (Hcl & Hp0 & _ & _ & _ & _ & _ & _ & _ & _ & Hrv). rewrite Hcl.
    pose proof (conv_upper dd pd (r_paid r) dc pc gdd Hdp ltac:(lia) ltac:(lia) Hdc2) as U. rewrite <- Hrv in U.
    assert ((r_recv r - 1) * (pc * dd) <= r_paid r * (pd * dc)) by nia.
    lia.
  - destruct Hrest as (Hcl & Hne & He & Hbon). rewrite Hcl.
    pose proof (conv_upper dd pd (a_bonus a) dc pc gdd Hdp Hb0 ltac:(lia) Hdc2) as UB. rewrite <- Hbon in UB.
    destruct (r_exh r) eqn:Hx.
    + destruct (He eq_refl) as (Hrl & Hpd & _ & _).
      assert (Hx0 : 0 <= a_coll a - r_bonus r \/ a_coll a - r_bonus r < 0) by lia.
      destruct Hx0 as [Hx0|Hx0].
      * pose proof (conv_lower dc pc (a_coll a - r_bonus r) dd pd gdc gprice Hx0 ltac:(lia) Hdd2) as L. rewrite <- Hpd in L.
        assert ((r_recv r - 2) * (pc * dd) <= (r_paid r + 3 + a_bonus a) * (pd * dc)) by nia.
        lia.
      * (* the bonus part alone exceeds what is left: bounded by the bonus conversion *)
        assert ((r_recv r - 2) * (pc * dd) <= (r_paid r + 3 + a_bonus a) * (pd * dc)) by nia.
        lia.
    + destruct (Hne eq_refl) as (Hpd & Hrv).
      pose proof (conv_upper dd pd (a_debt a) dc pc gdd Hdp gdebt ltac:(lia) Hdc2) as U.
      assert ((r_recv r - 2) * (pc * dd) <= (r_paid r + 3 + a_bonus a) * (pd * dc)) by nia.
      lia.
Qed.

Lemma bid_price_holds cf lk a s who amt0 wd twa s' a' r :
  good_cfg cf lk -> good_auction cf lk a -> 0 <= twa < 9223372036854775808 ->
  c_dc cf <= P18 -> c_dc cf <= a_price a -> c_dd cf <= P18 -> c_dd cf <= dp_of lk twa ->
  place_bid_core cf lk a s who amt0 wd twa = Ok (s', a', r) ->
  holds_C10_bid (c_dc cf) (c_dd cf) (a_price a) (dp_of lk twa) (a_coll a) (a_debt a) (a_bonus a)
                (r_paid r) (r_recv r) (r_closed r) = true.
Proof. exact (bid_price_holds_gen false cf lk a s who amt0 wd twa s' a' r). Qed.
