(* Tie (C), C06: lemmas about Model/Pool.v used by Properties/TieC06.v (nothing here depends on the
   regenerated Gen/PureFuns.v, so this file is compiled once). *)
From Comdex Require Import Lib.Base Lib.DecArith Lib.GoSem Model.Pool Proofs.PureFunsLemmas.

(* ---------------- C06: amm.DeriveTranslation ----------------
   DISAGREEMENT between Model/Pool.v and pool.go:571: the Go code compares
   p.Sub(p1).Abs() with p.Sub(p2).Abs(), and LegacyDec.Sub panics when the difference exceeds 315
   bits; Pool.derive_translation computes the two differences unchecked.  [derive_translation_c] is
   Pool.derive_translation with exactly these two subtractions checked (and the quotient rx/ry
   evaluated twice, as the Go code does - the same value).  The regenerated definition is proved
   equal to [derive_translation_c] for all inputs, and [derive_translation_c] agrees with the model
   wherever it does not panic: every value the code returns is the value the model returns. *)
Definition derive_translation_c (rx ry minP maxP : Z) : option (Z * Z) :=
  let rxd := dec_of_int rx in
  let ryd := dec_of_int ry in
  ob (sqrt_d minP) (fun sqrtM =>
  ob (sqrt_d maxP) (fun sqrtL =>
  ob (if rxd =? 0 then Some sqrtM
      else if ryd =? 0 then Some sqrtL
      else ob (dquo_c rxd ryd) (fun xy =>
           if xy =? 0 then Some sqrtM
           else ob (dquo_c ryd rxd) (fun yx =>
           if yx =? 0 then Some sqrtL
           else
             ob (dquo_c rxd ryd) (fun xy2 =>
             ob (sqrt_d xy2) (fun sxy =>
             ob (dquo_c sqrtM sxy) (fun a1 =>
             ob (dquo_c sxy sqrtL) (fun a2 =>
             ob (dsub_c a1 a2) (fun alpha =>
             ob (chk_dec (dpower alpha 2)) (fun al2 =>
             ob (dadd_c al2 (4 * P18)) (fun al24 =>
             ob (sqrt_d al24) (fun sq =>
             ob (dadd_c alpha sq) (fun s1 =>
             dmul_c (Z.quot s1 2) sxy))))))))))))
    (fun sqrtP =>
  ob (if negb (sqrtP =? sqrtM)
      then ob (dsub_c sqrtP sqrtM) (fun d => ob (dquo_c rxd d) (fun k => Some (Some k)))
      else Some None)
    (fun sqrtK0 =>
  ob (if negb (sqrtP =? sqrtL) then
        ob (inv_d sqrtP) (fun ip =>
        ob (inv_d sqrtL) (fun il =>
        ob (dsub_c ip il) (fun d =>
        ob (dquo_c ryd d) (fun sqrtK2 =>
        match sqrtK0 with
        | None => Some (Some sqrtK2)
        | Some sqrtK =>
            ob (chk_dec (dpower sqrtP 2)) (fun p =>
            ob (dmul_c sqrtK sqrtM) (fun n1 =>
            ob (dadd_c rxd n1) (fun num1 =>
            ob (dquo_c sqrtK sqrtL) (fun d1 =>
            ob (dadd_c ryd d1) (fun den1 =>
            ob (dquo_c num1 den1) (fun p1 =>
            ob (dmul_c sqrtK2 sqrtM) (fun n2 =>
            ob (dadd_c rxd n2) (fun num2 =>
            ob (dquo_c sqrtK2 sqrtL) (fun d2 =>
            ob (dadd_c ryd d2) (fun den2 =>
            ob (dquo_c num2 den2) (fun p2 =>
            ob (dsub_c p p1) (fun e1 =>
            ob (dsub_c p p2) (fun e2 =>
            if Z.abs e1 >? Z.abs e2 then Some (Some sqrtK2) else Some (Some sqrtK))))))))))))))
        end))))
      else Some sqrtK0)
    (fun sqrtKo =>
  match sqrtKo with
  | None => None
  | Some sqrtK =>
      ob (dmul_c sqrtK sqrtM) (fun tx =>
      ob (dquo_c sqrtK sqrtL) (fun ty => Some (tx, ty)))
  end))))).


Lemma derive_translation_c_agrees : forall rx ry minP maxP,
  derive_translation_c rx ry minP maxP = None \/
  derive_translation_c rx ry minP maxP = derive_translation rx ry minP maxP.
Proof.
  intros. unfold derive_translation_c, derive_translation, inv_d, sqrt_d.
  unfold dquo_c, dsub_c, dadd_c, dmul_c, dec_of_int, chk_dec. cbv [ob].
  agree_auto.
Qed.

(* constants of x/liquidity/amm/amm.go as the translator renders their initialisers *)
Lemma k_min_pool_price : dec_with_prec 1 15 = MinPoolPrice. Proof. vm_compute. reflexivity. Qed.
Lemma k_max_pool_price : dec_of_int (1 * 10 ^ 20) = MaxPoolPrice. Proof. vm_compute. reflexivity. Qed.
Lemma k_min_gap_ratio : dec_with_prec 1 3 = MinGapRatio. Proof. vm_compute. reflexivity. Qed.
Lemma k_max_coin_amount : 1 * 10 ^ 40 = MaxCoinAmount. Proof. vm_compute. reflexivity. Qed.
