(* Tie (C) for C17: how the results of the regenerated market functions are read as the values of
   Model/Market.v.  Definitions only. *)
From Comdex Require Import Lib.Base Model.Market.

(* the store cell of gen_market_UpdatePriceList on return: (found, AssetID, ScriptID, Twa, CurrentIndex,
   IsPriceActive, PriceValue, DiscardedHeightDiff) as the model's record of the asset *)
Definition cell_of (o : outcome (bool * Z * Z * Z * Z * bool * list Z * Z)) : outcome (option twa) :=
  match o with
  | Ok (found, _, _, a, i, act, vs, d) => Ok (if found then Some (mkTwa vs i a act d) else None)
  | Err c => Err c
  | Panic => Panic
  end.


(* what GetTwa returns for the model state t: found, and the record (the zero record when missing) *)
Definition twa_found (t : option twa) : bool := match t with Some _ => true | None => false end.
Definition twa_or0 (t : option twa) : twa := match t with Some tw => tw | None => mkTwa [] 0 0 false 0 end.

