(* C08 proofs, part 2: the invariant of the books and its preservation by the elementary
   transitions that the handlers are made of. *)
From Comdex Require Import Lib.Base Lib.DecArith Model.Lend Proofs.LendProofs.
From Coq Require Import ZifyBool.

Definition WFL (L : list (Z * lendpos)) (nl : Z) : Prop :=
  forall i l, zget L i = Some l -> 1 <= i <= nl.
Definition WFB (L : list (Z * lendpos)) (B : list (Z * borrowpos)) (nb : Z) : Prop :=
  forall j b, zget B j = Some b -> 1 <= j <= nb /\ (b_liq b = false -> exists l, zget L (b_lend b) = Some l /\ In j (l_bids l)).

(* what Inv08_lend / Inv08_borrow say about one published stats record *)
Definition stat_ok (cfg : config) L B (nl nb : Z) (k : Z * Z) (s : stats) : Prop :=
  s_lend s = lend_sum L B (Z.to_nat nl) (Z.to_nat nb) k /\
  s_bor s = bor_sum cfg B (Z.to_nat nb) false k /\
  s_sbor s = bor_sum cfg B (Z.to_nat nb) true k /\
  s_lids s = filter (l_in_key L k) (zseq (Z.to_nat nl)) /\
  s_bids s = filter (b_in_key cfg B k) (zseq (Z.to_nat nb)).
Definition SInv (cfg : config) L B (S : list ((Z * Z) * stats)) (nl nb : Z) : Prop :=
  forall k s, pget S k = Some s -> stat_ok cfg L B nl nb k s.
Definition InvB (cfg : config) L B S (nl nb : Z) : Prop :=
  0 <= nl /\ 0 <= nb /\ WFL L nl /\ WFB L B nb /\ SInv cfg L B S nl nb.
Definition Inv (cfg : config) (st : state) : Prop :=
  InvB cfg (lends st) (borrows st) (sstats st) (lctr st) (bctr st).

(* stats records that agree on everything the invariant reads *)
Definition same_books (s s' : stats) : Prop :=
  s_bor s' = s_bor s /\ s_sbor s' = s_sbor s /\ s_lids s' = s_lids s /\ s_bids s' = s_bids s.

Lemma to_nat_succ n : 0 <= n -> Z.to_nat (n + 1) = S (Z.to_nat n).
Proof. intros. rewrite Z2Nat.inj_add by lia. cbn. lia. Qed.
Lemma of_to_succ n : 0 <= n -> Z.of_nat (S (Z.to_nat n)) = n + 1.
Proof. intros. lia. Qed.

Lemma In_remove_sorted_other id x l : In x l -> x <> id -> In x (remove_sorted id l).
Proof.
  induction l as [|y r IH]; cbn; [tauto|]. intros [->|Hin] Hne.
  - destruct (x >=? id); [destruct (Z.eqb_spec x id); [contradiction|left; reflexivity]|left; reflexivity].
  - destruct (y >=? id); [destruct (y =? id); [exact Hin|right; exact Hin]|right; apply IH; assumption].
Qed.

Ltac split_key HS Hget k0 k :=
  rewrite HS in Hget; destruct (peqb k0 k) eqn:Ek;
  [apply peqb_eq in Ek; subst k; injection Hget as <- | ].

Section Transitions.
  Variable cfg : config.
  Variables (L : list (Z * lendpos)) (B : list (Z * borrowpos)) (S : list ((Z * Z) * stats)).
  Variables (nl nb : Z).
  Hypothesis HI : InvB cfg L B S nl nb.

  (* --- a lend record changes its AvailableToBorrow by d; its pool-asset TotalLend moves by d --- *)
  Lemma T_lend i l l' s s' S' :
    zget L i = Some l -> lkey l' = lkey l -> l_bids l' = l_bids l ->
    pget S (lkey l) = Some s -> same_books s s' -> s_lend s' = s_lend s + (l_avail l' - l_avail l) ->
    (forall k, pget S' k = if peqb (lkey l) k then Some s' else pget S k) ->
    InvB cfg (zset L i l') B S' nl nb.
  Proof.
    intros Hg Hk Hb Hs (E1 & E2 & E3 & E4) El HS. destruct HI as (Hnl & Hnb & Hwl & Hwb & HSI).
    assert (Hi := Hwl i l Hg).
    split; [exact Hnl|]. split; [exact Hnb|]. split; [|split].
    - intros i' x. rewrite zget_zset. destruct (Z.eqb_spec i i'); [intros _; lia|apply Hwl].
    - intros j b Hj. destruct (Hwb j b Hj) as (Hr & Hex). split; [exact Hr|]. intros Hq0. destruct (Hex Hq0) as (l0 & Hl0 & Hin).
      rewrite zget_zset. destruct (Z.eqb_spec i (b_lend b)) as [Heq|].
      + exists l'. split; [reflexivity|]. rewrite Hb. rewrite <- Heq, Hg in Hl0. injection Hl0 as ->. exact Hin.
      + exists l0. split; assumption.
    - intros k x Hget. split_key HS Hget (lkey l) k.
      + destruct (HSI _ _ Hs) as (A1 & A2 & A3 & A4 & A5). unfold stat_ok.
        rewrite (lend_sum_upd L B _ _ _ i l l' Hg Hk) by lia. rewrite peqb_refl.
        rewrite (lids_upd L _ _ i l l' Hg Hk). repeat split; congruence || lia.
      + destruct (HSI _ _ Hget) as (A1 & A2 & A3 & A4 & A5). unfold stat_ok.
        rewrite (lend_sum_upd L B _ _ _ i l l' Hg Hk) by lia. rewrite Ek.
        rewrite (lids_upd L _ _ i l l' Hg Hk). repeat split; congruence || lia.
  Qed.

  Lemma T_lend_same i l l' :
    zget L i = Some l -> lkey l' = lkey l -> l_bids l' = l_bids l -> l_avail l' = l_avail l ->
    InvB cfg (zset L i l') B S nl nb.
  Proof.
    intros Hg Hk Hb Ha. destruct HI as (Hnl & Hnb & Hwl & Hwb & HSI).
    assert (Hi := Hwl i l Hg).
    split; [exact Hnl|]. split; [exact Hnb|]. split; [|split].
    - intros i' x. rewrite zget_zset. destruct (Z.eqb_spec i i'); [intros _; lia|apply Hwl].
    - intros j b Hj. destruct (Hwb j b Hj) as (Hr & Hex). split; [exact Hr|]. intros Hq0. destruct (Hex Hq0) as (l0 & Hl0 & Hin).
      rewrite zget_zset. destruct (Z.eqb_spec i (b_lend b)) as [Heq|].
      + exists l'. split; [reflexivity|]. rewrite Hb. rewrite <- Heq, Hg in Hl0. injection Hl0 as ->. exact Hin.
      + exists l0. split; assumption.
    - intros k x Hget. destruct (HSI _ _ Hget) as (A1 & A2 & A3 & A4 & A5). unfold stat_ok.
      rewrite (lend_sum_upd L B _ _ _ i l l' Hg Hk) by lia.
      rewrite (lids_upd L _ _ i l l' Hg Hk). destruct (peqb (lkey l) k); repeat split; congruence || lia.
  Qed.

  (* --- a stats record rewritten without touching what the invariant reads (TotalInterestAccumulated) --- *)
  Lemma T_stats k0 s s' S' :
    pget S k0 = Some s -> same_books s s' -> s_lend s' = s_lend s ->
    (forall k, pget S' k = if peqb k0 k then Some s' else pget S k) ->
    InvB cfg L B S' nl nb.
  Proof.
    intros Hs (E1 & E2 & E3 & E4) El HS. destruct HI as (Hnl & Hnb & Hwl & Hwb & HSI).
    split; [exact Hnl|]. split; [exact Hnb|]. split; [exact Hwl|]. split; [exact Hwb|].
    intros k x Hget. split_key HS Hget k0 k.
    - destruct (HSI _ _ Hs) as (A1 & A2 & A3 & A4 & A5). unfold stat_ok. repeat split; congruence.
    - apply HSI. exact Hget.
  Qed.

  Lemma no_borrow_of_fresh_lend i : nl < i -> pledged B (Z.to_nat nb) i = 0.
  Proof.
    intros Hi. destruct HI as (Hnl & Hnb & Hwl & Hwb & HSI). unfold pledged. apply sumz_zero. intros j _.
    unfold bterm. destruct (zget B j) as [b|] eqn:Hb; [|reflexivity].
    destruct (b_liq b) eqn:Hq; [rewrite andb_false_r; reflexivity|].
    destruct (Hwb j b Hb) as (_ & Hex). destruct (Hex Hq) as (l0 & Hl0 & _). apply Hwl in Hl0.
    destruct (Z.eqb_spec (b_lend b) i); [lia|reflexivity].
  Qed.

  (* --- a new lend position --- *)
  Lemma T_newlend l s s' S' :
    pget S (lkey l) = Some s ->
    s_bor s' = s_bor s -> s_sbor s' = s_sbor s -> s_bids s' = s_bids s ->
    s_lend s' = s_lend s + l_avail l -> s_lids s' = s_lids s ++ [nl + 1] ->
    (forall k, pget S' k = if peqb (lkey l) k then Some s' else pget S k) ->
    InvB cfg (zset L (nl + 1) l) B S' (nl + 1) nb.
  Proof.
    intros Hs E1 E2 E4 El E3 HS. pose proof (no_borrow_of_fresh_lend (nl + 1) ltac:(lia)) as Hfresh.
    destruct HI as (Hnl & Hnb & Hwl & Hwb & HSI).
    assert (Hnone : zget L (nl + 1) = None).
    { destruct (zget L (nl + 1)) eqn:E; [|reflexivity]. apply Hwl in E. lia. }
    split; [lia|]. split; [exact Hnb|]. split; [|split].
    - intros i' x. rewrite zget_zset. destruct (Z.eqb_spec (nl + 1) i'); [intros _; lia|].
      intros H. apply Hwl in H. lia.
    - intros j b Hj. destruct (Hwb j b Hj) as (Hr & Hex). split; [exact Hr|]. intros Hq0. destruct (Hex Hq0) as (l0 & Hl0 & Hin).
      exists l0. split; [|exact Hin]. rewrite zget_zset_other; [exact Hl0|]. apply Hwl in Hl0. lia.
    - intros k x Hget. unfold stat_ok. rewrite (to_nat_succ nl Hnl).
      rewrite <- (of_to_succ nl Hnl). rewrite <- (of_to_succ nl Hnl) in Hfresh, Hnone, E3.
      rewrite (lend_sum_new L B _ _ k l Hfresh), (lids_new L _ k l Hnone).
      split_key HS Hget (lkey l) k.
      + destruct (HSI _ _ Hs) as (A1 & A2 & A3 & A4 & A5). rewrite ?peqb_refl. repeat split; congruence || lia.
      + destruct (HSI _ _ Hget) as (A1 & A2 & A3 & A4 & A5). rewrite ?Ek, ?app_nil_r. repeat split; congruence || lia.
  Qed.

  (* --- a lend position without open borrows deleted --- *)
  Lemma T_dellend i l s s' S' :
    zget L i = Some l -> (forall j b, zget B j = Some b -> b_liq b = false -> b_lend b <> i) ->
    pget S (lkey l) = Some s ->
    s_bor s' = s_bor s -> s_sbor s' = s_sbor s -> s_bids s' = s_bids s ->
    s_lend s' = s_lend s - l_avail l -> s_lids s' = remove_sorted i (s_lids s) ->
    (forall k, pget S' k = if peqb (lkey l) k then Some s' else pget S k) ->
    InvB cfg (zdel L i) B S' nl nb.
  Proof.
    intros Hg Hnob Hs E1 E2 E4 El E3 HS. destruct HI as (Hnl & Hnb & Hwl & Hwb & HSI).
    assert (Hi := Hwl i l Hg).
    assert (Hp : pledged B (Z.to_nat nb) i = 0).
    { unfold pledged. apply sumz_zero. intros j _. unfold bterm. destruct (zget B j) as [b|] eqn:Hj; [|reflexivity].
      destruct (b_liq b) eqn:Hq; [rewrite andb_false_r; reflexivity|].
      destruct (Z.eqb_spec (b_lend b) i) as [Heq|]; [exfalso; exact (Hnob j b Hj Hq Heq)|reflexivity]. }
    split; [exact Hnl|]. split; [exact Hnb|]. split; [|split].
    - intros i' x. rewrite zget_zdel. destruct (i =? i'); [discriminate|apply Hwl].
    - intros j b Hj. destruct (Hwb j b Hj) as (Hr & Hex). split; [exact Hr|]. intros Hq0. destruct (Hex Hq0) as (l0 & Hl0 & Hin).
      exists l0. split; [|exact Hin]. rewrite zget_zdel.
      destruct (Z.eqb_spec i (b_lend b)) as [Heq|]; [exfalso; exact (Hnob j b Hj Hq0 (eq_sym Heq))|exact Hl0].
    - intros k x Hget. unfold stat_ok.
      rewrite (lend_sum_del L B _ _ k i l Hg Hp) by lia. rewrite (lids_del L _ k i l Hg).
      split_key HS Hget (lkey l) k.
      + destruct (HSI _ _ Hs) as (A1 & A2 & A3 & A4 & A5). rewrite ?peqb_refl. repeat split; congruence || lia.
      + destruct (HSI _ _ Hget) as (A1 & A2 & A3 & A4 & A5). rewrite ?Ek. repeat split; congruence || lia.
  Qed.

  Lemma lend_in_range b j l : zget B j = Some b -> zget L (b_lend b) = Some l -> 1 <= b_lend b <= Z.of_nat (Z.to_nat nl).
  Proof. intros _ Hl. destruct HI as (Hnl & _ & Hwl & _). apply Hwl in Hl. lia. Qed.

  (* --- a borrow record rewritten without touching collateral, principal or flags --- *)
  Lemma T_bmisc j b b' :
    zget B j = Some b -> b_lend b' = b_lend b -> b_pair b' = b_pair b -> b_in b' = b_in b -> b_out b' = b_out b ->
    b_stable b' = b_stable b -> b_liq b' = b_liq b ->
    InvB cfg L (zset B j b') S nl nb.
  Proof.
    intros Hg El Ep Ei Eo Es Eq. destruct HI as (Hnl & Hnb & Hwl & Hwb & HSI).
    destruct (Hwb j b Hg) as (Hj & Hex).
    split; [exact Hnl|]. split; [exact Hnb|]. split; [exact Hwl|]. split.
    - intros j' x. rewrite zget_zset. destruct (Z.eqb_spec j j') as [<-|]; [|apply Hwb].
      intros H. injection H as <-. split; [exact Hj|]. rewrite Eq, El. exact Hex.
    - intros k x Hget. destruct (HSI _ _ Hget) as (A1 & A2 & A3 & A4 & A5). unfold stat_ok.
      rewrite (lend_sum_shift L B (zset B j b') (Z.to_nat nl) (Z.to_nat nb) (Z.to_nat nb) k (b_lend b) (bdelta b 0)).
      2:{ intros i. rewrite (pledged_upd B (Z.to_nat nb) j b b' i Hg El Eq) by lia. rewrite Ei, Z.sub_diag. reflexivity. }
      2:{ intros l Hl. apply Hwl in Hl. lia. }
      rewrite (bor_sum_upd cfg B (Z.to_nat nb) j b b' false k Hg Ep Eq Es) by lia.
      rewrite (bor_sum_upd cfg B (Z.to_nat nb) j b b' true k Hg Ep Eq Es) by lia.
      rewrite (bids_upd cfg B (Z.to_nat nb) k j b b' Hg Ep). rewrite Eo, Z.sub_diag.
      rewrite bdelta_0, !odelta_0.
      destruct (zget L (b_lend b)) as [lx|]; [destruct (peqb (lkey lx) k)|]; repeat split; congruence || lia.
  Qed.

  (* --- collateral moves from a lend position's AvailableToBorrow into one of its open borrows --- *)
  Lemma T_pledge j b b' l l' x :
    zget B j = Some b -> b_liq b = false -> zget L (b_lend b) = Some l ->
    lkey l' = lkey l -> l_bids l' = l_bids l -> l_avail l' = l_avail l - x ->
    b_lend b' = b_lend b -> b_pair b' = b_pair b -> b_in b' = b_in b + x -> b_out b' = b_out b ->
    b_stable b' = b_stable b -> b_liq b' = b_liq b ->
    InvB cfg (zset L (b_lend b) l') (zset B j b') S nl nb.
  Proof.
    intros Hg Hq Hl Hk Hb Ha El Ep Ei Eo Es Eq. destruct HI as (Hnl & Hnb & Hwl & Hwb & HSI).
    destruct (Hwb j b Hg) as (Hj & Hex). destruct (Hex Hq) as (l0 & Hl0 & Hin0). rewrite Hl in Hl0. injection Hl0 as <-.
    assert (Hi := Hwl _ l Hl).
    split; [exact Hnl|]. split; [exact Hnb|]. split; [|split].
    - intros i' y. rewrite zget_zset. destruct (Z.eqb_spec (b_lend b) i'); [intros _; lia|apply Hwl].
    - intros j' y. rewrite zget_zset. destruct (Z.eqb_spec j j') as [<-|].
      + intros H. injection H as <-. split; [exact Hj|]. intros _. exists l'. rewrite El, zget_zset_same, Hb. split; [reflexivity|exact Hin0].
      + intros Hj'. destruct (Hwb j' y Hj') as (Hr & Hex'). split; [exact Hr|]. intros Hq0. destruct (Hex' Hq0) as (l1 & Hl1 & Hin1).
        rewrite zget_zset. destruct (Z.eqb_spec (b_lend b) (b_lend y)) as [Heq|].
        * exists l'. split; [reflexivity|]. rewrite Hb. rewrite <- Heq, Hl in Hl1. injection Hl1 as ->. exact Hin1.
        * exists l1. split; assumption.
    - intros k y Hget. destruct (HSI _ _ Hget) as (A1 & A2 & A3 & A4 & A5). unfold stat_ok.
      rewrite (lend_sum_shift (zset L (b_lend b) l') B (zset B j b') (Z.to_nat nl) (Z.to_nat nb) (Z.to_nat nb) k (b_lend b) (bdelta b x)).
      2:{ intros i. rewrite (pledged_upd B (Z.to_nat nb) j b b' i Hg El Eq) by lia. rewrite Ei. replace (b_in b + x - b_in b) with x by lia. reflexivity. }
      2:{ intros l1 _. lia. }
      rewrite zget_zset_same, Hk.
      rewrite (lend_sum_upd L B (Z.to_nat nl) (Z.to_nat nb) k (b_lend b) l l' Hl Hk) by lia.
      rewrite (lids_upd L (Z.to_nat nl) k (b_lend b) l l' Hl Hk).
      rewrite (bor_sum_upd cfg B (Z.to_nat nb) j b b' false k Hg Ep Eq Es) by lia.
      rewrite (bor_sum_upd cfg B (Z.to_nat nb) j b b' true k Hg Ep Eq Es) by lia.
      rewrite (bids_upd cfg B (Z.to_nat nb) k j b b' Hg Ep). rewrite Eo, Z.sub_diag, !odelta_0.
      unfold bdelta. rewrite Hq. cbn. destruct (peqb (lkey l) k); repeat split; congruence || lia.
  Qed.

  Definition stat_out (s s' : stats) (stable : bool) (d : Z) : Prop :=
    s_lend s' = s_lend s /\ s_lids s' = s_lids s /\
    (if stable then s_sbor s' = s_sbor s + d /\ s_bor s' = s_bor s else s_bor s' = s_bor s + d /\ s_sbor s' = s_sbor s).

  Lemma odelta_self b k0 d : bkey cfg b = Some k0 -> b_liq b = false ->
    odelta cfg b (b_stable b) k0 d = d /\ odelta cfg b (negb (b_stable b)) k0 d = 0.
  Proof.
    intros Hk Hq. unfold odelta, okey. rewrite Hk, peqb_refl, Hq. cbn. destruct (b_stable b); cbn; split; reflexivity.
  Qed.
  Lemma odelta_other b k0 k st d : bkey cfg b = Some k0 -> peqb k0 k = false -> odelta cfg b st k d = 0.
  Proof. intros Hk Hne. unfold odelta, okey. rewrite Hk, Hne. reflexivity. Qed.

  (* --- the principal of an open borrow changes by d; its pool-asset total moves by d --- *)
  Lemma T_out j b b' k0 s s' S' d :
    zget B j = Some b -> b_liq b = false -> bkey cfg b = Some k0 -> pget S k0 = Some s ->
    b_lend b' = b_lend b -> b_pair b' = b_pair b -> b_in b' = b_in b -> b_out b' = b_out b + d ->
    b_stable b' = b_stable b -> b_liq b' = b_liq b ->
    stat_out s s' (b_stable b) d -> s_bids s' = s_bids s ->
    (forall k, pget S' k = if peqb k0 k then Some s' else pget S k) ->
    InvB cfg L (zset B j b') S' nl nb.
  Proof.
    intros Hg Hq Hk Hs El Ep Ei Eo Es Eq (F1 & F2 & F3) F4 HS. destruct HI as (Hnl & Hnb & Hwl & Hwb & HSI).
    destruct (Hwb j b Hg) as (Hj & Hex).
    split; [exact Hnl|]. split; [exact Hnb|]. split; [exact Hwl|]. split.
    - intros j' y. rewrite zget_zset. destruct (Z.eqb_spec j j') as [<-|]; [|apply Hwb].
      intros H. injection H as <-. split; [exact Hj|]. rewrite Eq, El. exact Hex.
    - intros k y Hget. unfold stat_ok.
      rewrite (lend_sum_shift L B (zset B j b') (Z.to_nat nl) (Z.to_nat nb) (Z.to_nat nb) k (b_lend b) (bdelta b 0)).
      2:{ intros i. rewrite (pledged_upd B (Z.to_nat nb) j b b' i Hg El Eq) by lia. rewrite Ei, Z.sub_diag. reflexivity. }
      2:{ intros l Hl. apply Hwl in Hl. lia. }
      rewrite (bor_sum_upd cfg B (Z.to_nat nb) j b b' false k Hg Ep Eq Es) by lia.
      rewrite (bor_sum_upd cfg B (Z.to_nat nb) j b b' true k Hg Ep Eq Es) by lia.
      rewrite (bids_upd cfg B (Z.to_nat nb) k j b b' Hg Ep). rewrite bdelta_0.
      replace (b_out b' - b_out b) with d by lia.
      assert (Z0 : (match zget L (b_lend b) with Some l => if peqb (lkey l) k then 0 else 0 | None => 0 end) = 0).
      { destruct (zget L (b_lend b)) as [lx|]; [destruct (peqb (lkey lx) k)|]; reflexivity. }
      rewrite Z0, Z.add_0_r.
      split_key HS Hget k0 k.
      + destruct (HSI _ _ Hs) as (A1 & A2 & A3 & A4 & A5).
        destruct (odelta_self b k0 d Hk Hq) as (O1 & O2).
        destruct (b_stable b); cbn in O1, O2; rewrite O1, O2; destruct F3 as (F3 & F3'); repeat split; congruence || lia.
      + destruct (HSI _ _ Hget) as (A1 & A2 & A3 & A4 & A5).
        rewrite !(odelta_other b k0 k _ d Hk Ek). repeat split; congruence || lia.
  Qed.

  (* --- an open borrow without collateral is flagged as handed over: its principal leaves the totals --- *)
  Lemma T_flag j b b' k0 s s' S' :
    zget B j = Some b -> b_liq b = false -> b_in b = 0 -> bkey cfg b = Some k0 -> pget S k0 = Some s ->
    b_pair b' = b_pair b -> b_liq b' = true ->
    stat_out s s' (b_stable b) (- b_out b) -> s_bids s' = s_bids s ->
    (forall k, pget S' k = if peqb k0 k then Some s' else pget S k) ->
    InvB cfg L (zset B j b') S' nl nb.
  Proof.
    intros Hg Hq Hin Hk Hs Ep Eq (F1 & F2 & F3) F4 HS. destruct HI as (Hnl & Hnb & Hwl & Hwb & HSI).
    destruct (Hwb j b Hg) as (Hj & _).
    split; [exact Hnl|]. split; [exact Hnb|]. split; [exact Hwl|]. split.
    - intros j' y. rewrite zget_zset. destruct (Z.eqb_spec j j') as [<-|]; [|apply Hwb].
      intros H. injection H as <-. split; [exact Hj|]. rewrite Eq. discriminate.
    - intros k y Hget. unfold stat_ok.
      rewrite (lend_sum_shift L B (zset B j b') (Z.to_nat nl) (Z.to_nat nb) (Z.to_nat nb) k (b_lend b) (bdelta b (- b_in b))).
      2:{ intros i. rewrite (pledged_flag B (Z.to_nat nb) j b b' i Hg Eq) by lia. reflexivity. }
      2:{ intros l Hl. apply Hwl in Hl. lia. }
      rewrite !(bor_sum_flag cfg B (Z.to_nat nb) j b b' _ k Hg Eq) by lia.
      rewrite (bids_upd cfg B (Z.to_nat nb) k j b b' Hg Ep). rewrite Hin. cbn [Z.opp]. rewrite bdelta_0.
      assert (Z0 : (match zget L (b_lend b) with Some l => if peqb (lkey l) k then 0 else 0 | None => 0 end) = 0).
      { destruct (zget L (b_lend b)) as [lx|]; [destruct (peqb (lkey lx) k)|]; reflexivity. }
      rewrite Z0, Z.add_0_r.
      split_key HS Hget k0 k.
      + destruct (HSI _ _ Hs) as (A1 & A2 & A3 & A4 & A5).
        destruct (odelta_self b k0 (- b_out b) Hk Hq) as (O1 & O2).
        destruct (b_stable b); cbn in O1, O2; rewrite O1, O2; destruct F3 as (F3 & F3'); repeat split; congruence || lia.
      + destruct (HSI _ _ Hget) as (A1 & A2 & A3 & A4 & A5).
        rewrite !(odelta_other b k0 k _ _ Hk Ek). repeat split; congruence || lia.
  Qed.

  (* --- a new borrow position against lend position i0 --- *)
  Lemma T_newborrow i0 l l' bn k0 s s' S' :
    zget L i0 = Some l -> lkey l' = lkey l -> l_avail l' = l_avail l - b_in bn -> l_bids l' = l_bids l ++ [nb + 1] ->
    b_lend bn = i0 -> b_liq bn = false -> bkey cfg bn = Some k0 -> pget S k0 = Some s ->
    stat_out s s' (b_stable bn) (b_out bn) -> s_bids s' = s_bids s ++ [nb + 1] ->
    (forall k, pget S' k = if peqb k0 k then Some s' else pget S k) ->
    InvB cfg (zset L i0 l') (zset B (nb + 1) bn) S' nl (nb + 1).
  Proof.
    intros Hl Hk Ha Hb El Hq Hbk Hs (F1 & F2 & F3) F4 HS. destruct HI as (Hnl & Hnb & Hwl & Hwb & HSI).
    assert (Hi := Hwl _ l Hl).
    split; [exact Hnl|]. split; [lia|]. split; [|split].
    - intros i' y. rewrite zget_zset. destruct (Z.eqb_spec i0 i'); [intros _; lia|apply Hwl].
    - intros j' y. rewrite zget_zset. destruct (Z.eqb_spec (nb + 1) j') as [<-|].
      + intros H. injection H as <-. split; [lia|]. intros _. exists l'. rewrite El, zget_zset_same, Hb. split; [reflexivity|].
        apply in_or_app. right. left. reflexivity.
      + intros Hj'. destruct (Hwb j' y Hj') as (Hr & Hex'). split; [lia|]. intros Hq0. destruct (Hex' Hq0) as (l1 & Hl1 & Hin1).
        rewrite zget_zset. destruct (Z.eqb_spec i0 (b_lend y)) as [Heq|].
        * exists l'. split; [reflexivity|]. rewrite Hb. rewrite <- Heq, Hl in Hl1. injection Hl1 as ->.
          apply in_or_app. left. exact Hin1.
        * exists l1. split; assumption.
    - intros k y Hget. unfold stat_ok. rewrite (to_nat_succ nb Hnb).
      rewrite <- (of_to_succ nb Hnb). rewrite <- (of_to_succ nb Hnb) in F4.
      rewrite (lend_sum_shift (zset L i0 l') B (zset B (Z.of_nat (Datatypes.S (Z.to_nat nb))) bn) (Z.to_nat nl) (Z.to_nat nb)
                              (Datatypes.S (Z.to_nat nb)) k i0 (bdelta bn (b_in bn))).
      2:{ intros i. rewrite (pledged_new B (Z.to_nat nb) bn i). rewrite El. reflexivity. }
      2:{ intros l1 _. lia. }
      rewrite zget_zset_same, Hk.
      rewrite (lend_sum_upd L B (Z.to_nat nl) (Z.to_nat nb) k i0 l l' Hl Hk) by lia.
      rewrite (lids_upd L (Z.to_nat nl) k i0 l l' Hl Hk).
      rewrite !(bor_sum_new cfg B (Z.to_nat nb) bn), (bids_new cfg B (Z.to_nat nb) k bn).
      unfold bdelta. rewrite Hq. cbn [negb].
      split_key HS Hget k0 k.
      + destruct (HSI _ _ Hs) as (A1 & A2 & A3 & A4 & A5).
        destruct (odelta_self bn k0 (b_out bn) Hbk Hq) as (O1 & O2).
        assert (Ok : okey cfg bn k0 = true) by (unfold okey; rewrite Hbk; apply peqb_refl). rewrite Ok.
        destruct (b_stable bn); cbn in O1, O2; rewrite O1, O2; destruct F3 as (F3 & F3');
          destruct (peqb (lkey l) k0); repeat split; congruence || lia.
      + destruct (HSI _ _ Hget) as (A1 & A2 & A3 & A4 & A5).
        rewrite !(odelta_other bn k0 k _ _ Hbk Ek).
        assert (Ok : okey cfg bn k = false) by (unfold okey; rewrite Hbk; exact Ek). rewrite Ok, app_nil_r.
        destruct (peqb (lkey l) k); repeat split; congruence || lia.
  Qed.

  (* --- an open borrow closed: its collateral returns to the lend position --- *)
  Lemma T_delborrow j b l l' k0 s s' S' :
    zget B j = Some b -> b_liq b = false -> zget L (b_lend b) = Some l ->
    lkey l' = lkey l -> l_avail l' = l_avail l + b_in b -> l_bids l' = remove_sorted j (l_bids l) ->
    bkey cfg b = Some k0 -> pget S k0 = Some s ->
    stat_out s s' (b_stable b) (- b_out b) -> s_bids s' = remove_sorted j (s_bids s) ->
    (forall k, pget S' k = if peqb k0 k then Some s' else pget S k) ->
    InvB cfg (zset L (b_lend b) l') (zdel B j) S' nl nb.
  Proof.
    intros Hg Hq Hl Hk Ha Hb Hbk Hs (F1 & F2 & F3) F4 HS. destruct HI as (Hnl & Hnb & Hwl & Hwb & HSI).
    destruct (Hwb j b Hg) as (Hj & _). assert (Hi := Hwl _ l Hl).
    split; [exact Hnl|]. split; [exact Hnb|]. split; [|split].
    - intros i' y. rewrite zget_zset. destruct (Z.eqb_spec (b_lend b) i'); [intros _; lia|apply Hwl].
    - intros j' y. rewrite zget_zdel. destruct (Z.eqb_spec j j') as [|Hne]; [discriminate|].
      intros Hj'. destruct (Hwb j' y Hj') as (Hr & Hex'). split; [exact Hr|]. intros Hq0. destruct (Hex' Hq0) as (l1 & Hl1 & Hin1).
      rewrite zget_zset. destruct (Z.eqb_spec (b_lend b) (b_lend y)) as [Heq|].
      + exists l'. split; [reflexivity|]. rewrite Hb. rewrite <- Heq, Hl in Hl1. injection Hl1 as ->.
        apply In_remove_sorted_other; [exact Hin1|congruence].
      + exists l1. split; assumption.
    - intros k y Hget. unfold stat_ok.
      rewrite (lend_sum_shift (zset L (b_lend b) l') B (zdel B j) (Z.to_nat nl) (Z.to_nat nb) (Z.to_nat nb) k (b_lend b) (bdelta b (- b_in b))).
      2:{ intros i. rewrite (pledged_del B (Z.to_nat nb) j b i Hg) by lia. reflexivity. }
      2:{ intros l1 _. lia. }
      rewrite zget_zset_same, Hk.
      rewrite (lend_sum_upd L B (Z.to_nat nl) (Z.to_nat nb) k (b_lend b) l l' Hl Hk) by lia.
      rewrite (lids_upd L (Z.to_nat nl) k (b_lend b) l l' Hl Hk).
      rewrite !(bor_sum_del cfg B (Z.to_nat nb) j b _ k Hg) by lia.
      rewrite (bids_del cfg B (Z.to_nat nb) k j b Hg).
      unfold bdelta. rewrite Hq. cbn [negb].
      split_key HS Hget k0 k.
      + destruct (HSI _ _ Hs) as (A1 & A2 & A3 & A4 & A5).
        destruct (odelta_self b k0 (- b_out b) Hbk Hq) as (O1 & O2).
        assert (Ok : okey cfg b k0 = true) by (unfold okey; rewrite Hbk; apply peqb_refl). rewrite Ok.
        destruct (b_stable b); cbn in O1, O2; rewrite O1, O2; destruct F3 as (F3 & F3');
          destruct (peqb (lkey l) k0); repeat split; congruence || lia.
      + destruct (HSI _ _ Hget) as (A1 & A2 & A3 & A4 & A5).
        rewrite !(odelta_other b k0 k _ _ Hbk Ek).
        assert (Ok : okey cfg b k = false) by (unfold okey; rewrite Hbk; exact Ek). rewrite Ok.
        destruct (peqb (lkey l) k); repeat split; congruence || lia.
  Qed.
End Transitions.

(* --- liquidationsV2 UpdateLockedBorrows: a position is handed over to an auction.  Its collateral
   leaves the lend position's pool-asset total, its principal leaves the borrow totals, the lend
   record keeps its AvailableToBorrow (only AmountIn is rewritten).  Composed of: the collateral
   goes back to AvailableToBorrow (T_pledge, x = - collateral), the empty position is flagged
   (T_flag), AvailableToBorrow and TotalLend drop by the collateral (T_lend). --- *)
Lemma T_handover cfg L B S nl nb j b b' l l' k0 s1 s1' S1 s2 s2' S2 :
  InvB cfg L B S nl nb ->
  zget B j = Some b -> b_liq b = false -> zget L (b_lend b) = Some l -> bkey cfg b = Some k0 ->
  b_lend b' = b_lend b -> b_pair b' = b_pair b -> b_stable b' = b_stable b -> b_liq b' = true ->
  lkey l' = lkey l -> l_bids l' = l_bids l -> l_avail l' = l_avail l ->
  pget S k0 = Some s1 -> stat_out s1 s1' (b_stable b) (- b_out b) -> s_bids s1' = s_bids s1 ->
  (forall k, pget S1 k = if peqb k0 k then Some s1' else pget S k) ->
  pget S1 (lkey l) = Some s2 -> same_books s2 s2' -> s_lend s2' = s_lend s2 - b_in b ->
  (forall k, pget S2 k = if peqb (lkey l) k then Some s2' else pget S1 k) ->
  InvB cfg (zset L (b_lend b) l') (zset B j b') S2 nl nb.
Proof.
  intros HI Hg Hq Hl Hk El Ep Es Eq Lk Lb La Hs1 F1 F1b HS1 Hs2 F2 F2l HS2.
  set (b1 := upd_borrow b 0 (b_out b) (b_brd b) (b_int b) (b_res b) (b_liq b)).
  set (l1 := upd_lend l (l_in l) (l_avail l + b_in b) (l_rewards l) (l_tracker l) (l_bids l)).
  assert (H1 : InvB cfg (zset L (b_lend b) l1) (zset B j b1) S nl nb).
  { apply (T_pledge cfg L B S nl nb HI j b b1 l l1 (- b_in b)); try assumption; try reflexivity; cbn [l1 b1 upd_lend upd_borrow l_avail b_in]; lia. }
  assert (H2 : InvB cfg (zset L (b_lend b) l1) (zset (zset B j b1) j b') S1 nl nb).
  { apply (T_flag cfg _ _ _ _ _ H1 j b1 b' k0 s1 s1' S1); try assumption; try reflexivity; try apply zget_zset_same; try exact Hk. }
  assert (H3 : InvB cfg (zset (zset L (b_lend b) l1) (b_lend b) l') (zset (zset B j b1) j b') S2 nl nb).
  { apply (T_lend cfg _ _ _ _ _ H2 (b_lend b) l1 l' s2 s2' S2); try assumption; try apply zget_zset_same;
      cbn [l1 upd_lend l_bids l_avail]; try assumption; try lia. }
  rewrite !zset_zset in H3. exact H3.
Qed.

(* the same when the lend record is deleted (its AmountIn is exhausted): sound only when nothing
   else is left on it *)
Lemma T_handover_del cfg L B S nl nb j b b' l k0 s1 s1' S1 s2 s2' S2 :
  InvB cfg L B S nl nb ->
  zget B j = Some b -> b_liq b = false -> zget L (b_lend b) = Some l -> bkey cfg b = Some k0 ->
  b_lend b' = b_lend b -> b_pair b' = b_pair b -> b_stable b' = b_stable b -> b_liq b' = true ->
  l_avail l = 0 ->
  (forall j' y, zget B j' = Some y -> j' <> j -> b_liq y = false -> b_lend y <> b_lend b) ->
  pget S k0 = Some s1 -> stat_out s1 s1' (b_stable b) (- b_out b) -> s_bids s1' = s_bids s1 ->
  (forall k, pget S1 k = if peqb k0 k then Some s1' else pget S k) ->
  pget S1 (lkey l) = Some s2 ->
  s_bor s2' = s_bor s2 -> s_sbor s2' = s_sbor s2 -> s_bids s2' = s_bids s2 ->
  s_lend s2' = s_lend s2 - b_in b -> s_lids s2' = remove_sorted (b_lend b) (s_lids s2) ->
  (forall k, pget S2 k = if peqb (lkey l) k then Some s2' else pget S1 k) ->
  InvB cfg (zdel L (b_lend b)) (zset B j b') S2 nl nb.
Proof.
  intros HI Hg Hq Hl Hk El Ep Es Eq La Hno Hs1 F1 F1b HS1 Hs2 G1 G2 G3 G4 G5 HS2.
  set (sm := set_s_lend s2 (s_lend s2 - b_in b)).
  assert (H3 : InvB cfg (zset L (b_lend b) l) (zset B j b') (pset S1 (lkey l) sm) nl nb).
  { apply (T_handover cfg L B S nl nb j b b' l l k0 s1 s1' S1 s2 sm (pset S1 (lkey l) sm) HI); try assumption; try reflexivity.
    - repeat split.
    - intros k. apply pget_pset. }
  rewrite <- (zdel_zset L (b_lend b) l).
  apply (T_dellend cfg _ _ _ _ _ H3 (b_lend b) l sm s2' S2); try assumption.
  - apply zget_zset_same.
  - intros j' y. rewrite zget_zset. destruct (Z.eqb_spec j j') as [<-|Hne].
    + intros E. injection E as <-. rewrite Eq. discriminate.
    + intros E Hqy. apply (Hno j' y E); [congruence|exact Hqy].
  - rewrite pget_pset, peqb_refl. reflexivity.
  - cbn [sm set_s_lend s_lend]. lia.
  - intros k. rewrite HS2, pget_pset. destruct (peqb (lkey l) k); reflexivity.
Qed.
