(* C10, price clauses of the generation-2 Dutch auction: facts about GetPriceFromLinearDecreaseFunction
   and the truncated time-to-zero of UpdateDutchAuction. *)
From Comdex Require Import Lib.Base Lib.DecArith Lib.DecFacts Model.DutchV2.
From Coq Require Import ZifyBool.

(* ---------- generic Dec facts not in DecFacts ---------- *)
Lemma quot_raw_mono a a' b : 0 < b -> a <= a' -> Z.quot (a * P36) b <= Z.quot (a' * P36) b.
Proof. intros Hb Ha. pose proof P36_pos. apply Z.quot_le_mono; nia. Qed.

Lemma dquo_mono_any a a' b : 0 < b -> a <= a' -> dquo a b <= dquo a' b.
Proof. intros; unfold dquo; apply chop_round_mono; apply quot_raw_mono; assumption. Qed.

(* (x * k) / NewDec(k) = x, exactly *)
Lemma dquo_mul_int x k : 0 < k -> dquo (x * k) (dec_of_int k) = x.
Proof.
  intros Hk. dec_consts. pose proof P36_eq as E. unfold dquo, dec_of_int.
  replace (x * k * P36) with ((x * P18) * (k * P18)) by (rewrite E; ring).
  rewrite Z.quot_mul by nia. apply chop_round_exact.
Qed.

Lemma dquo_self_scaled a k : 0 < a -> dquo (a * k) a = k * P18.
Proof.
  intros Ha. pose proof P36_eq as E. dec_consts. unfold dquo.
  replace (a * k * P36) with ((k * P36) * a) by ring.
  rewrite Z.quot_mul by lia. rewrite E. replace (k * (P18 * P18)) with ((k * P18) * P18) by ring.
  apply chop_round_exact.
Qed.

(* ---------- price_at ---------- *)
Lemma price_at_eq p tau t : price_at p tau t = dquo (p * (tau - t)) (dec_of_int tau).
Proof. unfold price_at. rewrite dmul_int_exact_r. reflexivity. Qed.

Lemma price_at_mono p tau t1 t2 : 0 <= p -> 0 < tau -> t1 <= t2 ->
  price_at p tau t2 <= price_at p tau t1.
Proof.
  intros Hp Ht H12. rewrite !price_at_eq. dec_consts.
  apply dquo_mono_any; [unfold dec_of_int; nia | nia].
Qed.

Lemma price_at_start p tau : 0 < tau -> price_at p tau 0 = p.
Proof. intros. rewrite price_at_eq, Z.sub_0_r. apply dquo_mul_int; assumption. Qed.

Lemma price_at_nonneg p tau t : 0 <= p -> 0 < tau -> t <= tau -> 0 <= price_at p tau t.
Proof.
  intros. rewrite price_at_eq. dec_consts. apply dquo_nonneg; [nia | unfold dec_of_int; nia].
Qed.

Lemma price_at_c_some p tau t r : price_at_c p tau t = Some r -> tau <> 0 /\ r = price_at p tau t.
Proof.
  unfold price_at_c, dmul_c, chk_dec. destruct (Z.eqb_spec tau 0); [discriminate|].
  destruct (fits_dec (dmul p (dec_of_int (tau - t)))); [|discriminate].
  destruct (fits_dec _); [|discriminate]. intros [= <-]. split; [assumption|reflexivity].
Qed.

(* ---------- the truncated time-to-zero ---------- *)
Lemma tau_of_some init disc dur tau : tau_of init disc dur = Some tau ->
  init - end_price init disc <> 0 /\
  tau = dtrunc_int (dquo (init * dur) (init - end_price init disc)).
Proof.
  unfold tau_of, tau_dec, dmul_c, dsub_c, dquo_c, chk_dec, int64_c, end_price.
  rewrite dmul_int_exact_r.
  destruct (fits_dec (init * dur)); [|discriminate].
  destruct (fits_dec (dmul init disc)); [|discriminate].
  destruct (fits_dec (init - dmul init disc)); [|discriminate].
  destruct (Z.eqb_spec (init - dmul init disc) 0); [discriminate|].
  destruct (fits_dec _); [|discriminate].
  destruct (_ && _); [|discriminate]. intros [= <-]. split; [assumption|reflexivity].
Qed.

(* with a start price above the end price, tau is at least the configured duration *)
Lemma tau_ge_dur init disc dur tau :
  0 <= end_price init disc < init -> 0 <= dur ->
  tau_of init disc dur = Some tau -> dur <= tau.
Proof.
  intros [He0 He] Hd Ht. apply tau_of_some in Ht as [_ ->]. dec_consts.
  set (den := init - end_price init disc).
  assert (Hden : 0 < den <= init) by (unfold den; lia).
  assert (HQ : dquo (init * dur) init <= dquo (init * dur) den) by (apply dquo_anti_r; nia).
  rewrite dquo_self_scaled in HQ by lia.
  rewrite <- (dtrunc_of_int dur) at 1. apply dtrunc_int_mono; unfold dec_of_int; nia.
Qed.

Lemma posted_some init disc dur t p : posted_price init disc dur t = Some p ->
  exists tau, tau_of init disc dur = Some tau /\ tau <> 0 /\ p = price_at init tau t.
Proof.
  unfold posted_price. destruct (tau_of init disc dur) as [tau|] eqn:E; [|discriminate].
  intros H. apply price_at_c_some in H as [? ?]. exists tau. auto.
Qed.

(* the three price clauses between two instants of one run of the auction *)
Lemma posted_monotone init disc dur t1 t2 p1 p2 :
  0 <= end_price init disc < init -> 0 <= dur -> 0 <= t1 -> t1 <= t2 -> t2 <= dur ->
  posted_price init disc dur t1 = Some p1 -> posted_price init disc dur t2 = Some p2 ->
  p2 <= p1 /\ p1 <= init /\ 0 <= p2 /\
  (forall pD, posted_price init disc dur dur = Some pD -> pD <= p2).
Proof.
  intros He Hd H0 H12 H2 E1 E2.
  apply posted_some in E1 as (tau & Ht & Hn & ->).
  apply posted_some in E2 as (tau' & Ht' & _ & ->). rewrite Ht in Ht'. injection Ht' as <-.
  pose proof (tau_ge_dur _ _ _ _ He Hd Ht) as Hge.
  assert (0 < tau) by lia. assert (0 <= init) by lia.
  split; [apply price_at_mono; lia|].
  split; [rewrite <- (price_at_start init tau) at 2 by lia; apply price_at_mono; lia|].
  split; [apply price_at_nonneg; lia|].
  intros pD ED. apply posted_some in ED as (tau' & Ht' & _ & ->). rewrite Ht in Ht'. injection Ht' as <-.
  apply price_at_mono; lia.
Qed.

(* outside the known-finding class the posted price never goes below the configured end price *)
Lemma end_price_partial init disc dur t pD pt :
  kf_C10_1 init disc dur = false ->
  0 <= end_price init disc < init -> 0 <= dur -> 0 <= t <= dur ->
  posted_price init disc dur dur = Some pD -> posted_price init disc dur t = Some pt ->
  end_price init disc <= pt.
Proof.
  intros Hkf He Hd Ht ED Et. unfold kf_C10_1 in Hkf. rewrite ED in Hkf.
  destruct (posted_monotone init disc dur t dur pt pD He Hd) as (H1 & _); try lia; try assumption.
Qed.

(* the refutation: D = 10 s, discount 0.7, start price 1.2 * 10^6: tau = 33 (33.33 truncated) and
   the price posted at t = D is 836363.63.. < 840000 *)
Lemma end_price_refuted :
  exists init disc dur p,
    0 <= end_price init disc < init /\ 0 < dur /\
    posted_price init disc dur dur = Some p /\ p < end_price init disc /\ kf_C10_1 init disc dur = true.
Proof.
  exists 1200000000000000000000000, 700000000000000000, 10, 836363636363636363636364.
  vm_compute. repeat split; congruence.
Qed.

(* how update_price / restart / activate post prices *)
Lemma tick_price cf lk now pc pd a a' :
  tick_raw cf lk now pc pd a = Ok a' ->
  (now > a_end a /\ a_price a' = a_init a' /\ a_start a' = now /\ a_end a' = now + c_dur cf) \/
  (now <= a_end a /\ a_init a' = a_init a /\ a_start a' = a_start a /\ a_end a' = a_end a /\
   posted_price (a_init a) (c_disc cf) (c_dur cf) (now - a_start a) = Some (a_price a')).
Proof.
  unfold tick_raw. destruct (Z.gtb_spec now (a_end a)).
  - unfold restart. destruct pc; [|discriminate]. destruct pd; [|discriminate].
    destruct (initial_price _ _); [|discriminate]. intros [= <-]. left. cbn. repeat split; lia.
  - unfold update_price. destruct pc; [|discriminate]. destruct pd; [|discriminate].
    destruct (posted_price _ _ _ _) eqn:E; [|discriminate]. intros [= <-]. right. cbn. repeat split; try lia.
Qed.

Lemma tick_amounts cf lk now pc pd a :
  a_coll (tick cf lk now pc pd a) = a_coll a /\ a_debt (tick cf lk now pc pd a) = a_debt a /\
  a_bonus (tick cf lk now pc pd a) = a_bonus a.
Proof.
  unfold tick, tick_raw, restart, update_price.
  destruct (now >? a_end a); destruct pc; destruct pd; cbn; auto;
    try (destruct (initial_price _ _); cbn; auto);
    try (destruct (posted_price _ _ _ _); cbn; auto).
Qed.
