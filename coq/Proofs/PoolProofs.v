(* Proofs about Model/Pool.v: what amm.Deposit and amm.Withdraw guarantee, for all non-negative
   integers (no size bound: an overflow takes the SafeMath fallback, which returns zeros), and
   their lifting to every finite history of deposits and withdrawals on one pool. *)
From Comdex Require Import Lib.Base Lib.DecArith Lib.DecFacts Lib.DecFacts2 Model.Pool.
From Coq Require Import ZifyBool.

(* ---------- inversion of the checked wrappers ---------- *)
Lemma lift_ovf_ok o v : lift_ovf o = Ok v -> o = Some v.
Proof. destruct o; cbn; congruence. Qed.

Lemma quo_trunc_s_ok a b v : quo_trunc_s a b = Ok v -> b <> 0 /\ v = dquo_trunc a b.
Proof.
  unfold quo_trunc_s. destruct (Z.eqb_spec b 0); [discriminate|].
  intros H. apply lift_ovf_ok, chk_dec_some in H. auto.
Qed.

Lemma quo_s_ok a b v : quo_s a b = Ok v -> b <> 0 /\ v = dquo a b.
Proof.
  unfold quo_s. destruct (Z.eqb_spec b 0); [discriminate|].
  intros H. apply lift_ovf_ok, chk_dec_some in H. auto.
Qed.

Lemma ceil_int_s_ok d v : ceil_int_s d = Ok v -> v = dtrunc_int (dceil d).
Proof. unfold ceil_int_s, dtrunc_int_c. intros H. apply lift_ovf_ok, chk_int_some in H. exact H. Qed.

Lemma mul_trunc_l_ok a b v : lift_ovf (dmul_trunc_c a b) = Ok v -> v = dmul_trunc a b.
Proof. unfold dmul_trunc_c. intros H. apply lift_ovf_ok, chk_dec_some in H. exact H. Qed.
Lemma mul_l_ok a b v : lift_ovf (dmul_c a b) = Ok v -> v = dmul a b.
Proof. unfold dmul_c. intros H. apply lift_ovf_ok, chk_dec_some in H. exact H. Qed.
Lemma trunc_l_ok a v : lift_ovf (dtrunc_int_c a) = Ok v -> v = dtrunc_int a.
Proof. unfold dtrunc_int_c. intros H. apply lift_ovf_ok, chk_int_some in H. exact H. Qed.
Lemma sub_l_ok a b v : lift_ovf (dsub_c a b) = Ok v -> v = a - b.
Proof. unfold dsub_c. intros H. apply lift_ovf_ok, chk_dec_some in H. exact H. Qed.

Lemma dec_of_int_eq0 i : (dec_of_int i =? 0) = (i =? 0).
Proof. dec_consts. unfold dec_of_int. destruct (Z.eqb_spec i 0); destruct (Z.eqb_spec (i * P18) 0); nia. Qed.

(* ---------- the ratio ---------- *)
Definition ratio_facts (rx ry x y ratio : Z) : Prop :=
  0 <= ratio /\ ratio * rx <= x * P18 /\ ratio * ry <= y * P18.

Lemma ratio_one r v : 0 <= r -> 0 <= v ->
  forall q, quo_trunc_s (dec_of_int v) (dec_of_int r) = Ok q -> 0 <= q /\ q * r <= v * P18 /\ 0 < r.
Proof.
  intros Hr Hv q H. dec_consts. apply quo_trunc_s_ok in H as [Hnz ->].
  assert (0 < r) by (unfold dec_of_int in Hnz; nia).
  pose proof (dquo_trunc_ints_bounds v r Hv ltac:(lia)) as (B0 & B1 & B2). cbv zeta in *. lia.
Qed.

(* ---------- Deposit ---------- *)
Record deposit_facts (rx ry ps x y ax ay pc ratio mp : Z) : Prop := {
  df_ratio : ratio_facts rx ry x y ratio;
  df_pc : 0 <= pc /\ pc * P18 <= ps * ratio;
  df_mp : 0 <= mp <= ratio /\ - ps <= mp * ps - pc * P18 <= ps;
  df_ax : 0 <= ax /\ rx * mp <= ax * P18 < rx * mp + P18;
  df_ay : 0 <= ay /\ ry * mp <= ay * P18 < ry * mp + P18 }.

Lemma deposit_body_facts rx ry ps x y ax ay pc :
  0 <= rx -> 0 <= ry -> 0 < ps -> 0 <= x -> 0 <= y ->
  deposit_body rx ry ps x y = Ok (ax, ay, pc) ->
  exists ratio mp, deposit_facts rx ry ps x y ax ay pc ratio mp.
Proof.
  intros Hrx Hry Hps Hx Hy H. dec_consts. unfold deposit_body in H.
  apply obind_ok in H as (ratio & Hratio & H).
  apply obind_ok in H as (t & Ht & H).
  apply obind_ok in H as (pc' & Hpc & H).
  apply obind_ok in H as (mp & Hmp & H).
  apply obind_ok in H as (mx & Hmx & H).
  apply obind_ok in H as (ax' & Hax & H).
  apply obind_ok in H as (my & Hmy & H).
  apply obind_ok in H as (ay' & Hay & H).
  injection H as <- <- <-.
  (* the ratio *)
  assert (HR : ratio_facts rx ry x y ratio).
  { unfold ratio_facts. rewrite !dec_of_int_eq0 in Hratio.
    destruct (Z.eqb_spec rx 0) as [->|Hrx0].
    - pose proof (ratio_one ry y Hry Hy _ Hratio). lia.
    - destruct (Z.eqb_spec ry 0) as [->|Hry0].
      + pose proof (ratio_one rx x Hrx Hx _ Hratio). lia.
      + apply obind_ok in Hratio as (a & Ha & Hratio).
        apply obind_ok in Hratio as (b & Hb & Hratio).
        pose proof (ratio_one rx x Hrx Hx _ Ha) as (A0 & A1 & A2).
        pose proof (ratio_one ry y Hry Hy _ Hb) as (B0 & B1 & B2).
        injection Hratio as <-. destruct (Z.ltb_spec a b); nia. }
  destruct HR as (R0 & R1 & R2).
  (* pc = floor(ps * ratio / 10^18) *)
  apply mul_trunc_l_ok in Ht. rewrite dmul_trunc_int_exact in Ht. subst t.
  apply trunc_l_ok in Hpc.
  pose proof (dtrunc_int_bounds (ps * ratio) ltac:(nia)) as (P0 & P1 & P2). rewrite <- Hpc in *.
  (* mintProportion: half-even, but never above the (grid) ratio *)
  apply quo_s_ok in Hmp as [_ Hmp].
  pose proof (dquo_ints_bounds pc' ps P0 Hps) as (M0 & M1). cbv zeta in M1. rewrite <- Hmp in *.
  assert (M2 : mp <= ratio).
  { rewrite Hmp. apply dquo_ints_le_grid; lia. }
  (* accepted amounts: exact product, then ceiling *)
  apply mul_l_ok in Hmx. rewrite dmul_int_exact in Hmx. subst mx.
  apply mul_l_ok in Hmy. rewrite dmul_int_exact in Hmy. subst my.
  apply ceil_int_s_ok in Hax. apply ceil_int_s_ok in Hay.
  pose proof (dceil_int_bounds (rx * mp) ltac:(nia)) as (X0 & X1). cbv zeta in *. rewrite <- Hax in *.
  pose proof (dceil_int_bounds (ry * mp) ltac:(nia)) as (Y0 & Y1). cbv zeta in *. rewrite <- Hay in *.
  exists ratio, mp. constructor; unfold ratio_facts; lia.
Qed.

Lemma deposit_cases rx ry ps x y ax ay pc :
  deposit rx ry ps x y = Ok (ax, ay, pc) ->
  deposit_body rx ry ps x y = Ok (ax, ay, pc) \/ (ax = 0 /\ ay = 0 /\ pc = 0).
Proof.
  unfold deposit. destruct (deposit_body rx ry ps x y) as [[[a b] c]| |]; intros H; try discriminate.
  - left. exact H.
  - right. injection H as <- <- <-. auto.
Qed.

(* never takes more than offered *)
Lemma deposit_bounded rx ry ps x y ax ay pc :
  0 <= rx -> 0 <= ry -> 0 < ps -> 0 <= x -> 0 <= y ->
  deposit rx ry ps x y = Ok (ax, ay, pc) ->
  0 <= ax <= x /\ 0 <= ay <= y /\ 0 <= pc.
Proof.
  intros Hrx Hry Hps Hx Hy H. dec_consts.
  apply deposit_cases in H as [H|(-> & -> & ->)]; [|lia].
  destruct (deposit_body_facts _ _ _ _ _ _ _ _ Hrx Hry Hps Hx Hy H) as (ratio & mp & F).
  destruct F as [(R0 & R1 & R2) (P0 & P1) ((M0 & M2) & M1) (X0 & X1 & X2) (Y0 & Y1 & Y2)].
  assert (rx * mp <= rx * ratio) by nia.
  assert (ry * mp <= ry * ratio) by nia.
  assert (ax * P18 < (x + 1) * P18) by lia.
  assert (ay * P18 < (y + 1) * P18) by lia.
  nia.
Qed.

(* shares are minted at a rate no better than reserves per share: exactly so against what was
   offered, and up to rx*ps*10^-18 (i.e. 10^-18 of the reserve, per share supply) against what was
   accepted; the slack is the half-even rounding of mintProportion = pc/ps *)
Lemma deposit_rate rx ry ps x y ax ay pc :
  0 <= rx -> 0 <= ry -> 0 < ps -> 0 <= x -> 0 <= y ->
  deposit rx ry ps x y = Ok (ax, ay, pc) ->
  pc * rx <= x * ps /\ pc * ry <= y * ps /\
  (pc * rx - ax * ps) * P18 <= rx * ps /\
  (pc * ry - ay * ps) * P18 <= ry * ps.
Proof.
  intros Hrx Hry Hps Hx Hy H. dec_consts.
  apply deposit_cases in H as [H|(-> & -> & ->)]; [|nia].
  destruct (deposit_body_facts _ _ _ _ _ _ _ _ Hrx Hry Hps Hx Hy H) as (ratio & mp & F).
  destruct F as [(R0 & R1 & R2) (P0 & P1) ((M0 & M2) & M1) (X0 & X1 & X2) (Y0 & Y1 & Y2)].
  repeat split.
  - assert (pc * P18 * rx <= ps * ratio * rx) by nia.
    assert (ps * (ratio * rx) <= ps * (x * P18)) by nia.
    apply scale_le. lia.
  - assert (pc * P18 * ry <= ps * ratio * ry) by nia.
    assert (ps * (ratio * ry) <= ps * (y * P18)) by nia.
    apply scale_le. lia.
  - assert (rx * (pc * P18 - ps) <= rx * (mp * ps)) by nia.
    assert (rx * mp * ps <= ax * P18 * ps) by nia. lia.
  - assert (ry * (pc * P18 - ps) <= ry * (mp * ps)) by nia.
    assert (ry * mp * ps <= ay * P18 * ps) by nia. lia.
Qed.

Lemma holds_deposit rx ry ps x y ax ay pc :
  0 <= rx -> 0 <= ry -> 0 < ps -> 0 <= x -> 0 <= y ->
  deposit rx ry ps x y = Ok (ax, ay, pc) ->
  holds_C06_deposit rx ry ps x y ax ay pc = true.
Proof.
  intros Hrx Hry Hps Hx Hy H.
  pose proof (deposit_bounded _ _ _ _ _ _ _ _ Hrx Hry Hps Hx Hy H).
  pose proof (deposit_rate _ _ _ _ _ _ _ _ Hrx Hry Hps Hx Hy H).
  unfold holds_C06_deposit. lia.
Qed.

(* a deposit never panics on a live pool (some reserve non-zero, supply positive) *)
Lemma deposit_no_panic rx ry ps x y :
  0 <= rx -> 0 <= ry -> 0 < ps -> (rx <> 0 \/ ry <> 0) ->
  deposit rx ry ps x y <> Panic.
Proof.
  intros Hrx Hry Hps Hnz. dec_consts. unfold deposit, deposit_body.
  rewrite !dec_of_int_eq0. unfold quo_trunc_s, quo_s. rewrite !dec_of_int_eq0.
  destruct (Z.eqb_spec rx 0); destruct (Z.eqb_spec ry 0); destruct (Z.eqb_spec ps 0); try lia;
  repeat (match goal with
          | |- context [obind (lift_ovf ?o) _] => destruct o; cbn [lift_ovf obind]
          | |- context [obind (ceil_int_s ?o) _] => unfold ceil_int_s
          | |- context [obind (if ?c then _ else _) _] => destruct c
          | |- context [obind (Ok _) _] => cbn [obind]
          | |- context [obind (Err _) _] => cbn [obind]
          end); try discriminate.
Qed.

(* ---------- Withdraw ---------- *)
Lemma withdraw_one_facts r prop mult v :
  0 <= r -> 0 <= prop -> 0 <= mult ->
  withdraw_one r prop mult = Ok v -> 0 <= v /\ v * P18 * P18 <= r * prop * mult.
Proof.
  intros Hr Hp Hm H. dec_consts. unfold withdraw_one in H.
  apply obind_ok in H as (a & Ha & H). apply obind_ok in H as (b & Hb & H).
  apply mul_trunc_l_ok in Ha. rewrite dmul_trunc_int_exact in Ha. subst a.
  apply mul_trunc_l_ok in Hb.
  pose proof (dmul_trunc_bounds (r * prop) mult ltac:(nia) Hm) as (B0 & B1 & B2). rewrite <- Hb in *.
  apply trunc_l_ok in H.
  pose proof (dtrunc_int_bounds b B0) as (T0 & T1 & T2). rewrite <- H in *.
  split; [lia|]. nia.
Qed.

Lemma withdraw_cases rx ry ps pc fee x y :
  pc <> ps -> withdraw rx ry ps pc fee = Ok (x, y) ->
  withdraw_body rx ry ps pc fee = Ok (x, y) \/ (x = 0 /\ y = 0).
Proof.
  intros Hne. unfold withdraw. destruct (Z.eqb_spec pc ps); [contradiction|].
  destruct (withdraw_body rx ry ps pc fee) as [[a b]| |]; intros H; try discriminate.
  - left. exact H.
  - right. injection H as <- <-. auto.
Qed.

(* never returns more than the pro-rata part of the reserves reduced by the fee (exact) *)
Lemma withdraw_bounded rx ry ps pc fee x y :
  0 <= rx -> 0 <= ry -> 0 < ps -> 0 <= pc -> pc <> ps -> 0 <= fee <= P18 ->
  withdraw rx ry ps pc fee = Ok (x, y) ->
  0 <= x /\ 0 <= y /\
  x * ps * P18 <= rx * pc * (P18 - fee) /\
  y * ps * P18 <= ry * pc * (P18 - fee).
Proof.
  intros Hrx Hry Hps Hpc Hne Hfee H. dec_consts.
  apply (withdraw_cases _ _ _ _ _ _ _ Hne) in H as [H|(-> & ->)]; [|nia].
  unfold withdraw_body in H.
  apply obind_ok in H as (prop & Hprop & H). apply obind_ok in H as (mult & Hmult & H).
  apply obind_ok in H as (x' & Hx & H). apply obind_ok in H as (y' & Hy & H).
  injection H as <- <-.
  apply quo_trunc_s_ok in Hprop as [_ Hprop].
  pose proof (dquo_trunc_ints_bounds pc ps Hpc Hps) as (Q0 & Q1 & Q2). cbv zeta in *. rewrite <- Hprop in *.
  apply sub_l_ok in Hmult.
  assert (Hm : 0 <= mult) by lia.
  pose proof (withdraw_one_facts _ _ _ _ Hrx Q0 Hm Hx) as (X0 & X1).
  pose proof (withdraw_one_facts _ _ _ _ Hry Q0 Hm Hy) as (Y0 & Y1).
  subst mult. set (m := P18 - fee) in *.
  assert (x' * P18 * P18 * ps <= rx * m * (prop * ps)) by nia.
  assert (rx * m * (prop * ps) <= rx * m * (pc * P18)) by (apply Z.mul_le_mono_nonneg_l; nia).
  assert (y' * P18 * P18 * ps <= ry * m * (prop * ps)) by nia.
  assert (ry * m * (prop * ps) <= ry * m * (pc * P18)) by (apply Z.mul_le_mono_nonneg_l; nia).
  repeat split; try lia; apply scale_le; lia.
Qed.

(* redeeming the last outstanding shares returns the entire reserves, whatever the fee *)
Lemma withdraw_last rx ry ps fee : withdraw rx ry ps ps fee = Ok (rx, ry).
Proof. unfold withdraw. rewrite Z.eqb_refl. reflexivity. Qed.

Lemma holds_withdraw rx ry ps pc fee x y :
  0 <= rx -> 0 <= ry -> 0 < ps -> 0 <= pc -> 0 <= fee <= P18 ->
  withdraw rx ry ps pc fee = Ok (x, y) ->
  holds_C06_withdraw rx ry ps pc fee x y = true.
Proof.
  intros Hrx Hry Hps Hpc Hfee H. unfold holds_C06_withdraw.
  destruct (Z.eqb_spec pc ps) as [->|Hne].
  - rewrite withdraw_last in H. injection H as <- <-. lia.
  - pose proof (withdraw_bounded _ _ _ _ _ _ _ Hrx Hry Hps Hpc Hne Hfee H). lia.
Qed.

Lemma withdraw_no_panic rx ry ps pc fee : ps <> 0 -> withdraw rx ry ps pc fee <> Panic.
Proof.
  intros Hps. dec_consts. unfold withdraw, withdraw_body, quo_trunc_s. rewrite dec_of_int_eq0.
  destruct (pc =? ps); [discriminate|]. destruct (Z.eqb_spec ps 0); [lia|].
  unfold withdraw_one.
  repeat (match goal with
          | |- context [obind (lift_ovf ?o) _] => destruct o; cbn [lift_ovf obind]
          | |- context [match lift_ovf ?o with _ => _ end] => destruct o; cbn [lift_ovf obind]
          end); try discriminate.
Qed.

(* ---------- one pool through a history ---------- *)
Definition pinv (s : pstate) : Prop :=
  0 <= p_rx s /\ 0 <= p_ry s /\ 0 <= p_ps s /\ (p_ps s = 0 -> p_rx s = 0 /\ p_ry s = 0).

(* share value of s' against s with multiplicative slack A/B (A <= B) *)
Definition value_ge (A B : Z) (s s' : pstate) : Prop :=
  p_rx s * p_ps s' * A <= p_rx s' * p_ps s * B /\
  p_ry s * p_ps s' * A <= p_ry s' * p_ps s * B.

Definition slack_of (o : pop) : Z := match o with Dep _ _ => P18 - 1 | Wd _ _ => P18 end.

Lemma value_ge_refl s : pinv s -> value_ge (P18 - 1) P18 s s /\ value_ge P18 P18 s s.
Proof. intros (H0 & H1 & H2 & _). dec_consts. unfold value_ge. nia. Qed.

(* the per-step lemma: a deposit loses at most the factor (1 - 10^-18), a withdrawal nothing *)
Lemma pstep_value ranged s o :
  pinv s -> pinv (pstep ranged s o) /\ value_ge (slack_of o) P18 s (pstep ranged s o).
Proof.
  intros Hinv. pose proof Hinv as (Hrx & Hry & Hps & Hz). dec_consts.
  assert (Hrefl : pinv s /\ value_ge (slack_of o) P18 s s).
  { split; [exact Hinv|]. destruct o; cbn [slack_of]; apply value_ge_refl; exact Hinv. }
  unfold pstep. destruct (depleted ranged s) eqn:Hdep; [exact Hrefl|].
  assert (Hps' : 0 < p_ps s).
  { unfold depleted in Hdep. destruct ranged; lia. }
  destruct (op_admissible s o) eqn:Hadm; cbn [negb]; [|exact Hrefl].
  destruct o as [x y | pc fee]; cbn [op_admissible slack_of] in *.
  - destruct (deposit (p_rx s) (p_ry s) (p_ps s) x y) as [[[ax ay] pc]| |] eqn:Hd; try exact Hrefl.
    destruct (Z.eqb_spec pc 0); [exact Hrefl|].
    assert (Hx : 0 <= x) by lia. assert (Hy : 0 <= y) by lia.
    pose proof (deposit_bounded _ _ _ _ _ _ _ _ Hrx Hry Hps' Hx Hy Hd) as (B1 & B2 & B3).
    pose proof (deposit_rate _ _ _ _ _ _ _ _ Hrx Hry Hps' Hx Hy Hd) as (_ & _ & R1 & R2).
    split.
    + unfold pinv; cbn. lia.
    + unfold value_ge; cbn. set (rx := p_rx s) in *. set (ry := p_ry s) in *. set (ps := p_ps s) in *.
      assert (rx * ps <= rx * (ps + pc)) by nia.
      assert (ry * ps <= ry * (ps + pc)) by nia.
      split; nia.
  - destruct (withdraw (p_rx s) (p_ry s) (p_ps s) pc fee) as [[x y]| |] eqn:Hw; try exact Hrefl.
    destruct ((x =? 0) && (y =? 0)) eqn:Hzero; [exact Hrefl|].
    destruct (Z.eq_dec pc (p_ps s)) as [->|Hne].
    + rewrite withdraw_last in Hw. injection Hw as <- <-.
      split; [unfold pinv; cbn; lia|]. unfold value_ge; cbn. lia.
    + assert (Hpc : 0 <= pc) by lia. assert (Hfee : 0 <= fee <= P18) by lia.
      pose proof (withdraw_bounded _ _ _ _ _ _ _ Hrx Hry Hps' Hpc Hne Hfee Hw) as (X0 & Y0 & X1 & Y1).
      set (rx := p_rx s) in *. set (ry := p_ry s) in *. set (ps := p_ps s) in *.
      assert (rx * pc * (P18 - fee) <= rx * pc * P18) by (apply Z.mul_le_mono_nonneg_l; nia).
      assert (ry * pc * (P18 - fee) <= ry * pc * P18) by (apply Z.mul_le_mono_nonneg_l; nia).
      assert (Hx : x * ps <= rx * pc) by (apply scale_le; lia).
      assert (Hy : y * ps <= ry * pc) by (apply scale_le; lia).
      assert (x <= rx) by nia. assert (y <= ry) by nia.
      split.
      * unfold pinv; cbn. fold rx ry ps. lia.
      * unfold value_ge; cbn. fold rx ry ps. split; nia.
Qed.

(* every step judged by the executable predicate (what the runner evaluates) *)
Lemma pstep_holds_value ranged s o : pinv s -> holds_C06_value s (pstep ranged s o) = true.
Proof.
  intros Hinv. destruct (pstep_value ranged s o Hinv) as ((H0 & H1 & H2 & H3) & (V1 & V2)).
  pose proof Hinv as (Hrx & Hry & Hps & Hz). dec_consts.
  unfold holds_C06_value.
  destruct (Z.eqb_spec (p_ps (pstep ranged s o)) 0) as [E|E].
  - specialize (H3 E). lia.
  - destruct o; cbn [slack_of] in *.
    + lia.
    + set (s' := pstep ranged s (Wd pc fee)) in *.
      assert (p_rx s * p_ps s' * (P18 - 1) <= p_rx s * p_ps s' * P18) by nia.
      assert (p_ry s * p_ps s' * (P18 - 1) <= p_ry s * p_ps s' * P18) by nia. lia.
Qed.

(* a pool whose supply is zero stays as it is *)
Lemma pstep_dead ranged s o : p_ps s = 0 -> pstep ranged s o = s.
Proof. intros H. unfold pstep, depleted. rewrite H. destruct ranged; reflexivity. Qed.

Lemma prun_dead ranged ops : forall s, p_ps s = 0 -> prun ranged s ops = s.
Proof.
  induction ops as [|o ops IH]; intros s H; [reflexivity|].
  cbn. rewrite pstep_dead by exact H. apply IH; exact H.
Qed.

Lemma value_ge_trans A B C D s0 s1 s2 :
  0 <= A -> 0 <= B -> 0 <= C -> 0 <= D ->
  pinv s0 -> pinv s1 -> pinv s2 -> 0 < p_ps s1 ->
  value_ge A B s0 s1 -> value_ge C D s1 s2 -> value_ge (A * C) (B * D) s0 s2.
Proof.
  intros HA HB HC HD (a0 & b0 & c0 & _) (a1 & b1 & c1 & _) (a2 & b2 & c2 & _) Hp1 (V1 & V2) (W1 & W2).
  unfold value_ge.
  assert (T : forall r0 r1 r2, 0 <= r0 -> 0 <= r1 -> 0 <= r2 ->
            r0 * p_ps s1 * A <= r1 * p_ps s0 * B -> r1 * p_ps s2 * C <= r2 * p_ps s1 * D ->
            r0 * p_ps s2 * (A * C) <= r2 * p_ps s0 * (B * D)).
  { intros r0 r1 r2 h0 h1 h2 E1 E2.
    set (p0 := p_ps s0) in *. set (p1 := p_ps s1) in *. set (p2 := p_ps s2) in *.
    assert (F1 : (r0 * p1 * A) * (p2 * C) <= (r1 * p0 * B) * (p2 * C)) by (apply Z.mul_le_mono_nonneg_r; nia).
    assert (F2 : (r1 * p2 * C) * (p0 * B) <= (r2 * p1 * D) * (p0 * B)) by (apply Z.mul_le_mono_nonneg_r; nia).
    assert (F3 : p1 * (r0 * p2 * (A * C)) <= p1 * (r2 * p0 * (B * D))) by lia.
    apply Z.mul_le_mono_pos_l in F3; assumption. }
  split; [apply (T (p_rx s0) (p_rx s1) (p_rx s2))|apply (T (p_ry s0) (p_ry s1) (p_ry s2))]; assumption.
Qed.

Fixpoint slack_num (ops : list pop) : Z :=
  match ops with [] => 1 | o :: r => slack_of o * slack_num r end.
Fixpoint slack_den (ops : list pop) : Z :=
  match ops with [] => 1 | _ :: r => P18 * slack_den r end.

Lemma slack_num_nonneg ops : 0 <= slack_num ops.
Proof. dec_consts. induction ops as [|o r IH]; cbn; [lia|]. destruct o; cbn; nia. Qed.
Lemma slack_den_pos ops : 0 < slack_den ops.
Proof. dec_consts. induction ops as [|o r IH]; cbn; [lia|]. nia. Qed.

(* induction over any sequence of deposits and withdrawals *)
Lemma prun_value ranged ops : forall s, pinv s ->
  pinv (prun ranged s ops) /\
  (0 < p_ps (prun ranged s ops) -> value_ge (slack_num ops) (slack_den ops) s (prun ranged s ops)).
Proof.
  dec_consts. induction ops as [|o ops IH]; intros s Hinv.
  - cbn. split; [exact Hinv|]. intros _. destruct Hinv as (a & b & c & _). unfold value_ge. lia.
  - cbn [prun fold_left slack_num slack_den]. fold (prun ranged (pstep ranged s o) ops).
    destruct (pstep_value ranged s o Hinv) as (Hinv1 & V1).
    destruct (IH _ Hinv1) as (Hinv2 & V2).
    split; [exact Hinv2|]. intros Hpos.
    assert (Hp1 : 0 < p_ps (pstep ranged s o)).
    { destruct Hinv1 as (_ & _ & c & _). destruct (Z.eq_dec (p_ps (pstep ranged s o)) 0) as [E|E]; [|lia].
      rewrite (prun_dead ranged ops _ E) in Hpos. lia. }
    apply (value_ge_trans (slack_of o) P18 (slack_num ops) (slack_den ops) s (pstep ranged s o)); try assumption.
    + destruct o; cbn; lia.
    + lia.
    + apply slack_num_nonneg.
    + pose proof (slack_den_pos ops). lia.
    + apply V2. exact Hpos.
Qed.

(* slack_num / slack_den = (1 - 10^-18)^(number of deposits) *)
Lemma slack_closed ops :
  slack_num ops * P18 ^ Z.of_nat (ndeps ops) = slack_den ops * (P18 - 1) ^ Z.of_nat (ndeps ops).
Proof.
  dec_consts. induction ops as [|o r IH]; [reflexivity|].
  destruct o; cbn [slack_num slack_den slack_of ndeps].
  - rewrite Nat2Z.inj_succ, !Z.pow_succ_r by lia. nia.
  - nia.
Qed.

Lemma prun_value_closed ranged ops s : pinv s ->
  let s' := prun ranged s ops in
  let n := Z.of_nat (ndeps ops) in
  pinv s' /\
  (0 < p_ps s' ->
     p_rx s * p_ps s' * (P18 - 1) ^ n <= p_rx s' * p_ps s * P18 ^ n /\
     p_ry s * p_ps s' * (P18 - 1) ^ n <= p_ry s' * p_ps s * P18 ^ n).
Proof.
  intros Hinv s' n. destruct (prun_value ranged ops s Hinv) as (Hinv' & V). fold s' in Hinv', V.
  split; [exact Hinv'|]. intros Hpos. destruct (V Hpos) as (V1 & V2).
  pose proof (slack_closed ops) as E. fold n in E.
  pose proof (slack_den_pos ops) as Dp. pose proof (slack_num_nonneg ops) as Nn. dec_consts.
  assert (Pn : 0 < P18 ^ n) by (apply Z.pow_pos_nonneg; lia).
  assert (Qn : 0 <= (P18 - 1) ^ n) by (apply Z.pow_nonneg; lia).
  destruct Hinv as (a0 & b0 & c0 & _). destruct Hinv' as (a1 & b1 & c1 & _).
  assert (T : forall r0 r1, 0 <= r0 -> 0 <= r1 ->
     r0 * p_ps s' * slack_num ops <= r1 * p_ps s * slack_den ops ->
     r0 * p_ps s' * (P18 - 1) ^ n <= r1 * p_ps s * P18 ^ n).
  { intros r0 r1 h0 h1 HH.
    set (N := slack_num ops) in *. set (D := slack_den ops) in *.
    set (Pw := P18 ^ n) in *. set (Qw := (P18 - 1) ^ n) in *.
    assert (F1 : (r0 * p_ps s' * N) * Pw <= (r1 * p_ps s * D) * Pw) by (apply Z.mul_le_mono_nonneg_r; lia).
    assert (F2 : D * (r0 * p_ps s' * Qw) <= D * (r1 * p_ps s * Pw)).
    { replace (D * (r0 * p_ps s' * Qw)) with (r0 * p_ps s' * (D * Qw)) by lia. rewrite <- E. lia. }
    apply Z.mul_le_mono_pos_l in F2; assumption. }
  split; apply T; assumption.
Qed.

(* Bernoulli: (P-1)^n >= P^(n-1) * (P - n), so n deposits lose at most n * 10^-18 *)
Lemma bernoulli P n : 1 <= P -> 0 <= n -> P ^ n * (P - n) <= (P - 1) ^ n * P.
Proof.
  intros HP Hn. revert n Hn. apply natlike_ind.
  - rewrite !Z.pow_0_r. lia.
  - intros n Hn IH. rewrite !Z.pow_succ_r by lia.
    assert (0 <= P ^ n) by (apply Z.pow_nonneg; lia).
    assert (0 <= (P - 1) ^ n) by (apply Z.pow_nonneg; lia).
    (* P * P^n * (P - n - 1) <= (P-1) * ((P-1)^n * P) *)
    destruct (Z.le_gt_cases (P - n) 0).
    + nia.
    + assert (P * P ^ n * (P - Z.succ n) <= (P - 1) * (P ^ n * (P - n))).
      { assert (P * (P - Z.succ n) <= (P - 1) * (P - n)) by nia. nia. }
      nia.
Qed.

Lemma prun_value_linear ranged ops s : pinv s ->
  let s' := prun ranged s ops in
  let n := Z.of_nat (ndeps ops) in
  0 < p_ps s' ->
  p_rx s * p_ps s' * (P18 - n) <= p_rx s' * p_ps s * P18 /\
  p_ry s * p_ps s' * (P18 - n) <= p_ry s' * p_ps s * P18.
Proof.
  intros Hinv s' n Hpos.
  destruct (prun_value_closed ranged ops s Hinv) as (Hinv' & V). fold s' n in Hinv', V.
  destruct (V Hpos) as (V1 & V2). dec_consts.
  assert (Hn : 0 <= n) by (unfold n; lia).
  pose proof (bernoulli P18 n ltac:(lia) Hn) as B.
  assert (Pn : 0 < P18 ^ n) by (apply Z.pow_pos_nonneg; lia).
  destruct Hinv as (a0 & b0 & c0 & _). destruct Hinv' as (a1 & b1 & c1 & _).
  assert (T : forall r0 r1, 0 <= r0 -> 0 <= r1 ->
     r0 * p_ps s' * (P18 - 1) ^ n <= r1 * p_ps s * P18 ^ n ->
     r0 * p_ps s' * (P18 - n) <= r1 * p_ps s * P18).
  { intros r0 r1 h0 h1 HH. set (Pw := P18 ^ n) in *. set (Qw := (P18 - 1) ^ n) in *.
    assert (F1 : (r0 * p_ps s') * (Pw * (P18 - n)) <= (r0 * p_ps s') * (Qw * P18)) by (apply Z.mul_le_mono_nonneg_l; nia).
    assert (F2 : (r0 * p_ps s' * Qw) * P18 <= (r1 * p_ps s * Pw) * P18) by (apply Z.mul_le_mono_nonneg_r; lia).
    assert (F3 : Pw * (r0 * p_ps s' * (P18 - n)) <= Pw * (r1 * p_ps s * P18)) by lia.
    apply Z.mul_le_mono_pos_l in F3; assumption. }
  split; apply T; assumption.
Qed.

(* ---------- ranged pools: the order-book clamps ---------- *)
(* BuyAmountOver: outside the overflow fallback the quote coin needed for the offered amount,
   price * amt, never exceeds the quote reserve rx (so neither does its ceiling) *)
Lemma ranged_buy_clamp p price amt :
  0 <= r_rx p -> 0 < price ->
  ranged_buy_amount_over p price = Some amt ->
  0 <= amt /\ (amt = MaxCoinAmount \/ price * amt <= r_rx p * P18).
Proof.
  intros Hrx Hprice H. dec_consts. unfold ranged_buy_amount_over in H.
  destruct (ranged_price p) as [pp|]; cbn [ob] in H; [|discriminate].
  assert (HM : 0 <= MaxCoinAmount) by (unfold MaxCoinAmount; apply Z.pow_nonneg; lia).
  destruct (_ >=? pp); [injection H as <-; split; [lia|right; nia]|].
  destruct (dmul_c _ _) as [m|]; cbn [ob] in H; [|discriminate].
  destruct (dsub_c _ _) as [dx0|]; cbn [ob] in H; [|discriminate].
  destruct (Z.gtb_spec dx0 0) as [Hdx|Hdx]; cbn [negb] in H; [|injection H as <-; split; [lia|right; nia]].
  destruct (Z.eqb_spec price 0); [lia|].
  set (dx := if dx0 >? dec_of_int (r_rx p) then dec_of_int (r_rx p) else dx0) in *.
  assert (Hdxb : 0 <= dx <= r_rx p * P18).
  { unfold dx, dec_of_int. destruct (Z.gtb_spec dx0 (r_rx p * P18)); nia. }
  destruct (chk_dec (dquo_trunc dx price)) as [q|] eqn:Hq; cbn [ob] in H.
  - apply chk_dec_some in Hq.
    destruct (dtrunc_int_c q) as [a|] eqn:Ha.
    + unfold dtrunc_int_c in Ha. apply chk_int_some in Ha.
      pose proof (dquo_trunc_bounds dx price ltac:(lia) Hprice) as (Q1 & Q2).
      pose proof (dquo_trunc_nonneg dx price ltac:(lia) Hprice) as Q0. rewrite <- Hq in *.
      pose proof (dtrunc_int_bounds q Q0) as (T0 & T1 & T2). rewrite <- Ha in *.
      injection H as <-. destruct (Z.gtb_spec a MaxCoinAmount).
      * split; [lia|]. left; reflexivity.
      * split; [lia|]. right.
        assert (price * a * P18 <= price * q) by nia.
        assert (price * a * P18 <= dx * P18) by lia.
        assert (price * a <= dx) by (apply scale_le; lia). lia.
    + injection H as <-. split; [lia|left; reflexivity].
  - injection H as <-. split; [lia|left; reflexivity].
Qed.

(* SellAmountUnder never offers more base coin than the base reserve ry *)
Lemma ranged_sell_clamp p price amt :
  0 <= r_ry p -> ranged_sell_amount_under p price = Some amt -> 0 <= amt <= r_ry p.
Proof.
  intros Hry H. unfold ranged_sell_amount_under in H.
  destruct (ranged_price p) as [pp|]; cbn [ob] in H; [|discriminate].
  destruct (_ <=? pp); [injection H as <-; lia|].
  destruct (dquo_up_c _ _) as [q|]; cbn [ob] in H; [|discriminate].
  destruct (dsub_c _ _) as [d|]; cbn [ob] in H; [|discriminate].
  destruct (dtrunc_int_c d) as [a|]; cbn [ob] in H; [|discriminate].
  destruct (Z.gtb_spec a (r_ry p)); destruct (Z.gtb_spec (r_ry p) 0); destruct (Z.gtb_spec a 0);
    cbn [negb] in H; injection H as <-; lia.
Qed.

(* ---------- ranged pools: the price clause ---------- *)
(* Idealised arithmetic (exact rationals; k, m, l stand for sqrt K, sqrt M, sqrt L and may be any
   positive numbers): if the translation (a, b) = (k*m, k/l) puts the reserves on the curve
   (x + a)(y + b) = k^2, then the price (x + a)/(y + b) lies in [m^2, l^2] = [M, L]. *)
From Coq Require Import QArith Lqa.
Section RangedIdeal.
Local Open Scope Q_scope.
Lemma ranged_curve_price_in_range (x y k m l b : Q) :
  0 <= x -> 0 <= y -> 0 < k -> 0 < m -> m < l ->
  b * l == k ->
  (x + k * m) * (y + b) == k * k ->
  m * m * (y + b) <= x + k * m /\ x + k * m <= l * l * (y + b).
Proof.
  intros Hx Hy Hk Hm Hl Hb Hc.
  assert (Hbpos : 0 < b) by nra.
  assert (Hkm : 0 < k * m) by nra.
  assert (Hu : k * m <= x + k * m) by lra.
  assert (Hv : b <= y + b) by lra.
  generalize dependent (x + k * m). generalize dependent (y + b). intros v Hv u Hc Hu.
  assert (Hu0 : 0 < u) by lra. assert (Hv0 : 0 < v) by lra.
  split.
  - apply (Qmult_le_r _ _ u Hu0).
    assert (E : m * m * v * u == (k * m) * (k * m)).
    { transitivity (m * m * (u * v)); [ring|]. rewrite Hc. ring. }
    rewrite E. nra.
  - apply (Qmult_le_r _ _ v Hv0).
    assert (E : l * l * v * v == (l * v) * (l * v)) by ring.
    rewrite E, Hc.
    assert (k <= l * v) by nra. nra.
Qed.
End RangedIdeal.
