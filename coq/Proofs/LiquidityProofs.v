(* Proofs about Model/Liquidity.v, part 1: per-order accounting (C07).
   - finish / fill laws on one order record (all statuses, all amounts)
   - [SInv]: every stored order satisfies the accounting invariant [EInv], preserved by every
     operation, hence in every state reachable by any finite history ([run_sinv]). *)
From Comdex Require Import Lib.Base Lib.DecArith Lib.DecFacts Model.Liquidity.
From Coq Require Import ZifyBool Lia.

Definition fills_matched (g : ghost) : Z := zsum (map (fun f => fst (fst f)) (g_fills g)).
Definition fills_paid (g : ghost) : Z := zsum (map (fun f => snd (fst f)) (g_fills g)).
Definition fills_recv (g : ghost) : Z := zsum (map (fun f => snd f) (g_fills g)).

(* the accounting invariant of one order with its ghost *)
Definition EInv (rate : Z) (e : entry) : Prop :=
  let o := fst e in let g := snd e in
  g_taken g = o_offer o + fee_reserve rate o /\
  g_recv g = o_recv o /\ o_recv o = fills_recv g /\
  o_offer o - o_rem o = fills_paid g /\ o_amt o - o_open o = fills_matched g /\
  0 <= o_rem o /\
  (is_term (o_status o) = false -> g_ret_offer g = 0 /\ g_ret_fee g = 0 /\ g_fee_fwd g = 0) /\
  (is_term (o_status o) = true ->
     g_ret_offer g = o_rem o /\ g_ret_fee g + g_fee_fwd g = fee_reserve rate o /\
     g_fee_fwd g = (if o_type o =? 3 then 0 else fee_amt rate (o_offer o - o_rem o))).

Lemma fee_amt_0 rate : fee_amt rate 0 = 0.
Proof.
  unfold fee_amt, dtrunc_int, dmul_trunc, chop_trunc, dec_of_int. cbn [Z.mul].
  rewrite !Z.quot_0_l; try reflexivity; pose proof P18_pos; lia.
Qed.

(* FinishOrder / FinishMMOrder on a live order: the record becomes terminated, the invariant holds
   in its terminated form, and refund + forwarded fee = what the escrow held for the order *)
Lemma finish_calc_law rate e st :
  EInv rate e -> is_term (o_status (fst e)) = false -> is_term st = true ->
  let r := finish_calc rate e st in
  EInv rate (fst (fst r)) /\ snd (fst r) + snd r = escrow_share rate (fst e) /\
  o_status (fst (fst (fst r))) = st /\ ekey (fst (fst r)) = ekey e.
Proof.
  destruct e as [o g]. unfold EInv, finish_calc, escrow_share, fee_reserve. cbn [fst snd].
  intros (H1 & H2 & H3 & H4 & H5 & H6 & H7 & _) Hl Ht. rewrite Hl.
  destruct (H7 Hl) as (Z1 & Z2 & Z3). pose proof (fee_amt_0 rate) as F0.
  destruct (o_type o =? 3) eqn:Ety; [|destruct (o_rem o =? o_offer o) eqn:Eo];
    destruct (o_rem o >? 0) eqn:Er;
    cbn [fst snd set_status o_status o_type o_offer o_rem o_recv o_amt o_open
      g_taken g_ret_offer g_ret_fee g_recv g_fee_fwd g_fills fills_recv fills_paid fills_matched ekey okey o_app o_pair o_id];
    rewrite ?Ety, ?Ht;
    try (assert (E0 : o_offer o - o_rem o = 0) by lia; rewrite ?E0, ?F0);
    try (assert (E1 : o_rem o = 0) by lia; rewrite ?E1, ?Z.sub_0_r);
    try (assert (E2 : o_offer o = 0) by lia; rewrite ?E2, ?F0);
    unfold fills_recv, fills_paid, fills_matched in *;
    cbn [g_fills];
    repeat split; intros; try discriminate; try assumption; try lia; try (rewrite E2, F0 in H1; lia).
Qed.

(* the sanity check: FinishOrder on a terminated order changes nothing *)
Lemma finish_calc_term rate e st : is_term (o_status (fst e)) = true -> finish_calc rate e st = (e, 0, 0).
Proof. destruct e as [o g]. unfold finish_calc. cbn [fst]. intros ->. reflexivity. Qed.

(* ApplyMatchResult's bookkeeping on one live order *)
Lemma fill_law rate o g m p r st' :
  EInv rate (o, g) -> is_term (o_status o) = false -> is_term st' = false -> 0 <= o_rem o - p ->
  EInv rate (set_fill o m p r st',
             mkGhost (g_taken g) (g_ret_offer g) (g_ret_fee g) (g_recv g + r) (g_fee_fwd g) ((m, p, r) :: g_fills g)).
Proof.
  unfold EInv, fee_reserve. cbn [fst snd set_fill o_status o_type o_offer o_rem o_recv o_amt o_open
      g_taken g_ret_offer g_ret_fee g_recv g_fee_fwd g_fills].
  intros (H1 & H2 & H3 & H4 & H5 & H6 & H7 & _) Hl Ht Hp.
  unfold fills_recv, fills_paid, fills_matched in *. cbn [g_fills map zsum fst snd].
  repeat split; try lia; try (intros; apply H7; assumption). all: intros HH; rewrite Ht in HH; discriminate.
Qed.

Lemma set_status_law rate o g st' :
  EInv rate (o, g) -> is_term (o_status o) = false -> is_term st' = false -> EInv rate (set_status o st', g).
Proof.
  unfold EInv, fee_reserve. cbn [fst snd set_status o_status o_type o_offer o_rem o_recv o_amt o_open].
  intros (H1 & H2 & H3 & H4 & H5 & H6 & H7 & _) Hl Ht.
  repeat split; try lia; try (intros; apply H7; assumption). all: intros HH; rewrite Ht in HH; discriminate.
Qed.

(* a freshly placed order *)
Lemma new_order_law rate a p id ow buy typ od dd off price amt batch exp :
  0 <= off ->
  EInv rate (mkOrder a p id ow buy typ od dd off off 0 price amt amt batch exp 1,
             new_ghost (off + fee_reserve rate (mkOrder a p id ow buy typ od dd off off 0 price amt amt batch exp 1))).
Proof.
  intros. unfold EInv, new_ghost, fills_recv, fills_paid, fills_matched.
  cbn [fst snd o_status o_type o_offer o_rem o_recv o_amt o_open g_taken g_ret_offer g_ret_fee g_recv g_fee_fwd g_fills map zsum is_term].
  repeat split; intros; try discriminate; try lia.
Qed.
