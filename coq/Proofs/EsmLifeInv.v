(* The invariants of the emergency shutdown (Model/EsmLife.v) and their preservation by every esm step:
   deposit, execute, snapshot, the vault / stable-mint / collector / share set-up steps, the BeginBlocker and
   MsgCollateralRedemption.

   [InvE c e]: the life-cycle invariant [InvL] of the books, plus
   - the AssetToAmount records have distinct keys, an app without DataAfterCoolOff has no record, and every
     record's side (IsCollateral) agrees with the role of its asset in the configuration;
   - custody of the esm account of EVERY denom = collateral registered in the records (>= 0), and
     = pooled - paid out, with paid out >= 0;
   - the ghost [edebt] of the life-cycle books = debt registered in the records.
   [InvE02 c ext e]: supply - external = recorded principal - over - governance tokens burnt, over / burnt >= 0.
   Configuration hypothesis [roles_ok]: no asset is the collateral of one product and the debt of another. *)
From Comdex Require Import Lib.Base Lib.DecArith Lib.DecFacts Lib.Atomic Model.Vault Model.VaultLife Model.EsmLife
  Proofs.VaultProofs Proofs.VaultExec Proofs.VaultHandlers Proofs.VaultInv Proofs.VaultLifeBase Proofs.VaultLifeInv Proofs.VaultLifeHist
  Proofs.VaultLifeSupply Proofs.EsmLifeBase.
From Coq Require Import ZifyBool Sorted.

Definition roles_ok (c : cfg) : Prop := forall e1 e2, In e1 (epairs c) -> In e2 (epairs c) -> ep_in e1 <> ep_out e2.
Definition rec_ok (c : cfg) (r : arec) : Prop :=
  if ar_coll r then exists e, In e (epairs c) /\ ep_in e = ar_asset r else exists e, In e (epairs c) /\ ep_out e = ar_asset r.

Definition users_ok (l : lstate) : Prop :=
  (forall v, In v (vaults (vs l)) -> v_owner v <> ESMA) /\
  (forall k, In k (lks l) -> lk_owner k <> ESMA /\ (lk_intk k = true -> lk_keeper k <> ESMA)).

Record InvE (c : cfg) (e : estate) : Prop := mkInvE {
  ie_life : InvL c (el e);
  ie_users : users_ok (el e);
  ie_nodup : NoDup (map rkey (recs e));
  ie_cool : forall app, cool e app = None -> forall r, In r (recs e) -> ar_app r <> app;
  ie_roles : forall r, In r (recs e) -> rec_ok c r;
  ie_custody : forall d, bal (vs (el e)) ESMA d = esm_coll e d;
  ie_pool : forall d, esm_coll e d = epool e d - epaid e d;
  ie_paid : forall d, 0 <= epaid e d;
  ie_nonneg : forall d, 0 <= bal (vs (el e)) ESMA d;
  ie_debt : forall d, edebt (el e) d = esm_debt e d
}.

Definition InvE02 (c : cfg) (ext : Z -> Z) (e : estate) : Prop :=
  Inv02L c (fun d => ext d - gburn e d) (el e) /\ forall d, 0 <= gburn e d.

(* ---------- registering a position: the records ---------- *)
Definition reg_recs (e : estate) (app ain vin aout vout : Z) : list arec :=
  match cool e app with
  | None => set_first (recs e) app ain vin aout vout
  | Some _ => add_amt (add_amt (recs e) app ain vin true) app aout vout false
  end.

Lemma add_amt_spec c l app x amt coll : NoDup (map rkey l) -> (forall r, In r l -> rec_ok c r) ->
  (forall r, find_rec l app x = Some r -> ar_coll r = coll) -> rec_ok c (mkAR app x amt coll 0 0) ->
  let l' := add_amt l app x amt coll in
  NoDup (map rkey l') /\ (forall r, In r l' -> rec_ok c r) /\ (forall r, In r l' -> ar_app r = app \/ In r l) /\
  (forall d, coll_of l' d = coll_of l d + (if coll && (x =? d) then amt else 0)) /\
  (forall d, debt_of l' d = debt_of l d + (if negb coll && (x =? d) then amt else 0)) /\
  (forall a y, (a, y) <> (app, x) -> find_rec l' a y = find_rec l a y).
Proof.
  intros Hnd Hok Hfl Hnew. unfold add_amt. cbv zeta. destruct (find_rec l app x) as [r|] eqn:F.
  - destruct (find_rec_some _ _ _ _ F) as (Hin & Ha & Hx). specialize (Hfl r eq_refl).
    set (r' := with_amt r (ar_amt r + amt)).
    assert (Hk : ar_app r' = app /\ ar_asset r' = x) by (unfold r', with_amt; cbn; auto). destruct Hk as [Hk1 Hk2].
    repeat split.
    + apply put_nodup. exact Hnd.
    + intros w Hw. apply put_in in Hw. destruct Hw as [->|Hw]; [|exact (Hok w Hw)].
      pose proof (Hok r Hin) as R. unfold rec_ok, r', with_amt in *. cbn [ar_coll ar_asset] in *. exact R.
    + intros w Hw. apply put_in in Hw. destruct Hw as [->|Hw]; [left; exact Hk1|right; exact Hw].
    + intros d. rewrite coll_of_put, Hk1, Hk2, F. unfold r', with_amt. cbn [ar_coll ar_asset ar_amt]. rewrite Hfl, Hx.
      destruct (coll && (x =? d)); lia.
    + intros d. rewrite debt_of_put, Hk1, Hk2, F. unfold r', with_amt. cbn [ar_coll ar_asset ar_amt]. rewrite Hfl, Hx.
      destruct (negb coll && (x =? d)); lia.
    + intros a y Hne. apply find_put_other. unfold rkey. rewrite Hk1, Hk2. exact Hne.
  - set (r' := mkAR app x amt coll 0 0). repeat split.
    + apply put_nodup. exact Hnd.
    + intros w Hw. apply put_in in Hw. destruct Hw as [->|Hw]; [exact Hnew|exact (Hok w Hw)].
    + intros w Hw. apply put_in in Hw. destruct Hw as [->|Hw]; [left; reflexivity|right; exact Hw].
    + intros d. rewrite coll_of_put. cbn [ar_app ar_asset ar_coll ar_amt r']. rewrite F. lia.
    + intros d. rewrite debt_of_put. cbn [ar_app ar_asset ar_coll ar_amt r']. rewrite F. lia.
    + intros a y Hne. apply find_put_other. exact Hne.
Qed.

Lemma no_rec_find l app x : (forall r, In r l -> ar_app r <> app) -> find_rec l app x = None.
Proof.
  intros H. destruct (find_rec l app x) as [r|] eqn:F; [|reflexivity].
  destruct (find_rec_some _ _ _ _ F) as (Hin & Ha & _). exfalso. exact (H r Hin Ha).
Qed.

Lemma reg_recs_spec c e app ep vin vout : roles_ok c -> NoDup (map rkey (recs e)) ->
  (forall a, cool e a = None -> forall r, In r (recs e) -> ar_app r <> a) -> (forall r, In r (recs e) -> rec_ok c r) ->
  In ep (epairs c) -> ep_in ep <> ep_out ep ->
  let rs := reg_recs e app (ep_in ep) vin (ep_out ep) vout in
  NoDup (map rkey rs) /\ (forall r, In r rs -> rec_ok c r) /\ (forall r, In r rs -> ar_app r = app \/ In r (recs e)) /\
  (forall d, coll_of rs d = coll_of (recs e) d + (if ep_in ep =? d then vin else 0)) /\
  (forall d, debt_of rs d = debt_of (recs e) d + (if ep_out ep =? d then vout else 0)).
Proof.
  intros RO Hnd Hcool Hok Hep Hne. unfold reg_recs. cbv zeta.
  assert (Rc : forall m s w, rec_ok c (mkAR app (ep_in ep) m true s w)) by (intros; exists ep; split; [exact Hep|reflexivity]).
  assert (Rd : forall m s w, rec_ok c (mkAR app (ep_out ep) m false s w)) by (intros; exists ep; split; [exact Hep|reflexivity]).
  assert (Fc : forall l, (forall r, In r l -> rec_ok c r) -> forall r, find_rec l app (ep_in ep) = Some r -> ar_coll r = true).
  { intros l Hl r F. destruct (find_rec_some _ _ _ _ F) as (Hin & _ & Hx). pose proof (Hl r Hin) as R. unfold rec_ok in R.
    destruct (ar_coll r); [reflexivity|]. destruct R as (e2 & He2 & E2). exfalso. apply (RO ep e2 Hep He2). congruence. }
  assert (Fd : forall l, (forall r, In r l -> rec_ok c r) -> forall r, find_rec l app (ep_out ep) = Some r -> ar_coll r = false).
  { intros l Hl r F. destruct (find_rec_some _ _ _ _ F) as (Hin & _ & Hx). pose proof (Hl r Hin) as R. unfold rec_ok in R.
    destruct (ar_coll r); [|reflexivity]. destruct R as (e2 & He2 & E2). exfalso. apply (RO e2 ep He2 Hep). congruence. }
  destruct (cool e app) as [cl|] eqn:Cl.
  - destruct (add_amt_spec c (recs e) app (ep_in ep) vin true Hnd Hok (Fc _ Hok) (Rc _ _ _)) as (N1 & O1 & A1 & C1 & D1 & _).
    destruct (add_amt_spec c _ app (ep_out ep) vout false N1 O1 (Fd _ O1) (Rd _ _ _)) as (N2 & O2 & A2 & C2 & D2 & _).
    repeat split; try assumption.
    + intros r Hr. destruct (A2 r Hr) as [H|H]; [left; exact H|exact (A1 r H)].
    + intros d. rewrite C2, C1. cbn [andb negb]. lia.
    + intros d. rewrite D2, D1. cbn [andb negb]. lia.
  - unfold set_first.
    pose proof (no_rec_find (recs e) app (ep_in ep) (Hcool app Cl)) as F1.
    set (r1 := mkAR app (ep_in ep) vin true P18 0). set (l1 := put_rec (recs e) r1).
    assert (F2 : find_rec l1 app (ep_out ep) = None).
    { unfold l1. rewrite find_put_other by (unfold rkey, r1; cbn; congruence). exact (no_rec_find _ _ _ (Hcool app Cl)). }
    set (r2 := mkAR app (ep_out ep) vout false P18 0).
    repeat split.
    + apply put_nodup. apply put_nodup. exact Hnd.
    + intros w Hw. apply put_in in Hw. destruct Hw as [->|Hw]; [apply Rd|]. apply put_in in Hw. destruct Hw as [->|Hw]; [apply Rc|exact (Hok w Hw)].
    + intros w Hw. apply put_in in Hw. destruct Hw as [->|Hw]; [left; reflexivity|]. apply put_in in Hw. destruct Hw as [->|Hw]; [left; reflexivity|right; exact Hw].
    + intros d. rewrite coll_of_put. fold l1. cbn [ar_app ar_asset ar_coll ar_amt r2]. rewrite F2. unfold l1. rewrite coll_of_put.
      cbn [ar_app ar_asset ar_coll ar_amt r1]. rewrite F1. cbn [andb]. lia.
    + intros d. rewrite debt_of_put. fold l1. cbn [ar_app ar_asset ar_coll ar_amt r2]. rewrite F2. unfold l1. rewrite debt_of_put.
      cbn [ar_app ar_asset ar_coll ar_amt r1]. rewrite F1. cbn [andb negb]. lia.
Qed.

(* the life-cycle invariant does not read the esm registers *)
Lemma invL_regs c l s g d' : InvL c (mkL s (lks l) (aus l) (lkid l) (auid l) (ereg l) (edebt l) (rsv l) (drift l) (er_mint l) (er_coll l) (er_short l) (over l)) ->
  InvL c (mkL s (lks l) (aus l) (lkid l) (auid l) g d' (rsv l) (drift l) (er_mint l) (er_coll l) (er_short l) (over l)).
Proof. intros I. constructor; [exact (il_view _ _ I)|exact (il_owner _ _ I)|exact (il_umap _ _ I)|exact (il_sorted _ _ I)|exact (il_lkid _ _ I)|exact (il_lk _ _ I)|exact (il_au _ _ I)]. Qed.
Lemma set_vs_eta l : set_vs l (vs l) = l. Proof. destruct l; reflexivity. Qed.

(* ---------- the vault step ---------- *)
Lemma esm_redeem_one_esma c lc app l v l' : v_app v = app -> esm_redeem_one c lc app l v = Ok l' ->
  exists ep, get_ep c (v_pair v) = Some ep /\ 0 <= v_in v /\
    (forall d, bal (vs l') ESMA d = bal (vs l) ESMA d + (if ep_in ep =? d then v_in v else 0)) /\
    lks l' = lks l /\ (forall w, In w (vaults (vs l')) -> In w (vaults (vs l))).
Proof.
  intros Happ H. unfold esm_redeem_one in H. cbv zeta in H.
  exec1 H; [bool_norm; lia|].
  do 4 exec1 H. injection H as <-. apply send_spec in E. destruct E as (Hamt & b1 & -> & Hb1).
  exists e. split; [reflexivity|]. split; [exact Hamt|]. cbn [vs lks]. split; [|split; [reflexivity|]].
  - intros d. unfold dec_len. repeat (ssimpl; rewrite ?bal_upd_coll, ?bal_upd_mint, ?bal_prod_del_id). rewrite Hb1. unfold xfer.
    change (ESMA =? VAULT) with false. rewrite Z.eqb_refl. cbn [andb]. rewrite (Z.eqb_sym d). destruct (ep_in e =? d); lia.
  - intros w Hw. unfold dec_len, upd_coll, upd_mint, prod_del_id in Hw.
    repeat (match type of Hw with context [match prods ?s ?a ?p with _ => _ end] => destruct (prods s a p) end; ssimpl).
    all: apply (gdel_in v_id) in Hw; exact Hw.
Qed.

Record vault_reg (app : Z) (e e1 : estate) (l1 : lstate) (ep : epair) (vin vout : Z) : Prop := mkVR {
  vr_el : el e1 = l1;
  vr_recs : recs e1 = reg_recs e app (ep_in ep) vin (ep_out ep) vout;
  vr_cool_app : cool e1 app <> None;
  vr_cool : forall a, a <> app -> cool e1 a = cool e a;
  vr_flags : eflags e1 = eflags e;
  vr_dep : dep e1 = dep e /\ udep e1 = udep e /\ tms e1 = tms e;
  vr_pool : epool e1 = add1 (epool e) (ep_in ep) vin;
  vr_ghost : epaid e1 = epaid e /\ eret e1 = eret e /\ gburn e1 = gburn e
}.

Lemma with_books_reg app e l1 rs cl ep vin vout : rs = reg_recs e app (ep_in ep) vin (ep_out ep) vout ->
  vault_reg app e (with_books e l1 rs app cl (ep_in ep) vin) l1 ep vin vout.
Proof.
  intros ->. constructor; cbn [with_books el recs cool eflags dep udep tms epool epaid eret gburn]; try reflexivity.
  - unfold upd1. rewrite Z.eqb_refl. discriminate.
  - intros a Ha. unfold upd1. destruct (Z.eqb_spec a app); [contradiction|reflexivity].
  - repeat split.
  - repeat split.
Qed.

Lemma e_vault_one_spec c lc app e v e1 : e_vault_one c lc app e v = Ok e1 ->
  (v_app v <> app /\ e1 = e) \/
  (v_app v = app /\ exists ep l1, get_ep c (v_pair v) = Some ep /\ esm_redeem_one c lc app (el e) v = Ok l1 /\
     vault_reg app e e1 l1 ep (v_in v) (v_out v)).
Proof.
  intros H. unfold e_vault_one in H. cbv zeta in H.
  destruct (Z.eqb_spec (v_app v) app) as [Ca|Ca]; cbn [negb] in H; [|injection H as <-; left; split; [exact Ca|reflexivity]].
  right. split; [exact Ca|].
  destruct (get_ep c (v_pair v)) as [ep|] eqn:Mep; [|discriminate H].
  destruct (snap (vs (el e)) app (ep_in ep)) as [rin|] eqn:Si; [|discriminate H].
  destruct (rate_of lc (vs (el e)) app (ep_out ep)) as [rout|] eqn:So; [|discriminate H].
  destruct (total_value (v_in v) rin (ep_dec_in ep)) as [cin| |] eqn:Tc; cbn [obind] in H; try discriminate H.
  exists ep. destruct (cool e app) as [[ct dt]|] eqn:Cl.
  - destruct (total_value (v_out v) rout (ep_dec_out ep)) as [cout| |]; cbn [obind] in H; try discriminate H.
    destruct (dadd_c ct cin) as [ct'|]; [|discriminate H]. destruct (dadd_c dt cout) as [dt'|]; [|discriminate H].
    destruct (esm_redeem_one c lc app (el e) v) as [l1| |]; cbn [obind] in H; try discriminate H. injection H as <-.
    exists l1. split; [reflexivity|]. split; [reflexivity|]. apply with_books_reg. unfold reg_recs. rewrite Cl. reflexivity.
  - destruct (esm_redeem_one c lc app (el e) v) as [l1| |]; cbn [obind] in H; try discriminate H.
    destruct (total_value (v_out v) rout (ep_dec_out ep)) as [cout| |]; cbn [obind] in H; try discriminate H. injection H as <-.
    exists l1. split; [reflexivity|]. split; [reflexivity|]. apply with_books_reg. unfold reg_recs. rewrite Cl. reflexivity.
Qed.

(* what a registration does to the invariant, given what it did to the books *)
Lemma reg_invE c app e e1 l1 ep vin vout : cfg_ok c -> roles_ok c -> InvE c e -> In ep (epairs c) -> 0 <= vin ->
  vault_reg app e e1 l1 ep vin vout -> InvL c l1 -> users_ok l1 ->
  (forall d, bal (vs l1) ESMA d = bal (vs (el e)) ESMA d + (if ep_in ep =? d then vin else 0)) ->
  (forall d, edebt l1 d = edebt (el e) d + (if ep_out ep =? d then vout else 0)) ->
  InvE c e1.
Proof.
  intros CK RO I Hep Hvin R IL UL Hb Hd.
  destruct (proj2 CK ep Hep) as (_ & Hne & _).
  destruct (reg_recs_spec c e app ep vin vout RO (ie_nodup _ _ I) (ie_cool _ _ I) (ie_roles _ _ I) Hep Hne) as (N & O & A & C & D).
  cbv zeta in *. rewrite <- (vr_recs _ _ _ _ _ _ _ R) in *.
  constructor.
  - rewrite (vr_el _ _ _ _ _ _ _ R). exact IL.
  - rewrite (vr_el _ _ _ _ _ _ _ R). exact UL.
  - exact N.
  - intros a Ha r Hr. destruct (Z.eq_dec a app) as [->|Hn]; [exfalso; exact (vr_cool_app _ _ _ _ _ _ _ R Ha)|].
    rewrite (vr_cool _ _ _ _ _ _ _ R a Hn) in Ha. destruct (A r Hr) as [E|Hin]; [congruence|]. exact (ie_cool _ _ I a Ha r Hin).
  - exact O.
  - intros d. rewrite (vr_el _ _ _ _ _ _ _ R), Hb, esm_coll_of, C, (ie_custody _ _ I d), esm_coll_of. reflexivity.
  - intros d. rewrite esm_coll_of, C, (vr_pool _ _ _ _ _ _ _ R). destruct (vr_ghost _ _ _ _ _ _ _ R) as (-> & _ & _).
    pose proof (ie_pool _ _ I d) as P. rewrite esm_coll_of in P. unfold add1. rewrite (Z.eqb_sym d). destruct (ep_in ep =? d); lia.
  - intros d. destruct (vr_ghost _ _ _ _ _ _ _ R) as (-> & _ & _). exact (ie_paid _ _ I d).
  - intros d. rewrite (vr_el _ _ _ _ _ _ _ R), Hb. pose proof (ie_nonneg _ _ I d). destruct (ep_in ep =? d); lia.
  - intros d. rewrite (vr_el _ _ _ _ _ _ _ R), Hd, esm_debt_of, D, (ie_debt _ _ I d), esm_debt_of. reflexivity.
Qed.

Lemma users_sub l l1 : users_ok l -> lks l1 = lks l -> (forall w, In w (vaults (vs l1)) -> In w (vaults (vs l))) -> users_ok l1.
Proof. intros [U1 U2] Hl Hv. split; [intros v Hin; exact (U1 v (Hv v Hin))|rewrite Hl; exact U2]. Qed.

Lemma e_vault_one_invE c lc app e v e1 : cfg_ok c -> roles_ok c -> InvE c e -> find_v (vaults (vs (el e))) (v_id v) = Some v ->
  e_vault_one c lc app e v = Ok e1 ->
  InvE c e1 /\ (forall id, id <> v_id v -> find_v (vaults (vs (el e1))) id = find_v (vaults (vs (el e))) id) /\
  eflags e1 = eflags e /\ (forall ext, InvE02 c ext e -> InvE02 c ext e1).
Proof.
  intros CK RO I M H. destruct (e_vault_one_spec c lc app e v e1 H) as [[_ ->]|(Ha & ep & l1 & Mep & R1 & VR)].
  - split; [exact I|]. split; [reflexivity|]. split; [reflexivity|]. intros ext J; exact J.
  - destruct (esm_redeem_one_invL c lc app (el e) v l1 (ie_life _ _ I) M R1) as [IL Hf].
    destruct (esm_redeem_one_esma c lc app (el e) v l1 Ha R1) as (ep' & Mep' & Hvin & Hb & Hl & Hv).
    rewrite Mep in Mep'. injection Mep' as <-.
    assert (Hd : forall d, edebt l1 d = edebt (el e) d + (if ep_out ep =? d then v_out v else 0)).
    { destruct (esm_redeem_one_shape c lc app (el e) v l1 R1) as [->|(e0 & Me0 & _ & _ & _ & _ & He & _)].
      - exfalso. specialize (Hb (ep_in ep)). rewrite Z.eqb_refl in Hb.
        (* l1 = el e would mean the vault is still there; it was deleted *)
        pose proof (Hf (v_id v)) as _. destruct (esm_redeem_one_invL c lc app (el e) v (el e) (ie_life _ _ I) M R1) as [_ _].
        unfold esm_redeem_one in R1. cbv zeta in R1. rewrite Ha, Z.eqb_refl in R1. cbn [negb] in R1. rewrite Mep in R1.
        do 3 exec1 R1. injection R1 as R1. apply (f_equal (fun x => find_v (vaults (vs x)) (v_id v))) in R1. cbn [vs] in R1.
        rewrite M in R1. unfold dec_len, upd_coll, upd_mint, prod_del_id in R1.
        repeat (match type of R1 with context [match prods ?s ?a ?p with _ => _ end] => destruct (prods s a p) end; ssimpl).
        all: unfold find_v, del_v in R1; rewrite (gfind_gdel_same v_id) in R1 by (apply sorted_nodup; apply send_spec in E; destruct E as (_ & b1 & -> & _); exact (i_sorted_v _ _ (il_view _ _ (ie_life _ _ I)))); discriminate R1.
      - rewrite Mep in Me0. injection Me0 as <-. intros d. rewrite He. unfold add1. rewrite (Z.eqb_sym d). destruct (ep_out ep =? d); lia. }
    split; [|split; [|split]].
    + apply (reg_invE c app e e1 l1 ep (v_in v) (v_out v) CK RO I (get_ep_in _ _ _ Mep) Hvin VR IL (users_sub _ _ (ie_users _ _ I) Hl Hv) Hb Hd).
    + rewrite (vr_el _ _ _ _ _ _ _ VR). exact Hf.
    + exact (vr_flags _ _ _ _ _ _ _ VR).
    + intros ext [J G]. destruct (vr_ghost _ _ _ _ _ _ _ VR) as (_ & _ & Hg). split; [|rewrite Hg; exact G].
      rewrite (vr_el _ _ _ _ _ _ _ VR), Hg. exact (esm_redeem_one_inv02 c _ lc app (el e) v l1 (ie_life _ _ I) J M R1).
Qed.

Lemma invE_flags c e x : InvE c e -> InvE c (set_eflags e x).
Proof. intros I. constructor; try apply I. Qed.
Lemma invE02_flags c ext e x : InvE02 c ext e -> InvE02 c ext (set_eflags e x).
Proof. intros J. exact J. Qed.

Lemma e_vault_loop_invE c lc app vl : cfg_ok c -> roles_ok c -> NoDup (map v_id vl) -> forall e e', InvE c e ->
  (forall v, In v vl -> find_v (vaults (vs (el e))) (v_id v) = Some v) ->
  e_vault_loop c lc app vl e = Ok e' ->
  InvE c e' /\ eflags e' = eflags e /\ (forall ext, InvE02 c ext e -> InvE02 c ext e').
Proof.
  intros CK RO. induction vl as [|v vl IH]; intros Hnd e e' I HF H; cbn [e_vault_loop] in H.
  - injection H as <-. split; [exact I|]. split; [reflexivity|]. intros ext J; exact J.
  - inversion Hnd as [|? ? Hny Hnd']; subst.
    destruct (e_vault_one c lc app e v) as [e1| |] eqn:E1; cbn [obind] in H; try discriminate H.
    destruct (e_vault_one_invE c lc app e v e1 CK RO I (HF v (or_introl eq_refl)) E1) as (I1 & Hf1 & Fl1 & J1).
    destruct (IH Hnd' e1 e' I1) as (I' & Fl' & J'); [|exact H|].
    + intros w Hw. rewrite Hf1; [apply HF; right; exact Hw|]. intros Eq. apply Hny. rewrite <- Eq. apply in_map. exact Hw.
    + split; [exact I'|]. split; [rewrite Fl', Fl1; reflexivity|]. intros ext J. exact (J' ext (J1 ext J)).
Qed.

Theorem e_vault_invE c lc e app e' : cfg_ok c -> roles_ok c -> InvE c e -> e_vault c lc e app = Ok e' ->
  InvE c e' /\ (forall ext, InvE02 c ext e -> InvE02 c ext e').
Proof.
  intros CK RO I H. unfold e_vault in H. destruct (negb (EsmLife.ef_found (eflags e app))); [discriminate H|].
  destruct (e_vault_loop c lc app (vaults (vs (el e))) e) as [e1| |] eqn:L; cbn [obind] in H; try discriminate H. injection H as <-.
  assert (Hnd : NoDup (map v_id (vaults (vs (el e))))) by (apply sorted_nodup; exact (i_sorted_v _ _ (il_view _ _ (ie_life _ _ I)))).
  destruct (e_vault_loop_invE c lc app _ CK RO Hnd e e1 I) as (I1 & _ & J1); [|exact L|].
  - intros v Hv. apply (gfind_self v_id); assumption.
  - unfold set_flag. split; [apply invE_flags; exact I1|]. intros ext J. apply invE02_flags. exact (J1 ext J).
Qed.

(* ---------- the stable-mint step ---------- *)
Definition stable_books (s1 : state) (app : Z) (x : svault) : state :=
  upd_coll (upd_mint (prod_del_id (set_svaults s1 (del_sv (svaults s1) (sv_id x))) app (sv_pair x) (sv_id x)) app (sv_pair x) (sv_out x) false)
           app (sv_pair x) (sv_in x) false.
Definition stable_life (l : lstate) (s5 : state) (app : Z) (ep : epair) (x : svault) : lstate :=
  mkL s5 (lks l) (aus l) (lkid l) (auid l) (add2 (add2 (ereg l) app (ep_in ep) (sv_in x)) app (ep_out ep) (sv_out x))
      (add1 (edebt l) (ep_out ep) (sv_out x)) (rsv l) (drift l) (er_mint l) (er_coll l) (er_short l) (over l).

Lemma e_stable_one_spec c lc app e x e1 : e_stable_one c lc app e x = Ok e1 ->
  (sv_app x <> app /\ e1 = e) \/
  (sv_app x = app /\ exists ep b1, get_ep c (sv_pair x) = Some ep /\ 0 <= sv_in x /\
     (forall a d, b1 a d = bal (vs (el e)) a d + xfer VAULT ESMA (ep_in ep) (sv_in x) a d) /\
     vault_reg app e e1 (stable_life (el e) (stable_books (set_bal (vs (el e)) b1) app x) app ep x) ep (sv_in x) (sv_out x)).
Proof.
  intros H. unfold e_stable_one in H. cbv zeta in H.
  destruct (Z.eqb_spec (sv_app x) app) as [Ca|Ca]; cbn [negb] in H; [|injection H as <-; left; split; [exact Ca|reflexivity]].
  right. split; [exact Ca|].
  destruct (get_ep c (sv_pair x)) as [ep|] eqn:Mep; [|discriminate H].
  destruct (lc_rate lc app (ep_in ep) =? 0); [discriminate H|]. destruct (lc_rate lc app (ep_out ep) =? 0); [discriminate H|].
  destruct (total_value (sv_in x) _ (ep_dec_in ep)) as [cin| |]; cbn [obind] in H; try discriminate H.
  exists ep. destruct (cool e app) as [[ct dt]|] eqn:Cl.
  - destruct (total_value (sv_out x) _ (ep_dec_out ep)) as [cout| |]; cbn [obind] in H; try discriminate H.
    destruct (dadd_c ct cin) as [ct'|]; [|discriminate H]. destruct (dadd_c dt cout) as [dt'|]; [|discriminate H].
    destruct (send (vs (el e)) VAULT ESMA (ep_in ep) (sv_in x)) as [s1| |] eqn:Es; cbn [obind] in H; try discriminate H. injection H as <-.
    apply send_spec in Es. destruct Es as (Hamt & b1 & -> & Hb1). exists b1. split; [reflexivity|]. split; [exact Hamt|]. split; [exact Hb1|].
    apply with_books_reg. unfold reg_recs. rewrite Cl. reflexivity.
  - destruct (send (vs (el e)) VAULT ESMA (ep_in ep) (sv_in x)) as [s1| |] eqn:Es; cbn [obind] in H; try discriminate H.
    destruct (total_value (sv_out x) _ (ep_dec_out ep)) as [cout| |]; cbn [obind] in H; try discriminate H. injection H as <-.
    apply send_spec in Es. destruct Es as (Hamt & b1 & -> & Hb1). exists b1. split; [reflexivity|]. split; [exact Hamt|]. split; [exact Hb1|].
    apply with_books_reg. unfold reg_recs. rewrite Cl. reflexivity.
Qed.

Lemma sinprod_sym a p x : sinprod a p x = (a =? sv_app x) && (p =? sv_pair x).
Proof. unfold sinprod. rewrite (Z.eqb_sym a), (Z.eqb_sym p). reflexivity. Qed.

Lemma stable_life_invL c l app ep x b1 : InvL c l -> find_sv (svaults (vs l)) (sv_id x) = Some x -> sv_app x = app ->
  get_ep c (sv_pair x) = Some ep -> 0 <= sv_in x ->
  (forall a d, b1 a d = bal (vs l) a d + xfer VAULT ESMA (ep_in ep) (sv_in x) a d) ->
  InvL c (stable_life l (stable_books (set_bal (vs l) b1) app x) app ep x) /\
  (forall id, id <> sv_id x -> find_sv (svaults (stable_books (set_bal (vs l) b1) app x)) id = find_sv (svaults (vs l)) id) /\
  vaults (stable_books (set_bal (vs l) b1) app x) = vaults (vs l) /\
  svaults (stable_books (set_bal (vs l) b1) app x) = del_sv (svaults (vs l)) (sv_id x) /\
  sup (stable_books (set_bal (vs l) b1) app x) = sup (vs l) /\
  (forall d, bal (stable_books (set_bal (vs l) b1) app x) ESMA d = bal (vs l) ESMA d + (if ep_in ep =? d then sv_in x else 0)).
Proof.
  intros I M Happ Mep Hamt Hb1. pose proof (invL_pe c l I) as PE.
  pose proof (prods_exist_sv _ _ _ PE M) as Hpf. rewrite Happ in Hpf.
  pose proof (denom_in_ep _ _ _ Mep) as Hdi.
  unfold stable_books. ssimpl.
  match goal with |- context [prod_del_id ?st ?a0 ?p0 ?m] =>
    assert (Hpf3 : pfound st a0 p0 = true) by exact Hpf;
    destruct (prod_del_id_spec st a0 p0 m Hpf3) as (f3 & -> & Hf31 & Hf32 & Hf33 & Hf34) end.
  ssimpl.
  match goal with |- context [upd_mint ?st ?a0 ?p0 ?m ?ad] =>
    assert (Hpf1 : pfound st a0 p0 = true) by (prod_rw; rewrite <- pfound_f; exact Hpf);
    destruct (upd_mint_spec st a0 p0 m ad Hpf1) as (f1 & -> & Hf11 & Hf12 & Hf13 & Hf14) end.
  match goal with |- context [upd_coll ?st ?a0 ?p0 ?m ?ad] =>
    assert (Hpf2 : pfound st a0 p0 = true) by (prod_rw; rewrite <- pfound_f; exact Hpf);
    destruct (upd_coll_spec st a0 p0 m ad Hpf2) as (f2 & -> & Hf21 & Hf22 & Hf23 & Hf24) end.
  ssimpl. split; [|split; [|split; [|split; [|split]]]]; try reflexivity.
  - unfold stable_life. constructor; cbn [vs lks aus lkid auid].
    + apply (sdel_inv01 c (view l) _ x (il_view _ _ I)); unfold view; cbn [vs lks er_short er_coll er_mint drift];
        rewrite ?shift_vaults, ?shift_svaults, ?shift_vlen, ?shift_vid, ?shift_sid; ssimpl; try reflexivity; try exact M.
      * intros a p. rewrite !shift_pcoll. unfold opc_of, lock_coll. cbn [lks er_coll]. unfold pcoll at 1. ssimpl. fold (fcoll f2 a p).
        rewrite Hf22. ssimpl. rewrite Hf12. ssimpl. rewrite Hf32, <- pcoll_f. rewrite sinprod_sym, Happ. destruct ((a =? app) && (p =? sv_pair x)); lia.
      * intros a p. rewrite !shift_pmint. unfold opm_of, lock_prin. cbn [lks er_mint drift]. unfold pmint at 1. ssimpl. fold (fmint f2 a p).
        rewrite Hf23. ssimpl. rewrite Hf13. ssimpl. rewrite Hf33, <- pmint_f. rewrite sinprod_sym, Happ. destruct ((a =? app) && (p =? sv_pair x)); lia.
      * intros a p. rewrite !shift_pids. unfold pids at 1. ssimpl. fold (fids f2 a p). rewrite Hf24. ssimpl. rewrite Hf14. ssimpl. rewrite Hf34, <- pids_f.
        rewrite sinprod_sym, Happ. reflexivity.
      * intros d. rewrite !shift_cust, !shift_unsol. unfold oc_of. cbn [er_short]. ssimpl. rewrite Hb1, Hdi. unfold xfer.
        change (VAULT =? ESMA) with false. rewrite Z.eqb_refl. cbn [andb]. rewrite (Z.eqb_sym d). destruct (ep_in ep =? d); lia.
    + exact (il_owner _ _ I).
    + exact (il_umap _ _ I).
    + exact (il_sorted _ _ I).
    + exact (il_lkid _ _ I).
    + intros k Hk. destruct (il_lk _ _ I k Hk) as (H1 & H2 & H3 & H4 & H5). repeat split; try assumption; try lia.
      cbn [vs]. unfold pfound. ssimpl. fold (ffound f2 (lk_app k) (lk_pair k)). rewrite Hf21. ssimpl. rewrite Hf11. ssimpl. rewrite Hf31. exact H4.
    + exact (il_au _ _ I).
  - intros id Hid. unfold find_sv, del_sv. apply (gfind_gdel_other sv_id). exact Hid.
  - intros d. rewrite Hb1. unfold xfer. change (ESMA =? VAULT) with false. rewrite Z.eqb_refl. cbn [andb]. rewrite (Z.eqb_sym d). destruct (ep_in ep =? d); lia.
Qed.

Lemma e_stable_one_invE c lc app e x e1 : cfg_ok c -> roles_ok c -> InvE c e -> find_sv (svaults (vs (el e))) (sv_id x) = Some x ->
  e_stable_one c lc app e x = Ok e1 ->
  InvE c e1 /\ (forall id, id <> sv_id x -> find_sv (svaults (vs (el e1))) id = find_sv (svaults (vs (el e))) id) /\
  eflags e1 = eflags e /\ (forall ext, InvE02 c ext e -> InvE02 c ext e1).
Proof.
  intros CK RO I M H. destruct (e_stable_one_spec c lc app e x e1 H) as [[_ ->]|(Ha & ep & b1 & Mep & Hamt & Hb1 & VR)].
  - split; [exact I|]. split; [reflexivity|]. split; [reflexivity|]. intros ext J; exact J.
  - destruct (stable_life_invL c (el e) app ep x b1 (ie_life _ _ I) M Ha Mep Hamt Hb1) as (IL & Hf & Hv & Hx & Hs & Hb).
    set (l1 := stable_life (el e) (stable_books (set_bal (vs (el e)) b1) app x) app ep x) in *.
    assert (UL : users_ok l1).
    { apply (users_sub (el e) l1 (ie_users _ _ I)); [reflexivity|]. unfold l1, stable_life. cbn [vs]. rewrite Hv. auto. }
    assert (Hd : forall d, edebt l1 d = edebt (el e) d + (if ep_out ep =? d then sv_out x else 0)).
    { intros d. unfold l1, stable_life. cbn [edebt]. unfold add1. rewrite (Z.eqb_sym d). destruct (ep_out ep =? d); lia. }
    split; [|split; [|split]].
    + exact (reg_invE c app e e1 l1 ep (sv_in x) (sv_out x) CK RO I (get_ep_in _ _ _ Mep) Hamt VR IL UL Hb Hd).
    + rewrite (vr_el _ _ _ _ _ _ _ VR). exact Hf.
    + exact (vr_flags _ _ _ _ _ _ _ VR).
    + intros ext [J G]. destruct (vr_ghost _ _ _ _ _ _ _ VR) as (_ & _ & Hg). split; [|rewrite Hg; exact G].
      rewrite (vr_el _ _ _ _ _ _ _ VR), Hg. intros d. destruct (J d) as [J1 J2]. split; [|exact J2].
      unfold recorded_d, debt_sum, lock_prin_d in *. unfold l1 at 1 2 3 4 5. unfold stable_life. cbn [vs lks over]. fold l1. rewrite Hd, Hv, Hx, Hs.
      unfold del_sv. rewrite (gdel_wsum sv_id _ _ _ x M). rewrite (denom_out_ep _ _ _ Mep). change (over l1 d) with (over (el e) d).
      destruct (ep_out ep =? d); lia.
Qed.

Lemma e_stable_loop_invE c lc app xl : cfg_ok c -> roles_ok c -> NoDup (map sv_id xl) -> forall e e', InvE c e ->
  (forall x, In x xl -> find_sv (svaults (vs (el e))) (sv_id x) = Some x) ->
  e_stable_loop c lc app xl e = Ok e' ->
  InvE c e' /\ eflags e' = eflags e /\ (forall ext, InvE02 c ext e -> InvE02 c ext e').
Proof.
  intros CK RO. induction xl as [|x xl IH]; intros Hnd e e' I HF H; cbn [e_stable_loop] in H.
  - injection H as <-. split; [exact I|]. split; [reflexivity|]. intros ext J; exact J.
  - inversion Hnd as [|? ? Hny Hnd']; subst.
    destruct (e_stable_one c lc app e x) as [e1| |] eqn:E1; cbn [obind] in H; try discriminate H.
    destruct (e_stable_one_invE c lc app e x e1 CK RO I (HF x (or_introl eq_refl)) E1) as (I1 & Hf1 & Fl1 & J1).
    destruct (IH Hnd' e1 e' I1) as (I' & Fl' & J'); [|exact H|].
    + intros w Hw. rewrite Hf1; [apply HF; right; exact Hw|]. intros Eq. apply Hny. rewrite <- Eq. apply in_map. exact Hw.
    + split; [exact I'|]. split; [rewrite Fl', Fl1; reflexivity|]. intros ext J. exact (J' ext (J1 ext J)).
Qed.

Theorem e_stable_invE c lc e app e' : cfg_ok c -> roles_ok c -> InvE c e -> e_stable c lc e app = Ok e' ->
  InvE c e' /\ (forall ext, InvE02 c ext e -> InvE02 c ext e').
Proof.
  intros CK RO I H. unfold e_stable in H. destruct (negb (EsmLife.ef_found (eflags e app))); [discriminate H|].
  destruct (e_stable_loop c lc app (svaults (vs (el e))) e) as [e1| |] eqn:L; cbn [obind] in H; try discriminate H. injection H as <-.
  assert (Hnd : NoDup (map sv_id (svaults (vs (el e))))) by (apply sorted_nodup; exact (i_sorted_sv _ _ (il_view _ _ (ie_life _ _ I)))).
  destruct (e_stable_loop_invE c lc app _ CK RO Hnd e e1 I) as (I1 & _ & J1); [|exact L|].
  - intros x Hx. apply (gfind_self sv_id); assumption.
  - unfold set_flag. split; [apply invE_flags; exact I1|]. intros ext J. apply invE02_flags. exact (J1 ext J).
Qed.
