(* The example of Model/EsmLifeExample.v meets every hypothesis of the emergency-shutdown theorems. *)
From Comdex Require Import Lib.Base Lib.DecArith Lib.Atomic Model.Vault Model.VaultLife Model.EsmLife Model.EsmLifeExample
  Proofs.VaultProofs Proofs.VaultInv Proofs.VaultLifeInv Proofs.VaultLifeHist Proofs.VaultLifeSupply Proofs.EsmLifeBase Proofs.EsmLifeInv Proofs.EsmLifeSteps
  Proofs.EsmLifeFrame Proofs.EsmLifeHist.

Lemma ee_cfg_ok : cfg_ok ee_cfg.
Proof.
  split.
  - cbn. repeat constructor; cbn; intuition discriminate.
  - intros e [<-|[<-|[]]]; unfold ep_ok; cbn; repeat split; try discriminate; reflexivity.
Qed.
Lemma ee_roles_ok : roles_ok ee_cfg.
Proof. intros e1 e2 [<-|[<-|[]]] [<-|[<-|[]]]; cbn; discriminate. Qed.
Lemma ee_init_inv : InvE ee_cfg ee_init.
Proof. apply invE_init; intros d; reflexivity. Qed.
Lemma ee_init_inv02 : InvE02 ee_cfg ee_sup ee_init.
Proof. apply invE02_init. Qed.
Lemma ee_init_noseized : NoSeized (el ee_init).
Proof. split; reflexivity. Qed.
Lemma ee_hist : ehist_ok ee_cfg ee_lc ee_ec ee_init ee_ops.
Proof. apply ehist_okb_sound. vm_compute. reflexivity. Qed.
Lemma ee_noliq : Forall (fun o => is_eliq o = false) ee_ops.
Proof. unfold ee_ops. repeat constructor. Qed.
