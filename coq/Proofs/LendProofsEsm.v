(* C08 proofs, part 4e: the ESM kill switch and the depreciation of a pool, as the handlers read them.
   - with the kill switch of every app on, no lend message, RepayWithdraw or hand-over changes the state
     (only auction bids / closes, the funding messages, oracle moves and the switch itself do);
   - on a depreciated pool no message brings new funds or new debt: Lend, Deposit, Borrow, DepositBorrow, Draw,
     BorrowAlternate leave the state unchanged (Withdraw, CloseLend, Repay, CloseBorrow still work). *)
From Comdex Require Import Lib.Base Lib.DecArith Model.Lend Proofs.LendProofs Proofs.LendProofsInv Proofs.LendProofsSide
     Proofs.LendProofsSteps.
From Coq Require Import ZifyBool.

Definition lend_msg (o : op) : bool :=
  match o with
  | OLend _ _ _ _ _ _ _ | OWithdraw _ _ _ _ _ | ODeposit _ _ _ _ _ | OCloseLend _ _ _ | OBorrow _ _ _ _ _ _ _ _ _ _
  | ORepay _ _ _ _ _ | ODepositBorrow _ _ _ _ _ | ODraw _ _ _ _ _ | OCloseBorrow _ _ _ | OBorrowAlt _ _ _ _ _ _ _ _ _ _ _ _ _
  | OCalc _ _ _ | OHandOver _ _ _ | ORepayWithdraw _ _ _ _ => true
  | _ => false
  end.

Ltac kill_all HK := repeat match goal with G : context [is_killed ?s ?a] |- _ => rewrite (HK a) in G end.

Section Esm.
  Variable cfg : config.
  Variable st : state.
  Hypothesis HK : forall a, is_killed st a = true.

  Lemma close_lend_killed u lid ipb st' : close_lend cfg st u lid ipb = Ok st' -> False.
  Proof. unfold close_lend. destruct (zget (lends st) lid); [rewrite HK|]; discriminate. Qed.
  Lemma close_borrow_killed u bid e st' : close_borrow cfg st u bid e = Ok st' -> False.
  Proof. intros H. unfold close_borrow in H. destr_all H; kill_all HK; discriminate. Qed.
  Lemma deposit_killed u lid d amt ipb st' : deposit_asset cfg st u lid d amt ipb = Ok st' -> False.
  Proof. unfold deposit_asset. destruct (zget (lends st) lid); [rewrite HK; destruct (is_depr _ _)|]; discriminate. Qed.
  Lemma deposit_borrow_killed bid u d amt e st' : deposit_borrow_asset cfg st bid u d amt e = Ok st' -> False.
  Proof. intros H. unfold deposit_borrow_asset in H. destr_all H; kill_all HK; discriminate. Qed.
  Lemma borrow_killed u lid pid stable din ain dout aout e1 e2 st' :
    borrow_asset cfg st u lid pid stable din ain dout aout e1 e2 = Ok st' -> False.
  Proof. unfold borrow_asset. destruct (zget (lends st) lid); [rewrite HK; destruct (is_depr _ _)|]; discriminate. Qed.

  Lemma calc_borrows_killed ids : forall u es st', calc_borrows st u ids es = Ok st' -> st' = st.
  Proof.
    induction ids as [|j r IH]; intros u es st' H; cbn [calc_borrows] in H; [injection H as <-; reflexivity|].
    destruct (calc_borrow_interest st u j _) as [st1|c|] eqn:E; [| |discriminate].
    - exfalso. unfold calc_borrow_interest in E. destr_all E; kill_all HK; discriminate.
    - exact (IH _ _ _ H).
  Qed.

  Lemma kill_switch_step o st' : lend_msg o = true -> step cfg st o = Ok st' -> st' = st.
  Proof.
    intros Ho H. destruct o; try discriminate Ho; cbn [step] in H;
      try (match type of H with (if ?c then _ else _) = _ => destruct c; [discriminate|] end).
    - exfalso. unfold lend_asset in H. rewrite HK in H. destruct (is_depr _ _); discriminate.
    - exfalso. unfold withdraw_asset in H. destruct (zget (lends st) lid) as [l0|]; [|discriminate]. rewrite HK in H.
      destruct (_ && _); [exact (close_lend_killed _ _ _ _ H)|discriminate].
    - exfalso. exact (deposit_killed _ _ _ _ _ _ H).
    - exfalso. exact (close_lend_killed _ _ _ _ H).
    - exfalso. exact (borrow_killed _ _ _ _ _ _ _ _ _ _ _ H).
    - exfalso. unfold repay_asset in H. destr_all H; kill_all HK; try discriminate. exact (close_borrow_killed _ _ _ _ H).
    - exfalso. exact (deposit_borrow_killed _ _ _ _ _ _ H).
    - exfalso. unfold draw_asset in H. destr_all H; kill_all HK; discriminate.
    - exfalso. exact (close_borrow_killed _ _ _ _ H).
    - exfalso. unfold borrow_alternate in H. rewrite HK in H. discriminate.
    - exfalso. unfold calc_all in H. destruct (user_lends st user) as [|l0 ls] eqn:El; [discriminate|].
      destruct (calc_borrows st user _ es) as [st1|c|] eqn:E; cbn [obind] in H; try discriminate.
      apply calc_borrows_killed in E. subst st1. cbn [map calc_lends] in H.
      unfold calc_lend_rewards in H. destruct (zget (lends st) (l_id l0)); [rewrite HK in H|]; discriminate.
    - (* hand-over: an already flagged position returns without a write; otherwise the kill switch stops it *)
      unfold hand_over in H. destruct (zget (borrows st) bid) as [b0|]; [|discriminate].
      destruct (b_liq b0).
      + injection H as <-. reflexivity.
      + exfalso. destr_all H; kill_all HK; discriminate.
    - exfalso. unfold repay_withdraw in H. destruct (close_borrow cfg st user bid e) as [st1|c|] eqn:E; [|discriminate|discriminate].
      exact (close_borrow_killed _ _ _ _ E).
  Qed.

  Theorem kill_switch_freezes o : lend_msg o = true -> apply_op cfg st o = st.
  Proof.
    intros Ho. unfold apply_op. destruct (step cfg st o) as [st'|c|] eqn:H; [|reflexivity|reflexivity].
    exact (kill_switch_step o st' Ho H).
  Qed.
End Esm.

(* messages that bring new funds or new debt to pool [p] *)
Definition lend_pool_of (st : state) (lid : Z) : option Z := match zget (lends st) lid with Some l => Some (l_pool l) | None => None end.
Definition inflow_on (st : state) (p : Z) (o : op) : bool :=
  match o with
  | OLend _ _ _ _ pool _ _ => pool =? p
  | OBorrowAlt _ _ pool _ _ _ _ _ _ _ _ _ _ => pool =? p
  | ODeposit _ lid _ _ _ | OBorrow _ lid _ _ _ _ _ _ _ _ =>
      match lend_pool_of st lid with Some q => q =? p | None => false end
  | ODepositBorrow _ bid _ _ _ | ODraw _ bid _ _ _ =>
      match zget (borrows st) bid with
      | Some b => match lend_pool_of st (b_lend b) with Some q => q =? p | None => false end
      | None => false
      end
  | _ => false
  end.

Section Depr.
  Variable cfg : config.
  Variable st : state.
  Variable p : Z.
  Hypothesis HD : is_depr st p = true.

  Theorem depreciated_pool_closed o : inflow_on st p o = true -> apply_op cfg st o = st.
  Proof.
    intros Ho. unfold apply_op. destruct (step cfg st o) as [st'|c|] eqn:H; [|reflexivity|reflexivity]. exfalso.
    destruct o; try discriminate Ho; cbn [step inflow_on] in *; unfold lend_pool_of in Ho;
      try (match type of H with (if ?c then _ else _) = _ => destruct c; [discriminate|] end).
    - apply Z.eqb_eq in Ho. subst poolid. unfold lend_asset in H. rewrite HD in H. discriminate.
    - unfold deposit_asset in H. destruct (zget (lends st) lid) as [l0|]; [|discriminate].
      apply Z.eqb_eq in Ho. rewrite Ho, HD in H. discriminate.
    - unfold borrow_asset in H. destruct (zget (lends st) lid) as [l0|]; [|discriminate].
      apply Z.eqb_eq in Ho. rewrite Ho, HD in H. discriminate.
    - unfold deposit_borrow_asset in H. destruct (zget (borrows st) bid) as [b0|]; [|discriminate].
      destruct (b_liq b0); [discriminate|]. destruct (zget (lends st) (b_lend b0)) as [l|]; [|discriminate].
      apply Z.eqb_eq in Ho. rewrite Ho, HD in H. discriminate.
    - unfold draw_asset in H. destruct (zget (borrows st) bid) as [b0|]; [|discriminate].
      destruct (b_liq b0); [discriminate|]. destruct (zget (c_pairs cfg) (b_pair b0)); [|discriminate].
      destruct (zget (c_pools cfg) _); [|discriminate]. destruct (zget (lends st) (b_lend b0)) as [l|]; [|discriminate].
      apply Z.eqb_eq in Ho. rewrite Ho, HD in H. discriminate.
    - apply Z.eqb_eq in Ho. subst poolid. unfold borrow_alternate in H. rewrite HD in H. destruct (is_killed _ _); discriminate.
  Qed.
End Depr.
